"""C04: every transition-matrix builder returns a valid, stationary and (where promised) reversible model."""
import copy, os, sys
from fractions import Fraction
import numpy as np
from core import cz, cn, cb, cq, clist, copt, VERIF
sys.path.insert(0, os.path.join(VERIF, "translator"))
import tr_builders

PID = "C04"
PROPS_FILE = "Props/C04.v"
MODEL_TARGETS = ["Model/Builders.vo", "Gen/BuildersGen.vo"]
GEN_FILES = ["Gen/BuildersGen.v"]
CASE_HEADER = ("From Coq Require Import List QArith Bool.\nFrom EV Require Import Builders BuildersBase BuildersGen.\n"
               "Import ListNotations.\nOpen Scope Q_scope.\nOpen Scope bool_scope.\n"
               "Definition gres (r : res (arr * arr * option (list Q))) : option result :=\n"
               "  match r with Ok (c, t, o) => Some (a_val c, a_val t, o) | _ => None end.\n"
               "Definition gkinds_ok (r : res (arr * arr * option (list Q))) (kc kt : kind) : bool :=\n"
               "  match r with Ok (c, t, _) => kind_eqb (a_kind c) kc && kind_eqb (a_kind t) kt | _ => false end.\n"
               "Definition ex_eig (T : arr) : option (list Q) := stationary (a_val T).\n"
               "Definition no_eqp (T : arr) : res (list Q) := Ok [].\n"
               "Definition no_prinz (C : arr) : res (arr * list Q) := Ok (mkarr KArr [], []).\n"
               "Definition loop_X (X : mat) : arr -> list Q -> arr -> list Q -> arr * list Q :=\n"
               "  fun _ _ _ _ => (mkarr KArr X, rowsums X).\n")


def translate(repo):
    return tr_builders.translate(repo)

SHARD = 25
RULE = ("random square count matrices, 2..6 states (mle 2..5), entries 0..5 with many zeros (some half-integer valued), "
        "classes: strongly connected (random Hamiltonian cycle forced; incl. bare cycles), all-rows-positive but "
        "possibly reducible, with a zero row; x builder {normalize, transpose, mle} x prior {none, int/float scalar, "
        "dense matrix} x equilibrium on/off; every case is run on the real builders in 10 containers (ndarray, "
        "csr/csc/coo/lil/dok/dia/bsr _matrix, csr_array, coo_array); the Coq model is compared (1e-9) with the ndarray "
        "result and one sparse container per case, the oracle checks every container; a malformed stream covers the "
        "rejecting paths (mle with a state without outgoing counts, prior of another shape, non-square counts); "
        "round 2: the builders regenerated from the current builders.py / eq_probs (Gen/BuildersGen.v) are evaluated "
        "too -- numbers against the sparse container of the case, container kinds of counts/probabilities against all "
        "10 containers; 1000-state sparse chains (fast mixing, and a slowly mixing ring on which ARPACK fails) are "
        "run on the real code through eq_probs' ARPACK path, oracle only; "
        "plus small scope: all 2x2 count matrices over {0,1,2} (thorough: all; and a third of the 3x3 0/1 matrices); "
        "non-trivial := accepted, >= 3 states, counts not symmetric and with at least one zero entry")
TRUSTED = ["translator/tr_builders.py (statement-by-statement translation of _apply_prior_counts, _row_normalize, "
           "normalize, transpose, mle, prologue/guards/final step of _prinz_mle_py, eq_probs; ownership analysis "
           "rejecting in-place writes into buffers shared with an argument) and the numpy/scipy conventions written "
           "down in Base/BuildersBase.v (which container kind an operation returns, sparse + number raising "
           "NotImplementedError except for DOK) -- the kinds are compared with the implementation's on every case",
           "modelled not verified: LAPACK eig behind eq_probs/eigenspectrum (its output is compared at 1e-9 with the exact "
           "stationary vector computed and checked in Coq), scipy sparse container conversions and arithmetic",
           "mle: only the guard and the post-iteration step are modelled; the symmetric X handed to the model is "
           "reconstructed from the implementation's own output as (diag(pi)T + (diag(pi)T)^T)/2 (the iteration is C12)",
           "IEEE rounding of the builders' float arithmetic (tolerance 1e-9 relative)"]
ASSUMPTIONS = ["count matrices are square and non-negative; stationarity of normalize's populations and everything about "
               "mle is claimed for strongly connected counts only",
               "prior counts are None, a non-negative scalar or a dense matrix of the same shape (sparse priors are not "
               "exercised: scipy then picks the container)"]
EXHAUSTIVE = {"thorough": False}

KINDS = ["ndarray", "csr_matrix", "csc_matrix", "coo_matrix", "lil_matrix", "dok_matrix", "dia_matrix", "bsr_matrix",
         "csr_array", "coo_array"]
SPARSE = KINDS[1:]
TOL = Fraction(1, 10 ** 9)


# ----------------------------------------------------------------------------- generation
def _F(x):
    return Fraction(x)


def _sc_matrix(rng, n, density):
    M = [[(rng.randint(1, 5) if rng.random() < density else 0) for _ in range(n)] for _ in range(n)]
    perm = list(range(n))
    rng.shuffle(perm)
    for a in range(n):
        i, j = perm[a], perm[(a + 1) % n]
        if M[i][j] == 0:
            M[i][j] = rng.randint(1, 3)
    return M


def _strongly_connected(M):
    n = len(M)

    def reach(adj):
        seen = {0}
        st = [0]
        while st:
            i = st.pop()
            for j in range(n):
                if adj(i, j) and j not in seen:
                    seen.add(j)
                    st.append(j)
        return len(seen) == n
    return reach(lambda i, j: M[i][j] > 0) and reach(lambda i, j: M[j][i] > 0)


def _gen_valid(rng, tier):
    builder = rng.choice(["normalize", "transpose", "mle"])
    n = rng.randint(2, 5 if builder == "mle" else 6)
    cls = "sc" if builder == "mle" else rng.choice(["sc", "sc", "rows", "zero-row"])
    density = rng.choice([0.15, 0.35, 0.6, 0.9])
    if cls == "sc":
        M = _sc_matrix(rng, n, 0.0 if rng.random() < 0.08 else density)   # 8 %: a bare cycle
    else:
        M = [[(rng.randint(1, 5) if rng.random() < density else 0) for _ in range(n)] for _ in range(n)]
        for i in range(n):
            if sum(M[i]) == 0:
                M[i][rng.randrange(n)] = rng.randint(1, 3)
        if cls == "zero-row":
            z = rng.randrange(n)
            M[z] = [0] * n
            if rng.random() < 0.5:                      # isolated state: row and column empty
                for i in range(n):
                    M[i][z] = 0
            if sum(map(sum, M)) == 0:                   # keep at least one count (0/0 is outside the property)
                a = rng.choice([i for i in range(n) if i != z])
                M[a][a] = rng.randint(1, 3)
    half = rng.random() < 0.15
    C = [[str(Fraction(x, 2) if half else Fraction(x)) for x in r] for r in M]
    pk = rng.choice(["none", "none", "scalar", "scalar", "mat"])
    if pk == "none":
        prior = None
    elif pk == "scalar":
        prior = {"scalar": str(rng.choice([Fraction(1), Fraction(2), Fraction(1, 2), Fraction(1, 4), Fraction(0)]))}
    else:
        prior = {"mat": [[str(Fraction(rng.choice([0, 0, 1, 1, 2, 3]), rng.choice([1, 1, 2]))) for _ in range(n)]
                         for _ in range(n)]}
    if builder == "normalize" and cls != "sc":
        # stationary vector is only determined (and only claimed) for strongly connected counts
        eff = _effective(C, prior)
        eq = _strongly_connected(eff) and rng.random() < 0.5
    else:
        eq = rng.random() < 0.6
    return {"builder": builder, "C": C, "prior": prior, "eq": eq, "cls": cls, "kind": rng.choice(SPARSE),
            "expect_err": False}


def _gen_malformed(rng):
    which = rng.choice(["mle-no-outgoing", "mle-no-outgoing", "prior-shape", "nonsquare"])
    n = rng.randint(2, 5)
    M = _sc_matrix(rng, n, 0.5)
    prior = None
    if which == "mle-no-outgoing":
        builder = "mle"
        z = rng.randrange(n)
        M[z] = [0] * n
        if rng.random() < 0.3:
            for i in range(n):
                M[i][z] = 0
        if rng.random() < 0.3:
            prior = {"scalar": "0"}
    elif which == "prior-shape":
        builder = rng.choice(["normalize", "transpose", "mle"])
        prior = {"mat": [["1"] * (n + 1) for _ in range(n + 1)]}
    else:
        builder = rng.choice(["transpose", "mle"])
        for r in M:
            r.append(rng.randint(0, 3))
    C = [[str(Fraction(x)) for x in r] for r in M]
    return {"builder": builder, "C": C, "prior": prior, "eq": rng.random() < 0.5, "cls": which,
            "kind": rng.choice(SPARSE), "expect_err": True}


def _small_scope(rng, tier):
    """All 2x2 count matrices over {0,1,2} (and, thorough, a slice of the 3x3 ones over {0,1}) with at
    least one count: the corner cases of the sparse formats (empty rows/columns/diagonals)."""
    import itertools
    mats = [[list(v[0:2]), list(v[2:4])] for v in itertools.product(range(3), repeat=4)]
    if tier == "thorough":
        mats += [[list(v[0:3]), list(v[3:6]), list(v[6:9])] for v in itertools.product(range(2), repeat=9)][::3]
    out = []
    for M in mats:
        if sum(map(sum, M)) == 0:
            continue
        sc = _strongly_connected(M)
        cls = "sc" if sc else "rows" if all(sum(r) > 0 for r in M) else "zero-row"
        C = [[str(Fraction(x)) for x in r] for r in M]
        for b in ("normalize", "transpose", "mle"):
            if b == "mle" and not sc:
                continue
            out.append({"builder": b, "C": C, "prior": None, "eq": (sc if b == "normalize" else True), "cls": cls,
                        "kind": rng.choice(SPARSE), "expect_err": False})
    if tier == "quick":
        out = rng.sample(out, 40)
    return out


def generate(rng, tier):
    n = 260 if tier == "quick" else 2000
    cases = [_gen_valid(rng, tier) for _ in range(n)]
    cases += [_gen_malformed(rng) for _ in range(n // 8)]
    cases += _small_scope(rng, tier)
    # the >= 1000-state sparse branch of eq_probs goes through ARPACK instead of LAPACK: one (two) big chains
    for _ in range(1 if tier == "quick" else 2):
        cases.append({"kind": "big", "n": rng.choice([1000, 1003]), "seed": rng.randrange(10 ** 6),
                      "builder": "normalize", "fmt": rng.choice(["csr_matrix", "coo_matrix"])})
        cases.append({"kind": "big", "n": 1000, "seed": rng.randrange(10 ** 6), "ring": True,
                      "builder": "normalize", "fmt": "csr_matrix"})
    return cases


def _run_big(c):
    import scipy.sparse as sp
    from enspara.msm import builders
    rs = np.random.RandomState(c["seed"])
    n = c["n"]
    rows, cols, vals = [], [], []
    for i in range(n):
        if c.get("ring"):                  # slowly mixing banded ring: eigenvalues crowd near 1 (hard for ARPACK)
            nb = ((i, 5), ((i + 1) % n, 2), ((i - 1) % n, 1), ((i + 7) % n, 1))
        else:                              # fast mixing: a few random long-range jumps per state
            nb = [(i, 5), ((i + 1) % n, 2)] + [(int(rs.randint(n)), 1) for _ in range(4)]
        for j, lo in nb:
            rows.append(i); cols.append(j); vals.append(lo + rs.randint(0, 6))
    C = sp.coo_matrix((np.array(vals, dtype=float), (rows, cols)), shape=(n, n)).tocsr()
    out = {}
    for kind, A in (("sparse", getattr(sp, c["fmt"])(C)), ("dense", C.toarray())):
        try:
            _, T, pi = getattr(builders, c["builder"])(A, calculate_eq_probs=True)
            T = T.toarray() if sp.issparse(T) else np.asarray(T)
            pi = np.asarray(pi, dtype=float).ravel()
            out[kind] = {"resid": float(np.abs(pi @ T - pi).max()), "sum": float(pi.sum()), "min": float(pi.min()),
                         "rowsum": float(np.abs(T.sum(axis=1) - 1).max()), "pi": pi}
        except Exception as ex:
            out[kind] = {"err": type(ex).__name__}
    if "pi" in out["sparse"] and "pi" in out["dense"]:
        out["agree"] = float(np.abs(out["sparse"]["pi"] - out["dense"]["pi"]).max())
    for k in ("sparse", "dense"):
        out[k].pop("pi", None)
    return out


# ----------------------------------------------------------------------------- running the real code
def _effective(C, prior):
    """C + prior as exact Fractions (same shape assumed)."""
    M = [[_F(x) for x in r] for r in C]
    if prior is None:
        return M
    if "scalar" in prior:
        return [[x + _F(prior["scalar"]) for x in r] for r in M]
    P = prior["mat"]
    return [[x + _F(P[i][j]) for j, x in enumerate(r)] for i, r in enumerate(M)]


def _np_matrix(C):
    fr = [[_F(x) for x in r] for r in C]
    if all(x.denominator == 1 for r in fr for x in r):
        return np.array([[int(x) for x in r] for r in fr], dtype=np.int64)
    return np.array([[float(x) for x in r] for r in fr], dtype=float)


def _container(kind, A):
    import scipy.sparse as sp
    return np.array(A) if kind == "ndarray" else getattr(sp, kind)(A)


def _dense(x):
    import scipy.sparse as sp
    return np.asarray(x.toarray()) if sp.issparse(x) else np.asarray(x)


def _prior_arg(prior):
    if prior is None:
        return None
    if "scalar" in prior:
        f = _F(prior["scalar"])
        return int(f) if f.denominator == 1 else float(f)
    return _np_matrix(prior["mat"])


def _fr_mat(A):
    return [[str(Fraction(float(x))) for x in r] for r in np.asarray(A, dtype=float)]


def _call(builder, kind, A, prior, eq):
    from enspara.msm import builders
    X = _container(kind, A)
    before, tbefore, dbefore = _dense(X).copy(), type(X), X.dtype
    P = _prior_arg(prior)
    Pbefore = None if not isinstance(P, np.ndarray) else P.copy()
    try:
        c, t, pi = getattr(builders, builder)(X, prior_counts=P, calculate_eq_probs=eq)
    except Exception as ex:
        return {"err": type(ex).__name__}
    cd, td = _dense(c), _dense(t)
    if not (np.all(np.isfinite(cd)) and np.all(np.isfinite(td)) and
            (pi is None or np.all(np.isfinite(np.asarray(pi, dtype=float))))):
        return {"err": "NonFiniteOutput"}
    out = {"kC": type(c).__name__, "kT": type(t).__name__,
           "kpi": None if pi is None else type(pi).__name__,
           "shape": [list(cd.shape), list(td.shape), None if pi is None else list(np.shape(pi))],
           "C": _fr_mat(cd) if cd.ndim == 2 else None, "T": _fr_mat(td) if td.ndim == 2 else None,
           "pi": None if pi is None else [str(Fraction(float(x))) for x in np.asarray(pi, dtype=float).ravel()],
           "finite": bool(np.all(np.isfinite(cd)) and np.all(np.isfinite(td)) and
                          (pi is None or np.all(np.isfinite(np.asarray(pi, dtype=float))))),
           "unchanged": bool(type(X) is tbefore and X.dtype == dbefore and X.shape == before.shape and
                             np.array_equal(_dense(X), before) and
                             (Pbefore is None or np.array_equal(P, Pbefore)))}
    return out


def run_impl(c):
    if c.get("kind") == "big":
        return _run_big(c)
    A = _np_matrix(c["C"])
    res = {"by_kind": {}}
    for k in KINDS:
        res["by_kind"][k] = _call(c["builder"], k, A, c["prior"], c["eq"])
    if c["builder"] == "mle" and not c["expect_err"]:
        # populations of the same (deterministic) run, needed to rebuild X when eq is off
        if c["eq"]:
            res["mle_pi"] = res["by_kind"]["ndarray"].get("pi")
        else:
            res["mle_pi"] = _call("mle", "ndarray", A, c["prior"], True).get("pi")
        # "prior counts are added before estimation": same model from the pre-added counts
        if c["prior"] is not None:
            eff = _effective(c["C"], c["prior"])
            res["mle_preadded"] = _call("mle", "ndarray", _np_matrix([[str(x) for x in r] for r in eff]), None, True)
    return res


# ----------------------------------------------------------------------------- oracle
def _close(a, b, tol=TOL):
    return abs(a - b) <= tol * max(1, abs(b))


def _mat(M):
    return [[_F(x) for x in r] for r in M]


def _check_one(c, kind, r, eff, out):
    b, n = c["builder"], len(eff)
    tag = "[%s/%s] " % (b, kind)
    if "err" in r:
        if r["err"] == "NonFiniteOutput":
            out.append(("finite", tag + "valid input gives nan/inf in the returned model"))
        else:
            out.append(("error-clause", tag + "valid input rejected with %s" % r["err"]))
        return
    if not r["finite"] or r["C"] is None or r["T"] is None or r["shape"][0] != [n, n] or r["shape"][1] != [n, n]:
        out.append(("shape", tag + "non-finite or wrongly shaped output %s" % r["shape"]))
        return
    C, T = _mat(r["C"]), _mat(r["T"])
    pi = None if r["pi"] is None else [_F(x) for x in r["pi"]]
    # returned counts: C + prior (normalize, mle) / its symmetrisation (transpose) -- exact
    if b == "transpose":
        basis = [[eff[i][j] + eff[j][i] for j in range(n)] for i in range(n)]
        expC = [[x / 2 for x in row] for row in basis]
    else:
        basis = eff
        expC = eff
    if C != expC:
        out.append(("counts", tag + "returned counts %s, expected %s" % (r["C"], [[str(x) for x in q] for q in expC])))
    # rows of T are probability distributions for every state with outgoing counts; others stay zero
    for i in range(n):
        w = sum(basis[i])
        if any(x < 0 for x in T[i]):
            out.append(("stochastic", tag + "negative probability in row %d" % i))
        if w > 0:
            if not _close(sum(T[i]), Fraction(1)):
                out.append(("stochastic", tag + "row %d sums to %s" % (i, float(sum(T[i])))))
        elif any(x != 0 for x in T[i]):
            out.append(("stochastic", tag + "state %d has no outgoing counts but a non-zero row" % i))
        if b in ("normalize", "transpose") and w > 0:
            for j in range(n):
                if not _close(T[i][j] * w, basis[i][j]):
                    out.append(("rownorm-def", tag + "T[%d][%d]*rowsum = %s != count %s" %
                                (i, j, float(T[i][j] * w), float(basis[i][j]))))
    # populations
    if not c["eq"]:
        if pi is not None and b != "mle":
            out.append(("pi-prob", tag + "populations returned although not requested"))
    else:
        if pi is None or r["shape"][2] != [n]:
            out.append(("pi-prob", tag + "populations missing or wrongly shaped: %s" % r["shape"][2]))
        else:
            if any(x < -Fraction(1, 10 ** 12) for x in pi) or not _close(sum(pi), Fraction(1)):
                out.append(("pi-prob", tag + "populations are not a probability vector: %s" % [float(x) for x in pi]))
            if b != "normalize" or _strongly_connected(eff):
                for j in range(n):
                    v = sum(pi[i] * T[i][j] for i in range(n))
                    if not _close(v, pi[j]):
                        out.append(("stationary", tag + "(pi T)[%d] = %s but pi[%d] = %s" % (j, float(v), j, float(pi[j]))))
            if b in ("transpose", "mle"):
                for i in range(n):
                    for j in range(i + 1, n):
                        if not _close(pi[i] * T[i][j], pi[j] * T[j][i]):
                            out.append(("detailed-balance", tag + "pi[%d]T[%d][%d] = %s != pi[%d]T[%d][%d] = %s" % (
                                i, i, j, float(pi[i] * T[i][j]), j, j, i, float(pi[j] * T[j][i]))))
    # container rule: same kind as passed in; adding prior counts to a sparse matrix may densify it
    allowed = {kind}
    if c["prior"] is not None and kind != "ndarray":
        allowed.add("ndarray")
    if r["kC"] not in allowed or r["kT"] not in allowed or r["kC"] != r["kT"]:
        out.append(("container", tag + "outputs come back as %s / %s" % (r["kC"], r["kT"])))
    if r["kpi"] not in (None, "ndarray"):
        out.append(("container", tag + "populations come back as %s" % r["kpi"]))
    if not r["unchanged"]:
        out.append(("input-mutated", tag + "the caller's matrix (or prior) was changed"))


def _oracle_big(c, r):
    out = []
    for k in ("sparse", "dense"):
        x = r[k]
        if "err" in x:
            out.append(("big-no-value", "%s %s on %d states raised %s" % (c["builder"], k, c["n"], x["err"])))
            continue
        if x["resid"] > 1e-8 or abs(x["sum"] - 1) > 1e-8 or x["min"] < -1e-12:
            out.append(("stationary", "%s %s, %d states: |pi T - pi| = %.2e, sum %.6f, min %.2e" % (c["builder"], k, c["n"], x["resid"], x["sum"], x["min"])))
        if x["rowsum"] > 1e-9:
            out.append(("stochastic", "%s %s: row sums off by %.2e" % (c["builder"], k, x["rowsum"])))
    if r.get("agree", 0) > 1e-8:
        out.append(("kinds-agree", "sparse and dense populations differ by %.2e on %d states" % (r["agree"], c["n"])))
    return out


def oracle(c, r):
    if c.get("kind") == "big":
        return _oracle_big(c, r)
    out = []
    if "by_kind" not in r:
        return [("harness", "run_impl failed: %s %s" % (r.get("err"), r.get("msg")))]
    bk = r["by_kind"]
    if c["expect_err"]:
        for k in KINDS:
            if "err" not in bk[k]:
                out.append(("error-clause", "[%s/%s] %s input accepted" % (c["builder"], k, c["cls"])))
        return out
    eff = _effective(c["C"], c["prior"])
    for k in KINDS:
        _check_one(c, k, bk[k], eff, out)
    ref = bk["ndarray"]
    if "err" not in ref and ref["T"] is not None:
        for k in SPARSE:
            rk = bk[k]
            if "err" in rk or rk["T"] is None:
                continue
            for name in ("C", "T"):
                A, B = _mat(ref[name]), _mat(rk[name])
                if len(A) != len(B) or any(len(x) != len(y) for x, y in zip(A, B)) or \
                        any(not _close(y, x) for p, q in zip(A, B) for x, y in zip(p, q)):
                    out.append(("kinds-agree", "[%s] %s differs between ndarray and %s" % (c["builder"], name, k)))
            if (ref["pi"] is None) != (rk["pi"] is None) or (ref["pi"] is not None and (
                    len(ref["pi"]) != len(rk["pi"]) or
                    any(not _close(_F(y), _F(x)) for x, y in zip(ref["pi"], rk["pi"])))):
                out.append(("kinds-agree", "[%s] populations differ between ndarray and %s" % (c["builder"], k)))
    if "mle_preadded" in r and "err" not in ref:
        pa = r["mle_preadded"]
        if "err" in pa or any(not _close(_F(y), _F(x)) for p, q in zip(ref["T"], pa["T"]) for x, y in zip(p, q)):
            out.append(("prior-first", "mle(C, prior) differs from mle(C + prior)"))
    return out


# ----------------------------------------------------------------------------- Coq side
def _cqs(s):
    return cq(_F(s))


def _cmat(M):
    return clist(M, lambda r: clist(r, _cqs, "Q"), "(list Q)")


def _cprior(p):
    if p is None:
        return "NoPrior"
    if "scalar" in p:
        return "(PScalar %s)" % _cqs(p["scalar"])
    return "(PMat %s)" % _cmat(p["mat"])


def _model_term(c, r):
    b = c["builder"]
    args = "%s %s %s" % (_cmat(c["C"]), _cprior(c["prior"]), cb(c["eq"]))
    if b == "mle":
        ref = r["by_kind"]["ndarray"] if r is not None else {"err": "-"}
        pi = r.get("mle_pi") if r is not None else None
        if "err" in ref or pi is None or ref.get("T") is None:
            X = "(@nil (list Q))"
        else:
            X = "(sym_of %s %s)" % (clist(pi, _cqs, "Q"), _cmat(ref["T"]))
        return "(mle_builder %s %s)" % (args, X)
    return "(%s_builder %s)" % (b, args)


def _expected(rk):
    if "err" in rk or rk.get("C") is None or rk.get("T") is None:
        return "(@None result)"
    pi = "(@None (list Q))" if rk["pi"] is None else "(Some %s)" % clist(rk["pi"], _cqs, "Q")
    return "(Some (%s, %s, %s))" % (_cmat(rk["C"]), _cmat(rk["T"]), pi)


_FMT = {"csr": "Csr", "csc": "Csc", "coo": "Coo", "lil": "Lil", "dok": "Dok", "dia": "Dia", "bsr": "Bsr"}


def _ckind(name):
    if name == "ndarray":
        return "KArr"
    if name == "matrix":
        return "KMat"
    f, fam = name.split("_")
    return "(KSp %s %s)" % ("true" if fam == "array" else "false", _FMT[f])


def _gen_term(c, r, kind, kinds_only=False):
    """the builder regenerated from the source, on the container `kind`"""
    b = c["builder"]
    args = "(mkarr %s Cm) Pr %s" % (_ckind(kind), cb(c["eq"]))     # Cm, Pr: bound once per case in coq_check
    if b == "normalize":
        return "(gen_normalize %s %s)" % ("no_eqp" if kinds_only else "(gen_eq_probs ex_eig)", args)
    if b == "transpose":
        return "(gen_transpose %s)" % args
    if kinds_only:
        return "(gen_mle no_prinz %s)" % args
    ref = r["by_kind"]["ndarray"] if r is not None else {"err": "-"}
    pi = r.get("mle_pi") if r is not None else None
    if "err" in ref or pi is None or ref.get("T") is None:
        X = "(@nil (list Q))"
    else:
        X = "(sym_of %s %s)" % (clist(pi, _cqs, "Q"), _cmat(ref["T"]))
    return "(gen_mle (gen_prinz_mle_py (loop_X %s)) %s)" % (X, args)


def coq_check(c, r):
    if c.get("kind") == "big":
        return None       # 1000-state chains are outside what the exact Coq solve evaluates; oracle only
    if "by_kind" not in r:
        return None
    bk = r["by_kind"]
    parts = ["(let m := %s in result_close (1#1000000000) m %s)" % (_model_term(c, r), _expected(bk["ndarray"])),
             "(let g := gres %s in result_close (1#1000000000) g %s)" % (_gen_term(c, r, c["kind"]), _expected(bk[c["kind"]]))]
    for k in KINDS:
        rk = bk[k]
        if "err" in rk or rk.get("kC") is None:
            continue
        try:
            kc, kt = _ckind(rk["kC"]), _ckind(rk["kT"])
        except (KeyError, ValueError):
            parts.append("false")
            continue
        parts.append("(gkinds_ok %s %s %s)" % (_gen_term(c, r, k, kinds_only=True), kc, kt))
    return "(let Cm := %s in let Pr := %s in %s)" % (_cmat(c["C"]), _cprior(c["prior"]), " && ".join(parts))


def coq_show(c):
    if c.get("kind") == "big":
        return "tt"
    if c["builder"] == "mle":
        try:
            r = run_impl(c)
        except Exception:
            r = None
        return "result_red " + _model_term(c, r)
    return "result_red " + _model_term(c, None)


def nontrivial(c, r):
    if c.get("kind") == "big":
        return True
    if c["expect_err"] or "by_kind" not in r or "err" in r["by_kind"]["ndarray"]:
        return False
    M = _mat(c["C"])
    n = len(M)
    return n >= 3 and any(M[i][j] != M[j][i] for i in range(n) for j in range(n)) and \
        any(x == 0 for row in M for x in row)


def tags(c, r):
    if c.get("kind") == "big":
        return ["arpack-1000-states"]
    t = ["builder:" + c["builder"], "class:" + c["cls"], "eq-on" if c["eq"] else "eq-off", "cmp-kind:" + c["kind"],
         "prior:" + ("none" if c["prior"] is None else "scalar" if "scalar" in c["prior"] else "matrix"),
         "n=%d" % len(c["C"])]
    if c["expect_err"]:
        t.append("error-expected")
    if any("/" in x for row in c["C"] for x in row):
        t.append("real-valued-counts")
    if "by_kind" in r:
        nd = r["by_kind"]["ndarray"]
        if "err" in nd:
            t.append("impl-rejects")
        elif c["prior"] is not None and any(r["by_kind"][k].get("kC") == "ndarray" for k in SPARSE):
            t.append("prior-densified-sparse")
    return t


ESSENTIAL_TAGS = ["arpack-1000-states", "builder:normalize", "builder:transpose", "builder:mle", "class:sc", "class:rows", "class:zero-row",
                  "eq-on", "eq-off", "prior:none", "prior:scalar", "prior:matrix", "error-expected", "impl-rejects",
                  "class:mle-no-outgoing", "class:prior-shape", "class:nonsquare", "prior-densified-sparse"] + \
                 ["cmp-kind:" + k for k in SPARSE]


def search(rng, tier):
    """Deeper look for a concrete failing input when a proof or the correspondence broke but the
    oracle saw nothing on this run's cases: fresh random cases plus the whole small scope."""
    found = []
    cases = _small_scope(rng, "thorough") + [_gen_valid(rng, tier) for _ in range(600)] + \
        [_gen_malformed(rng) for _ in range(60)]
    for c in cases:
        try:
            r = run_impl(c)
        except Exception as ex:
            r = {"err": "Unexpected:" + type(ex).__name__, "msg": str(ex)[:200]}
        for key, msg in oracle(c, r):
            found.append((key, msg, c, r))
        if found:
            break
    return found
