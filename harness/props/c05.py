"""C05: reading a ragged array equals reading the list of its rows.

Case  = {"lens": [..], "vals": [..flat ints..], "ctor": nested|nested_np|flat|flat_np, "w": 0|k (element width,
         0 = scalar elements), "idx": {...}}
idx   = {"k": "row", "r": z} | {"k": "rows", "sl": [s,e,st]} | {"k": "rowlist", "rs": [..], "np": bool}
      | {"k": "elem", "r": z, "c": z} | {"k": "pairs", "rs": [..], "cs": [..], "np": bool}
      | {"k": "pairs_scalar", "rs": [..], "c": z} | {"k": "elem_list", "r": z, "cs": [..]}
      | {"k": "sl2", "rsel": {"sl": [..]} | {"list": [..]}, "csel": {"sl": [..]} | {"int": z} | {"list": [..]}}
      | {"k": "rowsl", "r": z, "sl": [..]} | {"k": "mask", "m": [[bool]]} | {"k": "attrs"}
Result = {"ra": rows} (a RaggedArray: list of rows) | {"flat": [..]} | {"err": name}
         attrs: {"lengths","starts","shape","size","len","iter","flatten","dtype_ok"}.
Optional fields (round 3s streams; absent = the defaults of the original streams):
  "vals": None    the flat data is 0..n-1 (large arrays);
  "lay":  memory layout of the flat data handed to the constructor: C | F | T (transposed view of a features x frames
          array) | rowstr | colstr (strided views) | neg | negcol (negative strides); 1-D data: C | str | neg;
  "copy": False   RaggedArray(..., copy=False) for the flat constructors;
  "ldt":  dtype of the lengths ndarray (ctor flat_np): int8 .. uint64 -- the running total of the lengths may exceed
          the range of that dtype although every length fits;
  "ixdt": dtype of ndarray index arrays; "ixview": True = the index arrays are columns of one 2-D table (views);
  "again": {"lens": [..]}  the SAME index objects are used for a second read, on a second array with these lengths.
  "sdt":  dtype of the integer SCALARS of the index (a[np.int8(r), np.int8(c)], a[[..], np.int8(c)], ...);
  idx["np"]: True = both index vectors are ndarrays, "r" / "c" = only the row / column vector is (the other a list);
  a "pairs" index whose two vectors differ in length is paired by broadcasting (one of them has one entry).
Result may carry "argmod" (an index object passed to __getitem__ was changed by the read) and "again" (second read).
Elements of width w > 0 are the vectors [v, v+1000, .., v+1000(w-1)]; they are canonicalised back to v (after
checking the pattern), so the model works over Z throughout.
Typed-element streams (oracle only; field "el"): the elements are NOT platform integers.
  "el": "mixed"  nested construction from rows of DIFFERENT dtypes: "rowdt" = dtype name per row (None = the row is a
                 plain Python list), "rvals" = the rows' values (bools / ints / dyadic floats; w = 2: pairs of them);
                 the list-of-rows reference is np.concatenate of the rows as given, cut at the row lengths;
  "el": "obj"    dtype=object data: "okind" bigint (Python ints beyond int64 in nested lists) | frac (Fractions in
                 nested lists) | objflat (flat dtype=object ndarray + lengths) | rag3 (ragged third dimension: every
                 element is itself a list of ints, the element lengths differ); "rvals" holds the encoded elements
                 (int | ["F", num, den] | ["A", [ints]]).
  Results of these streams carry the values as encoded elements, "dts" (dtype names of every array returned) and, for
  RaggedArray results, "shape2" (first two entries of the result's shape).
"""
import itertools
import os
import sys
import numpy as np
from core import cz, cn, cb, clist, copt, VERIF
sys.path.insert(0, os.path.join(VERIF, "translator"))
import tr_ragged

PID = "C05"
PROPS_FILE = "Props/C05.v"
MODEL_TARGETS = ["Model/Ragged.vo", "Gen/RaGen.vo", "Model/RaggedGen.vo"]
GEN_FILES = ["Gen/RaGen.v"]
CASE_HEADER = ("From Coq Require Import List ZArith Bool.\n"
               "From EV Require Import PySlice RaBase RaGen Ragged RaggedGen.\n"
               "Import ListNotations.\n")
RULE = ("thorough: exhaustive small scope -- all 84 length vectors with <= 3 rows of length 1..4; for each: every "
        "single row index and (row, col) element with indices in -5..5; every row slice a[s:e:k] and every 2-D slice "
        "a[:, s:e:k] with s,e in {None,-5..5}, k in {None,+-1,+-2,+-3}; every a[r, s:e:k] for valid r is sampled "
        "(numpy-handled); row-slice/row-list x column slice/int/list combinations, paired fancy indices and boolean "
        "masks are sampled (600 per vector) because their product space is too large; constructors alternate between "
        "nested lists / list of arrays / flat+lengths list / flat+lengths ndarray. Plus random arrays up to 6 rows x "
        "12 with scalar and 2-/3-wide elements. quick: 3000 of the small-scope reads plus 600 random ones. "
        "every read is evaluated twice in Coq: on the hand-written model (get_c) and on the read assembled from "
        "the definitions regenerated from the current ra.py (get_g: gen_conv2d, gen_starts, gen_slice_to_list, "
        "gen_conv1d, gen_iis_from_*); attrs cases also compare gen_starts with the real starts. "
        "Round-3s streams (quick 500/136/300, thorough 5000/1040+/3000 cases), every read form of the property on each: "
        "(layout) flat data and rows that are not C-contiguous -- column-major, transposed view of a features x frames "
        "array, row- and column-strided views, negative strides; elements of width 2 and 3 and scalars; equal lengths "
        "(rectangular branch) as often as unequal ones, lengths as list and as ndarray, copy=True and copy=False; "
        "(narrow lengths) lengths as int8 / uint8 / int16 / uint16 ndarrays whose running total exceeds the dtype's "
        "range (16-bit cases have tens of thousands of elements and are judged by the oracle only, tag "
        "oracle-only-large), plus every integer dtype without a wrap; (index arguments) index objects that are ndarrays "
        "of int8..int64 with negative entries, also two columns of one table (views): the objects must be unchanged "
        "after the read and are used again for a second read on an array with other row lengths. "
        "Index-dtype stream (quick 280+16, thorough 2800+96): index vectors (ndarrays, also two columns of one table, "
        "also one ndarray and one list) and index scalars (np.int8(r) ...) of dtype int8 / uint8 / int32 / uint32 / uint64 "
        "on arrays with 2-3 rows of 130..298 elements or 130..315 rows of 1..2 elements, and of dtype int16 / uint16 on "
        "arrays with rows of 32770+/65538+ elements or that many rows (oracle only), so that negative row + number of rows, "
        "negative column + row length and row start + column leave the range of the index dtype; specs (dtype x shape x 14 "
        "read forms) are dealt from a deck, so every combination occurs under every seed; 8% hold an entry outside its row. "
        "Broadcast stream (quick 180, thorough 1800): a[R, C] with index vectors of different lengths, one of them with one "
        "entry -- n against 1, 1 against n, 1 against 1 -- and the scalar mixes a[[r], c], a[r, [c]], a[[..], c], a[r, [..]]; "
        "as two lists, two ndarrays, one of each; the list-of-rows reference pairs them as NumPy pairs index arrays, by "
        "broadcasting (the Coq model: bpairs). "
        "Typed-element streams (oracle only -- the Coq model works over Z; quick 300+240, thorough 3000+2400), every read "
        "form and the attributes on each: (mixed) nested construction from rows of DIFFERENT dtypes, dealt from a deck of "
        "(first-row dtype, wider dtype) pairs -- int then float, bool then int, bool then float, int8 then int16/int64, "
        "uint8 then int16/uint16, float32 then float64, ... -- as ndarrays and as plain Python lists, with a later row wider "
        "than the first (values outside the first row's dtype: 300 after int8, 0.5 after int, 2 after bool), the widest "
        "row first, and uniform rows; scalar elements and pairs; the list-of-rows reference is np.concatenate of the rows "
        "cut at the row lengths (values, Python type of every scalar, dtype of every array returned, the dtype attribute); "
        "(object) dtype=object data -- Python ints beyond int64 and uint64 in nested lists, Fractions, an explicit "
        "dtype=object flat array with lengths (list / ndarray), a ragged third dimension -- with one or several rows, "
        "equally long as often as not: lengths, starts, shape, size, len, dtype, iteration, a[i], flatten and every read; "
        "a RaggedArray returned by a read is also asked for its shape (first two entries: number of rows, common row "
        "length or None). "
        "non-trivial := at least 2 rows, and the read either succeeds with a non-empty result that is not the "
        "whole array or is an error case")
TRUSTED = ["translator/tr_ragged.py + translator/py2coq.py: _slice_to_list whole (dynamic int-or-None fragment); the scalar "
           "tests/wraps/offsets of _handle_negative_indices, _convert_from_2d, _convert_from_1d and the starts "
           "expression translated; the NumPy statement shapes recognised and plugged into the per-element "
           "skeletons of Base/RaBase.v; _get_iis_from_slices/_get_iis_from_list/where and the call sites in "
           "__getitem__ pinned as text (any other shape: rejected)",
           "modelled not verified: slice.indices, range, NumPy broadcasting of the two index vectors (bpairs: equal "
           "lengths element by element, one entry against all; np.broadcast_arrays in _convert_from_2d), conversion of "
           "integer index arrays of any width to platform integers (_index_array: the model works over Z)",
           "modelled not verified: NumPy basic/fancy indexing of the row-object array (_array[i], _array[slice], "
           "_array[list]) and of the flat data (_data[flat indices]), np.cumsum, np.where, np.concatenate",
           "harness canonicalisation: a RaggedArray result is read back through its rows (_array), its flat data "
           "and its lengths, and these three must agree"]
ASSUMPTIONS = ["row lengths are positive in the arrays being read (property wording); a read may return empty rows",
               "element types: in the streams compared with the Coq model all data are platform integers; the typed-element "
               "streams (bool / int8..int64 / uint8..uint16 / float32 / float64 rows mixed in one nested construction, "
               "dtype=object data) are compared with the list of rows by the oracle only, dtype names included",
               "element types (integer streams): of the dtype of what a read returns the KIND is compared "
               "(numpy dtype.kind, here 'i'): for an ndarray result the kind of that array; for a RaggedArray result the "
               "kinds of every stored row (_array), every iterated row, every row read back by result[i], and of the flat "
               "data; for attrs the kinds of the iterated rows, of a[i] for every i and of flatten(). Arrays without "
               "elements are skipped (their dtype is not determined by the data). Itemsize / byte order are not compared",
               "index lists are non-empty integer lists; the two lists of a paired index have equal length or one of them "
               "has exactly one entry (NumPy broadcasting); other unequal lengths are not generated (the model says: raises)",
               "index entries fit the dtype they are held in; 32- and 64-bit index dtypes are exercised without leaving "
               "their range (no array that large fits in memory)"]
EXHAUSTIVE = {"thorough": True, "quick": False}
SHARD = 400

STEPS = [None, 1, -1, 2, -2, 3, -3]
BND = [None] + list(range(-5, 6))
CTORS = ["nested", "nested_np", "flat", "flat_np"]


def translate(repo):
    return tr_ragged.translate(repo)


# ----------------------------------------------------------------------------- generation
def _all_slices():
    return [[s, e, k] for s in BND for e in BND for k in STEPS]


def _rand_slice(rng, lo=-6, hi=6):
    def b():
        return None if rng.random() < 0.3 else rng.randint(lo, hi)
    return [b(), b(), rng.choice(STEPS)]


def _rand_list(rng, n, lo, hi, minlen=1, maxlen=3):
    return [rng.randint(lo, hi) for _ in range(rng.randint(minlen, maxlen))]


def _mk(lens, ctor, w, idx, vals=None, **extra):
    n = sum(lens)
    if vals is None and n <= 600:
        vals = list(range(n))
    c = {"lens": list(lens), "vals": vals, "ctor": ctor, "w": w, "idx": idx}
    for k, v in extra.items():
        if v is not None:
            c[k] = v
    return c


def _vals(c):
    return list(range(sum(c["lens"]))) if c["vals"] is None else c["vals"]


def _sampled_idx(rng, lens, forms=None):
    """One index from the big product forms."""
    n = len(lens)
    L = max(lens)
    form = rng.choice(forms or ["sl2_ss", "sl2_ss", "sl2_ls", "sl2_ls", "sl2_si", "sl2_sl", "pairs", "pairs",
                                "pairs_scalar", "elem_list", "rowlist", "mask", "rowsl"])
    rlo, rhi = -n - 1, n
    clo, chi = -L - 1, L
    if rng.random() < 0.6:   # mostly valid
        rlo, rhi, clo, chi = -n, n - 1, -min(lens), min(lens) - 1
    if form == "sl2_ss":
        return {"k": "sl2", "rsel": {"sl": _rand_slice(rng, -n - 1, n + 1)}, "csel": {"sl": _rand_slice(rng, -L - 1, L + 1)}}
    if form == "sl2_ls":
        return {"k": "sl2", "rsel": {"list": _rand_list(rng, n, rlo, rhi)}, "csel": {"sl": _rand_slice(rng, -L - 1, L + 1)}}
    if form == "sl2_si":
        return {"k": "sl2", "rsel": {"sl": _rand_slice(rng, -n - 1, n + 1)}, "csel": {"int": rng.randint(clo, chi)}}
    if form == "sl2_sl":
        return {"k": "sl2", "rsel": {"sl": _rand_slice(rng, -n - 1, n + 1)}, "csel": {"list": _rand_list(rng, L, clo, chi)}}
    if form == "pairs":
        rs = _rand_list(rng, n, rlo, rhi)
        return {"k": "pairs", "rs": rs, "cs": [rng.randint(clo, chi) for _ in rs], "np": rng.random() < 0.5}
    if form == "pairs_scalar":
        return {"k": "pairs_scalar", "rs": _rand_list(rng, n, rlo, rhi, 2, 3), "c": rng.randint(clo, chi)}
    if form == "elem_list":
        return {"k": "elem_list", "r": rng.randint(rlo, rhi), "cs": _rand_list(rng, L, clo, chi, 2, 3)}
    if form == "rowlist":
        return {"k": "rowlist", "rs": _rand_list(rng, n, rlo, rhi), "np": rng.random() < 0.5}
    if form == "rowsl":
        return {"k": "rowsl", "r": rng.randint(rlo, rhi), "sl": _rand_slice(rng, -L - 1, L + 1)}
    p = rng.choice([0.0, 0.2, 0.5, 0.8, 1.0])
    return {"k": "mask", "m": [[rng.random() < p for _ in range(l)] for l in lens]}


def _small_scope(rng):
    vecs = [list(v) for n in (1, 2, 3) for v in itertools.product(range(1, 5), repeat=n)]
    slices = _all_slices()
    cases = []
    for vi, lens in enumerate(vecs):
        def ctor(j):
            return CTORS[(vi + j) % 4]
        j = 0
        cases.append(_mk(lens, ctor(0), 0, {"k": "attrs"}))
        cases.append(_mk(lens, ctor(2), 0, {"k": "attrs"}))
        for r in range(-5, 6):
            cases.append(_mk(lens, ctor(r), 0, {"k": "row", "r": r}))
            for c in range(-5, 6):
                cases.append(_mk(lens, ctor(r + c), 0, {"k": "elem", "r": r, "c": c}))
        for sl in slices:
            j += 1
            cases.append(_mk(lens, ctor(j), 0, {"k": "rows", "sl": sl}))
            cases.append(_mk(lens, ctor(j + 1), 0, {"k": "sl2", "rsel": {"sl": [None, None, None]}, "csel": {"sl": sl}}))
        for _ in range(600):
            j += 1
            cases.append(_mk(lens, ctor(j), 0, _sampled_idx(rng, lens)))
    return cases


def _random_cases(rng, n):
    cases = []
    for _ in range(n):
        nr = rng.randint(1, 6)
        if rng.random() < 0.3:
            lens = [rng.randint(1, 12)] * nr       # rectangular
        else:
            lens = [rng.randint(1, 12) for _ in range(nr)]
        w = rng.choice([0, 0, 0, 2, 3])
        tot = sum(lens)
        vals = list(range(tot)) if rng.random() < 0.7 else [rng.randint(0, 3) for _ in range(tot)]
        f = rng.random()
        if f < 0.08:
            idx = {"k": "attrs"}
        elif f < 0.16:
            idx = {"k": "row", "r": rng.randint(-nr - 1, nr)}
        elif f < 0.26:
            idx = {"k": "elem", "r": rng.randint(-nr - 1, nr), "c": rng.randint(-13, 12)}
        elif f < 0.36:
            idx = {"k": "rows", "sl": _rand_slice(rng, -nr - 1, nr + 1)}
        else:
            idx = _sampled_idx(rng, lens)
        cases.append(_mk(lens, rng.choice(CTORS), w, idx, vals))
    return cases


# ---- round 3s streams ---------------------------------------------------------------------------
LAYS2 = ["F", "F", "F", "T", "T", "T", "rowstr", "colstr", "neg", "negcol", "C"]
LAYS1 = ["str", "neg"]
NOMASK = ["sl2_ss", "sl2_ls", "sl2_si", "sl2_sl", "pairs", "pairs", "pairs_scalar", "elem_list", "rowlist", "rowsl"]
RANGE = {"int8": 127, "uint8": 255, "int16": 32767, "uint16": 65535}


def _any_idx(rng, lens, forms=None):
    """any read form of the property, mostly valid."""
    nr = len(lens)
    f = rng.random()
    if f < 0.10:
        return {"k": "attrs"}
    if f < 0.22:
        return {"k": "row", "r": rng.randint(-nr, nr - 1)}
    if f < 0.36:
        r = rng.randint(-nr, nr - 1)
        return {"k": "elem", "r": r, "c": rng.randint(-lens[r], lens[r] - (0 if rng.random() < 0.1 else 1))}
    if f < 0.46:
        return {"k": "rows", "sl": _rand_slice(rng, -nr - 1, nr + 1)}
    return _sampled_idx(rng, lens, forms)


def _layout_cases(rng, n):
    """flat data / rows that are not C-contiguous: column-major, transposed views, strided and reversed views;
    elements of width 2 and 3 (frames x features) and scalars; equal lengths (rectangular branch of the
    constructor) as often as unequal ones; lengths as list and as ndarray; copy=True and copy=False."""
    cases = []
    for _ in range(n):
        nr = rng.randint(1, 5)
        if rng.random() < 0.55:
            lens = [rng.randint(1, 6)] * max(nr, 2)
        else:
            lens = [rng.randint(1, 6) for _ in range(nr)]
        w = rng.choice([2, 2, 3, 3, 0])
        lay = rng.choice(LAYS2 if w else LAYS1)
        ctor = rng.choice(["flat", "flat_np", "flat", "flat_np", "nested_np"])
        cp = False if (ctor != "nested_np" and rng.random() < 0.4) else None
        cases.append(_mk(lens, ctor, w, _any_idx(rng, lens), lay=lay, copy=cp))
    return cases


def _wrap_lens(rng, dt):
    """row lengths that each fit dtype dt while the running total of the rows before the last passes its range."""
    hi = RANGE[dt]
    while True:
        nr = rng.randint(3, 5)
        if rng.random() < 0.25:
            lens = [rng.randint(hi // 3, hi - hi // 8)] * nr
        else:
            lens = [rng.randint(hi // 8, hi - hi // 8) for _ in range(nr)]
        if sum(lens[:-1]) > hi:
            return lens


def _narrow_cases(rng, n, big):
    """lengths given as ndarrays of a narrow integer dtype; `big` = how many 16-bit cases (tens of thousands of
    elements; evaluated by the oracle only, not in Coq)."""
    cases = []
    kinds = ["int8"] * (n // 2 - big) + ["uint8"] * (n // 2 - big) + ["int16"] * big + ["uint16"] * big
    for dt in kinds:
        lens = _wrap_lens(rng, dt)
        forms = NOMASK if sum(lens) > 600 else None
        w = 0 if sum(lens) > 600 else rng.choice([0, 0, 0, 2])
        cases.append(_mk(lens, "flat_np", w, _any_idx(rng, lens, forms), ldt=dt,
                         lay=("F" if w and rng.random() < 0.3 else None)))
    for _ in range(max(4, n // 6)):      # the same dtypes (and the wide ones) without a wrap
        dt = rng.choice(["int8", "uint8", "int16", "uint16", "int32", "uint32", "int64", "uint64"])
        nr = rng.randint(1, 5)
        lens = [rng.randint(1, 9)] * nr if rng.random() < 0.3 else [rng.randint(1, 9) for _ in range(nr)]
        cases.append(_mk(lens, "flat_np", rng.choice([0, 0, 2]), _any_idx(rng, lens), ldt=dt))
    return cases


def _ixarg_cases(rng, n):
    """index objects that are ndarrays (all signed widths, also two columns of one table, i.e. views) holding
    negative entries, and the same objects used for a second read on an array with other row lengths."""
    cases = []
    for _ in range(n):
        nr = rng.randint(1, 5)
        lens = [rng.randint(1, 6) for _ in range(nr)]
        lens2 = [rng.randint(1, 6) for _ in range(nr if rng.random() < 0.8 else rng.randint(1, 5))]
        form = rng.choice(["pairs", "pairs", "pairs", "pairs_scalar", "elem_list", "elem_list", "rowlist", "sl2_ls",
                           "sl2_sl"])
        ix = None
        for _try in range(20):
            ix = _sampled_idx(rng, lens, [form])
            negs = [x for key in ("rs", "cs") for x in ix.get(key, [])] + \
                [x for sel in (ix.get("rsel", {}), ix.get("csel", {})) for x in sel.get("list", [])]
            if any(x < 0 for x in negs):
                break
        ix["np"] = True
        extra = {"ixdt": rng.choice([None, None, "int32", "int16", "int8"])}
        if form == "pairs" and rng.random() < 0.4:
            extra["ixview"] = True
        if rng.random() < 0.7:
            extra["again"] = {"lens": lens2}
        cases.append(_mk(lens, rng.choice(CTORS), rng.choice([0, 0, 2]), ix, **extra))
    return cases


# ---- index dtypes whose range the index arithmetic leaves; index vectors paired by broadcasting ----------------
IXR = {"int8": (-2 ** 7, 2 ** 7 - 1), "uint8": (0, 2 ** 8 - 1), "int16": (-2 ** 15, 2 ** 15 - 1),
       "uint16": (0, 2 ** 16 - 1), "int32": (-2 ** 31, 2 ** 31 - 1), "uint32": (0, 2 ** 32 - 1),
       "int64": (-2 ** 63, 2 ** 63 - 1), "uint64": (0, 2 ** 64 - 1)}
IX_SMALL = ["int8", "uint8", "int32", "uint32", "uint64"]     # arrays of <= 600 elements (also evaluated in Coq)
IX_BIG = ["int16", "uint16"]                                   # tens of thousands of elements / rows: oracle only
IX_FORMS = ["pairs", "pairs_view", "pairs_mixed", "pairs_scalar", "pairs_npscalar", "elem_list", "npelem_list",
            "elem", "sl2_ls", "sl2_sl", "sl2_si", "rowlist", "row", "rowsl"]
IX_FORMS_BIG = ["pairs", "pairs_npscalar", "elem_list", "elem", "sl2_ls", "sl2_sl", "pairs_view", "npelem_list"]


def _ix_top(dt):
    """the size the array has to pass: the dtype's maximum for the 8- and 16-bit types; the wider ones cannot be
    passed by an array that fits in memory and get the int8 sizes (dtype handling without a wrap)"""
    return IXR[dt][1] if dt in ("int8", "uint8", "int16", "uint16") else 127


def _ix_lens(rng, dt, shape):
    """row lengths with which resolving an index held in dtype dt leaves the dtype's range: rows longer than its
    maximum ("long": a negative column + row length, row start + column) or more rows than its maximum ("many":
    a negative row + number of rows)."""
    top = _ix_top(dt)
    if shape == "long":
        nr = 2 if top != 127 or rng.random() < 0.6 else 3
        lo, hi = (132, 290 if nr == 2 else 195) if top == 127 else (260, 298) if top == 255 else (top + 5, top + 400)
        return [rng.randint(lo, hi)] * nr if rng.random() < 0.3 else [rng.randint(lo, hi) for _ in range(nr)]
    nr = rng.randint(top + 5, top + (60 if top < 300 else 300))
    lens = [1] * nr if rng.random() < 0.25 else [rng.choice([1, 1, 2]) for _ in range(nr)]
    while top < 300 and sum(lens) > 600:
        lens[lens.index(2)] = 1
    return lens


def _ix_pick(rng, n, dt, mode=None):
    """an index into a sequence of length n that dtype dt can hold: mode "neg" a negative one (signed types), "top"
    one of the largest, "bad" one outside the sequence (None if the dtype holds none), else any."""
    dlo, dhi = IXR[dt]
    lo, hi = max(-n, dlo), min(n - 1, dhi)
    if mode == "bad":
        cands = [x for x in (n, -n - 1, n + 1) if dlo <= x <= dhi]
        return rng.choice(cands) if cands else None
    if mode == "neg" and lo < 0:
        x = rng.choice([-1, -1, -2, -3])
    elif mode == "top":
        x = rng.choice([hi, hi, hi - 1, rng.randint(hi // 2, hi)])
    else:
        x = rng.choice([lo, hi, 0, -1, rng.randint(lo, hi), rng.randint(lo, hi)])
    return min(max(x, lo), hi)


def _ix_case(rng, dt, shape, form):
    lens = _ix_lens(rng, dt, shape)
    nr = len(lens)
    signed = IXR[dt][0] < 0
    rmode = ("neg" if signed else "top") if shape == "many" else None
    cmode = ("neg" if signed else "top") if shape == "long" else None
    bad = rng.random() < 0.08

    def row(first):
        if not signed and shape == "long" and first:
            return nr - 1                      # a row that does not start at 0: row start + column passes the range
        return _ix_pick(rng, nr, dt, rmode if first or rng.random() < 0.5 else None)

    def col(r, first, n=None):
        n = lens[r] if n is None else n
        if bad and first:
            x = _ix_pick(rng, n, dt, "bad")
            if x is not None:
                return x
        return _ix_pick(rng, n, dt, cmode if first or rng.random() < 0.5 else None)

    def window():
        """a row slice selecting a few rows"""
        a = rng.randint(0, max(0, nr - 3))
        b = min(nr, a + rng.randint(1, 3))
        if rng.random() < 0.3:
            return [a - nr, b - nr if b < nr else None, None], list(range(a, b))
        if rng.random() < 0.2 and b - 1 >= 0:
            return [b - 1, a - 1 if a > 0 else None, -1], list(range(b - 1, a - 1, -1))
        return [a, b, None], list(range(a, b))
    m = rng.randint(1, 3)
    extra = {}
    if form in ("pairs", "pairs_view", "pairs_mixed"):
        rs = [row(i == 0) for i in range(m)]
        ix = {"k": "pairs", "rs": rs, "cs": [col(r, i == 0) for i, r in enumerate(rs)], "np": True}
        if form == "pairs_view":
            extra["ixview"] = True
        if form == "pairs_mixed":
            ix["np"] = rng.choice(["r", "c"])
        extra["ixdt"] = dt
    elif form in ("pairs_scalar", "pairs_npscalar"):
        rs = [row(i == 0) for i in range(m)]
        ix = {"k": "pairs_scalar", "rs": rs, "c": col(0, True, min(lens[r] for r in rs)), "np": True}
        extra["ixdt"] = dt
        if form == "pairs_npscalar":
            extra["sdt"] = dt
            ix["np"] = rng.random() < 0.5
    elif form in ("elem_list", "npelem_list"):
        r = row(True)
        ix = {"k": "elem_list", "r": r, "cs": [col(r, i == 0) for i in range(m)], "np": True}
        extra["ixdt"] = dt
        if form == "npelem_list":
            extra["sdt"] = dt
            ix["np"] = rng.random() < 0.5
    elif form == "elem":
        r = row(True)
        ix = {"k": "elem", "r": r, "c": col(r, True)}
        extra["sdt"] = dt
    elif form == "sl2_ls":
        rs = [row(i == 0) for i in range(m)]
        L = max(lens[r] for r in rs)
        ix = {"k": "sl2", "rsel": {"list": rs}, "csel": {"sl": _rand_slice(rng, -L - 1, L + 1)}, "np": True}
        extra["ixdt"] = dt
    elif form in ("sl2_sl", "sl2_si"):
        sl, rws = window()
        n = min(lens[r] for r in rws)
        if form == "sl2_sl":
            ix = {"k": "sl2", "rsel": {"sl": sl}, "csel": {"list": [col(0, i == 0, n) for i in range(m)]}, "np": True}
            extra["ixdt"] = dt
        else:
            ix = {"k": "sl2", "rsel": {"sl": sl}, "csel": {"int": col(0, True, n)}}
            extra["sdt"] = dt
    elif form == "rowlist":
        ix = {"k": "rowlist", "rs": [row(i == 0) for i in range(m)], "np": True}
        extra["ixdt"] = dt
    elif form == "row":
        ix = {"k": "row", "r": row(True)}
        extra["sdt"] = dt
    else:
        r = row(True)
        L = lens[r]
        ix = {"k": "rowsl", "r": r, "sl": _rand_slice(rng, -L - 1, L + 1)}
        extra["sdt"] = dt
    if sum(lens) <= 600 and rng.random() < 0.25 and ix["k"] in ("pairs", "pairs_scalar", "elem_list"):
        extra["again"] = {"lens": _ix_lens(rng, dt, shape)[:nr] if rng.random() < 0.7 else [rng.randint(1, 6)] * nr}
    ctor = rng.choice(CTORS) if sum(lens) <= 600 else rng.choice(["flat", "flat_np"])
    return _mk(lens, ctor, 0, ix, **extra)


def _ixnarrow_cases(rng, n, big):
    """index vectors (ndarrays) and index scalars of every integer dtype, on arrays whose rows are longer / more
    numerous than the 8- and 16-bit types can count: specs dealt from a deck so that every (dtype, shape, form)
    occurs under every seed; `big` 16-bit cases (oracle only)."""
    deck = [(dt, sh, f) for f in IX_FORMS for sh in ("long", "many") for dt in IX_SMALL]
    bigdeck = [(dt, sh, f) for f in IX_FORMS_BIG for sh in ("long", "many") for dt in IX_BIG]
    cases = [_ix_case(rng, *deck[i % len(deck)]) for i in range(n)]
    cases += [_ix_case(rng, *bigdeck[i % len(bigdeck)]) for i in range(big)]
    return cases


BC_FORMS = ["col", "col", "row", "row", "one", "ps1", "el1", "ps", "el"]
BC_NP = [False, True, "r", "c"]


def _bcast_cases(rng, n):
    """a[R, C] with index vectors of different lengths, one of them with one entry (NumPy pairs index arrays by
    broadcasting): n against 1, 1 against n, 1 against 1, and the scalar mixes a[[r], c], a[r, [c]], a[[..], c],
    a[r, [..]]; lists, ndarrays, one of each; integer dtypes; negative entries; now and then an entry outside."""
    cases = []
    deck = [(f, q) for f in BC_FORMS for q in BC_NP]
    for i in range(n):
        form, q = deck[i % len(deck)]
        nr = rng.randint(1, 5)
        lens = [rng.randint(1, 6)] * nr if rng.random() < 0.3 else [rng.randint(1, 6) for _ in range(nr)]
        L = min(lens)
        rlo, rhi, clo, chi = -nr, nr - 1, -L, L - 1
        if rng.random() < 0.12:
            rlo, rhi, clo, chi = -nr - 1, nr, -max(lens) - 1, max(lens)
        m = rng.randint(2, 4)

        def rr():
            return rng.randint(rlo, rhi)

        def cc():
            return rng.randint(clo, chi)
        extra = {"ixdt": rng.choice([None, None, "int8", "int16", "int32", "uint8"] if q else [None])}
        if extra["ixdt"] == "uint8":
            rlo, clo = max(rlo, 0), max(clo, 0)
        if form in ("col", "row", "one"):
            rs = [rr() for _ in range(1 if form in ("row", "one") else m)]
            cs = [cc() for _ in range(1 if form in ("col", "one") else m)]
            ix = {"k": "pairs", "rs": rs, "cs": cs, "np": q}
        elif form in ("ps1", "ps"):
            ix = {"k": "pairs_scalar", "rs": [rr() for _ in range(1 if form == "ps1" else m)], "c": cc(), "np": q in (True, "r")}
            if q == "c":
                extra["sdt"] = rng.choice(["int64", "int8", "int32"])
        else:
            ix = {"k": "elem_list", "r": rr(), "cs": [cc() for _ in range(1 if form == "el1" else m)], "np": q in (True, "c")}
            if q == "r":
                extra["sdt"] = rng.choice(["int64", "int8", "int32"])
        if rng.random() < 0.4:
            extra["again"] = {"lens": [rng.randint(1, 6) for _ in range(nr)]}
        cases.append(_mk(lens, rng.choice(CTORS), rng.choice([0, 0, 2]), ix, **extra))
    return cases


# ---- elements that are not platform integers: rows of mixed dtypes, dtype=object data -------------------------
# (first row, a later row): the later row needs a wider dtype than the first one
MIX_NP = [("int64", "float64"), ("bool", "int64"), ("int8", "int64"), ("float32", "float64"), ("int8", "int16"),
          ("uint8", "int16"), ("int32", "float64"), ("bool", "float64"), ("int16", "int32"), ("bool", "int8"),
          ("uint8", "uint16"), ("int8", "float32"), ("int32", "int64"), ("uint16", "int64")]
MIX_PY = [("int64", "float64"), ("bool", "int64"), ("bool", "float64")]      # rows given as plain Python lists
MIX_ORDER = ["narrow-first", "narrow-first", "narrow-first", "wide-first", "uniform"]
MIXR = dict(IXR, bool=(0, 1))
OBJ_KINDS = ["bigint", "frac", "objflat", "rag3"]


def _mix_value(rng, dt, below=None):
    """a value of dtype dt; `below` = a narrower dtype whose range (or kind) the value should leave when it can"""
    if dt == "bool":
        return rng.random() < 0.5
    if dt.startswith("float"):
        q = rng.choice([0.5, 0.25, 1.5, -0.75, 2.25, 1e3 + 0.5, -0.5, 3.0, 0.125])
        if dt == "float64" and below == "float32" and rng.random() < 0.7:
            q = rng.choice([0.1, 1.0 + 2.0 ** -40, 1e300, -1.0 / 3.0, 16777217.0])     # not float32 values
        return q
    lo, hi = MIXR[dt]
    if below is not None and below in MIXR and rng.random() < 0.7:
        blo, bhi = MIXR[below]
        cands = [x for x in (bhi + 1, bhi + 45, 2 * bhi + 2, blo - 1, blo - 2, 3 * bhi) if lo <= x <= hi and not blo <= x <= bhi]
        if cands:
            return rng.choice(cands)
    return rng.randint(max(lo, -9), min(hi, 9))


def _typed_lens(rng, lo=2):
    nr = rng.randint(lo, 5)
    if rng.random() < 0.5:
        return [rng.randint(1, 5)] * nr
    return [rng.randint(1, 5) for _ in range(nr)]


def _mixed_cases(rng, n):
    """nested construction from rows of different dtypes: a later row wider than the first (int then float, bool then
    int, int8 then int64, float32 then float64, ...), the widest row first, and uniform rows; ndarray rows and plain
    Python lists; scalar elements and pairs; every read form."""
    cases = []
    deck = [(pair, py, order) for order in MIX_ORDER for py in (False, True)
            for pair in (MIX_PY if py else MIX_NP)]
    rng.shuffle(deck)
    for i in range(n):
        (narrow, wide), py, order = deck[i % len(deck)]
        lens = _typed_lens(rng)
        nr = len(lens)
        w = rng.choice([0, 0, 0, 2])
        if order == "uniform":
            dts = [rng.choice([narrow, wide])] * nr
        else:
            dts = [rng.choice([narrow, wide]) for _ in range(nr)]
            wpos = rng.randint(1, nr - 1)
            dts[wpos] = wide
            dts[0] = narrow
            if order == "wide-first":
                dts[0], dts[wpos] = wide, narrow
        rvals = []
        for dt, l in zip(dts, lens):
            below = narrow if dt == wide and dt != narrow else None
            if w == 0:
                rvals.append([_mix_value(rng, dt, below) for _ in range(l)])
            else:
                rvals.append([[_mix_value(rng, dt, below) for _ in range(w)] for _ in range(l)])
        c = _mk(lens, "nested" if py else "nested_np", w, _any_idx(rng, lens), el="mixed",
                rowdt=[None if py else d for d in dts], rvals=rvals)
        c["vals"] = None
        c["mix"] = [narrow, wide, order]
        cases.append(c)
    return cases


def _obj_elem(rng, okind, i):
    if okind == "bigint":
        return rng.choice([2 ** 70 + i, -2 ** 64 - i, 2 ** 64 + i, i, i, -i])      # beyond int64 AND uint64
    if okind == "frac":
        return ["F", rng.randint(-9, 9), rng.choice([2, 3, 5, 7])]
    if okind == "objflat":
        return rng.choice([i, i, 2 ** 70 + i, ["F", 2 * i + 1, 2]])
    return ["A", [i] * rng.randint(1, 3)]


def _object_cases(rng, n):
    """dtype=object data -- Python ints beyond int64, Fractions, an explicit dtype=object flat array with lengths, a
    ragged third dimension -- in arrays of one or several rows that are equally long (as often as not) or not."""
    cases = []
    deck = [(k, rect, one) for k in OBJ_KINDS for rect in (True, True, False) for one in (False, False, True)]
    rng.shuffle(deck)
    for i in range(n):
        okind, rect, one = deck[i % len(deck)]
        nr = 1 if one else rng.randint(2, 5)
        lens = [rng.randint(1, 5)] * nr if rect else [rng.randint(1, 5) for _ in range(nr)]
        tot = sum(lens)
        while True:
            flat = [_obj_elem(rng, okind, j) for j in range(tot)]
            if okind == "bigint" and not any(abs(v) >= 2 ** 64 for v in flat):
                flat[rng.randrange(tot)] = 2 ** 70          # the data must need dtype=object
            if okind == "rag3" and len({len(e[1]) for e in flat}) < 2:
                if tot < 2:
                    lens = [2] * nr
                    tot = sum(lens)
                continue
            break
        rvals, s = [], 0
        for l in lens:
            rvals.append(flat[s:s + l])
            s += l
        ctor = rng.choice(["flat", "flat_np"]) if okind == "objflat" else "nested"
        f = rng.random()
        idx = {"k": "attrs"} if f < 0.4 else _any_idx(rng, lens)
        c = _mk(lens, ctor, 0, idx, el="obj", okind=okind, rvals=rvals)
        c["vals"] = None
        cases.append(c)
    return cases


def _streams(rng, tier):
    if tier == "quick":
        return _layout_cases(rng, 500) + _narrow_cases(rng, 120, 3) + _ixarg_cases(rng, 300) + \
            _ixnarrow_cases(rng, 280, 16) + _bcast_cases(rng, 180) + _mixed_cases(rng, 300) + _object_cases(rng, 240)
    return _layout_cases(rng, 5000) + _narrow_cases(rng, 1000, 12) + _ixarg_cases(rng, 3000) + \
        _ixnarrow_cases(rng, 2800, 96) + _bcast_cases(rng, 1800) + _mixed_cases(rng, 3000) + _object_cases(rng, 2400)


def generate(rng, tier):
    small = _small_scope(rng)
    if tier == "quick":
        small = rng.sample(small, 3000)
        return small + _random_cases(rng, 600) + _streams(rng, tier)
    return small + _random_cases(rng, 6000) + _streams(rng, tier)


# ----------------------------------------------------------------------------- implementation
def _elem(v, w):
    """canonical element: int for scalars, decoded id for width-w vectors."""
    if w == 0:
        a = np.asarray(v)
        if a.ndim != 0:
            raise _Bad("element is not a scalar: %r" % (v,))
        return int(a)
    a = np.asarray(v).astype(int)
    if a.shape != (w,) or any(int(a[i]) != int(a[0]) + 1000 * i for i in range(w)):
        raise _Bad("element is not one of the input vectors: %r" % (v,))
    return int(a[0])


class _Bad(Exception):
    pass


def _rows_of(x, w):
    return [[_elem(e, w) for e in row] for row in x]


def _layout(base, lay):
    """an array equal to `base` (first axis = elements of the flat data) with another memory layout."""
    n = base.shape[0]
    if lay in (None, "C"):
        return base.copy()
    if lay == "neg":
        return base[::-1].copy()[::-1]
    if base.ndim == 1:
        if lay == "str":
            big = np.full(2 * n, -7, dtype=base.dtype)
            big[::2] = base
            return big[::2]
        raise KeyError(lay)
    w = base.shape[1]
    if lay == "F":
        return np.asfortranarray(base)
    if lay == "T":                       # np.array([xs, ys]).T : frames x features, stored feature-major
        return np.array([base[:, i].tolist() for i in range(w)], dtype=base.dtype).T
    if lay == "rowstr":
        big = np.full((2 * n, w), -7, dtype=base.dtype)
        big[::2] = base
        return big[::2]
    if lay == "colstr":
        big = np.full((n, 2 * w), -7, dtype=base.dtype)
        big[:, ::2] = base
        return big[:, ::2]
    if lay == "negcol":
        return base[:, ::-1].copy()[:, ::-1]
    raise KeyError(lay)


def _build(c, lens=None):
    from enspara.ra.ra import RaggedArray
    w = c["w"]
    if lens is None:
        lens, vals = c["lens"], _vals(c)
    else:
        vals = list(range(sum(lens)))
    if w == 0:
        flat = np.array(vals, dtype=int)
    else:
        flat = np.array([[v + 1000 * i for i in range(w)] for v in vals], dtype=int)
    rows, s = [], 0
    for l in lens:
        rows.append(flat[s:s + l])
        s += l
    ctor = c["ctor"]
    lay = c.get("lay")
    kw = {"copy": False} if c.get("copy") is False else {}
    if ctor == "nested":
        a = RaggedArray([r.tolist() for r in rows])
    elif ctor == "nested_np":
        if lay is None:
            a = RaggedArray([r.copy() for r in rows])
        else:
            src, s, views = _layout(flat, lay), 0, []
            for l in lens:
                views.append(src[s:s + l])
                s += l
            a = RaggedArray(views)
    elif ctor == "flat":
        a = RaggedArray(_layout(flat, lay), lengths=list(lens), **kw)
    else:
        a = RaggedArray(_layout(flat, lay), lengths=np.array(lens, dtype=c.get("ldt")), **kw)
    return a, rows, flat


def _sl(t):
    return slice(t[0], t[1], t[2])


def _py_index(c):
    """the Python index expression object for the case."""
    ix = c["idx"]
    k = ix["k"]
    dt = c.get("ixdt")

    sdt = c.get("sdt")

    def arr(xs):
        return np.array(xs, dtype=dt)

    def seq(xs, pos="r"):
        return arr(xs) if ix.get("np") in (True, pos) else list(xs)

    def sc(x):
        return x if sdt is None else np.dtype(sdt).type(x)
    if k == "row":
        return sc(ix["r"])
    if k == "rows":
        return _sl(ix["sl"])
    if k == "rowlist":
        return seq(ix["rs"])
    if k == "elem":
        return (sc(ix["r"]), sc(ix["c"]))
    if k == "pairs":
        if ix["np"] is True and c.get("ixview"):
            table = np.array([ix["rs"], ix["cs"]], dtype=dt).T.copy()      # one row per selected element
            return (table[:, 0], table[:, 1])
        return (seq(ix["rs"]), seq(ix["cs"], "c"))
    if k == "pairs_scalar":
        return (seq(ix["rs"]), sc(ix["c"]))
    if k == "elem_list":
        return (sc(ix["r"]), seq(ix["cs"], "c"))
    if k == "rowsl":
        return (sc(ix["r"]), _sl(ix["sl"]))
    if k == "sl2":
        rs = ix["rsel"]
        cs = ix["csel"]
        r = _sl(rs["sl"]) if "sl" in rs else seq(rs["list"])
        cc = _sl(cs["sl"]) if "sl" in cs else (sc(cs["int"]) if "int" in cs else seq(cs["list"], "c"))
        return (r, cc)
    raise KeyError(k)


def _snap(ix):
    """a value that changes iff an index object (or a part of it) is altered."""
    if isinstance(ix, tuple):
        return [_snap(x) for x in ix]
    if isinstance(ix, np.ndarray):
        return ["nd", str(ix.dtype), list(ix.shape), ix.tolist()]
    if isinstance(ix, list):
        return ["list", list(ix)]
    if isinstance(ix, slice):
        return ["slice", ix.start, ix.stop, ix.step]
    return ["int", int(ix)]


def _kinds(arrs):
    """dtype kinds of the arrays that hold at least one element"""
    out = set()
    for x in arrs:
        x = x if isinstance(x, np.ndarray) else np.asarray(x)
        if x.size > 0:
            out.add(x.dtype.kind)
    return sorted(out)


def _canon(res, w):
    out = _canon_values(res, w)
    from enspara.ra.ra import RaggedArray
    if isinstance(res, RaggedArray):
        # every row as stored, as iterated, as read by a[i], and the flat data
        out["dtk"] = _kinds(list(res._array) + [r for r in res] + [res[i] for i in range(len(res.lengths))] + [res._data])
    else:
        out["dtk"] = _kinds([res])
    return out


def _canon_values(res, w):
    from enspara.ra.ra import RaggedArray
    if isinstance(res, RaggedArray):
        rows = _rows_of(list(res._array), w)
        lens = [int(x) for x in res.lengths]
        flat = [_elem(e, w) for e in res._data] if sum(lens) > 0 or hasattr(res, "_data") else []
        if [len(r) for r in rows] != lens or [e for r in rows for e in r] != flat or len(res) != len(rows):
            raise _Bad("incoherent RaggedArray result: rows %r lengths %r flat %r" % (rows, lens, flat))
        return {"ra": rows}
    a = np.asarray(res)
    if w == 0:
        return {"flat": [_elem(e, 0) for e in a.reshape(-1)]}
    return {"flat": [_elem(e, w) for e in a.reshape(-1, w)]}


def _read(a, c, ixobj):
    from enspara.ra import ra as ramod
    from enspara.ra.ra import RaggedArray
    w = c["w"]
    ix = c["idx"]
    try:
        if ix["k"] == "mask":
            m = RaggedArray([list(r) for r in ix["m"]])
            wr, wc = ramod.where(m)
            out = _canon(a[m], w)
            out["where"] = [[int(x) for x in wr], [int(x) for x in wc]]
            return out
        return _canon(a[ixobj], w)
    except _Bad as ex:
        return {"err": "Bad", "msg": str(ex)[:300]}
    except Exception as ex:
        return {"err": type(ex).__name__, "msg": str(ex)[:200]}


# ---- typed-element streams (rows of mixed dtypes, dtype=object data): implementation side ------------------------
def _dec(e):
    """element of a case -> the Python object stored in the array"""
    if isinstance(e, list):
        if e[0] == "F":
            from fractions import Fraction
            return Fraction(e[1], e[2])
        return np.array(e[1], dtype=int)
    return e


def _enc(e):
    """an element read back -> JSON value (int | float | bool | ["F", n, d] | ["A", [..]])"""
    from fractions import Fraction
    if isinstance(e, Fraction):
        return ["F", e.numerator, e.denominator]
    if isinstance(e, np.ndarray):
        if e.ndim == 0:
            return _enc(e.item())
        return ["A", [_enc(x) for x in e]]
    if isinstance(e, np.generic):
        return e.item()
    if isinstance(e, (bool, int, float)):
        return e
    raise _Bad("unexpected element %r of type %s" % (e, type(e).__name__))


def _obj_row(elems):
    """1-D object array holding exactly these elements"""
    row = np.empty(len(elems), dtype=object)
    for i, e in enumerate(elems):
        row[i] = e
    return row


def _tgiven(c, lens=None):
    """the rows as they are handed to the constructor, and the list-of-rows reference (per-row numpy arrays)"""
    if c["el"] == "mixed":
        given = [list(v) if dt is None else np.array(v, dtype=dt) for v, dt in zip(c["rvals"], c["rowdt"])]
        whole = np.concatenate([np.asarray(g) for g in given])
        ref, s = [], 0
        for l in c["lens"]:
            ref.append(whole[s:s + l])
            s += l
        return given, ref
    rows = [[_dec(e) for e in r] for r in c["rvals"]]
    return rows, [_obj_row(r) for r in rows]


def _tbuild(c):
    from enspara.ra.ra import RaggedArray
    given, ref = _tgiven(c)
    if c["ctor"] in ("nested", "nested_np"):
        if c["el"] == "obj" and c["okind"] == "rag3":
            given = [[e.tolist() for e in r] for r in given]      # nested lists three deep
        return RaggedArray(given), ref
    flat = _obj_row([e for r in given for e in r])
    lens = list(c["lens"]) if c["ctor"] == "flat" else np.array(c["lens"])
    return RaggedArray(flat, lengths=lens), ref


def _dtnames(arrs):
    out = set()
    for x in arrs:
        x = x if isinstance(x, np.ndarray) else np.asarray(x)
        if x.size > 0:
            out.add(str(x.dtype))
    return sorted(out)


def _shape2(shp):
    return [None if x is None else int(x) for x in tuple(shp)[:2]]


def _tcanon(res):
    from enspara.ra.ra import RaggedArray
    if isinstance(res, RaggedArray):
        rows = [[_enc(e) for e in row] for row in res._array]
        lens = [int(x) for x in res.lengths]
        flat = [_enc(e) for e in res._data]
        it = [[_enc(e) for e in row] for row in res]
        byi = [[_enc(e) for e in res[i]] for i in range(len(lens))]
        if [len(r) for r in rows] != lens or [e for r in rows for e in r] != flat or len(res) != len(rows) \
                or it != rows or byi != rows:
            raise _Bad("incoherent RaggedArray result: rows %r lengths %r flat %r iterated %r read by a[i] %r" % (
                rows, lens, flat, it, byi))
        return {"ra": rows, "shape2": _shape2(res.shape),
                "dts": _dtnames(list(res._array) + [r for r in res] + [res[i] for i in range(len(lens))] + [res._data])}
    a = res if isinstance(res, np.ndarray) else np.asarray(res)
    if a.dtype == object:
        return {"flat": [_enc(e) for e in a], "dts": _dtnames([a])}
    return {"flat": [_enc(e) for e in (a.reshape(-1) if a.ndim <= 1 else a)], "dts": _dtnames([a])}


def _tread(x, c, ixobj, canon, where, mk):
    """the case's read on x (the RaggedArray, or the reference rows wrapped by `mk`)"""
    ix = c["idx"]
    try:
        if ix["k"] == "mask":
            m = mk([list(r) for r in ix["m"]])
            out = canon(x[m])
            wr, wc = where(m)
            out["where"] = [[int(v) for v in wr], [int(v) for v in wc]]
            return out
        return canon(x[ixobj])
    except _Bad as ex:
        return {"err": "Bad", "msg": str(ex)[:300]}
    except Exception as ex:
        return {"err": type(ex).__name__, "msg": str(ex)[:200]}


def _trun(c):
    from enspara.ra import ra as ramod
    from enspara.ra.ra import RaggedArray
    try:
        a, _ = _tbuild(c)
    except Exception as ex:
        return {"err": "ctor:" + type(ex).__name__, "msg": str(ex)[:200]}
    if c["idx"]["k"] == "attrs":
        try:
            n = len(a.lengths)
            return {"lengths": [int(x) for x in a.lengths], "starts": [int(x) for x in a.starts],
                    "shape": [None if x is None else int(x) for x in a.shape], "size": int(a.size), "len": len(a),
                    "iter": [[_enc(e) for e in r] for r in a], "rows": [[_enc(e) for e in a[i]] for i in range(n)],
                    "flatten": [_enc(e) for e in a.flatten()], "dtype": str(a.dtype),
                    "dts": _dtnames([r for r in a] + [a[i] for i in range(n)] + [a.flatten()])}
        except _Bad as ex:
            return {"err": "Bad", "msg": str(ex)[:300]}
        except Exception as ex:
            return {"err": type(ex).__name__, "msg": str(ex)[:200]}
    ixobj = None if c["idx"]["k"] == "mask" else _py_index(c)
    return _tread(a, c, ixobj, _tcanon, ramod.where, RaggedArray)


def run_impl(c):
    if "el" in c:
        return _trun(c)
    w = c["w"]
    try:
        a, rows, flat = _build(c)
    except Exception as ex:
        return {"err": "ctor:" + type(ex).__name__, "msg": str(ex)[:200]}
    ix = c["idx"]
    if ix["k"] == "attrs":
        try:
            shp = a.shape
            return {"lengths": [int(x) for x in a.lengths], "starts": [int(x) for x in a.starts],
                    "shape": [None if x is None else int(x) for x in shp], "size": int(a.size), "len": len(a),
                    "iter": _rows_of([r for r in a], w),
                    "flatten": [int(x) for x in a.flatten()],
                    "dtype_ok": bool(a.dtype == flat.dtype),
                    "dtk": _kinds([r for r in a] + [a[i] for i in range(len(a.lengths))] + [a.flatten()])}
        except _Bad as ex:
            return {"err": "Bad", "msg": str(ex)[:300]}
        except Exception as ex:
            return {"err": type(ex).__name__, "msg": str(ex)[:200]}
    ixobj = None if ix["k"] == "mask" else _py_index(c)
    before = _snap(ixobj) if ixobj is not None else None
    out = _read(a, c, ixobj)
    if "again" in c:
        # the same index objects, a second array
        try:
            a2, _, _ = _build(c, c["again"]["lens"])
        except Exception as ex:
            out["again"] = {"err": "ctor:" + type(ex).__name__}
        else:
            out["again"] = _read(a2, c, ixobj)
    if ixobj is not None and _snap(ixobj) != before:
        out["argmod"] = "index %r is %r after the read" % (before, _snap(ixobj))
    return out


# ----------------------------------------------------------------------------- oracle: list of rows
def _reference(c, lens=None):
    """The same read on a plain list of per-row arrays (ids instead of elements)."""
    if lens is None:
        lens, vals = c["lens"], _vals(c)
    else:
        vals = list(range(sum(lens)))
    rows, s = [], 0
    for l in lens:
        rows.append(np.array(vals[s:s + l], dtype=int))
        s += l
    ix = c["idx"]
    k = ix["k"]
    try:
        if k == "attrs":
            starts = [sum(lens[:i]) for i in range(len(lens))]
            rect = all(l == lens[0] for l in lens)
            shape = [len(lens), lens[0] if rect else None] + ([c["w"]] if c["w"] else [])
            flat = vals if c["w"] == 0 else [v + 1000 * i for v in vals for i in range(c["w"])]
            return {"lengths": list(lens), "starts": starts, "shape": shape,
                    "size": len(vals) * max(1, c["w"]), "len": len(lens), "iter": [r.tolist() for r in rows],
                    "flatten": flat, "dtype_ok": True}
        if k == "row":
            return {"flat": rows[ix["r"]].tolist()}
        if k == "rows":
            return {"ra": [r.tolist() for r in rows[_sl(ix["sl"])]]}
        if k == "rowlist":
            return {"ra": [rows[r].tolist() for r in ix["rs"]]}
        if k == "elem":
            return {"flat": [int(rows[ix["r"]][ix["c"]])]}
        if k == "pairs":
            return {"flat": [int(rows[r][cc]) for r, cc in _bpairs(ix["rs"], ix["cs"])]}
        if k == "pairs_scalar":
            return {"flat": [int(rows[r][ix["c"]]) for r in ix["rs"]]}
        if k == "elem_list":
            return {"flat": [int(rows[ix["r"]][cc]) for cc in ix["cs"]]}
        if k == "rowsl":
            return {"flat": rows[ix["r"]][_sl(ix["sl"])].tolist()}
        if k == "mask":
            fl = [int(v) for r, m in zip(rows, ix["m"]) for v in r[np.array(m, dtype=bool)]]
            wr = [i for i, m in enumerate(ix["m"]) for b in m if b]
            wc = [j for m in ix["m"] for j, b in enumerate(m) if b]
            return {"flat": fl, "where": [wr, wc]}
        if k == "sl2":
            rs, cs = ix["rsel"], ix["csel"]
            sel = rows[_sl(rs["sl"])] if "sl" in rs else [rows[r] for r in rs["list"]]
            if "sl" in cs:
                return {"ra": [r[_sl(cs["sl"])].tolist() for r in sel]}
            if "int" in cs:
                return {"ra": [[int(r[cs["int"]])] for r in sel]}
            return {"ra": [[int(r[cc]) for cc in cs["list"]] for r in sel]}
    except IndexError:
        return {"err": "IndexError"}
    raise KeyError(k)


def _bpairs(rs, cs):
    """NumPy pairs two index vectors by broadcasting: equally long element by element, a one-entry vector
    against every entry of the other (other pairs of lengths are not generated)."""
    if len(rs) != len(cs):
        assert 1 in (len(rs), len(cs)), (rs, cs)
        if len(cs) == 1:
            cs = list(cs) * len(rs)
        else:
            rs = list(rs) * len(cs)
    return list(zip(rs, cs))


def _key(c):
    ix = c["idx"]
    k = ix["k"]
    if k == "sl2":
        return "sl2-%s-%s" % ("slice" if "sl" in ix["rsel"] else "list",
                              "slice" if "sl" in ix["csel"] else ("int" if "int" in ix["csel"] else "list"))
    return k


def _strip(r):
    return {k: v for k, v in r.items() if k != "msg"}


def _short(x):
    t = str(x)
    return t if len(t) < 700 else t[:340] + " ... " + t[-340:]


def _lens_str(lens):
    if len(lens) < 40:
        return str(list(lens))
    return "<%d rows of lengths %d..%d, %d elements: %s ...>" % (len(lens), min(lens), max(lens), sum(lens), str(list(lens[:12]))[:-1])


def _opts(c):
    return " ".join("%s=%s" % (k, c[k]) for k in ("lay", "copy", "ldt", "ixdt", "ixview", "sdt") if k in c)


def _tref(c):
    """the same read on the plain list of per-row numpy arrays"""
    _, rows = _tgiven(c)
    ix, k = c["idx"], c["idx"]["k"]
    lens = c["lens"]
    dt = _dtnames(rows)

    def ra(rs):
        rs = [[_enc(e) for e in r] for r in rs]
        ls = [len(r) for r in rs]
        return {"ra": rs, "shape2": [len(rs), (ls[0] if all(l == ls[0] for l in ls) else None) if rs else None],
                "dts": dt if any(ls) else []}

    def fl(es):
        es = [_enc(e) for e in es]
        return {"flat": es, "dts": dt if es else []}
    try:
        if k == "attrs":
            rect = all(l == lens[0] for l in lens)
            third = [None] if c.get("okind") == "rag3" else ([c["w"]] if c["w"] else [])
            whole = np.concatenate(rows)
            return {"lengths": list(lens), "starts": [sum(lens[:i]) for i in range(len(lens))],
                    "shape": [len(lens), lens[0] if rect else None] + third, "size": int(sum(r.size for r in rows)),
                    "len": len(lens), "iter": [[_enc(e) for e in r] for r in rows],
                    "rows": [[_enc(e) for e in r] for r in rows], "flatten": [_enc(e) for e in whole.reshape(-1)],
                    "dtype": str(whole.dtype), "dts": dt}
        if k == "row":
            return fl(rows[ix["r"]])
        if k == "rows":
            return ra(rows[_sl(ix["sl"])])
        if k == "rowlist":
            return ra([rows[r] for r in ix["rs"]])
        if k == "elem":
            return fl([rows[ix["r"]][ix["c"]]])
        if k == "pairs":
            return fl([rows[r][cc] for r, cc in _bpairs(ix["rs"], ix["cs"])])
        if k == "pairs_scalar":
            return fl([rows[r][ix["c"]] for r in ix["rs"]])
        if k == "elem_list":
            return fl([rows[ix["r"]][cc] for cc in ix["cs"]])
        if k == "rowsl":
            return fl(rows[ix["r"]][_sl(ix["sl"])])
        if k == "mask":
            out = fl([v for r, m in zip(rows, ix["m"]) for v in r[np.array(m, dtype=bool)]])
            out["where"] = [[i for i, m in enumerate(ix["m"]) for b in m if b],
                            [j for m in ix["m"] for j, b in enumerate(m) if b]]
            return out
        if k == "sl2":
            rs, cs = ix["rsel"], ix["csel"]
            sel = rows[_sl(rs["sl"])] if "sl" in rs else [rows[r] for r in rs["list"]]
            if "sl" in cs:
                return ra([r[_sl(cs["sl"])] for r in sel])
            if "int" in cs:
                return ra([[r[cs["int"]]] for r in sel])
            return ra([[r[cc] for cc in cs["list"]] for r in sel])
    except IndexError:
        return {"err": "IndexError"}
    raise KeyError(k)


def _tdesc(c):
    if c["el"] == "mixed":
        return "rows of dtypes %s (%s), values %s" % (
            ["list" if d is None else d for d in c["rowdt"]], "Python lists" if c["ctor"] == "nested" else "ndarrays",
            _short(c["rvals"]))
    return "dtype=object data (%s, ctor %s), rows %s" % (c["okind"], c["ctor"], _short(c["rvals"]))


def _toracle(c, r):
    exp = _tref(c)
    got = _strip(r)
    if got == exp:
        return []
    what = _tdesc(c)
    out = []
    if "err" in got or "err" in exp:
        return [(_key(c), "%s, idx %s: implementation %s, list of rows %s" % (what, c["idx"], _short(got), _short(exp)))]
    if c["idx"]["k"] == "attrs":
        for f, key in (("shape", "attrs-shape"), ("size", "attrs-size"), ("dtype", "attrs-dtype"), ("dts", "row-dtype")):
            if got.get(f) != exp.get(f):
                out.append((key, "%s: %s is %s; the list of rows gives %s" % (what, f, got.get(f), exp.get(f))))
        rest = ("lengths", "starts", "len", "iter", "rows", "flatten")
        if any(got.get(f) != exp.get(f) for f in rest) or not out:
            out.append(("attrs", "%s: implementation %s, list of rows %s" % (
                what, _short({f: got.get(f) for f in rest}), _short({f: exp.get(f) for f in rest}))))
        return out
    vg = {f: v for f, v in got.items() if f not in ("dts", "shape2")}
    ve = {f: v for f, v in exp.items() if f not in ("dts", "shape2")}
    if vg != ve or not _same_types(vg, ve):
        out.append((_key(c), "%s, idx %s: implementation %s, list of rows %s" % (what, c["idx"], _short(got), _short(exp))))
    if got.get("dts") != exp.get("dts"):
        out.append(("row-dtype", "%s, idx %s: the arrays returned (rows as stored / iterated / read by a[i], flat data) "
                    "have dtypes %s; the rows of the list of rows have %s" % (what, c["idx"], got.get("dts"), exp.get("dts"))))
    if got.get("shape2") != exp.get("shape2"):
        out.append(("result-shape", "%s, idx %s: the RaggedArray read has rows %s and reports shape %s; the list of rows "
                    "gives %s" % (what, c["idx"], _short(got.get("ra")), got.get("shape2"), exp.get("shape2"))))
    if not out:
        out.append((_key(c), "%s, idx %s: implementation %s, list of rows %s" % (what, c["idx"], _short(got), _short(exp))))
    return out


def _same_types(a, b):
    """equal JSON values whose scalars also have the same Python type (True == 1 == 1.0 otherwise)"""
    if isinstance(a, dict) and isinstance(b, dict):
        return a.keys() == b.keys() and all(_same_types(a[k], b[k]) for k in a)
    if isinstance(a, list) and isinstance(b, list):
        return len(a) == len(b) and all(_same_types(x, y) for x, y in zip(a, b))
    return type(a) is type(b) and a == b


def oracle(c, r):
    if "el" in c:
        return _toracle(c, r)
    out = []
    exp = _reference(c)
    got = {k: v for k, v in _strip(r).items() if k not in ("again", "argmod", "dtk")}
    for rr, which in ((r, ""), (r.get("again", {}), " (second read)")):
        if rr.get("dtk") not in (None, [], ["i"]):
            out.append(("row-dtype", "lens %s ctor %s w %d %s idx %s%s: the arrays returned (rows as stored / iterated / "
                        "read by a[i], flat data) have dtype kinds %s; the rows of the list-of-rows model are integer "
                        "arrays like the data put in" % (_lens_str(c["lens"]), c["ctor"], c["w"],
                                                         _opts(c), c["idx"], which, rr["dtk"])))
    lens = _lens_str(c["lens"])
    if got != exp:
        out.append((_key(c), "lens %s ctor %s w %d %s idx %s: implementation %s, list of rows %s" % (
            lens, c["ctor"], c["w"], _opts(c), c["idx"], _short(got), _short(exp))))
    if "again" in c:
        exp2 = _reference(c, c["again"]["lens"])
        got2 = {k: v for k, v in _strip(r.get("again", {})).items() if k != "dtk"}
        if got2 != exp2:
            out.append((_key(c), "index objects of a read on an array with lengths %s used again: lens %s ctor %s w %d "
                        "%s idx %s: implementation %s, list of rows %s" % (
                            lens, c["again"]["lens"], c["ctor"], c["w"], _opts(c), c["idx"], _short(got2),
                            _short(exp2))))
    if "argmod" in r:
        out.append(("index-argument-modified", "lens %s ctor %s w %d %s idx %s: %s (reading a list of rows leaves "
                    "the index as it was)" % (lens, c["ctor"], c["w"], _opts(c), c["idx"], r["argmod"])))
    return out


# ----------------------------------------------------------------------------- Coq side
def _cslice(t):
    return "(%s, %s, %s)" % (copt(t[0], cz, "Z"), copt(t[1], cz, "Z"), copt(t[2], cz, "Z"))


def _czl(xs):
    return clist(xs, cz, "Z")


def _cidx(ix):
    k = ix["k"]
    if k == "row":
        return "(Row %s)" % cz(ix["r"])
    if k == "rows":
        return "(Rows %s)" % _cslice(ix["sl"])
    if k == "rowlist":
        return "(RowList %s)" % _czl(ix["rs"])
    if k == "elem":
        return "(Elem %s %s)" % (cz(ix["r"]), cz(ix["c"]))
    if k == "pairs":
        return "(Pairs %s %s)" % (_czl(ix["rs"]), _czl(ix["cs"]))
    if k == "pairs_scalar":
        return "(PairsScalar %s %s)" % (_czl(ix["rs"]), cz(ix["c"]))
    if k == "elem_list":
        return "(ElemList %s %s)" % (cz(ix["r"]), _czl(ix["cs"]))
    if k == "rowsl":
        return "(RowSl %s %s)" % (cz(ix["r"]), _cslice(ix["sl"]))
    if k == "mask":
        return "(Mask %s)" % clist(ix["m"], lambda m: clist(m, cb, "bool"), "(list bool)")
    if k == "sl2":
        rs, cs = ix["rsel"], ix["csel"]
        if "sl" in rs and "sl" in cs:
            return "(Sl2SS %s %s)" % (_cslice(rs["sl"]), _cslice(cs["sl"]))
        if "list" in rs and "sl" in cs:
            return "(Sl2LS %s %s)" % (_czl(rs["list"]), _cslice(cs["sl"]))
        if "sl" in rs and "int" in cs:
            return "(Sl2SI %s %s)" % (_cslice(rs["sl"]), cz(cs["int"]))
        if "sl" in rs and "list" in cs:
            return "(Sl2SL %s %s)" % (_cslice(rs["sl"]), _czl(cs["list"]))
    raise KeyError(k)


def _cconc(c, lens=None):
    if lens is not None:
        return "(mkRA %s %s)" % (_czl(list(range(sum(lens)))), clist(lens, cn, "nat"))
    return "(mkRA %s %s)" % (_czl(_vals(c)), clist(c["lens"], cn, "nat"))


def _cres(r):
    if "ra" in r:
        return "(Val %s)" % clist(r["ra"], _czl, "(list Z)")
    if "flat" in r:
        return "(Flat %s)" % _czl(r["flat"])
    return None


COQ_MAX = 600      # arrays with more elements are checked by the oracle only (literal size)


def _cread(c, conc, r):
    """model = implementation for one read (hand-written model get_c and regenerated get_g)."""
    if "err" in r:
        if r["err"] == "IndexError":
            return "result_eqb (get_c %s %s) Err && result_eqb (get_g %s %s) Err" % (
                conc, _cidx(c["idx"]), conc, _cidx(c["idx"]))
        return "false"
    t = "result_eqb (get_c %s %s) %s && result_eqb (get_g %s %s) %s" % (
        conc, _cidx(c["idx"]), _cres(r), conc, _cidx(c["idx"]), _cres(r))
    if c["idx"]["k"] == "mask":
        m = clist(c["idx"]["m"], lambda m: clist(m, cb, "bool"), "(list bool)")
        wr, wc = clist(r["where"][0], cn, "nat"), clist(r["where"][1], cn, "nat")
        t = "(%s) && where_eqb (where_c %s) %s %s && where_g_eqb (where_g %s) %s %s" % (t, m, wr, wc, m, wr, wc)
    return t


def coq_check(c, r):
    if sum(c["lens"]) > COQ_MAX or "el" in c:       # the model works over Z: typed elements are judged by the oracle
        return None
    conc = _cconc(c)
    if c["idx"]["k"] == "attrs":
        if "err" in r:
            return "false"
        shape2 = r["shape"][1]
        if any(x < 0 for x in r["starts"] + r["lengths"]):
            return "false"
        return ("check_attrs %s %s %s %s %s %s %s %s && zlist_eqb (gen_starts %s) %s" % (
            conc, clist(r["lengths"], cn, "nat"), clist(r["starts"], cn, "nat"), cn(r["len"]),
            copt(shape2, cn, "nat"), cn(r["size"] // max(1, c["w"])), clist(r["iter"], _czl, "(list Z)"),
            _czl(r["flatten"][::max(1, c["w"])]), _czl(r["lengths"]), _czl(r["starts"])))
    # every read is evaluated on the hand-written model (get_c) and on the read assembled from the
    # definitions regenerated from the current source (get_g)
    t = _cread(c, conc, r)
    if "again" in c:
        t = "(%s) && (%s)" % (t, _cread(c, _cconc(c, c["again"]["lens"]), r.get("again", {"err": "missing"})))
    if "argmod" in r:
        return "false"      # the model's read has no effect on the index
    return t


def coq_show(c):
    if c["idx"]["k"] == "attrs":
        return "show_attrs %s" % _cconc(c)
    return "(get_c %s %s, get_g %s %s)" % (_cconc(c), _cidx(c["idx"]), _cconc(c), _cidx(c["idx"]))


def nontrivial(c, r):
    if len(c["lens"]) < 2 or c["idx"]["k"] == "attrs":
        return len(c["lens"]) >= 2
    if "el" in c:
        return "err" in r or len(r.get("flat") if "flat" in r else [e for row in r["ra"] for e in row]) > 0
    if "err" in r:
        return True
    vals = r.get("flat") if "flat" in r else [e for row in r["ra"] for e in row]
    return 0 < len(vals) < len(_vals(c)) or (len(vals) > 0 and vals != _vals(c))


def _ix_tags(c):
    """honest account of the index dtypes: which vectors / scalars are held in which dtype, and whether resolving
    them leaves that dtype's range (negative row + number of rows, negative column + row length, row start +
    column beyond the dtype's maximum)."""
    ix, k = c["idx"], c["idx"]["k"]
    q = ix.get("np")
    vdt, sdt = c.get("ixdt"), c.get("sdt")
    t = []
    rdt = cdt = None
    pairs = []
    if k == "pairs":
        rdt, cdt = (vdt if q in (True, "r") else None), (vdt if q in (True, "c") else None)
        pairs = _bpairs(ix["rs"], ix["cs"])
        if len(ix["rs"]) != len(ix["cs"]):
            t.append("pairs-broadcast-col" if len(ix["cs"]) == 1 else "pairs-broadcast-row")
        elif len(ix["rs"]) == 1:
            t.append("pairs-one-one")
        if q in ("r", "c"):
            t.append("idx-mixed-list-ndarray")
    elif k == "pairs_scalar":
        rdt, cdt = (vdt if q else None), sdt
        pairs = [(r, ix["c"]) for r in ix["rs"]]
        if len(ix["rs"]) == 1:
            t.append("pairs-scalar-one-row")
    elif k == "elem_list":
        rdt, cdt = sdt, (vdt if q else None)
        pairs = [(ix["r"], x) for x in ix["cs"]]
        if len(ix["cs"]) == 1:
            t.append("elem-list-one-col")
    elif k == "elem":
        rdt = cdt = sdt
        pairs = [(ix["r"], ix["c"])]
    elif k == "sl2":
        if "list" in ix["rsel"]:
            rdt = vdt if q else None
            pairs = [(r, 0) for r in ix["rsel"]["list"]]
        if "list" in ix["csel"] and q:
            t.append("idx-col-" + str(vdt or "int64"))
    elif k in ("rowlist",):
        rdt = vdt if q else None
        pairs = [(r, 0) for r in ix["rs"]]
    elif k in ("row", "rowsl"):
        rdt = sdt
        pairs = [(ix["r"], 0)]
    if sdt:
        t.append("idx-scalar-" + sdt)
    if not (rdt or cdt):
        return t
    lens = c["lens"]
    nr = len(lens)
    starts = [0]
    for l in lens[:-1]:
        starts.append(starts[-1] + l)
    for r, cc in pairs:
        if rdt and r < 0 and r + nr > IXR[rdt][1]:
            t.append("ix-negrow-leaves-" + rdt)
        r1 = r + nr if r < 0 else r
        if not 0 <= r1 < nr:
            continue
        if rdt and r1 > 127:
            t.append("ix-row-beyond-127")
        L = lens[r1]
        if cdt and cc < 0 and cc + L > IXR[cdt][1]:
            t.append("ix-negcol-leaves-" + cdt)
        c1 = cc + L if cc < 0 else cc
        if cdt and 0 <= c1 < L and starts[r1] + c1 > IXR[cdt][1]:
            t.append("ix-offset-leaves-" + cdt)
    return t


def _typed_tags(c, r):
    t = ["el-" + c["el"], "oracle-only-typed"]
    rect = all(l == c["lens"][0] for l in c["lens"])
    if c["el"] == "mixed":
        narrow, wide, order = c["mix"]
        t.append("mixed-" + order)
        t.append("mixed-python-lists" if c["ctor"] == "nested" else "mixed-ndarray-rows")
        if order == "narrow-first":
            t.append("mixed-later-row-wider")
            kn, kw = np.dtype(narrow).kind, np.dtype(wide).kind
            if kn in "iu" and kw == "f":
                t.append("mixed-int-then-float")
            elif kn == "b" and kw in "iu":
                t.append("mixed-bool-then-int")
            elif kn == "b":
                t.append("mixed-bool-then-float")
            elif kn in "iu":
                t.append("mixed-narrow-int-then-wide-int")
                if any(isinstance(v, int) and not IXR[narrow][0] <= v <= IXR[narrow][1]
                       for row in c["rvals"] for e in row for v in (e if isinstance(e, list) else [e])):
                    t.append("mixed-value-beyond-first-row-dtype")
            else:
                t.append("mixed-float32-then-float64")
            if c["w"]:
                t.append("mixed-later-row-wider-vector-elements")
    else:
        t.append("obj-" + c["okind"])
        t.append("obj-rect" if rect else "obj-ragged")
        if len(c["lens"]) == 1:
            t.append("obj-single-row")
        if c["idx"]["k"] == "attrs":
            t.append("obj-attrs-rect" if rect else "obj-attrs-ragged")
            if rect:
                t.append("obj-attrs-rect-" + c["okind"])
        elif "ra" in r and r.get("shape2", [0, None])[1] is not None and r["shape2"][0] > 0:
            t.append("obj-read-gives-equal-rows")
    return t


def tags(c, r):
    t = [_key(c), "ctor-" + c["ctor"], "w%d" % c["w"]] + _ix_tags(c)
    t.append("rect" if all(l == c["lens"][0] for l in c["lens"]) else "ragged")
    if c.get("lay"):
        t.append("lay-" + c["lay"])
    if c.get("copy") is False:
        t.append("ctor-copy-false")
    if c.get("ldt"):
        t.append("ldt-" + c["ldt"])
        if c["ldt"] in RANGE and sum(c["lens"][:-1]) > RANGE[c["ldt"]]:
            t.append("lens-total-exceeds-dtype")
            t.append("lens-total-exceeds-" + c["ldt"])
    if c["idx"].get("np"):
        ixv = c["idx"]
        ents = [x for key in ("rs", "cs") for x in ixv.get(key, [])] + \
            [x for sel in (ixv.get("rsel", {}), ixv.get("csel", {})) for x in sel.get("list", [])]
        if any(x < 0 for x in ents):
            t.append("idx-ndarray-negative")
        if c.get("ixview"):
            t.append("idx-ndarray-view")
        if c.get("ixdt"):
            t.append("idx-" + c["ixdt"])
    if "again" in c:
        t.append("idx-reused-on-second-array")
    if "el" in c:
        t += _typed_tags(c, r)
    if sum(c["lens"]) > COQ_MAX:
        t.append("oracle-only-large")
    if r.get("dtk"):
        t.append("dtype-kind-compared")
    if "err" in r:
        t.append("err-" + r["err"])
        if c["idx"]["k"] in ("elem", "pairs", "pairs_scalar", "elem_list"):
            t.append("elem-oob-error")
    if "ra" in r and any(len(x) == 0 for x in r["ra"]):
        t.append("result-has-empty-row")
    if "ra" in r and len(r["ra"]) == 0:
        t.append("result-no-rows")
    ix = c["idx"]
    sls = []
    if ix["k"] in ("rows", "rowsl"):
        sls.append(ix["sl"])
    if ix["k"] == "sl2":
        for s in (ix["rsel"], ix["csel"]):
            if "sl" in s:
                sls.append(s["sl"])
    for s in sls:
        if s[2] is not None and s[2] < 0:
            t.append("neg-step")
        if s[0] is not None and s[0] < 0:
            t.append("neg-start")
        if s[1] is not None and s[1] < 0:
            t.append("neg-stop")
    return sorted(set(t))


ESSENTIAL_TAGS = ["row", "rows", "rowlist", "elem", "pairs", "pairs_scalar", "elem_list", "rowsl", "mask", "attrs",
                  "sl2-slice-slice", "sl2-list-slice", "sl2-slice-int", "sl2-slice-list", "neg-step", "neg-start",
                  "neg-stop", "elem-oob-error", "result-has-empty-row", "rect", "ragged",
                  "ctor-nested", "ctor-nested_np", "ctor-flat", "ctor-flat_np",
                  "lay-F", "lay-T", "lay-rowstr", "lay-colstr", "lay-neg", "lay-negcol", "lay-str", "ctor-copy-false",
                  "ldt-int8", "ldt-uint8", "ldt-int16", "ldt-uint16", "lens-total-exceeds-dtype",
                  "lens-total-exceeds-int8", "lens-total-exceeds-uint8", "lens-total-exceeds-int16",
                  "lens-total-exceeds-uint16", "idx-ndarray-negative", "idx-ndarray-view",
                  "idx-reused-on-second-array", "dtype-kind-compared",
                  "idx-int8", "idx-uint8", "idx-int16", "idx-uint16", "idx-int32", "idx-uint32", "idx-uint64",
                  "idx-scalar-int8", "idx-scalar-uint8", "idx-scalar-int16", "idx-scalar-uint16", "idx-scalar-int32",
                  "ix-negcol-leaves-int8", "ix-negrow-leaves-int8", "ix-negcol-leaves-int16", "ix-negrow-leaves-int16",
                  "ix-offset-leaves-int8", "ix-offset-leaves-uint8", "ix-offset-leaves-int16", "ix-offset-leaves-uint16",
                  "ix-row-beyond-127", "pairs-broadcast-col", "pairs-broadcast-row", "pairs-one-one",
                  "pairs-scalar-one-row", "elem-list-one-col", "idx-mixed-list-ndarray",
                  "el-mixed", "mixed-later-row-wider", "mixed-wide-first", "mixed-uniform", "mixed-python-lists",
                  "mixed-ndarray-rows", "mixed-int-then-float", "mixed-bool-then-int", "mixed-bool-then-float",
                  "mixed-narrow-int-then-wide-int", "mixed-value-beyond-first-row-dtype", "mixed-float32-then-float64",
                  "mixed-later-row-wider-vector-elements",
                  "el-obj", "obj-bigint", "obj-frac", "obj-objflat", "obj-rag3", "obj-rect", "obj-ragged",
                  "obj-single-row", "obj-attrs-rect", "obj-attrs-ragged", "obj-attrs-rect-bigint", "obj-attrs-rect-frac",
                  "obj-attrs-rect-objflat", "obj-attrs-rect-rag3", "obj-read-gives-equal-rows"]


def search(rng, tier):
    out = []
    for c in _streams(rng, "quick") + _small_scope(rng)[::7] + _random_cases(rng, 3000):
        r = run_impl(c)
        for key, msg in oracle(c, r):
            out.append((key, msg, c, r))
            if len(out) > 20:
                return out
    return out
