"""C05: reading a ragged array equals reading the list of its rows.

Case  = {"lens": [..], "vals": [..flat ints..], "ctor": nested|nested_np|flat|flat_np, "w": 0|k (element width,
         0 = scalar elements), "idx": {...}}
idx   = {"k": "row", "r": z} | {"k": "rows", "sl": [s,e,st]} | {"k": "rowlist", "rs": [..], "np": bool}
      | {"k": "elem", "r": z, "c": z} | {"k": "pairs", "rs": [..], "cs": [..], "np": bool}
      | {"k": "pairs_scalar", "rs": [..], "c": z} | {"k": "elem_list", "r": z, "cs": [..]}
      | {"k": "sl2", "rsel": {"sl": [..]} | {"list": [..]}, "csel": {"sl": [..]} | {"int": z} | {"list": [..]}}
      | {"k": "rowsl", "r": z, "sl": [..]} | {"k": "mask", "m": [[bool]]} | {"k": "attrs"}
Result = {"ra": rows} (a RaggedArray: list of rows) | {"flat": [..]} | {"err": name}
         attrs: {"lengths","starts","shape","size","len","iter","flatten","dtype_ok"}.
Optional fields (round 3s streams; absent = the defaults of the original streams):
  "vals": None    the flat data is 0..n-1 (large arrays);
  "lay":  memory layout of the flat data handed to the constructor: C | F | T (transposed view of a features x frames
          array) | rowstr | colstr (strided views) | neg | negcol (negative strides); 1-D data: C | str | neg;
  "copy": False   RaggedArray(..., copy=False) for the flat constructors;
  "ldt":  dtype of the lengths ndarray (ctor flat_np): int8 .. uint64 -- the running total of the lengths may exceed
          the range of that dtype although every length fits;
  "ixdt": dtype of ndarray index arrays; "ixview": True = the index arrays are columns of one 2-D table (views);
  "again": {"lens": [..]}  the SAME index objects are used for a second read, on a second array with these lengths.
Result may carry "argmod" (an index object passed to __getitem__ was changed by the read) and "again" (second read).
Elements of width w > 0 are the vectors [v, v+1000, .., v+1000(w-1)]; they are canonicalised back to v (after
checking the pattern), so the model works over Z throughout.
"""
import itertools
import os
import sys
import numpy as np
from core import cz, cn, cb, clist, copt, VERIF
sys.path.insert(0, os.path.join(VERIF, "translator"))
import tr_ragged

PID = "C05"
PROPS_FILE = "Props/C05.v"
MODEL_TARGETS = ["Model/Ragged.vo", "Gen/RaGen.vo", "Model/RaggedGen.vo"]
GEN_FILES = ["Gen/RaGen.v"]
CASE_HEADER = ("From Coq Require Import List ZArith Bool.\n"
               "From EV Require Import PySlice RaBase RaGen Ragged RaggedGen.\n"
               "Import ListNotations.\n")
RULE = ("thorough: exhaustive small scope -- all 84 length vectors with <= 3 rows of length 1..4; for each: every "
        "single row index and (row, col) element with indices in -5..5; every row slice a[s:e:k] and every 2-D slice "
        "a[:, s:e:k] with s,e in {None,-5..5}, k in {None,+-1,+-2,+-3}; every a[r, s:e:k] for valid r is sampled "
        "(numpy-handled); row-slice/row-list x column slice/int/list combinations, paired fancy indices and boolean "
        "masks are sampled (600 per vector) because their product space is too large; constructors alternate between "
        "nested lists / list of arrays / flat+lengths list / flat+lengths ndarray. Plus random arrays up to 6 rows x "
        "12 with scalar and 2-/3-wide elements. quick: 3000 of the small-scope reads plus 600 random ones. "
        "every read is evaluated twice in Coq: on the hand-written model (get_c) and on the read assembled from "
        "the definitions regenerated from the current ra.py (get_g: gen_conv2d, gen_starts, gen_slice_to_list, "
        "gen_conv1d, gen_iis_from_*); attrs cases also compare gen_starts with the real starts. "
        "Round-3s streams (quick 500/136/300, thorough 5000/1040+/3000 cases), every read form of the property on each: "
        "(layout) flat data and rows that are not C-contiguous -- column-major, transposed view of a features x frames "
        "array, row- and column-strided views, negative strides; elements of width 2 and 3 and scalars; equal lengths "
        "(rectangular branch) as often as unequal ones, lengths as list and as ndarray, copy=True and copy=False; "
        "(narrow lengths) lengths as int8 / uint8 / int16 / uint16 ndarrays whose running total exceeds the dtype's "
        "range (16-bit cases have tens of thousands of elements and are judged by the oracle only, tag "
        "oracle-only-large), plus every integer dtype without a wrap; (index arguments) index objects that are ndarrays "
        "of int8..int64 with negative entries, also two columns of one table (views): the objects must be unchanged "
        "after the read and are used again for a second read on an array with other row lengths. "
        "non-trivial := at least 2 rows, and the read either succeeds with a non-empty result that is not the "
        "whole array or is an error case")
TRUSTED = ["translator/tr_ragged.py + translator/py2coq.py: _slice_to_list whole (dynamic int-or-None fragment); the scalar "
           "tests/wraps/offsets of _handle_negative_indices, _convert_from_2d, _convert_from_1d and the starts "
           "expression translated; the NumPy statement shapes recognised and plugged into the per-element "
           "skeletons of Base/RaBase.v; _get_iis_from_slices/_get_iis_from_list/where and the call sites in "
           "__getitem__ pinned as text (any other shape: rejected)",
           "modelled not verified: slice.indices, range, NumPy broadcasting of the two index vectors",
           "modelled not verified: NumPy basic/fancy indexing of the row-object array (_array[i], _array[slice], "
           "_array[list]) and of the flat data (_data[flat indices]), np.cumsum, np.where, np.concatenate",
           "harness canonicalisation: a RaggedArray result is read back through its rows (_array), its flat data "
           "and its lengths, and these three must agree"]
ASSUMPTIONS = ["row lengths are positive in the arrays being read (property wording); a read may return empty rows",
               "element types: all data are platform integers; of the dtype of what a read returns the KIND is compared "
               "(numpy dtype.kind, here 'i'): for an ndarray result the kind of that array; for a RaggedArray result the "
               "kinds of every stored row (_array), every iterated row, every row read back by result[i], and of the flat "
               "data; for attrs the kinds of the iterated rows, of a[i] for every i and of flatten(). Arrays without "
               "elements are skipped (their dtype is not determined by the data). Itemsize / byte order are not compared",
               "index lists are non-empty integer lists; the two lists of a paired index have equal length"]
EXHAUSTIVE = {"thorough": True, "quick": False}
SHARD = 400

STEPS = [None, 1, -1, 2, -2, 3, -3]
BND = [None] + list(range(-5, 6))
CTORS = ["nested", "nested_np", "flat", "flat_np"]


def translate(repo):
    return tr_ragged.translate(repo)


# ----------------------------------------------------------------------------- generation
def _all_slices():
    return [[s, e, k] for s in BND for e in BND for k in STEPS]


def _rand_slice(rng, lo=-6, hi=6):
    def b():
        return None if rng.random() < 0.3 else rng.randint(lo, hi)
    return [b(), b(), rng.choice(STEPS)]


def _rand_list(rng, n, lo, hi, minlen=1, maxlen=3):
    return [rng.randint(lo, hi) for _ in range(rng.randint(minlen, maxlen))]


def _mk(lens, ctor, w, idx, vals=None, **extra):
    n = sum(lens)
    if vals is None and n <= 600:
        vals = list(range(n))
    c = {"lens": list(lens), "vals": vals, "ctor": ctor, "w": w, "idx": idx}
    for k, v in extra.items():
        if v is not None:
            c[k] = v
    return c


def _vals(c):
    return list(range(sum(c["lens"]))) if c["vals"] is None else c["vals"]


def _sampled_idx(rng, lens, forms=None):
    """One index from the big product forms."""
    n = len(lens)
    L = max(lens)
    form = rng.choice(forms or ["sl2_ss", "sl2_ss", "sl2_ls", "sl2_ls", "sl2_si", "sl2_sl", "pairs", "pairs",
                                "pairs_scalar", "elem_list", "rowlist", "mask", "rowsl"])
    rlo, rhi = -n - 1, n
    clo, chi = -L - 1, L
    if rng.random() < 0.6:   # mostly valid
        rlo, rhi, clo, chi = -n, n - 1, -min(lens), min(lens) - 1
    if form == "sl2_ss":
        return {"k": "sl2", "rsel": {"sl": _rand_slice(rng, -n - 1, n + 1)}, "csel": {"sl": _rand_slice(rng, -L - 1, L + 1)}}
    if form == "sl2_ls":
        return {"k": "sl2", "rsel": {"list": _rand_list(rng, n, rlo, rhi)}, "csel": {"sl": _rand_slice(rng, -L - 1, L + 1)}}
    if form == "sl2_si":
        return {"k": "sl2", "rsel": {"sl": _rand_slice(rng, -n - 1, n + 1)}, "csel": {"int": rng.randint(clo, chi)}}
    if form == "sl2_sl":
        return {"k": "sl2", "rsel": {"sl": _rand_slice(rng, -n - 1, n + 1)}, "csel": {"list": _rand_list(rng, L, clo, chi)}}
    if form == "pairs":
        rs = _rand_list(rng, n, rlo, rhi)
        return {"k": "pairs", "rs": rs, "cs": [rng.randint(clo, chi) for _ in rs], "np": rng.random() < 0.5}
    if form == "pairs_scalar":
        return {"k": "pairs_scalar", "rs": _rand_list(rng, n, rlo, rhi, 2, 3), "c": rng.randint(clo, chi)}
    if form == "elem_list":
        return {"k": "elem_list", "r": rng.randint(rlo, rhi), "cs": _rand_list(rng, L, clo, chi, 2, 3)}
    if form == "rowlist":
        return {"k": "rowlist", "rs": _rand_list(rng, n, rlo, rhi), "np": rng.random() < 0.5}
    if form == "rowsl":
        return {"k": "rowsl", "r": rng.randint(rlo, rhi), "sl": _rand_slice(rng, -L - 1, L + 1)}
    p = rng.choice([0.0, 0.2, 0.5, 0.8, 1.0])
    return {"k": "mask", "m": [[rng.random() < p for _ in range(l)] for l in lens]}


def _small_scope(rng):
    vecs = [list(v) for n in (1, 2, 3) for v in itertools.product(range(1, 5), repeat=n)]
    slices = _all_slices()
    cases = []
    for vi, lens in enumerate(vecs):
        def ctor(j):
            return CTORS[(vi + j) % 4]
        j = 0
        cases.append(_mk(lens, ctor(0), 0, {"k": "attrs"}))
        cases.append(_mk(lens, ctor(2), 0, {"k": "attrs"}))
        for r in range(-5, 6):
            cases.append(_mk(lens, ctor(r), 0, {"k": "row", "r": r}))
            for c in range(-5, 6):
                cases.append(_mk(lens, ctor(r + c), 0, {"k": "elem", "r": r, "c": c}))
        for sl in slices:
            j += 1
            cases.append(_mk(lens, ctor(j), 0, {"k": "rows", "sl": sl}))
            cases.append(_mk(lens, ctor(j + 1), 0, {"k": "sl2", "rsel": {"sl": [None, None, None]}, "csel": {"sl": sl}}))
        for _ in range(600):
            j += 1
            cases.append(_mk(lens, ctor(j), 0, _sampled_idx(rng, lens)))
    return cases


def _random_cases(rng, n):
    cases = []
    for _ in range(n):
        nr = rng.randint(1, 6)
        if rng.random() < 0.3:
            lens = [rng.randint(1, 12)] * nr       # rectangular
        else:
            lens = [rng.randint(1, 12) for _ in range(nr)]
        w = rng.choice([0, 0, 0, 2, 3])
        tot = sum(lens)
        vals = list(range(tot)) if rng.random() < 0.7 else [rng.randint(0, 3) for _ in range(tot)]
        f = rng.random()
        if f < 0.08:
            idx = {"k": "attrs"}
        elif f < 0.16:
            idx = {"k": "row", "r": rng.randint(-nr - 1, nr)}
        elif f < 0.26:
            idx = {"k": "elem", "r": rng.randint(-nr - 1, nr), "c": rng.randint(-13, 12)}
        elif f < 0.36:
            idx = {"k": "rows", "sl": _rand_slice(rng, -nr - 1, nr + 1)}
        else:
            idx = _sampled_idx(rng, lens)
        cases.append(_mk(lens, rng.choice(CTORS), w, idx, vals))
    return cases


# ---- round 3s streams ---------------------------------------------------------------------------
LAYS2 = ["F", "F", "F", "T", "T", "T", "rowstr", "colstr", "neg", "negcol", "C"]
LAYS1 = ["str", "neg"]
NOMASK = ["sl2_ss", "sl2_ls", "sl2_si", "sl2_sl", "pairs", "pairs", "pairs_scalar", "elem_list", "rowlist", "rowsl"]
RANGE = {"int8": 127, "uint8": 255, "int16": 32767, "uint16": 65535}


def _any_idx(rng, lens, forms=None):
    """any read form of the property, mostly valid."""
    nr = len(lens)
    f = rng.random()
    if f < 0.10:
        return {"k": "attrs"}
    if f < 0.22:
        return {"k": "row", "r": rng.randint(-nr, nr - 1)}
    if f < 0.36:
        r = rng.randint(-nr, nr - 1)
        return {"k": "elem", "r": r, "c": rng.randint(-lens[r], lens[r] - (0 if rng.random() < 0.1 else 1))}
    if f < 0.46:
        return {"k": "rows", "sl": _rand_slice(rng, -nr - 1, nr + 1)}
    return _sampled_idx(rng, lens, forms)


def _layout_cases(rng, n):
    """flat data / rows that are not C-contiguous: column-major, transposed views, strided and reversed views;
    elements of width 2 and 3 (frames x features) and scalars; equal lengths (rectangular branch of the
    constructor) as often as unequal ones; lengths as list and as ndarray; copy=True and copy=False."""
    cases = []
    for _ in range(n):
        nr = rng.randint(1, 5)
        if rng.random() < 0.55:
            lens = [rng.randint(1, 6)] * max(nr, 2)
        else:
            lens = [rng.randint(1, 6) for _ in range(nr)]
        w = rng.choice([2, 2, 3, 3, 0])
        lay = rng.choice(LAYS2 if w else LAYS1)
        ctor = rng.choice(["flat", "flat_np", "flat", "flat_np", "nested_np"])
        cp = False if (ctor != "nested_np" and rng.random() < 0.4) else None
        cases.append(_mk(lens, ctor, w, _any_idx(rng, lens), lay=lay, copy=cp))
    return cases


def _wrap_lens(rng, dt):
    """row lengths that each fit dtype dt while the running total of the rows before the last passes its range."""
    hi = RANGE[dt]
    while True:
        nr = rng.randint(3, 5)
        if rng.random() < 0.25:
            lens = [rng.randint(hi // 3, hi - hi // 8)] * nr
        else:
            lens = [rng.randint(hi // 8, hi - hi // 8) for _ in range(nr)]
        if sum(lens[:-1]) > hi:
            return lens


def _narrow_cases(rng, n, big):
    """lengths given as ndarrays of a narrow integer dtype; `big` = how many 16-bit cases (tens of thousands of
    elements; evaluated by the oracle only, not in Coq)."""
    cases = []
    kinds = ["int8"] * (n // 2 - big) + ["uint8"] * (n // 2 - big) + ["int16"] * big + ["uint16"] * big
    for dt in kinds:
        lens = _wrap_lens(rng, dt)
        forms = NOMASK if sum(lens) > 600 else None
        w = 0 if sum(lens) > 600 else rng.choice([0, 0, 0, 2])
        cases.append(_mk(lens, "flat_np", w, _any_idx(rng, lens, forms), ldt=dt,
                         lay=("F" if w and rng.random() < 0.3 else None)))
    for _ in range(max(4, n // 6)):      # the same dtypes (and the wide ones) without a wrap
        dt = rng.choice(["int8", "uint8", "int16", "uint16", "int32", "uint32", "int64", "uint64"])
        nr = rng.randint(1, 5)
        lens = [rng.randint(1, 9)] * nr if rng.random() < 0.3 else [rng.randint(1, 9) for _ in range(nr)]
        cases.append(_mk(lens, "flat_np", rng.choice([0, 0, 2]), _any_idx(rng, lens), ldt=dt))
    return cases


def _ixarg_cases(rng, n):
    """index objects that are ndarrays (all signed widths, also two columns of one table, i.e. views) holding
    negative entries, and the same objects used for a second read on an array with other row lengths."""
    cases = []
    for _ in range(n):
        nr = rng.randint(1, 5)
        lens = [rng.randint(1, 6) for _ in range(nr)]
        lens2 = [rng.randint(1, 6) for _ in range(nr if rng.random() < 0.8 else rng.randint(1, 5))]
        form = rng.choice(["pairs", "pairs", "pairs", "pairs_scalar", "elem_list", "elem_list", "rowlist", "sl2_ls",
                           "sl2_sl"])
        ix = None
        for _try in range(20):
            ix = _sampled_idx(rng, lens, [form])
            negs = [x for key in ("rs", "cs") for x in ix.get(key, [])] + \
                [x for sel in (ix.get("rsel", {}), ix.get("csel", {})) for x in sel.get("list", [])]
            if any(x < 0 for x in negs):
                break
        ix["np"] = True
        extra = {"ixdt": rng.choice([None, None, "int32", "int16", "int8"])}
        if form == "pairs" and rng.random() < 0.4:
            extra["ixview"] = True
        if rng.random() < 0.7:
            extra["again"] = {"lens": lens2}
        cases.append(_mk(lens, rng.choice(CTORS), rng.choice([0, 0, 2]), ix, **extra))
    return cases


def _streams(rng, tier):
    if tier == "quick":
        return _layout_cases(rng, 500) + _narrow_cases(rng, 120, 3) + _ixarg_cases(rng, 300)
    return _layout_cases(rng, 5000) + _narrow_cases(rng, 1000, 12) + _ixarg_cases(rng, 3000)


def generate(rng, tier):
    small = _small_scope(rng)
    if tier == "quick":
        small = rng.sample(small, 3000)
        return small + _random_cases(rng, 600) + _streams(rng, tier)
    return small + _random_cases(rng, 6000) + _streams(rng, tier)


# ----------------------------------------------------------------------------- implementation
def _elem(v, w):
    """canonical element: int for scalars, decoded id for width-w vectors."""
    if w == 0:
        a = np.asarray(v)
        if a.ndim != 0:
            raise _Bad("element is not a scalar: %r" % (v,))
        return int(a)
    a = np.asarray(v).astype(int)
    if a.shape != (w,) or any(int(a[i]) != int(a[0]) + 1000 * i for i in range(w)):
        raise _Bad("element is not one of the input vectors: %r" % (v,))
    return int(a[0])


class _Bad(Exception):
    pass


def _rows_of(x, w):
    return [[_elem(e, w) for e in row] for row in x]


def _layout(base, lay):
    """an array equal to `base` (first axis = elements of the flat data) with another memory layout."""
    n = base.shape[0]
    if lay in (None, "C"):
        return base.copy()
    if lay == "neg":
        return base[::-1].copy()[::-1]
    if base.ndim == 1:
        if lay == "str":
            big = np.full(2 * n, -7, dtype=base.dtype)
            big[::2] = base
            return big[::2]
        raise KeyError(lay)
    w = base.shape[1]
    if lay == "F":
        return np.asfortranarray(base)
    if lay == "T":                       # np.array([xs, ys]).T : frames x features, stored feature-major
        return np.array([base[:, i].tolist() for i in range(w)], dtype=base.dtype).T
    if lay == "rowstr":
        big = np.full((2 * n, w), -7, dtype=base.dtype)
        big[::2] = base
        return big[::2]
    if lay == "colstr":
        big = np.full((n, 2 * w), -7, dtype=base.dtype)
        big[:, ::2] = base
        return big[:, ::2]
    if lay == "negcol":
        return base[:, ::-1].copy()[:, ::-1]
    raise KeyError(lay)


def _build(c, lens=None):
    from enspara.ra.ra import RaggedArray
    w = c["w"]
    if lens is None:
        lens, vals = c["lens"], _vals(c)
    else:
        vals = list(range(sum(lens)))
    if w == 0:
        flat = np.array(vals, dtype=int)
    else:
        flat = np.array([[v + 1000 * i for i in range(w)] for v in vals], dtype=int)
    rows, s = [], 0
    for l in lens:
        rows.append(flat[s:s + l])
        s += l
    ctor = c["ctor"]
    lay = c.get("lay")
    kw = {"copy": False} if c.get("copy") is False else {}
    if ctor == "nested":
        a = RaggedArray([r.tolist() for r in rows])
    elif ctor == "nested_np":
        if lay is None:
            a = RaggedArray([r.copy() for r in rows])
        else:
            src, s, views = _layout(flat, lay), 0, []
            for l in lens:
                views.append(src[s:s + l])
                s += l
            a = RaggedArray(views)
    elif ctor == "flat":
        a = RaggedArray(_layout(flat, lay), lengths=list(lens), **kw)
    else:
        a = RaggedArray(_layout(flat, lay), lengths=np.array(lens, dtype=c.get("ldt")), **kw)
    return a, rows, flat


def _sl(t):
    return slice(t[0], t[1], t[2])


def _py_index(c):
    """the Python index expression object for the case."""
    ix = c["idx"]
    k = ix["k"]
    dt = c.get("ixdt")

    def arr(xs):
        return np.array(xs, dtype=dt)

    def seq(xs):
        return arr(xs) if ix.get("np") else list(xs)
    if k == "row":
        return ix["r"]
    if k == "rows":
        return _sl(ix["sl"])
    if k == "rowlist":
        return seq(ix["rs"])
    if k == "elem":
        return (ix["r"], ix["c"])
    if k == "pairs":
        if ix["np"] and c.get("ixview"):
            table = np.array([ix["rs"], ix["cs"]], dtype=dt).T.copy()      # one row per selected element
            return (table[:, 0], table[:, 1])
        return (seq(ix["rs"]), seq(ix["cs"]))
    if k == "pairs_scalar":
        return (seq(ix["rs"]), ix["c"])
    if k == "elem_list":
        return (ix["r"], seq(ix["cs"]))
    if k == "rowsl":
        return (ix["r"], _sl(ix["sl"]))
    if k == "sl2":
        rs = ix["rsel"]
        cs = ix["csel"]
        r = _sl(rs["sl"]) if "sl" in rs else seq(rs["list"])
        cc = _sl(cs["sl"]) if "sl" in cs else (cs["int"] if "int" in cs else seq(cs["list"]))
        return (r, cc)
    raise KeyError(k)


def _snap(ix):
    """a value that changes iff an index object (or a part of it) is altered."""
    if isinstance(ix, tuple):
        return [_snap(x) for x in ix]
    if isinstance(ix, np.ndarray):
        return ["nd", str(ix.dtype), list(ix.shape), ix.tolist()]
    if isinstance(ix, list):
        return ["list", list(ix)]
    if isinstance(ix, slice):
        return ["slice", ix.start, ix.stop, ix.step]
    return ["int", int(ix)]


def _kinds(arrs):
    """dtype kinds of the arrays that hold at least one element"""
    out = set()
    for x in arrs:
        x = x if isinstance(x, np.ndarray) else np.asarray(x)
        if x.size > 0:
            out.add(x.dtype.kind)
    return sorted(out)


def _canon(res, w):
    out = _canon_values(res, w)
    from enspara.ra.ra import RaggedArray
    if isinstance(res, RaggedArray):
        # every row as stored, as iterated, as read by a[i], and the flat data
        out["dtk"] = _kinds(list(res._array) + [r for r in res] + [res[i] for i in range(len(res.lengths))] + [res._data])
    else:
        out["dtk"] = _kinds([res])
    return out


def _canon_values(res, w):
    from enspara.ra.ra import RaggedArray
    if isinstance(res, RaggedArray):
        rows = _rows_of(list(res._array), w)
        lens = [int(x) for x in res.lengths]
        flat = [_elem(e, w) for e in res._data] if sum(lens) > 0 or hasattr(res, "_data") else []
        if [len(r) for r in rows] != lens or [e for r in rows for e in r] != flat or len(res) != len(rows):
            raise _Bad("incoherent RaggedArray result: rows %r lengths %r flat %r" % (rows, lens, flat))
        return {"ra": rows}
    a = np.asarray(res)
    if w == 0:
        return {"flat": [_elem(e, 0) for e in a.reshape(-1)]}
    return {"flat": [_elem(e, w) for e in a.reshape(-1, w)]}


def _read(a, c, ixobj):
    from enspara.ra import ra as ramod
    from enspara.ra.ra import RaggedArray
    w = c["w"]
    ix = c["idx"]
    try:
        if ix["k"] == "mask":
            m = RaggedArray([list(r) for r in ix["m"]])
            wr, wc = ramod.where(m)
            out = _canon(a[m], w)
            out["where"] = [[int(x) for x in wr], [int(x) for x in wc]]
            return out
        return _canon(a[ixobj], w)
    except _Bad as ex:
        return {"err": "Bad", "msg": str(ex)[:300]}
    except Exception as ex:
        return {"err": type(ex).__name__, "msg": str(ex)[:200]}


def run_impl(c):
    w = c["w"]
    try:
        a, rows, flat = _build(c)
    except Exception as ex:
        return {"err": "ctor:" + type(ex).__name__, "msg": str(ex)[:200]}
    ix = c["idx"]
    if ix["k"] == "attrs":
        try:
            shp = a.shape
            return {"lengths": [int(x) for x in a.lengths], "starts": [int(x) for x in a.starts],
                    "shape": [None if x is None else int(x) for x in shp], "size": int(a.size), "len": len(a),
                    "iter": _rows_of([r for r in a], w),
                    "flatten": [int(x) for x in a.flatten()],
                    "dtype_ok": bool(a.dtype == flat.dtype),
                    "dtk": _kinds([r for r in a] + [a[i] for i in range(len(a.lengths))] + [a.flatten()])}
        except _Bad as ex:
            return {"err": "Bad", "msg": str(ex)[:300]}
        except Exception as ex:
            return {"err": type(ex).__name__, "msg": str(ex)[:200]}
    ixobj = None if ix["k"] == "mask" else _py_index(c)
    before = _snap(ixobj) if ixobj is not None else None
    out = _read(a, c, ixobj)
    if "again" in c:
        # the same index objects, a second array
        try:
            a2, _, _ = _build(c, c["again"]["lens"])
        except Exception as ex:
            out["again"] = {"err": "ctor:" + type(ex).__name__}
        else:
            out["again"] = _read(a2, c, ixobj)
    if ixobj is not None and _snap(ixobj) != before:
        out["argmod"] = "index %r is %r after the read" % (before, _snap(ixobj))
    return out


# ----------------------------------------------------------------------------- oracle: list of rows
def _reference(c, lens=None):
    """The same read on a plain list of per-row arrays (ids instead of elements)."""
    if lens is None:
        lens, vals = c["lens"], _vals(c)
    else:
        vals = list(range(sum(lens)))
    rows, s = [], 0
    for l in lens:
        rows.append(np.array(vals[s:s + l], dtype=int))
        s += l
    ix = c["idx"]
    k = ix["k"]
    try:
        if k == "attrs":
            starts = [sum(lens[:i]) for i in range(len(lens))]
            rect = all(l == lens[0] for l in lens)
            shape = [len(lens), lens[0] if rect else None] + ([c["w"]] if c["w"] else [])
            flat = vals if c["w"] == 0 else [v + 1000 * i for v in vals for i in range(c["w"])]
            return {"lengths": list(lens), "starts": starts, "shape": shape,
                    "size": len(vals) * max(1, c["w"]), "len": len(lens), "iter": [r.tolist() for r in rows],
                    "flatten": flat, "dtype_ok": True}
        if k == "row":
            return {"flat": rows[ix["r"]].tolist()}
        if k == "rows":
            return {"ra": [r.tolist() for r in rows[_sl(ix["sl"])]]}
        if k == "rowlist":
            return {"ra": [rows[r].tolist() for r in ix["rs"]]}
        if k == "elem":
            return {"flat": [int(rows[ix["r"]][ix["c"]])]}
        if k == "pairs":
            return {"flat": [int(rows[r][cc]) for r, cc in zip(ix["rs"], ix["cs"])]}
        if k == "pairs_scalar":
            return {"flat": [int(rows[r][ix["c"]]) for r in ix["rs"]]}
        if k == "elem_list":
            return {"flat": [int(rows[ix["r"]][cc]) for cc in ix["cs"]]}
        if k == "rowsl":
            return {"flat": rows[ix["r"]][_sl(ix["sl"])].tolist()}
        if k == "mask":
            fl = [int(v) for r, m in zip(rows, ix["m"]) for v in r[np.array(m, dtype=bool)]]
            wr = [i for i, m in enumerate(ix["m"]) for b in m if b]
            wc = [j for m in ix["m"] for j, b in enumerate(m) if b]
            return {"flat": fl, "where": [wr, wc]}
        if k == "sl2":
            rs, cs = ix["rsel"], ix["csel"]
            sel = rows[_sl(rs["sl"])] if "sl" in rs else [rows[r] for r in rs["list"]]
            if "sl" in cs:
                return {"ra": [r[_sl(cs["sl"])].tolist() for r in sel]}
            if "int" in cs:
                return {"ra": [[int(r[cs["int"]])] for r in sel]}
            return {"ra": [[int(r[cc]) for cc in cs["list"]] for r in sel]}
    except IndexError:
        return {"err": "IndexError"}
    raise KeyError(k)


def _key(c):
    ix = c["idx"]
    k = ix["k"]
    if k == "sl2":
        return "sl2-%s-%s" % ("slice" if "sl" in ix["rsel"] else "list",
                              "slice" if "sl" in ix["csel"] else ("int" if "int" in ix["csel"] else "list"))
    return k


def _strip(r):
    return {k: v for k, v in r.items() if k != "msg"}


def _short(x):
    t = str(x)
    return t if len(t) < 700 else t[:340] + " ... " + t[-340:]


def _opts(c):
    return " ".join("%s=%s" % (k, c[k]) for k in ("lay", "copy", "ldt", "ixdt", "ixview") if k in c)


def oracle(c, r):
    out = []
    exp = _reference(c)
    got = {k: v for k, v in _strip(r).items() if k not in ("again", "argmod", "dtk")}
    for rr, which in ((r, ""), (r.get("again", {}), " (second read)")):
        if rr.get("dtk") not in (None, [], ["i"]):
            out.append(("row-dtype", "lens %s ctor %s w %d %s idx %s%s: the arrays returned (rows as stored / iterated / "
                        "read by a[i], flat data) have dtype kinds %s; the rows of the list-of-rows model are integer "
                        "arrays like the data put in" % (c["lens"] if len(c["lens"]) < 40 else "...", c["ctor"], c["w"],
                                                         _opts(c), c["idx"], which, rr["dtk"])))
    lens = c["lens"] if len(c["lens"]) < 40 else _short(c["lens"])
    if got != exp:
        out.append((_key(c), "lens %s ctor %s w %d %s idx %s: implementation %s, list of rows %s" % (
            lens, c["ctor"], c["w"], _opts(c), c["idx"], _short(got), _short(exp))))
    if "again" in c:
        exp2 = _reference(c, c["again"]["lens"])
        got2 = {k: v for k, v in _strip(r.get("again", {})).items() if k != "dtk"}
        if got2 != exp2:
            out.append((_key(c), "index objects of a read on an array with lengths %s used again: lens %s ctor %s w %d "
                        "%s idx %s: implementation %s, list of rows %s" % (
                            lens, c["again"]["lens"], c["ctor"], c["w"], _opts(c), c["idx"], _short(got2),
                            _short(exp2))))
    if "argmod" in r:
        out.append(("index-argument-modified", "lens %s ctor %s w %d %s idx %s: %s (reading a list of rows leaves "
                    "the index as it was)" % (lens, c["ctor"], c["w"], _opts(c), c["idx"], r["argmod"])))
    return out


# ----------------------------------------------------------------------------- Coq side
def _cslice(t):
    return "(%s, %s, %s)" % (copt(t[0], cz, "Z"), copt(t[1], cz, "Z"), copt(t[2], cz, "Z"))


def _czl(xs):
    return clist(xs, cz, "Z")


def _cidx(ix):
    k = ix["k"]
    if k == "row":
        return "(Row %s)" % cz(ix["r"])
    if k == "rows":
        return "(Rows %s)" % _cslice(ix["sl"])
    if k == "rowlist":
        return "(RowList %s)" % _czl(ix["rs"])
    if k == "elem":
        return "(Elem %s %s)" % (cz(ix["r"]), cz(ix["c"]))
    if k == "pairs":
        return "(Pairs %s %s)" % (_czl(ix["rs"]), _czl(ix["cs"]))
    if k == "pairs_scalar":
        return "(PairsScalar %s %s)" % (_czl(ix["rs"]), cz(ix["c"]))
    if k == "elem_list":
        return "(ElemList %s %s)" % (cz(ix["r"]), _czl(ix["cs"]))
    if k == "rowsl":
        return "(RowSl %s %s)" % (cz(ix["r"]), _cslice(ix["sl"]))
    if k == "mask":
        return "(Mask %s)" % clist(ix["m"], lambda m: clist(m, cb, "bool"), "(list bool)")
    if k == "sl2":
        rs, cs = ix["rsel"], ix["csel"]
        if "sl" in rs and "sl" in cs:
            return "(Sl2SS %s %s)" % (_cslice(rs["sl"]), _cslice(cs["sl"]))
        if "list" in rs and "sl" in cs:
            return "(Sl2LS %s %s)" % (_czl(rs["list"]), _cslice(cs["sl"]))
        if "sl" in rs and "int" in cs:
            return "(Sl2SI %s %s)" % (_cslice(rs["sl"]), cz(cs["int"]))
        if "sl" in rs and "list" in cs:
            return "(Sl2SL %s %s)" % (_cslice(rs["sl"]), _czl(cs["list"]))
    raise KeyError(k)


def _cconc(c, lens=None):
    if lens is not None:
        return "(mkRA %s %s)" % (_czl(list(range(sum(lens)))), clist(lens, cn, "nat"))
    return "(mkRA %s %s)" % (_czl(_vals(c)), clist(c["lens"], cn, "nat"))


def _cres(r):
    if "ra" in r:
        return "(Val %s)" % clist(r["ra"], _czl, "(list Z)")
    if "flat" in r:
        return "(Flat %s)" % _czl(r["flat"])
    return None


COQ_MAX = 600      # arrays with more elements are checked by the oracle only (literal size)


def _cread(c, conc, r):
    """model = implementation for one read (hand-written model get_c and regenerated get_g)."""
    if "err" in r:
        if r["err"] == "IndexError":
            return "result_eqb (get_c %s %s) Err && result_eqb (get_g %s %s) Err" % (
                conc, _cidx(c["idx"]), conc, _cidx(c["idx"]))
        return "false"
    t = "result_eqb (get_c %s %s) %s && result_eqb (get_g %s %s) %s" % (
        conc, _cidx(c["idx"]), _cres(r), conc, _cidx(c["idx"]), _cres(r))
    if c["idx"]["k"] == "mask":
        m = clist(c["idx"]["m"], lambda m: clist(m, cb, "bool"), "(list bool)")
        wr, wc = clist(r["where"][0], cn, "nat"), clist(r["where"][1], cn, "nat")
        t = "(%s) && where_eqb (where_c %s) %s %s && where_g_eqb (where_g %s) %s %s" % (t, m, wr, wc, m, wr, wc)
    return t


def coq_check(c, r):
    if sum(c["lens"]) > COQ_MAX:
        return None
    conc = _cconc(c)
    if c["idx"]["k"] == "attrs":
        if "err" in r:
            return "false"
        shape2 = r["shape"][1]
        if any(x < 0 for x in r["starts"] + r["lengths"]):
            return "false"
        return ("check_attrs %s %s %s %s %s %s %s %s && zlist_eqb (gen_starts %s) %s" % (
            conc, clist(r["lengths"], cn, "nat"), clist(r["starts"], cn, "nat"), cn(r["len"]),
            copt(shape2, cn, "nat"), cn(r["size"] // max(1, c["w"])), clist(r["iter"], _czl, "(list Z)"),
            _czl(r["flatten"][::max(1, c["w"])]), _czl(r["lengths"]), _czl(r["starts"])))
    # every read is evaluated on the hand-written model (get_c) and on the read assembled from the
    # definitions regenerated from the current source (get_g)
    t = _cread(c, conc, r)
    if "again" in c:
        t = "(%s) && (%s)" % (t, _cread(c, _cconc(c, c["again"]["lens"]), r.get("again", {"err": "missing"})))
    if "argmod" in r:
        return "false"      # the model's read has no effect on the index
    return t


def coq_show(c):
    if c["idx"]["k"] == "attrs":
        return "show_attrs %s" % _cconc(c)
    return "(get_c %s %s, get_g %s %s)" % (_cconc(c), _cidx(c["idx"]), _cconc(c), _cidx(c["idx"]))


def nontrivial(c, r):
    if len(c["lens"]) < 2 or c["idx"]["k"] == "attrs":
        return len(c["lens"]) >= 2
    if "err" in r:
        return True
    vals = r.get("flat") if "flat" in r else [e for row in r["ra"] for e in row]
    return 0 < len(vals) < len(_vals(c)) or (len(vals) > 0 and vals != _vals(c))


def tags(c, r):
    t = [_key(c), "ctor-" + c["ctor"], "w%d" % c["w"]]
    t.append("rect" if all(l == c["lens"][0] for l in c["lens"]) else "ragged")
    if c.get("lay"):
        t.append("lay-" + c["lay"])
    if c.get("copy") is False:
        t.append("ctor-copy-false")
    if c.get("ldt"):
        t.append("ldt-" + c["ldt"])
        if c["ldt"] in RANGE and sum(c["lens"][:-1]) > RANGE[c["ldt"]]:
            t.append("lens-total-exceeds-dtype")
            t.append("lens-total-exceeds-" + c["ldt"])
    if c["idx"].get("np"):
        ixv = c["idx"]
        ents = [x for key in ("rs", "cs") for x in ixv.get(key, [])] + \
            [x for sel in (ixv.get("rsel", {}), ixv.get("csel", {})) for x in sel.get("list", [])]
        if any(x < 0 for x in ents):
            t.append("idx-ndarray-negative")
        if c.get("ixview"):
            t.append("idx-ndarray-view")
        if c.get("ixdt"):
            t.append("idx-" + c["ixdt"])
    if "again" in c:
        t.append("idx-reused-on-second-array")
    if sum(c["lens"]) > COQ_MAX:
        t.append("oracle-only-large")
    if r.get("dtk"):
        t.append("dtype-kind-compared")
    if "err" in r:
        t.append("err-" + r["err"])
        if c["idx"]["k"] in ("elem", "pairs", "pairs_scalar", "elem_list"):
            t.append("elem-oob-error")
    if "ra" in r and any(len(x) == 0 for x in r["ra"]):
        t.append("result-has-empty-row")
    if "ra" in r and len(r["ra"]) == 0:
        t.append("result-no-rows")
    ix = c["idx"]
    sls = []
    if ix["k"] in ("rows", "rowsl"):
        sls.append(ix["sl"])
    if ix["k"] == "sl2":
        for s in (ix["rsel"], ix["csel"]):
            if "sl" in s:
                sls.append(s["sl"])
    for s in sls:
        if s[2] is not None and s[2] < 0:
            t.append("neg-step")
        if s[0] is not None and s[0] < 0:
            t.append("neg-start")
        if s[1] is not None and s[1] < 0:
            t.append("neg-stop")
    return sorted(set(t))


ESSENTIAL_TAGS = ["row", "rows", "rowlist", "elem", "pairs", "pairs_scalar", "elem_list", "rowsl", "mask", "attrs",
                  "sl2-slice-slice", "sl2-list-slice", "sl2-slice-int", "sl2-slice-list", "neg-step", "neg-start",
                  "neg-stop", "elem-oob-error", "result-has-empty-row", "rect", "ragged",
                  "ctor-nested", "ctor-nested_np", "ctor-flat", "ctor-flat_np",
                  "lay-F", "lay-T", "lay-rowstr", "lay-colstr", "lay-neg", "lay-negcol", "lay-str", "ctor-copy-false",
                  "ldt-int8", "ldt-uint8", "ldt-int16", "ldt-uint16", "lens-total-exceeds-dtype",
                  "lens-total-exceeds-int8", "lens-total-exceeds-uint8", "lens-total-exceeds-int16",
                  "lens-total-exceeds-uint16", "idx-ndarray-negative", "idx-ndarray-view",
                  "idx-reused-on-second-array", "dtype-kind-compared"]


def search(rng, tier):
    out = []
    for c in _streams(rng, "quick") + _small_scope(rng)[::7] + _random_cases(rng, 3000):
        r = run_impl(c)
        for key, msg in oracle(c, r):
            out.append((key, msg, c, r))
            if len(out) > 20:
                return out
    return out
