"""C05: reading a ragged array equals reading the list of its rows.

Case  = {"lens": [..], "vals": [..flat ints..], "ctor": nested|nested_np|flat|flat_np, "w": 0|k (element width,
         0 = scalar elements), "idx": {...}}
idx   = {"k": "row", "r": z} | {"k": "rows", "sl": [s,e,st]} | {"k": "rowlist", "rs": [..], "np": bool}
      | {"k": "elem", "r": z, "c": z} | {"k": "pairs", "rs": [..], "cs": [..], "np": bool}
      | {"k": "pairs_scalar", "rs": [..], "c": z} | {"k": "elem_list", "r": z, "cs": [..]}
      | {"k": "sl2", "rsel": {"sl": [..]} | {"list": [..]}, "csel": {"sl": [..]} | {"int": z} | {"list": [..]}}
      | {"k": "rowsl", "r": z, "sl": [..]} | {"k": "mask", "m": [[bool]]} | {"k": "attrs"}
Result = {"ra": rows} (a RaggedArray: list of rows) | {"flat": [..]} | {"err": name}
         attrs: {"lengths","starts","shape","size","len","iter","flatten","dtype_ok"}.
Elements of width w > 0 are the vectors [v, v+1000, .., v+1000(w-1)]; they are canonicalised back to v (after
checking the pattern), so the model works over Z throughout.
"""
import itertools
import os
import sys
import numpy as np
from core import cz, cn, cb, clist, copt, VERIF
sys.path.insert(0, os.path.join(VERIF, "translator"))
import tr_ragged

PID = "C05"
PROPS_FILE = "Props/C05.v"
MODEL_TARGETS = ["Model/Ragged.vo", "Gen/RaGen.vo", "Model/RaggedGen.vo"]
GEN_FILES = ["Gen/RaGen.v"]
CASE_HEADER = ("From Coq Require Import List ZArith Bool.\n"
               "From EV Require Import PySlice RaBase RaGen Ragged RaggedGen.\n"
               "Import ListNotations.\n")
RULE = ("thorough: exhaustive small scope -- all 84 length vectors with <= 3 rows of length 1..4; for each: every "
        "single row index and (row, col) element with indices in -5..5; every row slice a[s:e:k] and every 2-D slice "
        "a[:, s:e:k] with s,e in {None,-5..5}, k in {None,+-1,+-2,+-3}; every a[r, s:e:k] for valid r is sampled "
        "(numpy-handled); row-slice/row-list x column slice/int/list combinations, paired fancy indices and boolean "
        "masks are sampled (600 per vector) because their product space is too large; constructors alternate between "
        "nested lists / list of arrays / flat+lengths list / flat+lengths ndarray. Plus random arrays up to 6 rows x "
        "12 with scalar and 2-/3-wide elements. quick: 3000 of the small-scope reads plus 600 random ones. "
        "every read is evaluated twice in Coq: on the hand-written model (get_c) and on the read assembled from "
        "the definitions regenerated from the current ra.py (get_g: gen_conv2d, gen_starts, gen_slice_to_list, "
        "gen_conv1d, gen_iis_from_*); attrs cases also compare gen_starts with the real starts. "
        "non-trivial := at least 2 rows, and the read either succeeds with a non-empty result that is not the "
        "whole array or is an error case")
TRUSTED = ["translator/tr_ragged.py + translator/py2coq.py: _slice_to_list whole (dynamic int-or-None fragment); the scalar "
           "tests/wraps/offsets of _handle_negative_indices, _convert_from_2d, _convert_from_1d and the starts "
           "expression translated; the NumPy statement shapes recognised and plugged into the per-element "
           "skeletons of Base/RaBase.v; _get_iis_from_slices/_get_iis_from_list/where and the call sites in "
           "__getitem__ pinned as text (any other shape: rejected)",
           "modelled not verified: slice.indices, range, NumPy broadcasting of the two index vectors",
           "modelled not verified: NumPy basic/fancy indexing of the row-object array (_array[i], _array[slice], "
           "_array[list]) and of the flat data (_data[flat indices]), np.cumsum, np.where, np.concatenate",
           "harness canonicalisation: a RaggedArray result is read back through its rows (_array), its flat data "
           "and its lengths, and these three must agree"]
ASSUMPTIONS = ["row lengths are positive in the arrays being read (property wording); a read may return empty rows",
               "index lists are non-empty integer lists; the two lists of a paired index have equal length"]
EXHAUSTIVE = {"thorough": True, "quick": False}
SHARD = 400

STEPS = [None, 1, -1, 2, -2, 3, -3]
BND = [None] + list(range(-5, 6))
CTORS = ["nested", "nested_np", "flat", "flat_np"]


def translate(repo):
    return tr_ragged.translate(repo)


# ----------------------------------------------------------------------------- generation
def _all_slices():
    return [[s, e, k] for s in BND for e in BND for k in STEPS]


def _rand_slice(rng, lo=-6, hi=6):
    def b():
        return None if rng.random() < 0.3 else rng.randint(lo, hi)
    return [b(), b(), rng.choice(STEPS)]


def _rand_list(rng, n, lo, hi, minlen=1, maxlen=3):
    return [rng.randint(lo, hi) for _ in range(rng.randint(minlen, maxlen))]


def _mk(lens, ctor, w, idx, vals=None):
    n = sum(lens)
    if vals is None:
        vals = list(range(n))
    return {"lens": list(lens), "vals": vals, "ctor": ctor, "w": w, "idx": idx}


def _sampled_idx(rng, lens):
    """One index from the big product forms."""
    n = len(lens)
    L = max(lens)
    form = rng.choice(["sl2_ss", "sl2_ss", "sl2_ls", "sl2_ls", "sl2_si", "sl2_sl", "pairs", "pairs", "pairs_scalar",
                       "elem_list", "rowlist", "mask", "rowsl"])
    rlo, rhi = -n - 1, n
    clo, chi = -L - 1, L
    if rng.random() < 0.6:   # mostly valid
        rlo, rhi, clo, chi = -n, n - 1, -min(lens), min(lens) - 1
    if form == "sl2_ss":
        return {"k": "sl2", "rsel": {"sl": _rand_slice(rng, -n - 1, n + 1)}, "csel": {"sl": _rand_slice(rng, -L - 1, L + 1)}}
    if form == "sl2_ls":
        return {"k": "sl2", "rsel": {"list": _rand_list(rng, n, rlo, rhi)}, "csel": {"sl": _rand_slice(rng, -L - 1, L + 1)}}
    if form == "sl2_si":
        return {"k": "sl2", "rsel": {"sl": _rand_slice(rng, -n - 1, n + 1)}, "csel": {"int": rng.randint(clo, chi)}}
    if form == "sl2_sl":
        return {"k": "sl2", "rsel": {"sl": _rand_slice(rng, -n - 1, n + 1)}, "csel": {"list": _rand_list(rng, L, clo, chi)}}
    if form == "pairs":
        rs = _rand_list(rng, n, rlo, rhi)
        return {"k": "pairs", "rs": rs, "cs": [rng.randint(clo, chi) for _ in rs], "np": rng.random() < 0.5}
    if form == "pairs_scalar":
        return {"k": "pairs_scalar", "rs": _rand_list(rng, n, rlo, rhi, 2, 3), "c": rng.randint(clo, chi)}
    if form == "elem_list":
        return {"k": "elem_list", "r": rng.randint(rlo, rhi), "cs": _rand_list(rng, L, clo, chi, 2, 3)}
    if form == "rowlist":
        return {"k": "rowlist", "rs": _rand_list(rng, n, rlo, rhi), "np": rng.random() < 0.5}
    if form == "rowsl":
        return {"k": "rowsl", "r": rng.randint(rlo, rhi), "sl": _rand_slice(rng, -L - 1, L + 1)}
    p = rng.choice([0.0, 0.2, 0.5, 0.8, 1.0])
    return {"k": "mask", "m": [[rng.random() < p for _ in range(l)] for l in lens]}


def _small_scope(rng):
    vecs = [list(v) for n in (1, 2, 3) for v in itertools.product(range(1, 5), repeat=n)]
    slices = _all_slices()
    cases = []
    for vi, lens in enumerate(vecs):
        def ctor(j):
            return CTORS[(vi + j) % 4]
        j = 0
        cases.append(_mk(lens, ctor(0), 0, {"k": "attrs"}))
        cases.append(_mk(lens, ctor(2), 0, {"k": "attrs"}))
        for r in range(-5, 6):
            cases.append(_mk(lens, ctor(r), 0, {"k": "row", "r": r}))
            for c in range(-5, 6):
                cases.append(_mk(lens, ctor(r + c), 0, {"k": "elem", "r": r, "c": c}))
        for sl in slices:
            j += 1
            cases.append(_mk(lens, ctor(j), 0, {"k": "rows", "sl": sl}))
            cases.append(_mk(lens, ctor(j + 1), 0, {"k": "sl2", "rsel": {"sl": [None, None, None]}, "csel": {"sl": sl}}))
        for _ in range(600):
            j += 1
            cases.append(_mk(lens, ctor(j), 0, _sampled_idx(rng, lens)))
    return cases


def _random_cases(rng, n):
    cases = []
    for _ in range(n):
        nr = rng.randint(1, 6)
        if rng.random() < 0.3:
            lens = [rng.randint(1, 12)] * nr       # rectangular
        else:
            lens = [rng.randint(1, 12) for _ in range(nr)]
        w = rng.choice([0, 0, 0, 2, 3])
        tot = sum(lens)
        vals = list(range(tot)) if rng.random() < 0.7 else [rng.randint(0, 3) for _ in range(tot)]
        f = rng.random()
        if f < 0.08:
            idx = {"k": "attrs"}
        elif f < 0.16:
            idx = {"k": "row", "r": rng.randint(-nr - 1, nr)}
        elif f < 0.26:
            idx = {"k": "elem", "r": rng.randint(-nr - 1, nr), "c": rng.randint(-13, 12)}
        elif f < 0.36:
            idx = {"k": "rows", "sl": _rand_slice(rng, -nr - 1, nr + 1)}
        else:
            idx = _sampled_idx(rng, lens)
        cases.append(_mk(lens, rng.choice(CTORS), w, idx, vals))
    return cases


def generate(rng, tier):
    small = _small_scope(rng)
    if tier == "quick":
        small = rng.sample(small, 3000)
        return small + _random_cases(rng, 600)
    return small + _random_cases(rng, 6000)


# ----------------------------------------------------------------------------- implementation
def _elem(v, w):
    """canonical element: int for scalars, decoded id for width-w vectors."""
    if w == 0:
        a = np.asarray(v)
        if a.ndim != 0:
            raise _Bad("element is not a scalar: %r" % (v,))
        return int(a)
    a = np.asarray(v).astype(int)
    if a.shape != (w,) or any(int(a[i]) != int(a[0]) + 1000 * i for i in range(w)):
        raise _Bad("element is not one of the input vectors: %r" % (v,))
    return int(a[0])


class _Bad(Exception):
    pass


def _rows_of(x, w):
    return [[_elem(e, w) for e in row] for row in x]


def _build(c):
    from enspara.ra.ra import RaggedArray
    lens, vals, w = c["lens"], c["vals"], c["w"]
    if w == 0:
        flat = np.array(vals, dtype=int)
    else:
        flat = np.array([[v + 1000 * i for i in range(w)] for v in vals], dtype=int)
    rows, s = [], 0
    for l in lens:
        rows.append(flat[s:s + l])
        s += l
    ctor = c["ctor"]
    if ctor == "nested":
        a = RaggedArray([r.tolist() for r in rows])
    elif ctor == "nested_np":
        a = RaggedArray([r.copy() for r in rows])
    elif ctor == "flat":
        a = RaggedArray(flat.copy(), lengths=list(lens))
    else:
        a = RaggedArray(flat.copy(), lengths=np.array(lens))
    return a, rows, flat


def _sl(t):
    return slice(t[0], t[1], t[2])


def _py_index(c):
    """the Python index expression object for the case."""
    ix = c["idx"]
    k = ix["k"]
    if k == "row":
        return ix["r"]
    if k == "rows":
        return _sl(ix["sl"])
    if k == "rowlist":
        return np.array(ix["rs"]) if ix["np"] else list(ix["rs"])
    if k == "elem":
        return (ix["r"], ix["c"])
    if k == "pairs":
        if ix["np"]:
            return (np.array(ix["rs"]), np.array(ix["cs"]))
        return (list(ix["rs"]), list(ix["cs"]))
    if k == "pairs_scalar":
        return (list(ix["rs"]), ix["c"])
    if k == "elem_list":
        return (ix["r"], list(ix["cs"]))
    if k == "rowsl":
        return (ix["r"], _sl(ix["sl"]))
    if k == "sl2":
        rs = ix["rsel"]
        cs = ix["csel"]
        r = _sl(rs["sl"]) if "sl" in rs else list(rs["list"])
        cc = _sl(cs["sl"]) if "sl" in cs else (cs["int"] if "int" in cs else list(cs["list"]))
        return (r, cc)
    raise KeyError(k)


def _canon(res, w):
    from enspara.ra.ra import RaggedArray
    if isinstance(res, RaggedArray):
        rows = _rows_of(list(res._array), w)
        lens = [int(x) for x in res.lengths]
        flat = [_elem(e, w) for e in res._data] if sum(lens) > 0 or hasattr(res, "_data") else []
        if [len(r) for r in rows] != lens or [e for r in rows for e in r] != flat or len(res) != len(rows):
            raise _Bad("incoherent RaggedArray result: rows %r lengths %r flat %r" % (rows, lens, flat))
        return {"ra": rows}
    a = np.asarray(res)
    if w == 0:
        return {"flat": [_elem(e, 0) for e in a.reshape(-1)]}
    return {"flat": [_elem(e, w) for e in a.reshape(-1, w)]}


def run_impl(c):
    from enspara.ra import ra as ramod
    from enspara.ra.ra import RaggedArray
    w = c["w"]
    try:
        a, rows, flat = _build(c)
    except Exception as ex:
        return {"err": "ctor:" + type(ex).__name__}
    ix = c["idx"]
    try:
        if ix["k"] == "attrs":
            shp = a.shape
            return {"lengths": [int(x) for x in a.lengths], "starts": [int(x) for x in a.starts],
                    "shape": [None if x is None else int(x) for x in shp], "size": int(a.size), "len": len(a),
                    "iter": _rows_of([r for r in a], w),
                    "flatten": [int(x) for x in a.flatten()],
                    "dtype_ok": bool(a.dtype == flat.dtype)}
        if ix["k"] == "mask":
            m = RaggedArray([list(r) for r in ix["m"]])
            wr, wc = ramod.where(m)
            out = _canon(a[m], w)
            out["where"] = [[int(x) for x in wr], [int(x) for x in wc]]
            return out
        return _canon(a[_py_index(c)], w)
    except _Bad as ex:
        return {"err": "Bad", "msg": str(ex)[:300]}
    except Exception as ex:
        return {"err": type(ex).__name__, "msg": str(ex)[:200]}


# ----------------------------------------------------------------------------- oracle: list of rows
def _reference(c):
    """The same read on a plain list of per-row arrays (ids instead of elements)."""
    lens, vals = c["lens"], c["vals"]
    rows, s = [], 0
    for l in lens:
        rows.append(np.array(vals[s:s + l], dtype=int))
        s += l
    ix = c["idx"]
    k = ix["k"]
    try:
        if k == "attrs":
            starts = [sum(lens[:i]) for i in range(len(lens))]
            rect = all(l == lens[0] for l in lens)
            shape = [len(lens), lens[0] if rect else None] + ([c["w"]] if c["w"] else [])
            flat = vals if c["w"] == 0 else [v + 1000 * i for v in vals for i in range(c["w"])]
            return {"lengths": list(lens), "starts": starts, "shape": shape,
                    "size": len(vals) * max(1, c["w"]), "len": len(lens), "iter": [r.tolist() for r in rows],
                    "flatten": flat, "dtype_ok": True}
        if k == "row":
            return {"flat": rows[ix["r"]].tolist()}
        if k == "rows":
            return {"ra": [r.tolist() for r in rows[_sl(ix["sl"])]]}
        if k == "rowlist":
            return {"ra": [rows[r].tolist() for r in ix["rs"]]}
        if k == "elem":
            return {"flat": [int(rows[ix["r"]][ix["c"]])]}
        if k == "pairs":
            return {"flat": [int(rows[r][cc]) for r, cc in zip(ix["rs"], ix["cs"])]}
        if k == "pairs_scalar":
            return {"flat": [int(rows[r][ix["c"]]) for r in ix["rs"]]}
        if k == "elem_list":
            return {"flat": [int(rows[ix["r"]][cc]) for cc in ix["cs"]]}
        if k == "rowsl":
            return {"flat": rows[ix["r"]][_sl(ix["sl"])].tolist()}
        if k == "mask":
            fl = [int(v) for r, m in zip(rows, ix["m"]) for v in r[np.array(m, dtype=bool)]]
            wr = [i for i, m in enumerate(ix["m"]) for b in m if b]
            wc = [j for m in ix["m"] for j, b in enumerate(m) if b]
            return {"flat": fl, "where": [wr, wc]}
        if k == "sl2":
            rs, cs = ix["rsel"], ix["csel"]
            sel = rows[_sl(rs["sl"])] if "sl" in rs else [rows[r] for r in rs["list"]]
            if "sl" in cs:
                return {"ra": [r[_sl(cs["sl"])].tolist() for r in sel]}
            if "int" in cs:
                return {"ra": [[int(r[cs["int"]])] for r in sel]}
            return {"ra": [[int(r[cc]) for cc in cs["list"]] for r in sel]}
    except IndexError:
        return {"err": "IndexError"}
    raise KeyError(k)


def _key(c):
    ix = c["idx"]
    k = ix["k"]
    if k == "sl2":
        return "sl2-%s-%s" % ("slice" if "sl" in ix["rsel"] else "list",
                              "slice" if "sl" in ix["csel"] else ("int" if "int" in ix["csel"] else "list"))
    return k


def _strip(r):
    return {k: v for k, v in r.items() if k != "msg"}


def oracle(c, r):
    exp = _reference(c)
    got = _strip(r)
    if got != exp:
        return [(_key(c), "lens %s ctor %s w %d idx %s: implementation %s, list of rows %s" % (
            c["lens"], c["ctor"], c["w"], c["idx"], r, exp))]
    return []


# ----------------------------------------------------------------------------- Coq side
def _cslice(t):
    return "(%s, %s, %s)" % (copt(t[0], cz, "Z"), copt(t[1], cz, "Z"), copt(t[2], cz, "Z"))


def _czl(xs):
    return clist(xs, cz, "Z")


def _cidx(ix):
    k = ix["k"]
    if k == "row":
        return "(Row %s)" % cz(ix["r"])
    if k == "rows":
        return "(Rows %s)" % _cslice(ix["sl"])
    if k == "rowlist":
        return "(RowList %s)" % _czl(ix["rs"])
    if k == "elem":
        return "(Elem %s %s)" % (cz(ix["r"]), cz(ix["c"]))
    if k == "pairs":
        return "(Pairs %s %s)" % (_czl(ix["rs"]), _czl(ix["cs"]))
    if k == "pairs_scalar":
        return "(PairsScalar %s %s)" % (_czl(ix["rs"]), cz(ix["c"]))
    if k == "elem_list":
        return "(ElemList %s %s)" % (cz(ix["r"]), _czl(ix["cs"]))
    if k == "rowsl":
        return "(RowSl %s %s)" % (cz(ix["r"]), _cslice(ix["sl"]))
    if k == "mask":
        return "(Mask %s)" % clist(ix["m"], lambda m: clist(m, cb, "bool"), "(list bool)")
    if k == "sl2":
        rs, cs = ix["rsel"], ix["csel"]
        if "sl" in rs and "sl" in cs:
            return "(Sl2SS %s %s)" % (_cslice(rs["sl"]), _cslice(cs["sl"]))
        if "list" in rs and "sl" in cs:
            return "(Sl2LS %s %s)" % (_czl(rs["list"]), _cslice(cs["sl"]))
        if "sl" in rs and "int" in cs:
            return "(Sl2SI %s %s)" % (_cslice(rs["sl"]), cz(cs["int"]))
        if "sl" in rs and "list" in cs:
            return "(Sl2SL %s %s)" % (_cslice(rs["sl"]), _czl(cs["list"]))
    raise KeyError(k)


def _cconc(c):
    return "(mkRA %s %s)" % (_czl(c["vals"]), clist(c["lens"], cn, "nat"))


def _cres(r):
    if "ra" in r:
        return "(Val %s)" % clist(r["ra"], _czl, "(list Z)")
    if "flat" in r:
        return "(Flat %s)" % _czl(r["flat"])
    return None


def coq_check(c, r):
    conc = _cconc(c)
    if c["idx"]["k"] == "attrs":
        if "err" in r:
            return "false"
        shape2 = r["shape"][1]
        return ("check_attrs %s %s %s %s %s %s %s %s && zlist_eqb (gen_starts %s) %s" % (
            conc, clist(r["lengths"], cn, "nat"), clist(r["starts"], cn, "nat"), cn(r["len"]),
            copt(shape2, cn, "nat"), cn(r["size"] // max(1, c["w"])), clist(r["iter"], _czl, "(list Z)"),
            _czl(r["flatten"][::max(1, c["w"])]), _czl(r["lengths"]), _czl(r["starts"])))
    # every read is evaluated on the hand-written model (get_c) and on the read assembled from the
    # definitions regenerated from the current source (get_g)
    if "err" in r:
        if r["err"] == "IndexError":
            return "result_eqb (get_c %s %s) Err && result_eqb (get_g %s %s) Err" % (
                conc, _cidx(c["idx"]), conc, _cidx(c["idx"]))
        return "false"
    t = "result_eqb (get_c %s %s) %s && result_eqb (get_g %s %s) %s" % (
        conc, _cidx(c["idx"]), _cres(r), conc, _cidx(c["idx"]), _cres(r))
    if c["idx"]["k"] == "mask":
        m = clist(c["idx"]["m"], lambda m: clist(m, cb, "bool"), "(list bool)")
        wr, wc = clist(r["where"][0], cn, "nat"), clist(r["where"][1], cn, "nat")
        t = "(%s) && where_eqb (where_c %s) %s %s && where_g_eqb (where_g %s) %s %s" % (t, m, wr, wc, m, wr, wc)
    return t


def coq_show(c):
    if c["idx"]["k"] == "attrs":
        return "show_attrs %s" % _cconc(c)
    return "(get_c %s %s, get_g %s %s)" % (_cconc(c), _cidx(c["idx"]), _cconc(c), _cidx(c["idx"]))


def nontrivial(c, r):
    if len(c["lens"]) < 2 or c["idx"]["k"] == "attrs":
        return len(c["lens"]) >= 2
    if "err" in r:
        return True
    vals = r.get("flat") if "flat" in r else [e for row in r["ra"] for e in row]
    return 0 < len(vals) < len(c["vals"]) or (len(vals) > 0 and vals != c["vals"])


def tags(c, r):
    t = [_key(c), "ctor-" + c["ctor"], "w%d" % c["w"]]
    t.append("rect" if all(l == c["lens"][0] for l in c["lens"]) else "ragged")
    if "err" in r:
        t.append("err-" + r["err"])
        if c["idx"]["k"] in ("elem", "pairs", "pairs_scalar", "elem_list"):
            t.append("elem-oob-error")
    if "ra" in r and any(len(x) == 0 for x in r["ra"]):
        t.append("result-has-empty-row")
    if "ra" in r and len(r["ra"]) == 0:
        t.append("result-no-rows")
    ix = c["idx"]
    sls = []
    if ix["k"] in ("rows", "rowsl"):
        sls.append(ix["sl"])
    if ix["k"] == "sl2":
        for s in (ix["rsel"], ix["csel"]):
            if "sl" in s:
                sls.append(s["sl"])
    for s in sls:
        if s[2] is not None and s[2] < 0:
            t.append("neg-step")
        if s[0] is not None and s[0] < 0:
            t.append("neg-start")
        if s[1] is not None and s[1] < 0:
            t.append("neg-stop")
    return sorted(set(t))


ESSENTIAL_TAGS = ["row", "rows", "rowlist", "elem", "pairs", "pairs_scalar", "elem_list", "rowsl", "mask", "attrs",
                  "sl2-slice-slice", "sl2-list-slice", "sl2-slice-int", "sl2-slice-list", "neg-step", "neg-start",
                  "neg-stop", "elem-oob-error", "result-has-empty-row", "rect", "ragged",
                  "ctor-nested", "ctor-nested_np", "ctor-flat", "ctor-flat_np"]


def search(rng, tier):
    out = []
    for c in _small_scope(rng)[::7] + _random_cases(rng, 3000):
        r = run_impl(c)
        for key, msg in oracle(c, r):
            out.append((key, msg, c, r))
            if len(out) > 20:
                return out
    return out
