"""C08: reactive flux obeys its definition and is conserved (enspara/tpt/tpt.py).

Cases are reversible chains given by a symmetric integer count matrix C: the model works on the
exact rationals T = C_ij / rowsum_i, pi = rowsum_i / total and on the exact forward committor
(solved here in Fractions, *verified* in Coq by Flux.hyps_b), the real code on the nearest doubles.
"""
import math, os, sys
from fractions import Fraction as F
import numpy as np
from core import cz, cn, cq, clist, copt, VERIF
sys.path.insert(0, os.path.join(VERIF, "translator"))
import tr_flux

PID = "C08"
PROPS_FILE = "Props/C08.v"
MODEL_TARGETS = ["Model/Flux.vo", "Gen/FluxGen.vo"]
GEN_FILES = ["Gen/FluxGen.v"]
CASE_HEADER = ("From Coq Require Import List Arith QArith Bool.\nFrom EV Require Import Flux FluxBase FluxGen.\n"
               "Import ListNotations.\nOpen Scope Q_scope.\n")
RULE = ("reversible chains from random connected symmetric integer count matrices (n = 2..6 quick, ..8 thorough; "
        "entries 0..6 with many zeros, line graphs and dead-end branches so that committors hit 0/1 on intermediate "
        "states; non-uniform stationary vector), all kinds of disjoint non-empty source/sink sets of size 1..3 incl. "
        "sets covering every state, plus for a few matrices (n = 3,4 quick; 3,4,5 thorough) every pair of disjoint non-empty sets; populations given (exact pi, or 2*pi: unnormalised, so that a dropped populations argument shows) or computed by the code; dense ndarray and "
        "csr/csc/coo/lil/dok/dia/bsr containers; a malformed stream with a populations vector of the wrong length. "
        "Each case runs the real committors, reactive_fluxes, net_fluxes, reactive_populations; Coq evaluates "
        "Flux.hyps_b (stochastic, detailed balance, committor equations, bounds, set discipline: exact) and compares "
        "the three model outputs AND the three definitions regenerated from the current tpt.py (Gen/FluxGen.v, the dense "
        "or the sparse one according to the container) to 1e-9. non-trivial := valid case, n >= 4, non-uniform pi, >= 2 states with 0<q<1")
TRUSTED = ["translator/tr_flux.py: statement shapes of tpt.py and the shape typing of NumPy broadcasting / scipy.sparse "
           ".multiply (M * v[:, None] = row_scale, M * v = col_scale; entry semantics in Base/FluxBase.v, proved equal to "
           "the model in Proof/FluxGenProofs.v, exercised by the correspondence on every case)",
           "modelled not verified: NumPy broadcasting / scipy.sparse multiply, maximum, tolil, transpose as executed",
           "forward committor: produced by enspara.tpt.core.committors (property C07); here an input whose defining "
           "equations are checked per case (exactly on the exact solution, to 1e-9 on the code's doubles)",
           "eq_probs eigen-solver when populations are computed (compared with the exact stationary vector to 1e-9)"]
ASSUMPTIONS = ["transition matrix square, populations vector of the matrix dimension (a length-1 populations vector "
               "broadcasts silently in NumPy; outside the property's quantifier, not generated)",
               "conservation / source-sink clauses: reversible chain, disjoint non-empty duplicate-free sets",
               "reactive populations: clause applies when the normaliser sum(pi q (1-q)) is non-zero (otherwise no "
               "probability vector vanishing on sources and sinks exists; the code returns NaN, the model None)"]
EXHAUSTIVE = {"thorough": False}
SHARD = 40


def translate(repo):
    return tr_flux.translate(repo)
TOL = F(1, 10 ** 9)
FMTS = ["dense", "csr", "csc", "coo", "lil", "dok", "dia", "bsr"]


# ----------------------------------------------------------------------------- generation
def _connected(C):
    n = len(C)
    seen, todo = {0}, [0]
    while todo:
        i = todo.pop()
        for j in range(n):
            if i != j and C[i][j] > 0 and j not in seen:
                seen.add(j)
                todo.append(j)
    return len(seen) == n


def _counts(rng, n):
    while True:
        shape = rng.random()
        C = [[0] * n for _ in range(n)]
        for i in range(n):
            C[i][i] = rng.choice([0, 0, 1, 2, 3, 6])
        if shape < 0.06:            # line graph (in a random order of the states)
            order = list(range(n))
            rng.shuffle(order)
            for a, b in zip(order, order[1:]):
                C[a][b] = C[b][a] = rng.randint(1, 5)
        elif shape < 0.15:          # tree: dead-end branches
            order = list(range(n))
            rng.shuffle(order)
            for k in range(1, n):
                a, b = order[k], order[rng.randrange(k)]
                C[a][b] = C[b][a] = rng.randint(1, 5)
        else:
            dens = rng.choice([0.5, 0.7, 0.9])
            for i in range(n):
                for j in range(i + 1, n):
                    if rng.random() < dens:
                        C[i][j] = C[j][i] = rng.randint(1, 6)
        if _connected(C) and all(sum(r) > 0 for r in C):
            return C


def _sets(rng, n):
    states = list(range(n))
    rng.shuffle(states)
    r = rng.random()
    if r < 0.05:                    # every state is a source or a sink
        ns = rng.randint(1, n - 1)
        return states[:ns], states[ns:]
    ns = rng.choice([1, 1, 1, 2, 3])
    nk = rng.choice([1, 1, 1, 2, 3])
    while ns + nk > max(2, n - rng.choice([1, 1, 2])):   # leave intermediate states when n >= 3
        if ns > 1:
            ns -= 1
        elif nk > 1:
            nk -= 1
    return states[:ns], states[ns:ns + nk]


def generate(rng, tier):
    ncases = 360 if tier == "quick" else 3600
    sizes = [2, 3, 4, 4, 4, 5, 5, 5, 5, 6, 6, 6] if tier == "quick" else [2, 3, 4, 4, 4, 5, 5, 5, 6, 6, 6, 7, 7, 8]
    cases = []
    for k in range(ncases):
        n = rng.choice(sizes)
        C = _counts(rng, n)
        src, snk = _sets(rng, n)
        c = {"C": C, "src": src, "snk": snk, "pops": rng.choice(["given", "given", "given-unnormalised", "computed", "computed"]),
             "fmt": rng.choice(FMTS) if rng.random() < 0.6 else "dense",
             "scalar_sets": rng.random() < 0.15}
        if rng.random() < 0.06 and n >= 3:
            c["pops"] = "given"
            c["badlen"] = rng.choice([n - 1, n + 1]) if n - 1 >= 2 else n + 1
        cases.append(c)
    # small scope, exhaustive in the sets: every pair of disjoint non-empty source/sink sets
    for n, nmat in ((3, 2), (4, 1)) if tier == "quick" else ((3, 4), (4, 6), (5, 2)):
        for _ in range(nmat):
            C = _counts(rng, n)
            for code in range(3 ** n):
                lab = [(code // 3 ** k) % 3 for k in range(n)]
                src = [i for i in range(n) if lab[i] == 1]
                snk = [i for i in range(n) if lab[i] == 2]
                if src and snk:
                    cases.append({"C": C, "src": src, "snk": snk, "pops": rng.choice(["given", "computed"]),
                                  "fmt": rng.choice(["dense", "csr", "lil", "coo"]), "scalar_sets": False,
                                  "allsets": True})
    return cases


# ----------------------------------------------------------------------------- exact data
def _exact(c):
    C = c["C"]
    n = len(C)
    rs = [sum(r) for r in C]
    tot = sum(rs)
    T = [[F(C[i][j], rs[i]) for j in range(n)] for i in range(n)]
    pi = [F(rs[i], tot) for i in range(n)]
    return T, pi


def _solve(A, b):
    """Gauss-Jordan over Fractions; None when singular."""
    n = len(A)
    M = [list(A[i]) + [b[i]] for i in range(n)]
    for col in range(n):
        piv = next((r for r in range(col, n) if M[r][col] != 0), None)
        if piv is None:
            return None
        M[col], M[piv] = M[piv], M[col]
        p = M[col][col]
        M[col] = [x / p for x in M[col]]
        for r in range(n):
            if r != col and M[r][col] != 0:
                f = M[r][col]
                M[r] = [x - f * y for x, y in zip(M[r], M[col])]
    return [M[i][n] for i in range(n)]


def _exact_q(T, src, snk):
    n = len(T)
    mid = [i for i in range(n) if i not in src and i not in snk]
    q = [F(0)] * n
    for i in snk:
        q[i] = F(1)
    if mid:
        A = [[(F(1) if i == j else F(0)) - T[i][j] for j in mid] for i in mid]
        b = [sum(T[i][k] for k in snk) for i in mid]
        x = _solve(A, b)
        if x is None:
            return None
        for i, v in zip(mid, x):
            q[i] = v
    return q


def _pops_arg(c, pi):
    if c["pops"] == "computed":
        return None
    if c["pops"] == "given-unnormalised":      # detailed balance and every clause but "sums to 1" are scale-free
        pi = [2 * x for x in pi]
    m = c.get("badlen")
    if m is None:
        return pi
    return (pi + [F(1, 7)] * m)[:m]


# ----------------------------------------------------------------------------- implementation
def _fr(x):
    return str(F(float(x)))


def _mat(x):
    import scipy.sparse as sp
    a = x.toarray() if sp.issparse(x) else np.asarray(x)
    if a.ndim != 2 or not np.all(np.isfinite(a)):
        return {"bad": "shape %s finite %s" % (a.shape, bool(np.all(np.isfinite(a))))}
    return {"val": [[_fr(v) for v in row] for row in a], "kind": type(x).__name__}


def _vec(x):
    a = np.asarray(x)
    if a.ndim != 1:
        return {"bad": "shape %s" % (a.shape,)}
    if np.any(np.isnan(a)):
        return {"nan": True, "all_nan": bool(np.all(np.isnan(a)))}
    if not np.all(np.isfinite(a)):
        return {"bad": "inf"}
    return {"val": [_fr(v) for v in a]}


def _call(fn, conv):
    try:
        return conv(fn())
    except Exception as ex:
        return {"err": type(ex).__name__, "msg": str(ex)[:120]}


def run_impl(c):
    import scipy.sparse as sp
    from enspara.tpt import tpt
    from enspara.tpt import committors
    T, pi = _exact(c)
    Tf = np.array([[float(x) for x in row] for row in T])
    if c["fmt"] == "dense":
        mk = lambda: Tf.copy()
    else:
        mk = lambda: sp.coo_matrix(Tf).asformat(c["fmt"])
    pa = _pops_arg(c, pi)
    pops = None if pa is None else np.array([float(x) for x in pa])
    src, snk = list(c["src"]), list(c["snk"])
    if c.get("scalar_sets"):
        src = src[0] if len(src) == 1 else src
        snk = snk[0] if len(snk) == 1 else snk
    kw = lambda: dict(populations=None if pops is None else pops.copy())
    hist = None
    if c["fmt"] in ("dense", "lil") and _valid(c):
        # history probe: analyse a matrix, overwrite the SAME object in place with the lag-2 model
        # (same stationary populations, still reversible), analyse again; must equal a fresh computation
        try:
            T2 = Tf @ Tf
            buf = mk()
            for fn in (tpt.reactive_fluxes, tpt.net_fluxes, tpt.reactive_populations):
                fn(buf, src, snk, **kw())
            if c["fmt"] == "dense":
                buf[...] = T2
                fresh = lambda: T2.copy()
            else:
                buf[:, :] = T2
                fresh = lambda: sp.lil_matrix(T2)
            dense = lambda x: x.toarray() if sp.issparse(x) else np.asarray(x)
            hist = all(np.array_equal(dense(fn(buf, src, snk, **kw())), dense(fn(fresh(), src, snk, **kw())), equal_nan=True)
                       for fn in (tpt.reactive_fluxes, tpt.net_fluxes, tpt.reactive_populations))
        except Exception as ex:
            hist = "err:" + type(ex).__name__
    return {"hist": hist,
            "q": _call(lambda: committors(mk(), src, snk), _vec),
            "F": _call(lambda: tpt.reactive_fluxes(mk(), src, snk, **kw()), _mat),
            "N": _call(lambda: tpt.net_fluxes(mk(), src, snk, **kw()), _mat),
            "R": _call(lambda: tpt.reactive_populations(mk(), src, snk, **kw()), _vec)}


# ----------------------------------------------------------------------------- oracle
def _valid(c):
    return c.get("badlen") is None


def oracle(c, r):
    out = []
    T, pi = _exact(c)
    pi = _pops_arg(c, pi) or pi          # the populations the code was given (exact pi when it computes them)
    n = len(T)
    src, snk = c["src"], c["snk"]
    tol = TOL
    if not _valid(c):
        for k in ("F", "N", "R"):
            if "err" not in r[k]:
                out.append(("malformed-accepted", "%s accepted a populations vector of length %d for %d states: %s"
                            % (k, c["badlen"], n, str(r[k])[:120])))
        return out
    if r.get("hist") is False:
        out.append(("history-dependence", "re-analysing an array overwritten in place (lag-2 model in the same object) differs from a fresh computation"))
    for k in ("q", "F", "N"):
        if "val" not in r[k]:
            out.append(("no-value-" + k, "%s did not return a finite array: %s" % (k, r[k])))
    if out:
        return out
    q = [F(x) for x in r["q"]["val"]]
    Fm = [[F(x) for x in row] for row in r["F"]["val"]]
    Nm = [[F(x) for x in row] for row in r["N"]["val"]]
    if len(q) != n or len(Fm) != n or len(Nm) != n or any(len(x) != n for x in Fm + Nm):
        return [("shape", "wrong shapes")]
    mid = [i for i in range(n) if i not in src and i not in snk]
    # the committor input satisfies its equations (owned by C07; here the assumption of the theorems)
    for i in range(n):
        want = F(0) if i in src else F(1) if i in snk else sum(T[i][j] * q[j] for j in range(n))
        if abs(q[i] - want) > tol or q[i] < -tol or q[i] > 1 + tol:
            out.append(("committor-eqs", "q[%d]=%s violates its equation (want %s)" % (i, float(q[i]), float(want))))
            break
    # definition: f_ij = pi_i (1-q_i) T_ij q_j off the diagonal, exactly 0 on it
    for i in range(n):
        for j in range(n):
            if i == j:
                if Fm[i][j] != 0:
                    out.append(("flux-diagonal", "flux[%d][%d] = %s" % (i, j, float(Fm[i][j]))))
            else:
                want = pi[i] * (1 - q[i]) * T[i][j] * q[j]
                if abs(Fm[i][j] - want) > tol:
                    out.append(("flux-definition", "flux[%d][%d] = %s, pi_i q-_i T_ij q+_j = %s"
                                % (i, j, float(Fm[i][j]), float(want))))
    # net flux = positive part of f - f^T; at most one direction carries net flux
    for i in range(n):
        for j in range(n):
            want = max(Fm[i][j] - Fm[j][i], F(0))
            if abs(Nm[i][j] - want) > tol:
                out.append(("net-definition", "net[%d][%d] = %s, (f - f^T)+ = %s" % (i, j, float(Nm[i][j]), float(want))))
            if Nm[i][j] < 0:
                out.append(("net-negative", "net[%d][%d] = %s" % (i, j, float(Nm[i][j]))))
            if Nm[i][j] != 0 and Nm[j][i] != 0:
                out.append(("net-one-direction", "net[%d][%d] and net[%d][%d] both non-zero" % (i, j, j, i)))
    rowN = [sum(Nm[i]) for i in range(n)]
    colN = [sum(Nm[j][i] for j in range(n)) for i in range(n)]
    for i in mid:
        if abs(rowN[i] - colN[i]) > tol:
            out.append(("conservation", "intermediate state %d: net out %s, net in %s" % (i, float(rowN[i]), float(colN[i]))))
        fo, fi = sum(Fm[i]), sum(Fm[j][i] for j in range(n))
        if abs(fo - fi) > tol:
            out.append(("conservation-gross", "intermediate state %d: flux out %s, flux in %s" % (i, float(fo), float(fi))))
    for i in src:
        if colN[i] > tol:
            out.append(("into-sources", "net flux %s into source %d" % (float(colN[i]), i)))
    for i in snk:
        if rowN[i] > tol:
            out.append(("out-of-sinks", "net flux %s out of sink %d" % (float(rowN[i]), i)))
    so, si = sum(rowN[i] for i in src), sum(colN[i] for i in snk)
    if abs(so - si) > tol:
        out.append(("source-out-eq-sink-in", "out of sources %s, into sinks %s" % (float(so), float(si))))
    # reactive populations
    qe = _exact_q(T, src, snk)
    norm = None if qe is None else sum(pi[i] * qe[i] * (1 - qe[i]) for i in range(n))
    R = r["R"]
    if "val" in R:
        rv = [F(x) for x in R["val"]]
        if norm is not None and norm != 0:
            if len(rv) != n or any(x < -tol for x in rv) or abs(sum(rv) - 1) > tol:
                out.append(("rpop-probability", "reactive populations %s" % [float(x) for x in rv]))
            elif any(abs(rv[i]) > tol for i in src + snk):
                out.append(("rpop-sources-sinks", "reactive populations %s non-zero on a source/sink" % [float(x) for x in rv]))
            else:
                for i in range(n):
                    want = pi[i] * qe[i] * (1 - qe[i]) / norm
                    if abs(rv[i] - want) > tol:
                        out.append(("rpop-definition", "reactive population %d = %s, want %s" % (i, float(rv[i]), float(want))))
                        break
    elif "nan" in R:
        if norm is not None and norm != 0:
            out.append(("rpop-probability", "NaN reactive populations although the normaliser is %s" % float(norm)))
    else:
        out.append(("no-value-R", "reactive_populations: %s" % R))
    # one complaint per clause is enough
    seen, uniq = set(), []
    for k, m in out:
        if k not in seen:
            seen.add(k)
            uniq.append((k, m))
    return uniq


# ----------------------------------------------------------------------------- Coq side
def _ql(v):
    return clist(v, cq, "Q")


def _qll(m):
    return clist(m, _ql, "(list Q)")


def _prelude(c):
    T, pi = _exact(c)
    pa = _pops_arg(c, pi)
    q = _exact_q(T, c["src"], c["snk"])
    if q is None:
        return None
    return ("let T := %s in let pi := %s in let q := %s in let src := %s in let snk := %s in "
            % (_qll(T), _ql(pi if pa is None else pa), _ql(q), clist(c["src"], cn, "nat"), clist(c["snk"], cn, "nat")))


def _optmat(x):
    if "val" in x:
        return "(Some %s)" % _qll([[F(v) for v in row] for row in x["val"]])
    if "err" in x:
        return "(@None (list (list Q)))"
    return None


def coq_check(c, r):
    pre = _prelude(c)
    if pre is None:
        return None
    tol = cq(TOL)
    Fi, Ni = _optmat(r["F"]), _optmat(r["N"])
    if Fi is None or Ni is None:
        return "false"
    R = r["R"]
    if _valid(c) and _zero_norm(c):
        # 0/0: the code returns NaN or normalised rounding noise; the property's clause does not apply.
        # Coq still confirms that the model's normaliser is exactly zero.
        Ri = "(@None (list Q))"
    elif "val" in R:
        Ri = "(Some %s)" % _ql([F(v) for v in R["val"]])
    elif "err" in R or R.get("all_nan"):
        Ri = "(@None (list Q))"
    else:
        return "false"
    parts = []
    if _valid(c):
        if "val" not in r["q"]:
            return "false"
        parts.append("hyps_b T pi q src snk")
        parts.append("CaseLib.ql_close %s %s q" % (tol, _ql([F(v) for v in r["q"]["val"]])))
    parts.append("CaseLib.opt_eqb (CaseLib.qll_close %s) %s (reactive_fluxes T pi q)" % (tol, Fi))
    netfn = "net_fluxes" if c["fmt"] == "dense" else "net_fluxes_sparse"      # the code's two branches
    parts.append("CaseLib.opt_eqb (CaseLib.qll_close %s) %s (%s T pi q)" % (tol, Ni, netfn))
    parts.append("CaseLib.opt_eqb (CaseLib.ql_close %s) %s (reactive_populations pi q)" % (tol, Ri))
    if _valid(c):
        # the definitions regenerated from the current source (unguarded expressions: valid shapes only)
        kind = "dense" if c["fmt"] == "dense" else "sparse"
        parts.append("CaseLib.opt_eqb (CaseLib.qll_close %s) %s (Some (gen_reactive_fluxes_%s T pi q))" % (tol, Fi, kind))
        parts.append("CaseLib.opt_eqb (CaseLib.qll_close %s) %s (Some (gen_net_fluxes_%s T pi q))" % (tol, Ni, kind))
        if Ri != "(@None (list Q))":
            parts.append("CaseLib.opt_eqb (CaseLib.ql_close %s) %s (Some (gen_reactive_populations pi q))" % (tol, Ri))
    return "(" + pre + "(" + " && ".join("(%s)" % p for p in parts) + ")%bool)"


def _zero_norm(c):
    T, pi = _exact(c)
    q = _exact_q(T, c["src"], c["snk"])
    return q is not None and sum(p * x * (1 - x) for p, x in zip(pi, q)) == 0


def coq_show(c):
    pre = _prelude(c)
    if pre is None:
        return "tt"
    return ("(" + pre + "(hyps_b T pi q src snk, q, option_map (map (map Qred)) (reactive_fluxes T pi q), "
            "option_map (map (map Qred)) (net_fluxes T pi q), option_map (map Qred) (reactive_populations pi q)))")


# ----------------------------------------------------------------------------- accounting
def _info(c):
    T, pi = _exact(c)
    q = _exact_q(T, c["src"], c["snk"])
    return T, pi, q


def nontrivial(c, r):
    if not _valid(c):
        return False
    T, pi, q = _info(c)
    if q is None:
        return False
    return len(T) >= 4 and len(set(pi)) > 1 and sum(1 for x in q if 0 < x < 1) >= 2


def tags(c, r):
    t = ["dense" if c["fmt"] == "dense" else "sparse", "fmt-" + c["fmt"], "pops-" + c["pops"], "n=%d" % len(c["C"])]
    if not _valid(c):
        return t + ["malformed-populations-length"]
    T, pi, q = _info(c)
    n = len(T)
    if len(c["src"]) > 1:
        t.append("multi-source")
    if len(c["snk"]) > 1:
        t.append("multi-sink")
    if len(set(pi)) > 1:
        t.append("nonuniform-pi")
    if q is not None:
        mid = [i for i in range(n) if i not in c["src"] and i not in c["snk"]]
        if sum(pi[i] * q[i] * (1 - q[i]) for i in range(n)) == 0:
            t.append("zero-normaliser")
            t.append("zero-normaliser-impl-" + ("nan" if "nan" in r.get("R", {}) else "rounding-noise"))
        if any(q[i] in (0, 1) for i in mid):
            t.append("intermediate-with-q-0-or-1")
        if not mid:
            t.append("no-intermediate-state")
        if "val" in r.get("N", {}):
            Nm = r["N"]["val"]
            if any(Nm[i][j] != "0" for i in range(n) for j in range(n)):
                t.append("some-net-flux")
    if c.get("scalar_sets"):
        t.append("scalar-source-or-sink-argument")
    if c.get("allsets"):
        t.append("all-source-sink-pairs-enumeration")
    return t


ESSENTIAL_TAGS = ["dense", "sparse", "pops-given", "pops-given-unnormalised", "pops-computed", "multi-source", "multi-sink", "nonuniform-pi",
                  "zero-normaliser", "intermediate-with-q-0-or-1", "malformed-populations-length", "some-net-flux"]


def search(rng, tier):
    found = []
    for c in generate(rng, "quick"):
        try:
            r = run_impl(c)
        except Exception:
            continue
        for key, msg in oracle(c, r):
            found.append((key, msg, c, r))
        if found:
            break
    return found
