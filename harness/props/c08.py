"""C08: reactive flux obeys its definition and is conserved (enspara/tpt/tpt.py).

Cases are reversible chains given by a symmetric integer count matrix C: the model works on the
exact rationals T = C_ij / rowsum_i, pi = rowsum_i / total and on the exact forward committor
(solved here in Fractions, *verified* in Coq by Flux.hyps_b), the real code on the nearest doubles.
"""
import math, os, sys
from fractions import Fraction as F
import numpy as np
from core import cz, cn, cq, clist, copt, VERIF
sys.path.insert(0, os.path.join(VERIF, "translator"))
import tr_flux

PID = "C08"
PROPS_FILE = "Props/C08.v"
MODEL_TARGETS = ["Model/Flux.vo", "Gen/FluxGen.vo"]
GEN_FILES = ["Gen/FluxGen.v"]
CASE_HEADER = ("From Coq Require Import List Arith QArith Bool.\nFrom EV Require Import Flux FluxBase FluxGen.\n"
               "Import ListNotations.\nOpen Scope Q_scope.\n")
RULE = ("reversible chains from random connected symmetric integer count matrices (n = 2..6 quick, ..8 thorough; "
        "entries 0..6 with many zeros, line graphs and dead-end branches so that committors hit 0/1 on intermediate "
        "states; non-uniform stationary vector), all kinds of disjoint non-empty source/sink sets of size 1..3 incl. "
        "sets covering every state, plus for a few matrices (n = 3,4 quick; 3,4,5 thorough) every pair of disjoint non-empty sets; populations given (exact pi, or 2*pi: unnormalised, so that a dropped populations argument shows) or computed by the code; dense ndarray and "
        "csr/csc/coo/lil/dok/dia/bsr containers; a malformed stream with a populations vector of the wrong length. "
        "Each case runs the real committors, reactive_fluxes, net_fluxes, reactive_populations; Coq evaluates "
        "Flux.hyps_b (stochastic, detailed balance, committor equations, bounds, set discipline: exact) and compares "
        "the three model outputs AND the three definitions regenerated from the current tpt.py (Gen/FluxGen.v, the dense "
        "or the sparse one according to the container) to 1e-9. non-trivial := valid case, n >= 4, non-uniform pi, >= 2 states with 0<q<1. "
        "Every call (all cases): each argument object (tprob: type, dtype, shape, strides, writeability and entries -- for a sparse container kind, dtype, entries, writeability; populations, "
        "sources, sinks) is snapshotted before and compared after (`argument-modified`); and for every valid case the three "
        "functions are called in all 6 orders on ONE shared set of argument objects, each result bit-identical to the call on "
        "fresh copies (`history-shared-arguments`). Stream `layout` (70 quick / 700 thorough): the same exact matrix as a "
        "C / Fortran-ordered / transposed-view / strided (both orders) / negative-stride / read-only / float32 (row sums powers of "
        "two: T exact in single precision) / np.matrix dense array, or a sparse container with read-only buffers / float32 data / "
        "stored zeros / unsorted indices / int64 indices / duplicate coo entries; self-transitions on most states; populations as "
        "array / strided view / read-only array / list / tuple; sources and sinks as list / tuple / scalar / int64 / int32 / "
        "read-only arrays. Stream `small` (70 / 700): populations 2^-k pi, k = 10..100 (every flux scales exactly: net_fluxes(T, "
        "2^-k p) must equal 2^-k net_fluxes(T, p) bit for bit, `scale-covariance`), or a heavy absorbing ground state (diagonal "
        "count 10^9..10^20, all other populations ~10^-K) so that net fluxes lie partly or wholly below 1e-12; all 8 containers; "
        "in this stream the flux clauses and the Coq comparison use 1e-9 * (largest exact reactive flux) instead of 1e-9. "
        "Stream `range` (30 / 300): a few edges carry 10^2..10^4 times the counts of the others (net fluxes spanning decades; populations given; fluxes to the ordinary 1e-9, reactive populations to max(1e-9, 2e-11 / normaliser): forward error bound of d_i / sum d under the stiff committor solve's error). "
        "Second wave. Stream `nearsym` (36 / 288): reversible rare-event chains whose transition matrix is symmetric except for entries below "
        "1e-8 while the stationary vector is far from uniform (symmetric counts: basin A with all row sums 2^K, basin B with all row sums r 2^K, "
        "r = 2, 4, 8, blocks exactly symmetric after division; 1..3 crossing edges of count 1..3; K >= 29, r 2^K <= 2^36; labels shuffled or "
        "not), source set in one basin and sink set in the other, populations computed by the code (5 of 6) or given, all 8 containers; flux "
        "clauses and the Coq comparison at (R / 2^42) * largest exact flux, reactive populations at R / 2^42 (R = largest row sum; <= 1.6 %; "
        "every clause still holds on the unchanged code at 1/60 of it, a uniform stationary vector is >= 17 % off). Stream `large` (12 / 46): 60..300 "
        "states with 3..10 % of the edges, one case per sparse container and ndarray, plus dense arrays with 513..700 states (2 quick / 6 "
        "thorough); results kept as (i, j, value) triplets; the clauses are evaluated in double arithmetic (numpy; rounding <= 1e-12 against the "
        "tolerance 1e-9: net flux = positive part of f - f^T for every entry, one direction per pair, conservation, definition against the code's "
        "own committor, whose equations are checked, reactive populations against a dense solve of the committor equations done by the "
        "harness) and the sparse results are compared with the code's dense results on the same matrix (`dense-sparse-agree`); oracle only. "
        "Fifth wave. Stream `sparray` (42 / 336) and 7 / 21 more near-symmetric and many-state cases: SciPy's sparse ARRAY classes csr_array, "
        "csc_array, coo_array, lil_array, dok_array, dia_array, bsr_array (all the installed SciPy offers; `*` is elementwise on them, unlike "
        "on the *_matrix classes), each plain, with self-transitions everywhere, in the representation variants of stream `layout`, with small "
        "magnitudes, populations given / unnormalised / computed. Stream `negidx` (70 / 560, plus 3 / 9 chains with 60..160 states): source "
        "and sink sets naming states the NumPy way from the end (i - n; -1 the last state and -n the first in half of the cases), alone and "
        "mixed with non-negative members, as list / tuple / scalar / int64 / int32 / read-only arrays, on dense arrays, *_matrix and *_array "
        "containers; model and oracle work on the states meant, and committors and the three flux functions called with the non-negative "
        "names are an extra reference (`negative-index-equivalence`, at the clause's tolerance)")
TRUSTED = ["translator/tr_flux.py: statement shapes of tpt.py and the shape typing of NumPy broadcasting / scipy.sparse "
           ".multiply (M * v[:, None] = row_scale, M * v = col_scale; entry semantics in Base/FluxBase.v, proved equal to "
           "the model in Proof/FluxGenProofs.v, exercised by the correspondence on every case)",
           "modelled not verified: NumPy broadcasting / scipy.sparse multiply, maximum, tolil, transpose as executed",
           "forward committor: produced by enspara.tpt.core.committors (property C07); here an input whose defining "
           "equations are checked per case (exactly on the exact solution, to 1e-9 on the code's doubles)",
           "eq_probs eigen-solver when populations are computed (compared with the exact stationary vector to 1e-9)"]
ASSUMPTIONS = ["transition matrix square, populations vector of the matrix dimension (a length-1 populations vector "
               "broadcasts silently in NumPy; outside the property's quantifier, not generated)",
               "conservation / source-sink clauses: reversible chain, disjoint non-empty duplicate-free sets",
               "float32 transition matrices: only matrices exactly representable in single precision (dyadic entries) and given "
               "populations (eq_probs in single precision is an accuracy question outside the property)",
               "small-magnitude stream: populations given (eq_probs cannot resolve populations of 1e-13 next to one of ~1), heavy "
               "state absorbing (as an intermediate state 1 - T_gg is not resolved in doubles)",
               "near-symmetric stream: source and sink sets in different basins (with both in one basin the other basin holds no "
               "absorbing state and the committor solve itself is only good to ~1e-6), smallest crossing probability >= 2^-36",
               "read-only buffers: csr/csc/coo/bsr/dia only (scipy's own lil indexing needs writeable row lists)",
               "reactive populations: clause applies when the normaliser sum(pi q (1-q)) is non-zero (otherwise no "
               "probability vector vanishing on sources and sinks exists; the code returns NaN, the model None)"]
EXHAUSTIVE = {"thorough": False}
SHARD = 40


def translate(repo):
    return tr_flux.translate(repo)
TOL = F(1, 10 ** 9)
FMTS = ["dense", "csr", "csc", "coo", "lil", "dok", "dia", "bsr"]


# ----------------------------------------------------------------------------- generation
def _connected(C):
    n = len(C)
    seen, todo = {0}, [0]
    while todo:
        i = todo.pop()
        for j in range(n):
            if i != j and C[i][j] > 0 and j not in seen:
                seen.add(j)
                todo.append(j)
    return len(seen) == n


def _counts(rng, n):
    while True:
        shape = rng.random()
        C = [[0] * n for _ in range(n)]
        for i in range(n):
            C[i][i] = rng.choice([0, 0, 1, 2, 3, 6])
        if shape < 0.06:            # line graph (in a random order of the states)
            order = list(range(n))
            rng.shuffle(order)
            for a, b in zip(order, order[1:]):
                C[a][b] = C[b][a] = rng.randint(1, 5)
        elif shape < 0.15:          # tree: dead-end branches
            order = list(range(n))
            rng.shuffle(order)
            for k in range(1, n):
                a, b = order[k], order[rng.randrange(k)]
                C[a][b] = C[b][a] = rng.randint(1, 5)
        else:
            dens = rng.choice([0.5, 0.7, 0.9])
            for i in range(n):
                for j in range(i + 1, n):
                    if rng.random() < dens:
                        C[i][j] = C[j][i] = rng.randint(1, 6)
        if _connected(C) and all(sum(r) > 0 for r in C):
            return C


def _sets(rng, n):
    states = list(range(n))
    rng.shuffle(states)
    r = rng.random()
    if r < 0.05:                    # every state is a source or a sink
        ns = rng.randint(1, n - 1)
        return states[:ns], states[ns:]
    ns = rng.choice([1, 1, 1, 2, 3])
    nk = rng.choice([1, 1, 1, 2, 3])
    while ns + nk > max(2, n - rng.choice([1, 1, 2])):   # leave intermediate states when n >= 3
        if ns > 1:
            ns -= 1
        elif nk > 1:
            nk -= 1
    return states[:ns], states[ns:ns + nk]


def generate(rng, tier):
    ncases = 360 if tier == "quick" else 3600
    sizes = [2, 3, 4, 4, 4, 5, 5, 5, 5, 6, 6, 6] if tier == "quick" else [2, 3, 4, 4, 4, 5, 5, 5, 6, 6, 6, 7, 7, 8]
    cases = []
    for k in range(ncases):
        n = rng.choice(sizes)
        C = _counts(rng, n)
        src, snk = _sets(rng, n)
        c = {"C": C, "src": src, "snk": snk, "pops": rng.choice(["given", "given", "given-unnormalised", "computed", "computed"]),
             "fmt": rng.choice(FMTS) if rng.random() < 0.6 else "dense",
             "scalar_sets": rng.random() < 0.15}
        if rng.random() < 0.06 and n >= 3:
            c["pops"] = "given"
            c["badlen"] = rng.choice([n - 1, n + 1]) if n - 1 >= 2 else n + 1
        cases.append(c)
    # small scope, exhaustive in the sets: every pair of disjoint non-empty source/sink sets
    for n, nmat in ((3, 2), (4, 1)) if tier == "quick" else ((3, 4), (4, 6), (5, 2)):
        for _ in range(nmat):
            C = _counts(rng, n)
            for code in range(3 ** n):
                lab = [(code // 3 ** k) % 3 for k in range(n)]
                src = [i for i in range(n) if lab[i] == 1]
                snk = [i for i in range(n) if lab[i] == 2]
                if src and snk:
                    cases.append({"C": C, "src": src, "snk": snk, "pops": rng.choice(["given", "computed"]),
                                  "fmt": rng.choice(["dense", "csr", "lil", "coo"]), "scalar_sets": False,
                                  "allsets": True})
    # ---- round 3s streams (appended: the cases above are unchanged)
    k3 = 1 if tier == "quick" else 10
    # (a) memory layout / container representation / argument forms
    dense_deck, sparse_deck = [], []
    for k in range(70 * k3):
        n = rng.choice(sizes)
        C = _counts(rng, n)
        src, snk = _sets(rng, n)
        c = {"C": C, "src": src, "snk": snk, "pops": rng.choice(["given", "given", "given-unnormalised", "computed"]),
             "scalar_sets": False, "stream": "layout"}
        # layouts / representations dealt from reshuffled decks (not drawn independently): every one of them occurs in
        # every run, whatever the seed
        if k % 10 < 7:
            c["fmt"] = "dense"
            c["layout"] = _deal(rng, DENSE_LAYOUTS, dense_deck)
        else:
            c["layout"] = _deal(rng, SPARSE_REPRS, sparse_deck)
            c["fmt"] = rng.choice({"ro": ["csr", "csc", "coo", "bsr", "dia"], "unsorted": ["csr", "csc"], "idx64": ["csr", "csc"],
                                   "dups": ["coo"]}.get(c["layout"], FMTS[1:]))
        if "f32" in c["layout"]:
            c["C"] = _dyadic(rng, C)           # T exactly representable in float32: same chain in both precisions
            if c["pops"] == "computed":        # eq_probs in single precision: accuracy outside the property
                c["pops"] = "given"
        elif rng.random() < 0.5:
            for i in range(n):                 # self-transitions everywhere: the diagonal reset has work to do
                c["C"][i][i] = rng.randint(1, 6)
        if c["pops"] != "computed":
            c["pops_form"] = rng.choice(POPS_FORMS)
        c["sets_form"] = rng.choice(SETS_FORMS)
        cases.append(c)
    # (b) small magnitudes: populations scaled by 2^-k (every flux scales exactly), or a heavy absorbing
    #     ground state (all other populations ~ 10^-K); flux tolerances relative to the flux scale
    for k in range(70 * k3):
        n = rng.choice(sizes)
        C = _counts(rng, n)
        src, snk = _sets(rng, n)
        c = {"C": C, "src": src, "snk": snk, "pops": "given", "fmt": rng.choice(FMTS), "scalar_sets": False,
             "stream": "small"}
        if rng.random() < 0.55:
            c["small"] = "scaled"
            c["scale_k"] = rng.choice([10, 20, 30, 31, 32, 33, 34, 35, 36, 30, 31, 32, 33, 34, 35, 36, 38, 40, 45, 50, 60, 80, 100])
        else:
            c["small"] = "rare"
            g = rng.choice(src + snk)
            c["C"][g][g] = 10 ** rng.choice([9, 10, 11, 11, 12, 12, 12, 12, 12, 13, 14, 16, 20]) + rng.randint(0, 9)
        cases.append(c)
    # (c) wide dynamic range inside one chain: a few edges carry 10^2..10^4 times the counts of the others, so that
    #     genuine net fluxes span several decades (ordinary absolute tolerance 1e-9)
    for k in range(30 * k3):
        n = rng.choice([4, 5, 5, 6, 6])
        C = _counts(rng, n)
        for i in range(n):
            for j in range(i + 1, n):
                if C[i][j] and rng.random() < 0.3:
                    C[i][j] = C[j][i] = C[i][j] * 10 ** rng.choice([2, 2, 3])
        src, snk = _sets(rng, n)
        cases.append({"C": C, "src": src, "snk": snk, "pops": "given", "fmt": rng.choice(FMTS),
                      "scalar_sets": False, "stream": "range"})
    cases += _wave2(rng, tier)
    cases += _wave5(rng, tier, sizes)
    return cases


# ----------------------------------------------------------------------------- round 3s, second wave: generators
BIG = 40      # more states than this: oracle in double arithmetic (numpy), no Coq comparison, results kept as triplets


def _big(c):
    return len(c["C"]) > BIG


def _sym_block(rng, n, k):
    """connected symmetric count matrix whose every row sums to 2^k (diagonal topped up)"""
    for _ in range(200):
        C = [[0] * n for _ in range(n)]
        for i in range(n):
            for j in range(i + 1, n):
                if rng.random() < 0.8:
                    C[i][j] = C[j][i] = rng.randint(1, 3)
        if not _connected(C) or any(sum(r) >= 2 ** k for r in C):
            continue
        for i in range(n):
            C[i][i] = 2 ** k - sum(C[i])
        return C
    return None


def _nearsym(rng):
    """reversible rare-event chain whose TRANSITION MATRIX is symmetric except for entries below 1e-8 while its stationary
    vector is far from uniform: symmetric counts, basin A with every row sum 2^K, basin B with every row sum r 2^K
    (r = 2, 4, 8), so that inside each basin T = (block counts) / 16 is exactly symmetric; 1..3 crossing edges of count
    1..3, i.e. probabilities w 2^-K one way and w 2^-K / r the other way (K >= 29, r 2^K <= 2^36); labels shuffled.
    -> (C, basin-of-state list)"""
    for _ in range(100):
        a, b, k = rng.randint(2, 4), rng.randint(2, 4), 4
        r = rng.choice([2, 4, 8])
        K = rng.randint(29, 36 - r.bit_length() + 1)     # largest row sum r 2^K <= 2^36 (see _near_rel)
        A, B = _sym_block(rng, a, k), _sym_block(rng, b, k)
        if A is None or B is None:
            continue
        n = a + b
        C = [[0] * n for _ in range(n)]
        for i in range(a):
            for j in range(a):
                C[i][j] = A[i][j] << (K - k)
        for i in range(b):
            for j in range(b):
                C[a + i][a + j] = (B[i][j] * r) << (K - k)
        for _ in range(rng.choice([1, 1, 2, 3])):
            i, j = rng.randrange(a), a + rng.randrange(b)
            if C[i][j]:
                continue
            w = rng.randint(1, 3)
            C[i][j] = C[j][i] = w
            C[i][i] -= w
            C[j][j] -= w
        if rng.random() < 0.5:       # the heavy basin first or last
            perm = list(range(n))
        else:
            perm = list(range(n))
            rng.shuffle(perm)
        C = [[C[perm[i]][perm[j]] for j in range(n)] for i in range(n)]
        basin = [0 if perm[i] < a else 1 for i in range(n)]
        return C, basin
    return None, None


def _large_counts(rng, n, dens):
    """connected symmetric counts on many states: a ring through all states in a shuffled order plus random edges at the
    given density, self transitions on half of the states"""
    order = list(range(n))
    rng.shuffle(order)
    C = [[0] * n for _ in range(n)]
    for a, b in zip(order, order[1:] + order[:1]):
        C[a][b] = C[b][a] = rng.randint(1, 6)
    for i in range(n):
        for j in range(i + 1, n):
            if rng.random() < dens:
                C[i][j] = C[j][i] = rng.randint(1, 6)
        if rng.random() < 0.5:
            C[i][i] = rng.randint(1, 6)
    return C


def _wave2(rng, tier):
    out = []
    k3 = 1 if tier == "quick" else 8
    # (d) near-symmetric transition matrices with a far-from-uniform stationary vector; populations computed (mostly)
    for k in range(36 * k3):
        C, basin = _nearsym(rng)
        if C is None:
            continue
        n = len(C)
        A = [i for i in range(n) if basin[i] == 0]
        B = [i for i in range(n) if basin[i] == 1]
        rng.shuffle(A)
        rng.shuffle(B)
        # source and sink in different basins (with both in one basin the other basin is a side pocket without an
        # absorbing state and the committor solve itself is only good to ~1e-6: C07's business, not this property's)
        if k % 2:
            src, snk = A[:rng.randint(1, len(A) - 1)], B[:rng.randint(1, len(B) - 1)]
        else:
            src, snk = B[:rng.randint(1, len(B) - 1)], A[:rng.randint(1, len(A) - 1)]
        out.append({"C": C, "src": src, "snk": snk, "pops": "given" if k % 6 == 5 else "computed",
                    "fmt": FMTS[(k // 3) % len(FMTS)] if k % 3 else "dense", "scalar_sets": False, "stream": "nearsym"})
    # (e) many states, few transitions per state (60..300 states, density 3..10 %), every container; oracle only
    plan = [(60, "csr"), (75, "lil"), (90, "csc"), (110, "coo"), (140, "dok"), (170, "bsr"), (200, "dia"), (240, "csr"),
            (300, "csc"), (120, "dense")]
    for rep in range(k3 if tier == "quick" else 4):
        for n, fmt in plan:
            if rep:
                n = rng.randint(60, 300)
            C = _large_counts(rng, n, rng.choice([0.03, 0.05, 0.07, 0.10]))
            perm = rng.sample(range(n), 6)
            out.append({"C": C, "src": perm[:rng.randint(1, 3)], "snk": perm[3:3 + rng.randint(1, 3)],
                        "pops": rng.choice(["given", "computed"]), "fmt": fmt, "scalar_sets": False, "stream": "large"})
    # (f) dense arrays with more than 512 rows
    for n in ([513, rng.randint(514, 700)] if tier == "quick" else [513, 514, 600, 640, 700, rng.randint(514, 700)]):
        C = _large_counts(rng, n, rng.choice([0.01, 0.02]))
        perm = rng.sample(range(n), 6)
        out.append({"C": C, "src": perm[:rng.randint(1, 3)], "snk": perm[3:3 + rng.randint(1, 3)],
                    "pops": "given", "fmt": "dense", "scalar_sets": False, "stream": "large"})
    return out


def _neg_flags(rng, xs, mode):
    k = len(xs)
    if mode in ("all", "none") or k == 1:
        return [0 if mode == "none" else 1] * k
    while True:
        f = [rng.randint(0, 1) for _ in xs]
        if any(f) and not all(f):
            return f


NEG_MODES = [("all", "none"), ("none", "all"), ("all", "all"), ("mixed", "mixed"), ("mixed", "none"), ("none", "mixed")]


def _wave5(rng, tier, sizes):
    """round 3s, fifth wave: (g) SciPy's sparse ARRAY classes, (h) states named by negative indices"""
    out = []
    k3 = 1 if tier == "quick" else 8
    sparse_deck, forms_deck, pforms_deck = [], [], []
    # (g) every sparse array class the installed SciPy offers (c["arr"]), through the streams of the *_matrix classes:
    #     plain, representation variants, small magnitudes, near-symmetric, many states
    for rep in range(6 * k3):
        for fmt in FMTS[1:]:
            n = rng.choice(sizes)
            C = _counts(rng, n)
            src, snk = _sets(rng, n)
            c = {"C": C, "src": src, "snk": snk, "pops": ["given", "computed", "given-unnormalised"][(rep + len(out)) % 3],
                 "fmt": fmt, "arr": True, "scalar_sets": False, "stream": "sparray"}
            kind = rep % 6
            if kind == 1:        # representation variants
                ok = [l for l in SPARSE_REPRS if fmt in {"ro": ["csr", "csc", "coo", "bsr", "dia"], "unsorted": ["csr", "csc"],
                                                       "idx64": ["csr", "csc"], "dups": ["coo"]}.get(l, FMTS[1:])]
                c["layout"] = rng.choice(ok)
                if "f32" in c["layout"]:
                    c["C"] = _dyadic(rng, C)
                    if c["pops"] == "computed":
                        c["pops"] = "given"
                if c["pops"] != "computed":
                    c["pops_form"] = _deal(rng, POPS_FORMS, pforms_deck)
                c["sets_form"] = _deal(rng, SETS_FORMS, forms_deck)
            elif kind == 2:      # small magnitudes
                c["pops"] = "given"
                if rng.random() < 0.5:
                    c["small"] = "scaled"
                    c["scale_k"] = rng.choice([10, 30, 33, 36, 40, 60, 100])
                else:
                    c["small"] = "rare"
                    g = rng.choice(src + snk)
                    c["C"][g][g] = 10 ** rng.choice([9, 11, 12, 12, 13, 16]) + rng.randint(0, 9)
            elif kind == 3:      # self-transitions everywhere, multi-member sets as arrays
                for i in range(n):
                    c["C"][i][i] = rng.randint(1, 6)
                c["sets_form"] = _deal(rng, SETS_FORMS, forms_deck)
            out.append(c)
    for k, fmt in enumerate(FMTS[1:] * (1 if tier == "quick" else 3)):
        if k % 2 == 0:           # near-symmetric transition matrix, far-from-uniform stationary vector
            C, basin = _nearsym(rng)
            if C is None:
                continue
            n = len(C)
            A = [i for i in range(n) if basin[i] == 0]
            B = [i for i in range(n) if basin[i] == 1]
            rng.shuffle(A)
            rng.shuffle(B)
            src, snk = A[:rng.randint(1, len(A) - 1)], B[:rng.randint(1, len(B) - 1)]
            out.append({"C": C, "src": src, "snk": snk, "pops": "computed" if k % 4 else "given", "fmt": fmt, "arr": True,
                        "scalar_sets": False, "stream": "nearsym"})
        else:                    # many states (oracle only)
            n = rng.randint(60, 160)
            C = _large_counts(rng, n, rng.choice([0.03, 0.05, 0.07]))
            perm = rng.sample(range(n), 6)
            out.append({"C": C, "src": perm[:rng.randint(1, 3)], "snk": perm[3:3 + rng.randint(1, 3)],
                        "pops": rng.choice(["given", "computed"]), "fmt": fmt, "arr": True, "scalar_sets": False, "stream": "large"})
    # (h) negative indices in the source / sink sets, alone and mixed with non-negative ones, in every argument form, on
    #     dense arrays and both families of sparse containers
    for k in range(70 * k3):
        n = rng.choice(sizes)
        C = _counts(rng, n)
        src, snk = _sets(rng, n)
        ms, mt = NEG_MODES[k % 6]
        c = {"C": C, "src": src, "snk": snk, "pops": ["given", "computed", "given-unnormalised", "given"][k % 4],
             "fmt": "dense" if k % 5 < 2 else FMTS[1:][(k // 5) % 7], "scalar_sets": False, "stream": "negidx"}
        if k % 5 >= 3 and c["fmt"] != "dense":
            c["arr"] = True
        # the ends of the index range often: the last state as -1, the first as -n
        edge = {0: n - 1, 1: 0}.get(k % 4)
        if edge is not None:
            key = "src" if (ms != "none" and (mt == "none" or rng.random() < 0.5)) else "snk"
            other = "snk" if key == "src" else "src"
            if edge in c[other]:
                c[other] = [c[key][0] if x == edge else x for x in c[other]]
            if edge not in c[key]:
                c[key] = [edge] + c[key][1:]
        c["neg"] = {"src": _neg_flags(rng, c["src"], ms), "snk": _neg_flags(rng, c["snk"], mt)}
        if edge is not None:
            c["neg"][key][c[key].index(edge)] = 1
        c["sets_form"] = _deal(rng, SETS_FORMS, forms_deck)
        if k % 7 == 3:
            for i in range(n):
                c["C"][i][i] = rng.randint(1, 6)
        out.append(c)
    for fmt, arr in [("dense", False), ("csr", False), ("coo", True)] * (1 if tier == "quick" else 3):
        n = rng.randint(60, 160)
        C = _large_counts(rng, n, rng.choice([0.03, 0.05, 0.07]))
        perm = rng.sample(range(n), 6)
        c = {"C": C, "src": perm[:rng.randint(1, 3)], "snk": perm[3:3 + rng.randint(1, 3)],
             "pops": rng.choice(["given", "computed"]), "fmt": fmt, "scalar_sets": False, "stream": "large"}
        if arr:
            c["arr"] = True
        c["neg"] = {"src": _neg_flags(rng, c["src"], rng.choice(["all", "mixed", "none"])),
                    "snk": _neg_flags(rng, c["snk"], rng.choice(["all", "mixed"]))}
        c["sets_form"] = _deal(rng, SETS_FORMS[:5], forms_deck)
        out.append(c)
    return out


DENSE_LAYOUTS = ["F", "F", "T-view", "T-view", "strided", "strided-F", "neg-strides", "readonly", "readonly-F",
                 "f32", "f32-F", "matrix"]
SPARSE_REPRS = ["f32", "explicit-zeros", "ro", "unsorted", "idx64", "dups", "ro", "explicit-zeros"]


def _deal(rng, items, deck):
    if not deck:
        deck.extend(items)
        rng.shuffle(deck)
    return deck.pop()


POPS_FORMS = ["array", "strided", "readonly", "readonly", "list", "tuple"]
SETS_FORMS = ["list", "array", "array32", "readonly", "tuple", "scalar"]


def _dyadic(rng, C):
    """same graph, diagonal chosen so that every row sum is a power of two (T_ij = C_ij / 2^k)"""
    C = [list(r) for r in C]
    for i in range(len(C)):
        off = sum(C[i]) - C[i][i]
        p = 1
        while p <= off:
            p *= 2
        C[i][i] = p * rng.choice([1, 1, 2]) - off
    return C


# ----------------------------------------------------------------------------- exact data
def _float_data(c):
    """many states: the double transition matrix and stationary vector straight from the counts (each entry the correctly
    rounded quotient, exactly what float(Fraction) gives)"""
    C = np.array(c["C"], dtype=float)
    rs = C.sum(axis=1)
    return C / rs[:, None], rs / rs.sum()


def _exact(c):
    C = c["C"]
    n = len(C)
    rs = [sum(r) for r in C]
    tot = sum(rs)
    T = [[F(C[i][j], rs[i]) for j in range(n)] for i in range(n)]
    pi = [F(rs[i], tot) for i in range(n)]
    return T, pi


def _solve(A, b):
    """Gauss-Jordan over Fractions; None when singular."""
    n = len(A)
    M = [list(A[i]) + [b[i]] for i in range(n)]
    for col in range(n):
        piv = next((r for r in range(col, n) if M[r][col] != 0), None)
        if piv is None:
            return None
        M[col], M[piv] = M[piv], M[col]
        p = M[col][col]
        M[col] = [x / p for x in M[col]]
        for r in range(n):
            if r != col and M[r][col] != 0:
                f = M[r][col]
                M[r] = [x - f * y for x, y in zip(M[r], M[col])]
    return [M[i][n] for i in range(n)]


def _exact_q(T, src, snk):
    n = len(T)
    mid = [i for i in range(n) if i not in src and i not in snk]
    q = [F(0)] * n
    for i in snk:
        q[i] = F(1)
    if mid:
        A = [[(F(1) if i == j else F(0)) - T[i][j] for j in mid] for i in mid]
        b = [sum(T[i][k] for k in snk) for i in mid]
        x = _solve(A, b)
        if x is None:
            return None
        for i, v in zip(mid, x):
            q[i] = v
    return q


def _pops_arg(c, pi):
    if c["pops"] == "computed":
        return None
    if c["pops"] == "given-unnormalised":      # detailed balance and every clause but "sums to 1" are scale-free
        pi = [2 * x for x in pi]
    if c.get("scale_k"):                       # 2^-k pi: exactly representable, every flux scales exactly
        pi = [x / 2 ** c["scale_k"] for x in pi]
    m = c.get("badlen")
    if m is None:
        return pi
    return (pi + [F(1, 7)] * m)[:m]


# ----------------------------------------------------------------------------- implementation
def _fr(x):
    return str(F(float(x)))


def _mat(x):
    import scipy.sparse as sp
    a = x.toarray() if sp.issparse(x) else np.asarray(x)
    if a.ndim != 2 or not np.all(np.isfinite(a)):
        return {"bad": "shape %s finite %s" % (a.shape, bool(np.all(np.isfinite(a))))}
    if a.shape[0] > BIG:
        # many states: the non-zero entries as (i, j, value) triplets, values as Python floats (exact in JSON)
        a = np.array(a, dtype=float)
        ii, jj = np.nonzero(a)
        return {"val": None, "n": list(a.shape), "ij": [ii.tolist(), jj.tolist()], "v": a[ii, jj].tolist(), "kind": type(x).__name__}
    return {"val": [[_fr(v) for v in row] for row in a], "kind": type(x).__name__}


def _unmat(x):
    a = np.zeros(tuple(x["n"]))
    a[x["ij"][0], x["ij"][1]] = x["v"]
    return a


def _digest(a):
    import hashlib
    a = np.asarray(a)
    if a.size <= 4096:
        return repr(a.tolist())         # repr: nan compares equal to nan
    return "sha1:" + hashlib.sha1(np.ascontiguousarray(a).tobytes()).hexdigest() + " of %d values" % a.size


def _vec(x):
    a = np.asarray(x)
    if a.ndim != 1:
        return {"bad": "shape %s" % (a.shape,)}
    if np.any(np.isnan(a)):
        return {"nan": True, "all_nan": bool(np.all(np.isnan(a)))}
    if not np.all(np.isfinite(a)):
        return {"bad": "inf"}
    return {"val": [_fr(v) for v in a]}


def _call(fn, conv):
    try:
        return conv(fn())
    except Exception as ex:
        return {"err": type(ex).__name__, "msg": str(ex)[:120]}


def _mk_tprob(c, Tf):
    """a fresh transition-matrix object of the case's container / memory layout, holding exactly Tf"""
    import scipy.sparse as sp
    lay = c.get("layout")
    n = len(Tf)
    if c["fmt"] == "dense":
        lay = lay or "C"
        if lay in ("C", "readonly"):
            a = Tf.copy()
        elif lay in ("F", "readonly-F"):
            a = np.array(Tf, order="F")
        elif lay == "T-view":
            a = np.array(Tf.T, order="C").T
        elif lay == "strided":
            a = np.full((2 * n, 3 * n), 7.0)[::2, 1::3]
            a[...] = Tf
        elif lay == "strided-F":
            a = np.full((3 * n, 2 * n), 7.0, order="F")[1::3, ::2]
            a[...] = Tf
        elif lay == "neg-strides":
            a = np.array(Tf[::-1, ::-1])[::-1, ::-1]
        elif lay in ("f32", "f32-F"):
            a = np.array(Tf, dtype=np.float32, order="F" if lay == "f32-F" else "C")
        elif lay == "matrix":
            a = np.matrix(Tf)
        else:
            raise ValueError("layout %r" % lay)
        if lay.startswith("readonly"):
            a.setflags(write=False)
        if not np.array_equal(np.asarray(a, dtype=float), Tf):
            raise ValueError("layout %r does not hold the matrix exactly" % lay)
        return a
    fmt = c["fmt"]
    lay = lay or "canon"
    # c["arr"]: SciPy's sparse ARRAY classes (csr_array, ...: `*` is elementwise on them) instead of the *_matrix ones
    coo_cls = sp.coo_array if c.get("arr") else sp.coo_matrix
    coo = coo_cls(Tf)
    if lay in ("canon", "ro"):
        x = coo.asformat(fmt)
    elif lay == "f32":
        x = coo.astype(np.float32).asformat(fmt)
    elif lay == "explicit-zeros":      # stored zeros at some structurally empty positions
        zr, zc = np.nonzero(Tf == 0)
        zr, zc = zr[::2], zc[::2]
        x = coo_cls((np.concatenate([coo.data, np.zeros(len(zr))]),
                     (np.concatenate([coo.row, zr]), np.concatenate([coo.col, zc]))), shape=Tf.shape).asformat(fmt)
    elif lay == "dups":                # coo with every entry stored as two halves (exact)
        x = coo_cls((np.concatenate([coo.data / 2, coo.data / 2]),
                     (np.concatenate([coo.row, coo.row]), np.concatenate([coo.col, coo.col]))), shape=Tf.shape)
    elif lay in ("unsorted", "idx64"):
        y = coo.asformat(fmt)
        data, ind, ptr = y.data.copy(), y.indices.copy(), y.indptr.copy()
        if lay == "unsorted":
            for a, b in zip(ptr, ptr[1:]):
                data[a:b] = data[a:b][::-1]
                ind[a:b] = ind[a:b][::-1]
        else:
            ind, ptr = ind.astype(np.int64), ptr.astype(np.int64)
        x = type(y)((data, ind, ptr), shape=y.shape)
    else:
        raise ValueError("layout %r" % lay)
    if lay == "ro":
        for a in ("data", "indices", "indptr", "row", "col", "offsets", "rows"):
            v = getattr(x, a, None)
            if isinstance(v, np.ndarray):
                v.setflags(write=False)
    if not np.array_equal(x.toarray().astype(float), Tf):
        raise ValueError("layout %r does not hold the matrix exactly" % lay)
    if type(x).__name__ != fmt + ("_array" if c.get("arr") else "_matrix"):
        raise ValueError("container %s instead of %s%s" % (type(x).__name__, fmt, "_array" if c.get("arr") else "_matrix"))
    return x


def _mk_pops(c, pa):
    if pa is None:
        return None
    v = np.array([float(x) for x in pa])
    form = c.get("pops_form", "array")
    if form == "strided":
        big = np.full(3 * len(v) + 1, 5.0)
        w = big[1::3]
        w[...] = v
        return w
    if form == "readonly":
        v.setflags(write=False)
    elif form == "list":
        return [float(x) for x in v]
    elif form == "tuple":
        return tuple(float(x) for x in v)
    return v


def _mk_sets(c):
    src, snk = list(c["src"]), list(c["snk"])
    # c["src"] / c["snk"] hold the states meant (what the model and the oracle work with); members flagged in c["neg"] are
    # handed over the NumPy way, counted from the end (i - n: -1 is the last state, -n the first)
    neg, n = c.get("neg"), len(c["C"])
    if neg:
        src = [i - n if f else i for i, f in zip(src, neg["src"])]
        snk = [i - n if f else i for i, f in zip(snk, neg["snk"])]
    form = c.get("sets_form", "scalar" if c.get("scalar_sets") else "list")
    if form == "scalar":
        return (src[0] if len(src) == 1 else src), (snk[0] if len(snk) == 1 else snk)
    if form == "tuple":
        return tuple(src), tuple(snk)
    if form in ("array", "array32", "readonly"):
        a, b = (np.array(x, dtype=np.int32 if form == "array32" else np.int64) for x in (src, snk))
        if form == "readonly":
            a.setflags(write=False)
            b.setflags(write=False)
        return a, b
    return src, snk


def _snap(x):
    """everything a caller can observe of an argument object"""
    import scipy.sparse as sp
    if sp.issparse(x):
        d = {"class": type(x).__name__, "format": x.format, "shape": tuple(x.shape), "dtype": str(x.dtype), "dense": _digest(x.toarray())}
        # the matrix a caller can observe: container kind, dtype and entries.  (scipy's own conversions sort the
        # index arrays of an unsorted csr/csc argument in place; that is not a change of the matrix.)
        d["writeable"] = [bool(v.flags.writeable) for v in (getattr(x, a, None) for a in ("data", "indices", "indptr", "row", "col", "offsets"))
                          if isinstance(v, np.ndarray)]
        return d
    if isinstance(x, np.ndarray):
        return {"type": type(x).__name__, "dtype": str(x.dtype), "shape": x.shape, "strides": x.strides,
                "writeable": bool(x.flags.writeable), "values": _digest(x)}
    return repr(x)


def _guarded(name, fn, args, kwargs, log):
    """call fn and record every argument object that is not what it was before the call"""
    labels = ["tprob", "sources", "sinks"][:len(args)] + list(kwargs)
    objs = list(args) + list(kwargs.values())
    before = [_snap(o) for o in objs]
    try:
        return fn(*args, **kwargs)
    finally:
        for lab, o, b in zip(labels, objs, before):
            a = _snap(o)
            if a != b:
                what = [k for k in b if a.get(k) != b[k]] if isinstance(b, dict) else []
                log.append("%s modified its argument `%s` (%s): before %s, after %s"
                           % (name, lab, ", ".join(what), str(b.get("values", b.get("dense")) if isinstance(b, dict) else b)[:200],
                              str(a.get("values", a.get("dense")) if isinstance(a, dict) else a)[:200]))


def _dense(x):
    import scipy.sparse as sp
    return x.toarray() if sp.issparse(x) else np.asarray(x)


def _same(a, b):
    return a.shape == b.shape and np.array_equal(a, b, equal_nan=True)


def run_impl(c):
    import itertools
    import scipy.sparse as sp
    from enspara.tpt import tpt
    from enspara.tpt import committors
    if _big(c):
        Tf, pi = _float_data(c)
        pi = [F(x) for x in pi.tolist()]       # the doubles handed over, as rationals
    else:
        T, pi = _exact(c)
        Tf = np.array([[float(x) for x in row] for row in T])
    mk = lambda: _mk_tprob(c, Tf)
    pa = _pops_arg(c, pi)
    pops = None if pa is None else np.array([float(x) for x in pa])
    mkp = lambda: _mk_pops(c, pa)
    src, snk = _mk_sets(c)
    kw = lambda: dict(populations=mkp())
    fns = {"F": ("reactive_fluxes", tpt.reactive_fluxes, _mat), "N": ("net_fluxes", tpt.net_fluxes, _mat),
           "R": ("reactive_populations", tpt.reactive_populations, _vec)}
    hist = None
    if c["fmt"] in ("dense", "lil") and _valid(c) and c.get("layout") is None and not _big(c):
        # history probe: analyse a matrix, overwrite the SAME object in place with the lag-2 model
        # (same stationary populations, still reversible), analyse again; must equal a fresh computation
        try:
            T2 = Tf @ Tf
            buf = mk()
            for fn in (tpt.reactive_fluxes, tpt.net_fluxes, tpt.reactive_populations):
                fn(buf, src, snk, **kw())
            if c["fmt"] == "dense":
                buf[...] = T2
                fresh = lambda: T2.copy()
            else:
                buf[:, :] = T2
                fresh = lambda: type(buf)(T2)
            dense = lambda x: x.toarray() if sp.issparse(x) else np.asarray(x)
            hist = all(np.array_equal(dense(fn(buf, src, snk, **kw())), dense(fn(fresh(), src, snk, **kw())), equal_nan=True)
                       for fn in (tpt.reactive_fluxes, tpt.net_fluxes, tpt.reactive_populations))
        except Exception as ex:
            hist = "err:" + type(ex).__name__
    # ---- the calls proper: fresh argument objects per call; every argument object must come back unchanged
    argmut, raw, out = [], {}, {}
    q = None
    try:
        q = _guarded("committors", committors, (mk(),) + _mk_sets(c), {}, argmut)
        out["q"] = _vec(q)
    except Exception as ex:
        out["q"] = {"err": type(ex).__name__, "msg": str(ex)[:120]}
    for k, (name, fn, conv) in fns.items():
        try:
            res = _guarded(name, fn, (mk(),) + _mk_sets(c), kw(), argmut)
            out[k] = conv(res)
            raw[k] = np.array(_dense(res))      # a copy: later calls must not be able to change what is compared
        except Exception as ex:
            out[k] = {"err": type(ex).__name__, "msg": str(ex)[:120]}
    out["hist"] = hist
    out["argmut"] = argmut[:6]
    if c.get("neg"):
        # the same calls with every state named by its non-negative index
        plain = {k: v for k, v in c.items() if k != "neg"}
        negref = []
        for k, (name, fn) in dict(q=("committors", committors), **{k: v[:2] for k, v in fns.items()}).items():
            try:
                ref = _dense(fn(mk(), *_mk_sets(plain)) if k == "q" else fn(mk(), *_mk_sets(plain), **kw()))
                got = (None if q is None else _dense(q)) if k == "q" else raw.get(k)
            except Exception as ex:
                negref.append("%s with the non-negative names raised %s" % (name, type(ex).__name__))
                continue
            if got is None:
                negref.append("%s: no result with sources %s sinks %s, but one with the non-negative names of the same states"
                              % (name, _mk_sets(c)[0], _mk_sets(c)[1]))
                continue
            tol = float(TOL if k == "q" else _rtol(c) if k == "R" else _ftol(c))
            dev = float(np.max(np.abs(got - ref))) if got.shape == ref.shape and got.size else (0.0 if got.shape == ref.shape else float("inf"))
            if not _same(got, ref) and not dev <= tol:
                negref.append("%s with sources %s sinks %s differs by %.3g from the call with the non-negative names of the same states "
                              "(sources %s sinks %s): %s vs %s" % (name, _mk_sets(c)[0], _mk_sets(c)[1], dev, c["src"], c["snk"],
                                                                    np.ravel(got)[:8].tolist(), np.ravel(ref)[:8].tolist()))
        out["negref"] = negref[:4]
    if _big(c) and c["fmt"] != "dense":
        # the dense computation on the same matrix (same populations, same sets)
        ref = {}
        try:
            ref["q"] = _vec(committors(Tf.copy(), *_mk_sets(c)))
        except Exception as ex:
            ref["q"] = {"err": type(ex).__name__, "msg": str(ex)[:120]}
        for k, (name, fn, conv) in fns.items():
            try:
                ref[k] = conv(fn(Tf.copy(), *_mk_sets(c), **kw()))
            except Exception as ex:
                ref[k] = {"err": type(ex).__name__, "msg": str(ex)[:120]}
        out["denseref"] = ref
    # ---- call histories on SHARED argument objects: the three functions in every order, each result must be
    #      the one of the call on fresh copies (bit for bit: same code, same values)
    shared = None
    if _valid(c) and len(raw) == 3:
        shared = []
        for perm in itertools.permutations("FNR"):
            tp, pp, (s1, s2) = mk(), mkp(), _mk_sets(c)
            for pos, k in enumerate(perm):
                name, fn, conv = fns[k]
                try:
                    got = _dense(_guarded(name, fn, (tp, s1, s2), dict(populations=pp), argmut))
                except Exception as ex:
                    shared.append("order %s: call %d (%s) on the shared argument objects raised %s: %s"
                                  % (">".join(perm), pos + 1, name, type(ex).__name__, str(ex)[:80]))
                    break
                if not _same(got, raw[k]):
                    dev = float(np.max(np.abs(got - raw[k]))) if got.shape == raw[k].shape else float("nan")
                    shared.append("order %s: call %d (%s) given the same tprob/populations/sources/sinks objects as the "
                                  "earlier calls differs from the call on fresh copies (max abs deviation %.3g; e.g. fresh %s, shared %s)"
                                  % (">".join(perm), pos + 1, name, dev, np.ravel(raw[k])[:6].tolist(), np.ravel(got)[:6].tolist()))
                    break
        seen, uniq = set(), []
        for m in argmut:
            if m.split(" (")[0] not in seen:
                seen.add(m.split(" (")[0])
                uniq.append(m)
        out["argmut"] = uniq[:6]
        shared = shared[:4]
    out["shared"] = shared
    # ---- exact covariance under a power-of-two scaling of the populations
    if c.get("scale_k") and _valid(c) and len(raw) == 3:
        sc, cov = 0.5 ** c["scale_k"], []
        unscaled = dict(c)
        unscaled.pop("scale_k")
        pu = _pops_arg(unscaled, pi)
        for k, (name, fn, conv) in fns.items():
            try:
                ref = _dense(fn(mk(), *_mk_sets(c), populations=_mk_pops(c, pu)))
            except Exception as ex:
                cov.append("%s with the unscaled populations raised %s" % (name, type(ex).__name__))
                continue
            want = ref if k == "R" else ref * sc
            if not _same(raw[k], want):
                bad = np.argwhere(raw[k] != want)[:1].tolist() if raw[k].shape == want.shape else "shape"
                cov.append("%s(T, 2^-%d p) != %s%s(T, p) bit for bit, first at %s: %s vs %s"
                           % (name, c["scale_k"], "" if k == "R" else "2^-%d * " % c["scale_k"], name, bad,
                              raw[k][tuple(bad[0])] if bad != "shape" and bad else "", want[tuple(bad[0])] if bad != "shape" and bad else ""))
        out["scalecov"] = cov
    return out


# ----------------------------------------------------------------------------- oracle
def _valid(c):
    return c.get("badlen") is None


def _rtol(c):
    """tolerance of the reactive-population clauses: 1e-9, except in stream `range`, where q comes out of a stiff solve
    (edge weights up to 6e3: condition <= ~1e5, error eps <= 1e-11; measured 2e-13) and R_i = d_i / sum d has the forward
    error eps (pi_i + R_i) / normaliser <= 2 eps / normaliser"""
    if c.get("stream") == "nearsym":
        return _near_rel(c)
    if c.get("stream") != "range":
        return TOL
    T, pi = _exact(c)
    q = _exact_q(T, c["src"], c["snk"])
    norm = 0 if q is None else sum(p * x * (1 - x) for p, x in zip(pi, q))
    return TOL if norm == 0 else max(TOL, F(2, 10 ** 11) / norm)


NEAR_SLACK = 1      # test knob: the margin of the near-symmetric tolerances is measured by running with 1/30


def _near_rel(c):
    """relative tolerance of the near-symmetric rare-event stream: the stationary vector comes out of an eigen-solve whose
    two leading eigenvalues differ by ~1/R (R the largest row sum of the counts = 1 / smallest crossing probability), and
    is good to ~R 2^-52 relative; measured on the unchanged code over 800 chains: fluxes off by up to 5.5 * 2^-52 R of the
    largest flux, reactive populations by less; every clause of the oracle still holds with 1/60 of this tolerance
    (6 seeds x 36 chains).  Allowed: 1024 * 2^-52 R = R / 2^42 <= 2^-6 (a wrong stationary vector, e.g. the uniform
    one, moves the fluxes by >= 17 % of the largest flux on these chains)."""
    R = max(sum(r) for r in c["C"])
    return F(R, 2 ** 42) * NEAR_SLACK


def _ftol(c):
    """flux clauses: 1e-9; relative to the largest exact flux in the small-magnitude and near-symmetric streams"""
    if c.get("small"):
        return TOL * _flux_scale(c)
    if c.get("stream") == "nearsym":
        return _near_rel(c) * _flux_scale(c)
    return TOL


def _flux_scale(c):
    """the largest exact reactive flux of the case (the unit of the relative tolerances)"""
    T, pi = _exact(c)
    pi = _pops_arg(c, pi) or pi
    q = _exact_q(T, c["src"], c["snk"])
    n = len(T)
    m = 0 if q is None else max([pi[i] * (1 - q[i]) * T[i][j] * q[j] for i in range(n) for j in range(n) if i != j] + [0])
    return m if m > 0 else max(pi)


def oracle(c, r):
    if _big(c):
        return _oracle_big(c, r)
    out = []
    T, pi = _exact(c)
    pi = _pops_arg(c, pi) or pi          # the populations the code was given (exact pi when it computes them)
    n = len(T)
    src, snk = c["src"], c["snk"]
    tol = TOL
    ftol = _ftol(c)
    if not _valid(c):
        for k in ("F", "N", "R"):
            if "err" not in r[k]:
                out.append(("malformed-accepted", "%s accepted a populations vector of length %d for %d states: %s"
                            % (k, c["badlen"], n, str(r[k])[:120])))
        return out
    if r.get("hist") is False:
        out.append(("history-dependence", "re-analysing an array overwritten in place (lag-2 model in the same object) differs from a fresh computation"))
    for m in r.get("argmut") or []:
        out.append(("argument-modified", m))
    for m in r.get("shared") or []:
        out.append(("history-shared-arguments", m))
    for m in r.get("scalecov") or []:
        out.append(("scale-covariance", m))
    for k in ("q", "F", "N"):
        if "val" not in r[k]:
            out.append(("no-value-" + k, "%s did not return a finite array: %s" % (k, r[k])))
    if out:
        return out
    for m in r.get("negref") or []:
        out.append(("negative-index-equivalence", m))
    q = [F(x) for x in r["q"]["val"]]
    Fm = [[F(x) for x in row] for row in r["F"]["val"]]
    Nm = [[F(x) for x in row] for row in r["N"]["val"]]
    if len(q) != n or len(Fm) != n or len(Nm) != n or any(len(x) != n for x in Fm + Nm):
        return [("shape", "wrong shapes")]
    mid = [i for i in range(n) if i not in src and i not in snk]
    # the committor input satisfies its equations (owned by C07; here the assumption of the theorems)
    for i in range(n):
        want = F(0) if i in src else F(1) if i in snk else sum(T[i][j] * q[j] for j in range(n))
        if abs(q[i] - want) > tol or q[i] < -tol or q[i] > 1 + tol:
            out.append(("committor-eqs", "q[%d]=%s violates its equation (want %s)" % (i, float(q[i]), float(want))))
            break
    # definition: f_ij = pi_i (1-q_i) T_ij q_j off the diagonal, exactly 0 on it
    for i in range(n):
        for j in range(n):
            if i == j:
                if Fm[i][j] != 0:
                    out.append(("flux-diagonal", "flux[%d][%d] = %s" % (i, j, float(Fm[i][j]))))
            else:
                want = pi[i] * (1 - q[i]) * T[i][j] * q[j]
                if abs(Fm[i][j] - want) > ftol:
                    out.append(("flux-definition", "flux[%d][%d] = %s, pi_i q-_i T_ij q+_j = %s"
                                % (i, j, float(Fm[i][j]), float(want))))
    # net flux = positive part of f - f^T; at most one direction carries net flux
    for i in range(n):
        for j in range(n):
            want = max(Fm[i][j] - Fm[j][i], F(0))
            if abs(Nm[i][j] - want) > ftol:
                out.append(("net-definition", "net[%d][%d] = %s, (f - f^T)+ = %s" % (i, j, float(Nm[i][j]), float(want))))
            if Nm[i][j] < 0:
                out.append(("net-negative", "net[%d][%d] = %s" % (i, j, float(Nm[i][j]))))
            if Nm[i][j] != 0 and Nm[j][i] != 0:
                out.append(("net-one-direction", "net[%d][%d] and net[%d][%d] both non-zero" % (i, j, j, i)))
    rowN = [sum(Nm[i]) for i in range(n)]
    colN = [sum(Nm[j][i] for j in range(n)) for i in range(n)]
    for i in mid:
        if abs(rowN[i] - colN[i]) > ftol:
            out.append(("conservation", "intermediate state %d: net out %s, net in %s" % (i, float(rowN[i]), float(colN[i]))))
        fo, fi = sum(Fm[i]), sum(Fm[j][i] for j in range(n))
        if abs(fo - fi) > ftol:
            out.append(("conservation-gross", "intermediate state %d: flux out %s, flux in %s" % (i, float(fo), float(fi))))
    for i in src:
        if colN[i] > ftol:
            out.append(("into-sources", "net flux %s into source %d" % (float(colN[i]), i)))
    for i in snk:
        if rowN[i] > ftol:
            out.append(("out-of-sinks", "net flux %s out of sink %d" % (float(rowN[i]), i)))
    so, si = sum(rowN[i] for i in src), sum(colN[i] for i in snk)
    if abs(so - si) > ftol:
        out.append(("source-out-eq-sink-in", "out of sources %s, into sinks %s" % (float(so), float(si))))
    # reactive populations
    rtol = _rtol(c)
    qe = _exact_q(T, src, snk)
    norm = None if qe is None else sum(pi[i] * qe[i] * (1 - qe[i]) for i in range(n))
    R = r["R"]
    if "val" in R:
        rv = [F(x) for x in R["val"]]
        if norm is not None and norm != 0:
            if len(rv) != n or any(x < -rtol for x in rv) or abs(sum(rv) - 1) > rtol:
                out.append(("rpop-probability", "reactive populations %s" % [float(x) for x in rv]))
            elif any(abs(rv[i]) > rtol for i in src + snk):
                out.append(("rpop-sources-sinks", "reactive populations %s non-zero on a source/sink" % [float(x) for x in rv]))
            else:
                for i in range(n):
                    want = pi[i] * qe[i] * (1 - qe[i]) / norm
                    if abs(rv[i] - want) > rtol:
                        out.append(("rpop-definition", "reactive population %d = %s, want %s" % (i, float(rv[i]), float(want))))
                        break
    elif "nan" in R:
        if norm is not None and norm != 0:
            out.append(("rpop-probability", "NaN reactive populations although the normaliser is %s" % float(norm)))
    else:
        out.append(("no-value-R", "reactive_populations: %s" % R))
    # one complaint per clause is enough
    seen, uniq = set(), []
    for k, m in out:
        if k not in seen:
            seen.add(k)
            uniq.append((k, m))
    return uniq


def _oracle_big(c, r):
    """the same clauses for chains with many states, evaluated in double arithmetic (numpy; rounding <= 1e-15 per entry,
    sums over <= 700 entries <= 1e-12, against the tolerance 1e-9); the exact committor is replaced by a dense solve of the
    committor equations done here, and the sparse containers are also compared with the code's own dense computation"""
    out = []
    if r.get("hist") is False:
        out.append(("history-dependence", "re-analysing an array overwritten in place differs from a fresh computation"))
    for m in r.get("argmut") or []:
        out.append(("argument-modified", m))
    for m in r.get("shared") or []:
        out.append(("history-shared-arguments", m))
    for k in ("q", "F", "N"):
        if "val" not in r[k]:
            out.append(("no-value-" + k, "%s did not return a finite array: %s" % (k, str(r[k])[:200])))
    if out:
        return out
    for m in r.get("negref") or []:
        out.append(("negative-index-equivalence", m))
    T, pi = _float_data(c)
    n = len(T)
    src, snk = list(c["src"]), list(c["snk"])
    tol = float(TOL)
    q = np.array([float(F(x)) for x in r["q"]["val"]])
    Fm, Nm = _unmat(r["F"]), _unmat(r["N"])
    if q.shape != (n,) or Fm.shape != (n, n) or Nm.shape != (n, n):
        return [("shape", "wrong shapes")]
    mid = np.array([i for i in range(n) if i not in src and i not in snk], dtype=int)
    # committor equations (input of the theorems)
    want = T @ q
    want[src] = 0.0
    want[snk] = 1.0
    bad = np.nonzero((np.abs(q - want) > tol) | (q < -tol) | (q > 1 + tol))[0]
    if len(bad):
        i = int(bad[0])
        out.append(("committor-eqs", "q[%d]=%s violates its equation (want %s); %d of %d states do" % (i, q[i], want[i], len(bad), n)))
    # definition
    d = np.diag(Fm)
    if np.any(d != 0):
        i = int(np.nonzero(d)[0][0])
        out.append(("flux-diagonal", "flux[%d][%d] = %s" % (i, i, d[i])))
    W = (pi * (1 - q))[:, None] * T * q[None, :]
    np.fill_diagonal(W, 0.0)
    dev = np.abs(Fm - W)
    if dev.max() > tol:
        i, j = (int(x) for x in np.unravel_index(np.argmax(dev), dev.shape))
        out.append(("flux-definition", "flux[%d][%d] = %s, pi_i q-_i T_ij q+_j = %s (%d entries off)" % (i, j, Fm[i, j], W[i, j], int((dev > tol).sum()))))
    # net flux = positive part of f - f^T, elementwise
    W = np.maximum(Fm - Fm.T, 0.0)
    dev = np.abs(Nm - W)
    if dev.max() > tol:
        i, j = (int(x) for x in np.unravel_index(np.argmax(dev), dev.shape))
        out.append(("net-definition", "net[%d][%d] = %s, (f - f^T)+ = %s (f[%d][%d] = %s, f[%d][%d] = %s; %d entries off, rows %d..%d)"
                    % (i, j, Nm[i, j], W[i, j], i, j, Fm[i, j], j, i, Fm[j, i], int((dev > tol).sum()),
                       int(np.nonzero((dev > tol).any(axis=1))[0].min()), int(np.nonzero((dev > tol).any(axis=1))[0].max()))))
    if Nm.min() < 0:
        i, j = (int(x) for x in np.unravel_index(np.argmin(Nm), Nm.shape))
        out.append(("net-negative", "net[%d][%d] = %s" % (i, j, Nm[i, j])))
    both = (Nm != 0) & (Nm.T != 0)
    if both.any():
        i, j = (int(x[0]) for x in np.nonzero(both))
        out.append(("net-one-direction", "net[%d][%d] and net[%d][%d] both non-zero" % (i, j, j, i)))
    rowN, colN = Nm.sum(axis=1), Nm.sum(axis=0)
    if len(mid):
        dv = np.abs(rowN - colN)[mid]
        if dv.max() > tol:
            i = int(mid[np.argmax(dv)])
            out.append(("conservation", "intermediate state %d: net out %s, net in %s" % (i, rowN[i], colN[i])))
        dv = np.abs(Fm.sum(axis=1) - Fm.sum(axis=0))[mid]
        if dv.max() > tol:
            i = int(mid[np.argmax(dv)])
            out.append(("conservation-gross", "intermediate state %d: flux out %s, flux in %s" % (i, Fm[i].sum(), Fm[:, i].sum())))
    for i in src:
        if colN[i] > tol:
            out.append(("into-sources", "net flux %s into source %d" % (colN[i], i)))
    for i in snk:
        if rowN[i] > tol:
            out.append(("out-of-sinks", "net flux %s out of sink %d" % (rowN[i], i)))
    so, si = rowN[src].sum(), colN[snk].sum()
    if abs(so - si) > tol:
        out.append(("source-out-eq-sink-in", "out of sources %s, into sinks %s" % (so, si)))
    # reactive populations, against a dense solve of the committor equations done here
    qe = _ref_q(T, src, snk)
    dens = pi * qe * (1 - qe)
    norm = dens.sum()
    R = r["R"]
    if "val" in R and norm > 1e-6:
        rv = np.array([float(F(x)) for x in R["val"]])
        if rv.shape != (n,) or rv.min() < -tol or abs(rv.sum() - 1) > tol:
            out.append(("rpop-probability", "reactive populations: sum %s, min %s" % (rv.sum(), rv.min() if rv.size else None)))
        elif np.abs(rv[src + snk]).max() > tol:
            out.append(("rpop-sources-sinks", "reactive populations non-zero on a source/sink"))
        elif np.abs(rv - dens / norm).max() > tol:
            i = int(np.argmax(np.abs(rv - dens / norm)))
            out.append(("rpop-definition", "reactive population %d = %s, want %s" % (i, rv[i], (dens / norm)[i])))
    elif "nan" in R:
        if norm > 1e-6:
            out.append(("rpop-probability", "NaN reactive populations although the normaliser is %s" % norm))
    elif "val" not in R:
        out.append(("no-value-R", "reactive_populations: %s" % str(R)[:200]))
    # dense and sparse inputs give the same values
    ref = r.get("denseref")
    if ref:
        for k, name in (("q", "committors"), ("F", "reactive_fluxes"), ("N", "net_fluxes"), ("R", "reactive_populations")):
            if "val" not in ref[k] or "val" not in r[k]:
                if ("val" in ref[k]) != ("val" in r[k]):
                    out.append(("dense-sparse-agree", "%s: %s input gives %s, dense input %s" % (name, c["fmt"], str(r[k])[:80], str(ref[k])[:80])))
                continue
            a, b = ((_unmat(r[k]), _unmat(ref[k])) if k in "FN" else
                    (np.array([float(F(x)) for x in r[k]["val"]]), np.array([float(F(x)) for x in ref[k]["val"]])))
            if a.shape != b.shape or np.abs(a - b).max() > tol:
                out.append(("dense-sparse-agree", "%s: %s input and dense input differ by up to %s" % (
                    name, c["fmt"], float(np.abs(a - b).max()) if a.shape == b.shape else "shape")))
    seen, uniq = set(), []
    for k, m in out:
        if k not in seen:
            seen.add(k)
            uniq.append((k, m))
    return uniq


def _ref_q(T, src, snk):
    """forward committor by a dense solve of its defining equations (numpy; well-conditioned chains only)"""
    n = len(T)
    A = np.eye(n) - T
    b = np.zeros(n)
    for i in list(src) + list(snk):
        A[i, :] = 0.0
        A[i, i] = 1.0
    b[list(snk)] = 1.0
    return np.linalg.solve(A, b)


# ----------------------------------------------------------------------------- Coq side
def _ql(v):
    return clist(v, cq, "Q")


def _qll(m):
    return clist(m, _ql, "(list Q)")


def _prelude(c):
    T, pi = _exact(c)
    pa = _pops_arg(c, pi)
    q = _exact_q(T, c["src"], c["snk"])
    if q is None:
        return None
    return ("let T := %s in let pi := %s in let q := %s in let src := %s in let snk := %s in "
            % (_qll(T), _ql(pi if pa is None else pa), _ql(q), clist(c["src"], cn, "nat"), clist(c["snk"], cn, "nat")))


def _optmat(x):
    if "val" in x:
        return "(Some %s)" % _qll([[F(v) for v in row] for row in x["val"]])
    if "err" in x:
        return "(@None (list (list Q)))"
    return None


def coq_check(c, r):
    if _big(c):
        return None         # many states: oracle only (exact elimination of a 60..700-state system inside Coq is out of reach)
    pre = _prelude(c)
    if pre is None:
        return None
    tol = cq(TOL)
    ftol = cq(_ftol(c))
    rtol = cq(_rtol(c))
    Fi, Ni = _optmat(r["F"]), _optmat(r["N"])
    if Fi is None or Ni is None:
        return "false"
    R = r["R"]
    if _valid(c) and _zero_norm(c):
        # 0/0: the code returns NaN or normalised rounding noise; the property's clause does not apply.
        # Coq still confirms that the model's normaliser is exactly zero.
        Ri = "(@None (list Q))"
    elif "val" in R:
        Ri = "(Some %s)" % _ql([F(v) for v in R["val"]])
    elif "err" in R or R.get("all_nan"):
        Ri = "(@None (list Q))"
    else:
        return "false"
    parts = []
    if _valid(c):
        if "val" not in r["q"]:
            return "false"
        parts.append("hyps_b T pi q src snk")
        parts.append("CaseLib.ql_close %s %s q" % (tol, _ql([F(v) for v in r["q"]["val"]])))
    parts.append("CaseLib.opt_eqb (CaseLib.qll_close %s) %s (reactive_fluxes T pi q)" % (ftol, Fi))
    netfn = "net_fluxes" if c["fmt"] == "dense" else "net_fluxes_sparse"      # the code's two branches
    parts.append("CaseLib.opt_eqb (CaseLib.qll_close %s) %s (%s T pi q)" % (ftol, Ni, netfn))
    parts.append("CaseLib.opt_eqb (CaseLib.ql_close %s) %s (reactive_populations pi q)" % (rtol, Ri))
    if _valid(c):
        # the definitions regenerated from the current source (unguarded expressions: valid shapes only)
        kind = "dense" if c["fmt"] == "dense" else "sparse"
        parts.append("CaseLib.opt_eqb (CaseLib.qll_close %s) %s (Some (gen_reactive_fluxes_%s T pi q))" % (ftol, Fi, kind))
        parts.append("CaseLib.opt_eqb (CaseLib.qll_close %s) %s (Some (gen_net_fluxes_%s T pi q))" % (ftol, Ni, kind))
        if Ri != "(@None (list Q))":
            parts.append("CaseLib.opt_eqb (CaseLib.ql_close %s) %s (Some (gen_reactive_populations pi q))" % (rtol, Ri))
    return "(" + pre + "(" + " && ".join("(%s)" % p for p in parts) + ")%bool)"


def _zero_norm(c):
    T, pi = _exact(c)
    q = _exact_q(T, c["src"], c["snk"])
    return q is not None and sum(p * x * (1 - x) for p, x in zip(pi, q)) == 0


def coq_show(c):
    if _big(c):
        return "tt"
    pre = _prelude(c)
    if pre is None:
        return "tt"
    return ("(" + pre + "(hyps_b T pi q src snk, q, option_map (map (map Qred)) (reactive_fluxes T pi q), "
            "option_map (map (map Qred)) (net_fluxes T pi q), option_map (map Qred) (reactive_populations pi q)))")


# ----------------------------------------------------------------------------- accounting
def _info(c):
    T, pi = _exact(c)
    q = _exact_q(T, c["src"], c["snk"])
    return T, pi, q


def nontrivial(c, r):
    if not _valid(c):
        return False
    if _big(c):
        q = r.get("q", {}).get("val")
        return bool(q) and sum(1 for x in q if 0 < F(x) < 1) >= 2
    T, pi, q = _info(c)
    if q is None:
        return False
    return len(T) >= 4 and len(set(pi)) > 1 and sum(1 for x in q if 0 < x < 1) >= 2


def tags(c, r):
    t = ["dense" if c["fmt"] == "dense" else "sparse", "fmt-" + c["fmt"], "pops-" + c["pops"], "n=%d" % len(c["C"])]
    if not _valid(c):
        return t + ["malformed-populations-length"]
    if all("val" in r.get(k, {}) for k in "qFN"):
        t += _tags5(c, r)
    if _big(c):
        n = len(c["C"])
        t += ["stream-" + c["stream"], "nonuniform-pi"]
        if all("val" in r.get(k, {}) for k in "qFNR"):
            if c["fmt"] == "dense" and n > 512:
                t.append("large-dense-over-512-states")
            else:
                t.append("large-%s-60-to-300-states" % ("dense" if c["fmt"] == "dense" else "sparse"))
                if c["fmt"] != "dense" and n >= 200:
                    t.append("large-sparse-200plus-states")
                if r.get("denseref"):
                    t.append("large-sparse-compared-with-dense")
            if r.get("shared") is not None:
                t.append("shared-argument-histories-all-6-orders")
            if len(r["N"].get("v") or []) > 0:
                t.append("some-net-flux")
        return t
    T, pi, q = _info(c)
    n = len(T)
    if len(c["src"]) > 1:
        t.append("multi-source")
    if len(c["snk"]) > 1:
        t.append("multi-sink")
    if len(set(pi)) > 1:
        t.append("nonuniform-pi")
    if q is not None:
        mid = [i for i in range(n) if i not in c["src"] and i not in c["snk"]]
        if sum(pi[i] * q[i] * (1 - q[i]) for i in range(n)) == 0:
            t.append("zero-normaliser")
            t.append("zero-normaliser-impl-" + ("nan" if "nan" in r.get("R", {}) else "rounding-noise"))
        if any(q[i] in (0, 1) for i in mid):
            t.append("intermediate-with-q-0-or-1")
        if not mid:
            t.append("no-intermediate-state")
        if "val" in r.get("N", {}):
            Nm = r["N"]["val"]
            if any(Nm[i][j] != "0" for i in range(n) for j in range(n)):
                t.append("some-net-flux")
    if c.get("scalar_sets") or c.get("sets_form") == "scalar":
        t.append("scalar-source-or-sink-argument")
    if c.get("allsets"):
        t.append("all-source-sink-pairs-enumeration")
    # round 3s streams
    if c.get("stream"):
        t.append("stream-" + c["stream"])
    lay = c.get("layout")
    if lay:
        t.append(("layout-" if c["fmt"] == "dense" else "sparse-repr-") + lay)
    if c.get("pops_form"):
        t.append("pops-form-" + c["pops_form"])
    if c.get("sets_form"):
        t.append("sets-form-" + c["sets_form"])
    if r.get("shared") is not None:
        t.append("shared-argument-histories-all-6-orders")
        if c["pops"] != "computed":
            t.append("shared-populations-object")
    if q is not None:
        react_self = any(T[i][i] > 0 and 0 < q[i] < 1 for i in range(n))
        if react_self:
            t.append("reactive-self-transition")
        if c["fmt"] == "dense" and n > 1 and react_self:
            if lay in ("F", "T-view", "readonly-F", "f32-F"):
                t.append("fortran-contiguous-dense-with-reactive-self-transition")
            if lay in ("strided", "strided-F", "neg-strides"):
                t.append("non-contiguous-dense-with-reactive-self-transition")
        if c.get("stream") == "range":
            f = [[pi[i] * (1 - q[i]) * T[i][j] * q[j] if i != j else 0 for j in range(n)] for i in range(n)]
            net = [f[i][j] - f[j][i] for i in range(n) for j in range(n) if f[i][j] > f[j][i]]
            if net and min(net) * 1000 < max(net):
                t.append("net-fluxes-span-3-decades")
        if c.get("stream") == "nearsym" and "val" in r.get("F", {}):
            t.append("nearsym-pops-" + c["pops"])
            t.append("nearsym-" + ("dense" if c["fmt"] == "dense" else "sparse"))
        if c.get("small"):
            t.append("small-" + c["small"])
            pg = _pops_arg(c, pi)
            f = [[pg[i] * (1 - q[i]) * T[i][j] * q[j] if i != j else 0 for j in range(n)] for i in range(n)]
            net = [f[i][j] - f[j][i] for i in range(n) for j in range(n) if f[i][j] > f[j][i]]
            lo = sum(1 for x in net if x < F(1, 10 ** 12))
            if net and 0 < lo < len(net):
                t.append("net-flux-partly-below-1e-12")
            elif net and lo == len(net):
                t.append("net-flux-wholly-below-1e-12")
            elif net:
                t.append("net-flux-wholly-above-1e-12")
            if lo and c["fmt"] != "dense":
                t.append("sparse-net-flux-below-1e-12")
            if "scalecov" in r:
                t.append("scale-covariance-checked")
    return t


def _tags5(c, r):
    """round 3s, fifth wave"""
    t = []
    n = len(c["C"])
    if c.get("arr"):
        t += ["sparse-array-class", "sparse-array-class-" + c["fmt"], "sparse-array-pops-" + c["pops"]]
        if r["F"].get("kind", "").endswith("_array"):
            t.append("sparse-array-class-returned")
        if c.get("layout"):
            t.append("sparse-array-repr-variant")
        if c.get("small"):
            t.append("sparse-array-small-magnitudes")
        if c.get("stream") in ("nearsym", "large"):
            t.append("sparse-array-" + c["stream"])
    fl = c.get("neg")
    if fl:
        t.append("neg-index")
        t.append("neg-index-" + ("dense" if c["fmt"] == "dense" else "sparse-array" if c.get("arr") else "sparse-matrix"))
        if any(fl["src"]):
            t.append("neg-index-source")
        if any(fl["snk"]):
            t.append("neg-index-sink")
        if any(any(f) and not all(f) for f in fl.values()):
            t.append("neg-index-mixed-with-non-negative")
        named = [i for kk, f in fl.items() for i, b in zip(c[kk], f) if b]
        if n - 1 in named:
            t.append("neg-index-minus-one")
        if 0 in named:
            t.append("neg-index-minus-n")
        t.append("neg-index-sets-form-" + c.get("sets_form", "list"))
        t.append("neg-index-pops-" + ("computed" if c["pops"] == "computed" else "given"))
        if _big(c):
            t.append("neg-index-large")
    return t


ESSENTIAL_TAGS = ["dense", "sparse", "pops-given", "pops-given-unnormalised", "pops-computed", "multi-source", "multi-sink", "nonuniform-pi",
                  "zero-normaliser", "intermediate-with-q-0-or-1", "malformed-populations-length", "some-net-flux",
                  # round 3s
                  "shared-argument-histories-all-6-orders", "shared-populations-object", "pops-form-readonly", "pops-form-strided",
                  "sets-form-readonly", "layout-F", "layout-T-view", "layout-strided", "layout-strided-F", "layout-readonly",
                  "layout-f32", "fortran-contiguous-dense-with-reactive-self-transition",
                  "non-contiguous-dense-with-reactive-self-transition", "sparse-repr-ro", "sparse-repr-explicit-zeros",
                  "small-scaled", "small-rare", "net-flux-partly-below-1e-12", "net-flux-wholly-below-1e-12",
                  "sparse-net-flux-below-1e-12", "scale-covariance-checked", "net-fluxes-span-3-decades",
                  # round 3s, second wave
                  "nearsym-pops-computed", "nearsym-pops-given", "nearsym-dense", "nearsym-sparse",
                  "large-sparse-60-to-300-states", "large-sparse-200plus-states", "large-sparse-compared-with-dense",
                  "large-dense-60-to-300-states", "large-dense-over-512-states",
                  # round 3s, fifth wave
                  "sparse-array-class-csr", "sparse-array-class-csc", "sparse-array-class-coo", "sparse-array-class-lil",
                  "sparse-array-class-dok", "sparse-array-class-dia", "sparse-array-class-bsr",
                  "sparse-array-pops-given", "sparse-array-pops-computed", "sparse-array-pops-given-unnormalised",
                  "sparse-array-repr-variant", "sparse-array-small-magnitudes", "sparse-array-nearsym", "sparse-array-large",
                  "neg-index-dense", "neg-index-sparse-matrix", "neg-index-sparse-array", "neg-index-source", "neg-index-sink",
                  "neg-index-mixed-with-non-negative", "neg-index-minus-one", "neg-index-minus-n", "neg-index-sets-form-list",
                  "neg-index-sets-form-tuple", "neg-index-sets-form-array", "neg-index-sets-form-array32",
                  "neg-index-sets-form-readonly", "neg-index-sets-form-scalar", "neg-index-pops-computed", "neg-index-pops-given",
                  "neg-index-large"]


def search(rng, tier):
    found = []
    for c in generate(rng, "quick"):
        try:
            r = run_impl(c)
        except Exception:
            continue
        for key, msg in oracle(c, r):
            found.append((key, msg, c, r))
        if found:
            break
    return found
