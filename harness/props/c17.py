"""C17: pathways are real, bottleneck-optimal and never over-explain the flux (enspara/tpt/path.py)."""
import itertools, os, sys
from fractions import Fraction as F
import numpy as np
from core import cn, cq, clist, copt, VERIF
sys.path.insert(0, os.path.join(VERIF, "translator"))
import tr_path

PID = "C17"
PROPS_FILE = "Props/C17.v"
MODEL_TARGETS = ["Model/Paths.vo", "Base/PathBase.vo", "Gen/PathGen.vo"]
GEN_FILES = ["Gen/PathGen.v"]
CASE_HEADER = ("From Coq Require Import List Arith QArith.\nFrom EV Require Import Paths PathBase PathGen.\n"
               "Import ListNotations.\nClose Scope Q_scope.\n")
RULE = ("(1) acyclic conserved flows: superpositions of 1..6 weighted source->sink paths on a random DAG (n=3..8, weights "
        "small integers / halves, so float arithmetic is exact); (2) arbitrary weighted digraphs n=3..8 with cycles, "
        "self loops and many equal weights; (3) float net fluxes of random reversible chains computed by the real "
        "enspara.tpt.net_fluxes (exact dyadic values handed to the model); (4) malformed: empty sinks/sources, indices "
        ">= n; (5) larger acyclic conserved flows (n=6..10, up to 10 superposed paths, num_paths=inf, subtract scheme, "
        "cut-offs 0.5 / 0.9 / 1-1e-10 / exactly 1.0), also scaled by 2^-30; (6) memory layouts: the matrices of (1), (2), (3), (5) "
        "handed over as Fortran-ordered array, .T view, window of a larger C / F array, strided and negative-stride views, "
        "read-only C / F arrays, float32, int32/int64 (integer entries), scipy.io.savemat->loadmat output -- same numbers, so "
        "the same results are demanded, and the caller's array, the memory it is a view of, its dtype, strides and flags "
        "must be unchanged; (7) scale: the exact graphs of (1), (2), (5) multiplied by 2^-40, 2^-50, 2^-60, 2^-100 (a power of two "
        "scales every edge, every bottleneck and every residual exactly, so paths are the same and fluxes scale by that "
        "factor: an edge of 2^-60 is as real as an edge of 1), and mixed matrices in which ordinary edges / superposed "
        "pathways (weights 1/2..4) coexist with tiny ones (the same weights times 2^-41 or 2^-44; all sums and differences "
        "still exact in doubles), mostly with cut-off 1.0 and no path limit: on exact conserved flows (subtract scheme) `paths` "
        "may stop short of the whole flux only if its own double-precision running fraction reached the cut-off. "
        "All with random source/sink sets (occasionally overlapping / duplicated), both removal schemes, "
        "num_paths in {1,2,3,inf}, flux_cutoff in {0.5,0.9,1-1e-10} (stream 5 also 1.0). On conserved subtract cases with "
        "num_paths=inf the executable hypotheses of c17_conserved_reaches_fraction (conservedb, forwardb with a topological "
        "order, nodupb of the sources) are evaluated in Coq too. Each case runs the real top_path and paths; the "
        "hand model AND the model regenerated from path.py (gen_top_path / gen_paths) are compared exactly (paths, "
        "fluxes, exception kind); the oracle enumerates all simple source->sink paths "
        "of every residual matrix. non-trivial := a finite top flux on a graph where at least two distinct simple "
        "source->sink paths exist")
TRUSTED = ["translator/tr_path.py: statement shapes of top_path / _remove_bottleneck / _subtract_path_flux / paths recognised "
           "fail-closed, scalar logic translated into Gen/PathGen.v and proved equal to the hand model "
           "(c17_generated_*); the loop / fancy-indexing skeleton Base/PathBase.v is tied by correspondence only",
           "modelled not verified: NumPy argmax/argmin (first extremum), np.where, boolean/fancy indexing, in-place fancy "
           "subtraction, copy.copy of an ndarray",
           "float policy: integer/half-integer weights make the subtract scheme exact in binary floating point; for "
           "float-valued matrices only comparison-based results (top_path, bottleneck scheme, first subtract path) are "
           "compared; the running explained-flux fraction is compared away from the cut-off (|sum - cutoff| > 1e-12)"]
ASSUMPTIONS = ["net-flux entries are non-negative; state indices are 0 <= i < n; num_paths >= 1",
               "sum <= outflow is a theorem for the subtract scheme only; for the bottleneck scheme it is refuted in Coq "
               "and on the real code (known findings bottleneck-sum-le-outflow-nonconserved / -conserved)",
               "reaching the requested fraction (c17_conserved_reaches_fraction): subtract scheme, num_paths=inf, cutoff <= 1, "
               "acyclic conserved non-negative flow, sources listed once and disjoint from the sinks, exact arithmetic; the "
               "oracle checks the same clause on the doubles with tolerance 1e-9 * total",
               "input-unchanged is checked on the real arrays only (the Gallina model is pure): the array handed over, the "
               "memory it is a view of, its dtype, strides and flags, in every layout of stream (6)",
               "net_flux is an np.ndarray as documented; np.matrix is not admitted (top_path's 2-index reads of a row raise "
               "IndexError on the unchanged code), scipy sparse matrices neither"]
SHARD = 60
EXHAUSTIVE = {"thorough": True}
CUTOFFS = [0.5, 0.9, 1 - 1e-10, 1.0]
F2_KEY = "bottleneck-sum-le-outflow-nonconserved"
F2C_KEY = "bottleneck-sum-le-outflow-conserved"      # same root cause, seen on conserved flows with >= 2 sources


# ----------------------------------------------------------------------------- generation
def _sets(rng, n, order=None):
    """source / sink sets; order (a topological order) puts sources first and sinks last."""
    ks = rng.choice([1, 1, 1, 2, 2, 3])
    kt = rng.choice([1, 1, 1, 2, 2, 3])
    if order is not None:
        ks = min(ks, max(1, n - 2))
        kt = min(kt, max(1, n - ks - 0))
        kt = min(kt, n - ks) or 1
        src = list(order[:ks])
        snk = list(order[n - kt:])
    else:
        nodes = list(range(n))
        rng.shuffle(nodes)
        src = nodes[:ks]
        snk = nodes[ks:ks + kt] or [nodes[-1]]
        r = rng.random()
        if r < 0.05:
            snk = snk + [src[0]]            # a source that is also a sink
        elif r < 0.10:
            src = src + [src[0]]            # duplicated source
        elif r < 0.15:
            snk = snk + [snk[0]]
    rng.shuffle(src)
    rng.shuffle(snk)
    return src, snk


def _weight(rng):
    return rng.choice([F(1), F(1), F(2), F(2), F(3), F(1, 2), F(3, 2), F(4), F(5, 2)])


def _digraph(rng):
    n = rng.randint(3, 8)
    dens = rng.choice([0.2, 0.35, 0.5, 0.8])
    M = [[F(0)] * n for _ in range(n)]
    for i in range(n):
        for j in range(n):
            if (i != j or rng.random() < 0.1) and rng.random() < dens:
                M[i][j] = _weight(rng)
    src, snk = _sets(rng, n)
    return n, M, src, snk


def _conserved(rng):
    n = rng.randint(3, 8)
    order = list(range(n))
    rng.shuffle(order)
    src, snk = _sets(rng, n, order)
    src = [s for s in src if s not in snk] or [order[0]]
    snk = [t for t in snk if t not in src] or [order[-1]]
    pos = {v: i for i, v in enumerate(order)}
    mids = [v for v in order if v not in src and v not in snk]
    M = [[F(0)] * n for _ in range(n)]
    for _ in range(rng.randint(1, 6)):
        s, t = rng.choice(src), rng.choice(snk)
        inner = sorted(rng.sample(mids, rng.randint(0, len(mids))), key=lambda v: pos[v])
        p = [s] + inner + [t]
        w = _weight(rng)
        for a, b in zip(p, p[1:]):
            M[a][b] += w
    return n, M, src, snk


def _conserved_big(rng):
    """larger acyclic conserved flow: up to 10 superposed source->sink paths on a random order of 6..10 states."""
    n = rng.randint(6, 10)
    order = list(range(n))
    rng.shuffle(order)
    ks, kt = rng.choice([1, 1, 2, 3]), rng.choice([1, 1, 2, 3])
    src, snk = order[:ks], order[n - kt:]
    pos = {v: i for i, v in enumerate(order)}
    mids = order[ks:n - kt]
    M = [[F(0)] * n for _ in range(n)]
    for _ in range(rng.randint(2, 10)):
        s, t = rng.choice(src), rng.choice(snk)
        inner = sorted(rng.sample(mids, rng.randint(0, min(len(mids), 5))), key=lambda v: pos[v])
        p = [s] + inner + [t]
        w = _weight(rng)
        for a, b in zip(p, p[1:]):
            M[a][b] += w
    rng.shuffle(src)
    rng.shuffle(snk)
    return n, M, src, snk


# ---- round 3s (second wave): tiny scales and matrices mixing ordinary with tiny edges ------------------------------
TINY_SCALES = [40, 50, 60, 100]          # 2^-40 = 9.1e-13 ... : below any plausible absolute "round-off" threshold
MIXED_SCALES = [41, 44]                  # weights (1/2..4) * 2^-k stay exactly summable with weights up to ~100


def _tiny_or_not(rng, k, p=0.5):
    return F(1, 2 ** k) if rng.random() < p else F(1)


def _mixed_conserved(rng, k):
    """acyclic conserved flow: superposed source->sink pathways, each either of ordinary weight or 2^-k times that;
    at least one of each sort, so that real pathways are left when all ordinary ones have been subtracted"""
    n = rng.randint(4, 9)
    order = list(range(n))
    rng.shuffle(order)
    ks, kt = rng.choice([1, 1, 2]), rng.choice([1, 1, 2])
    src, snk = order[:ks], order[n - kt:]
    pos = {v: i for i, v in enumerate(order)}
    mids = order[ks:n - kt]
    M = [[F(0)] * n for _ in range(n)]
    npth = rng.randint(2, 7)
    sorts = [F(1), F(1, 2 ** k)] + [_tiny_or_not(rng, k) for _ in range(npth - 2)]
    rng.shuffle(sorts)
    for sc in sorts:
        s, t = rng.choice(src), rng.choice(snk)
        inner = sorted(rng.sample(mids, rng.randint(0, min(len(mids), 4))), key=lambda v: pos[v])
        p = [s] + inner + [t]
        w = _weight(rng) * sc
        for a, b in zip(p, p[1:]):
            M[a][b] += w
    rng.shuffle(src)
    rng.shuffle(snk)
    return n, M, src, snk


def _mixed_digraph(rng, k):
    """arbitrary digraph, every edge either ordinary or tiny"""
    n, M, src, snk = _digraph(rng)
    p = rng.choice([0.3, 0.5, 0.8])
    M = [[x * _tiny_or_not(rng, k, p) if x else x for x in row] for row in M]
    return n, M, src, snk


def _exact_in_doubles(c):
    """every entry is a multiple of one power of two u and the sum of ALL entries is below 2^53 u: then every sum
    of entries, every residual after subtraction and every partial sum is exactly representable"""
    xs = [F(x) for row in c["M"] for x in row]
    D = max(x.denominator for x in xs)
    if D & (D - 1) or any(D % x.denominator for x in xs):
        return False
    return sum(abs(x) for x in xs) * D < 2 ** 53


def _float_flux(rng):
    """net flux of a random reversible chain, computed by the real enspara.tpt.net_fluxes."""
    from enspara.tpt import net_fluxes
    n = rng.randint(3, 7)
    while True:
        C = np.zeros((n, n))
        for i in range(n):
            for j in range(i, n):
                if i == j or rng.random() < 0.7:
                    C[i, j] = C[j, i] = rng.randint(1, 9)
        rows = C.sum(axis=1)
        T = C / rows[:, None]
        pi = rows / rows.sum()
        nodes = list(range(n))
        rng.shuffle(nodes)
        src, snk = nodes[:rng.choice([1, 1, 2])], nodes[-rng.choice([1, 1, 2]):]
        if set(src) & set(snk):
            continue
        try:
            nf = np.asarray(net_fluxes(T, src, snk, populations=pi), dtype=float)
        except Exception:
            continue
        if np.all(np.isfinite(nf)) and nf.min() >= 0:
            return n, [[F(float(x)) for x in row] for row in nf], src, snk


def _mk(kind, n, M, src, snk, scheme, npaths, cutoff, layout=None):
    c = {"kind": kind, "n": n, "M": [[str(x) for x in row] for row in M], "src": [int(x) for x in src],
         "snk": [int(x) for x in snk], "scheme": scheme, "num_paths": npaths, "cutoff": cutoff}
    if layout is not None:
        c["layout"] = layout
    return c


# memory layouts / dtypes in which the caller may hold the net-flux matrix (round 3s).  Every layout holds exactly the
# same numbers, so every result must be the one of the plain C-ordered float64 array.
LAYOUTS = ["C", "F", "T", "win", "winF", "step", "rev", "ro", "roF", "f32", "f32F", "int", "intF", "loadmat"]


def _layout_ok(c, lay):
    """can the layout hold the matrix exactly? (integer dtypes: integer entries; float32: 24-bit dyadic entries)"""
    xs = [F(x) for row in c["M"] for x in row]
    if lay in ("int", "intF"):
        return all(x.denominator == 1 and abs(x) < 2 ** 31 for x in xs)
    if lay in ("f32", "f32F"):
        return all(F(float(np.float32(float(x)))) == x for x in xs) and \
            F(float(np.float32(float(sum(xs))))) == sum(xs)
    return True


def _params(rng):
    return (rng.choice(["subtract", "bottleneck"]), rng.choice([1, 2, 3, None, None, None]),
            rng.choice([0, 1, 2, 2, 2]))


def generate(rng, tier):
    N = 420 if tier == "quick" else 3000
    cases = []
    # F2 witness first (DESIGN section 8): s->a 3/2, a->b->t 1,1, a->c->t 1,1
    W = [[F(0)] * 5 for _ in range(5)]
    W[0][1] = F(3, 2); W[1][2] = W[2][4] = W[1][3] = W[3][4] = F(1)
    cases.append(_mk("digraph", 5, W, [0], [4], "bottleneck", None, 2))
    cases.append(_mk("digraph", 5, W, [0], [4], "subtract", None, 2))
    # ... and its conserved two-source variant (found by this harness' search)
    E = {(0, 2): F(2), (3, 1): F(3), (3, 2): F(4), (2, 1): F(3, 2), (2, 4): F(9, 2), (1, 4): F(5, 2),
         (1, 5): F(2), (5, 4): F(2)}
    W2 = [[E.get((i, j), F(0)) for j in range(6)] for i in range(6)]
    cases.append(_mk("conserved", 6, W2, [3, 0], [4], "bottleneck", None, 2))
    cases.append(_mk("conserved", 6, W2, [3, 0], [4], "subtract", None, 2))
    for i in range(N):
        r = rng.random()
        sch, npaths, cut = _params(rng)
        # a quarter of the exact graphs are scaled by 2^-30 (about 1e-9: the scale of real net fluxes);
        # scaling by a power of two keeps every float operation exact, so results must scale exactly
        sc = F(1, 2 ** 30) if rng.random() < 0.25 else F(1)
        if r < 0.40:
            n, M, src, snk = _conserved(rng)
            M = [[x * sc for x in row] for row in M]
            cases.append(_mk("conserved", n, M, src, snk, sch, npaths, cut))
        elif r < 0.85:
            n, M, src, snk = _digraph(rng)
            M = [[x * sc for x in row] for row in M]
            cases.append(_mk("digraph", n, M, src, snk, sch, npaths, cut))
        elif r < 0.93:
            n, M, src, snk = _float_flux(rng)
            cases.append(_mk("float", n, M, src, snk, sch, npaths, cut))
        else:
            n, M, src, snk = _digraph(rng)
            q = rng.random()
            if q < 0.3:
                snk = []
            elif q < 0.5:
                src = []
            elif q < 0.75:
                snk = snk + [n + rng.randint(0, 2)]
            else:
                src = [n] + src
            cases.append(_mk("malformed", n, M, src, snk, sch, npaths, cut))
    # round 2: larger conserved flows, subtract scheme, no path limit: the "reaches the requested fraction" clause
    for i in range(60 if tier == "quick" else 500):
        n, M, src, snk = _conserved_big(rng)
        sc = F(1, 2 ** 30) if rng.random() < 0.25 else F(1)
        M = [[x * sc for x in row] for row in M]
        sch = "subtract" if rng.random() < 0.8 else "bottleneck"
        cases.append(_mk("conserved", n, M, src, snk, sch, None, rng.choice([0, 1, 2, 3, 3])))
    # round 3s: the same matrices in other memory layouts / dtypes (Fortran order, transposed and strided views,
    # windows of larger arrays, read-only arrays, float32, integer dtypes, scipy.io.loadmat output).  Both removal
    # schemes; conserved flows that need several pathways are frequent, so that a removal which does not reach the
    # working copy (and so returns the same pathway again) or which reaches the caller's memory is seen.
    for i in range(260 if tier == "quick" else 2000):
        r = rng.random()
        sch = "bottleneck" if rng.random() < 0.55 else "subtract"
        npaths, cut = rng.choice([2, 3, None, None, None]), rng.choice([0, 1, 2, 2, 3])
        lay = LAYOUTS[i % len(LAYOUTS)] if rng.random() < 0.9 else rng.choice(LAYOUTS)
        sc = F(1, 2 ** 30) if rng.random() < 0.2 else F(1)
        if r < 0.35:
            kind, (n, M, src, snk) = "conserved", _conserved(rng)
        elif r < 0.55:
            kind, (n, M, src, snk) = "conserved", _conserved_big(rng)
        elif r < 0.92:
            kind, (n, M, src, snk) = "digraph", _digraph(rng)
        else:
            kind, (n, M, src, snk) = "float", _float_flux(rng)
            sc = F(1)
        if lay in ("int", "intF") and kind != "float" and rng.random() < 0.8:
            M = [[F(int(2 * x)) for x in row] for row in M]      # integer entries, so that an integer dtype holds them
            sc = F(1)
        M = [[x * sc for x in row] for row in M]
        cases.append(_mk(kind, n, M, src, snk, sch, npaths, cut, layout=lay))
    # round 3s (second wave): exact power-of-two scalings far below 1e-12, and ordinary + tiny edges in one matrix
    F64_LAYOUTS = [None, None, None, "F", "T", "win", "step", "rev", "ro"]
    for i in range(170 if tier == "quick" else 1400):
        r = rng.random()
        sch, npaths, cut = _params(rng)
        lay = rng.choice(F64_LAYOUTS)
        if i % 2 == 0:
            k = TINY_SCALES[(i // 2) % len(TINY_SCALES)]
            if r < 0.4:
                kind, (n, M, src, snk) = "conserved", _conserved(rng)
            elif r < 0.6:
                kind, (n, M, src, snk) = "conserved", _conserved_big(rng)
                sch, npaths, cut = ("subtract" if rng.random() < 0.8 else "bottleneck"), None, rng.choice([1, 2, 3, 3])
            else:
                kind, (n, M, src, snk) = "digraph", _digraph(rng)
            M = [[x / 2 ** k for x in row] for row in M]
            c = _mk(kind, n, M, src, snk, sch, npaths, cut, layout=lay)
            c["scale"] = k
        else:
            k = MIXED_SCALES[(i // 2) % len(MIXED_SCALES)]
            if r < 0.6:
                kind, (n, M, src, snk) = "conserved", _mixed_conserved(rng, k)
                if rng.random() < 0.8:
                    sch, npaths, cut = ("subtract" if rng.random() < 0.8 else "bottleneck"), None, rng.choice([2, 3, 3, 3])
            else:
                kind, (n, M, src, snk) = "digraph", _mixed_digraph(rng, k)
            c = _mk(kind, n, M, src, snk, sch, npaths, cut, layout=lay)
            c["mixed"] = k
            assert _exact_in_doubles(c)
        cases.append(c)
    if tier == "thorough":
        # exhaustive small scope: every digraph on 3 nodes with weights {0,1,2} on the 6 off-diagonal edges
        pos = [(i, j) for i in range(3) for j in range(3) if i != j]
        for ws in itertools.product([0, 1, 2], repeat=6):
            M = [[F(0)] * 3 for _ in range(3)]
            for (i, j), w in zip(pos, ws):
                M[i][j] = F(w)
            for sch in ("subtract", "bottleneck"):
                cases.append(_mk("digraph", 3, M, [0], [2], sch, None, 2))
        # 4 nodes, weights {0,1,2}, the 5 forward edges of a DAG plus one back edge: all 3^6
        pos = [(0, 1), (0, 2), (1, 2), (1, 3), (2, 3), (2, 1)]
        for ws in itertools.product([0, 1, 2], repeat=6):
            M = [[F(0)] * 4 for _ in range(4)]
            for (i, j), w in zip(pos, ws):
                M[i][j] = F(w)
            cases.append(_mk("digraph", 4, M, [0], [3], "subtract" if sum(ws) % 2 else "bottleneck", None, 2))
    return cases


# ----------------------------------------------------------------------------- implementation
def _fl(x):
    x = float(x)
    if x == float("inf"):
        return "inf"
    if x == float("-inf"):
        return "-inf"
    if x != x:
        return "nan"
    return str(F(x))


def _matrix(c):
    return np.array([[float(F(x)) for x in row] for row in c["M"]], dtype=float).reshape(c["n"], c["n"])


def _laid_out(c):
    """(array handed to the code, array owning the memory): the same numbers in the layout named by c["layout"]"""
    A = _matrix(c)
    n = c["n"]
    lay = c.get("layout") or "C"
    if not _layout_ok(c, lay):
        lay = {"int": "C", "intF": "F", "f32": "C", "f32F": "F"}[lay]
    if lay == "C":
        return A, A
    if lay == "F":
        B = np.asfortranarray(A)
        return B, B
    if lay == "T":                       # a .T view of a C-ordered array
        B = np.ascontiguousarray(A.T)
        return B.T, B
    if lay in ("win", "winF"):           # a window of a larger array, surrounded by large positive entries
        B = np.full((n + 3, n + 4), 77.0, order="F" if lay == "winF" else "C")
        B[1:1 + n, 2:2 + n] = A
        return B[1:1 + n, 2:2 + n], B
    if lay == "step":                    # every second row / third column of a larger array
        B = np.full((2 * n, 3 * n), 55.0)
        B[::2, 1::3] = A
        return B[::2, 1::3], B
    if lay == "rev":                     # negative strides
        B = np.ascontiguousarray(A[::-1, ::-1])
        return B[::-1, ::-1], B
    if lay in ("ro", "roF"):
        B = np.asfortranarray(A) if lay == "roF" else A
        B.setflags(write=False)
        return B, B
    if lay in ("f32", "f32F"):
        B = np.array(A, dtype=np.float32, order="F" if lay == "f32F" else "C")
        return B, B
    if lay in ("int", "intF"):
        B = np.array(A, dtype=np.int64 if n % 2 else np.int32, order="F" if lay == "intF" else "C")
        return B, B
    if lay == "loadmat":                 # what scipy.io.loadmat hands back for a matrix saved by Matlab / savemat
        import io
        import scipy.io
        buf = io.BytesIO()
        scipy.io.savemat(buf, {"net_flux": A})
        buf.seek(0)
        B = scipy.io.loadmat(buf)["net_flux"]
        return B, B
    raise AssertionError(lay)


class NoTermination(Exception):
    pass


def _limited(fn, *a, **k):
    """run fn under a wall-clock limit (a removal that removes nothing makes `paths` loop forever)"""
    import signal

    def _raise(sig, frm):
        raise NoTermination()
    try:
        old = signal.signal(signal.SIGALRM, _raise)
    except ValueError:          # not in the main thread: run unguarded
        return fn(*a, **k)
    signal.setitimer(signal.ITIMER_REAL, 10.0)
    try:
        return fn(*a, **k)
    finally:
        signal.setitimer(signal.ITIMER_REAL, 0)
        signal.signal(signal.SIGALRM, old)


def run_impl(c):
    from enspara.tpt import path as P
    M, base = _laid_out(c)
    M0, base0 = M.copy(), base.copy()
    meta0 = (M.dtype, M.strides, M.flags.writeable, M.flags.c_contiguous, M.flags.f_contiguous)
    res = {}
    try:
        p, fl = _limited(P.top_path, list(c["src"]), list(c["snk"]), M)
        res["top"] = {"path": [int(x) for x in p], "flux": _fl(fl)}
    except Exception as ex:
        res["top"] = {"err": type(ex).__name__}
    try:
        ps, fls = _limited(P.paths, list(c["src"]), list(c["snk"]), M, remove_path=c["scheme"],
                           num_paths=(np.inf if c["num_paths"] is None else c["num_paths"]),
                           flux_cutoff=CUTOFFS[c["cutoff"]])
        res["paths"] = {"paths": [[int(x) for x in p] for p in ps], "fluxes": [_fl(x) for x in fls]}
    except Exception as ex:
        res["paths"] = {"err": type(ex).__name__}
    res["unchanged"] = bool(np.array_equal(M, M0) and np.array_equal(base, base0) and
                            meta0 == (M.dtype, M.strides, M.flags.writeable, M.flags.c_contiguous, M.flags.f_contiguous))
    if c.get("layout"):
        res["layout"] = "%s %s%s%s" % (M.dtype, "C" if M.flags.c_contiguous else "", "F" if M.flags.f_contiguous else "",
                                       "" if M.flags.writeable else " read-only")
    return res


# ----------------------------------------------------------------------------- oracle
def _FM(c):
    return [[F(x) for x in row] for row in c["M"]]


def _widest(M, n, src, snk):
    """largest bottleneck over all simple paths from a source to a sink (None if there is none),
    and the number of such paths; exhaustive depth-first enumeration."""
    best, count = None, 0
    snkset = set(snk)
    for s in set(src):
        stack = [(s, (s,), None)]
        while stack:
            v, p, b = stack.pop()
            if v in snkset and len(p) > 1:
                count += 1
                if best is None or b > best:
                    best = b
            for w in range(n):
                if M[v][w] > 0 and w not in p:
                    stack.append((w, p + (w,), M[v][w] if b is None else min(b, M[v][w])))
    return best, count


def _check_path(M, n, src, snk, p, flux, where):
    out = []
    if len(p) < 2 or len(set(p)) != len(p) or not all(0 <= v < n for v in p):
        return [("path-valid", "%s: %s is not a simple path of >= 2 states" % (where, p))]
    if p[0] not in src or p[-1] not in snk:
        out.append(("path-valid", "%s: %s does not lead from a source to a sink" % (where, p)))
    es = [M[a][b] for a, b in zip(p, p[1:])]
    if min(es) <= 0:
        out.append(("path-valid", "%s: %s uses an edge without positive flux" % (where, p)))
    elif flux != min(es):
        out.append(("path-flux-is-min-edge", "%s: reported %s, smallest edge %s" % (where, flux, min(es))))
    return out


def _is_conserved(M, n, src, snk):
    """acyclic flow, conserved at every state outside sources/sinks, nothing into sources or out of sinks."""
    for v in range(n):
        i = sum(M[u][v] for u in range(n))
        o = sum(M[v][w] for w in range(n))
        if v in src:
            if i != 0:
                return False
        elif v in snk:
            if o != 0:
                return False
        elif i != o:
            return False
    # acyclic: repeatedly strip states without incoming edges
    left = set(range(n))
    while left:
        free = [v for v in left if not any(M[u][v] > 0 for u in left)]
        if not free:
            return False
        left -= set(free)
    return True


def _remove(M, p, scheme):
    M = [row[:] for row in M]
    es = list(zip(p, p[1:]))
    vals = [M[a][b] for a, b in es]
    m = min(vals)
    if scheme == "subtract":
        for a, b in set(es):
            M[a][b] -= m
        vals = [M[a][b] for a, b in es]
    a, b = es[vals.index(min(vals))]
    M[a][b] = F(0)
    return M


def _fraction_clause(c, conserved, total):
    """is the clause 'reaches the requested fraction when the flux is conserved' applicable?"""
    return (c["kind"] in ("conserved", "float") and conserved and c["num_paths"] is None and total > 0
            and len(set(c["src"])) == len(c["src"]))


def oracle(c, r):
    out = []
    n, src, snk = c["n"], c["src"], c["snk"]
    M = _FM(c)
    bad_index = any(not (0 <= v < n) for v in src + snk)
    if c["kind"] == "malformed" and (bad_index or not snk):
        if "err" not in r["top"] or "err" not in r["paths"]:
            out.append(("malformed-rejected", "no exception for src=%s snk=%s n=%d: %s" % (src, snk, n, r)))
        return out
    if not r.get("unchanged"):
        out.append(("input-unchanged", "the caller's net_flux array%s was modified" % (
            " (layout %s: %s)" % (c["layout"], r.get("layout")) if c.get("layout") else "")))
    exact = c["kind"] != "float"
    # ---- top_path
    t = r["top"]
    if "err" in t:
        out.append(("top-path-raises", "top_path raised %s on a well-formed input" % t["err"]))
    else:
        best, _ = _widest(M, n, src, snk)
        if t["flux"] == "-inf":
            if best is not None and not (set(src) & set(snk)):
                out.append(("top-optimal", "no path reported but a path with bottleneck %s exists" % best))
        elif t["flux"] not in ("inf", "nan"):
            fl = F(t["flux"])
            out += _check_path(M, n, src, snk, t["path"], fl, "top_path")
            if best is None or fl != best:
                out.append(("top-optimal", "top_path flux %s, widest bottleneck over all simple paths %s" % (fl, best)))
    # ---- paths
    ps = r["paths"]
    if "err" in ps:
        out.append(("paths-raises", "paths raised %s on a well-formed input" % ps["err"]))
        return out
    fls = [F(x) for x in ps["fluxes"]]
    tol = F(0) if exact else F(1, 10 ** 9)
    R = M
    for k, (p, fl) in enumerate(zip(ps["paths"], fls)):
        bad = _check_path(R, n, src, snk, p, fl, "paths[%d] (%s%s)" % (
            k, c["scheme"], ", net_flux laid out as %s: %s" % (c["layout"], r.get("layout")) if c.get("layout") else ""))
        if bad and not exact and c["scheme"] == "subtract" and k > 0:
            break          # float residuals: rounding decides which edges are still positive; stop comparing
        out += bad
        if bad:
            break
        best, _ = _widest(R, n, src, snk)
        if best is None or abs(fl - best) > tol * max(1, best):
            out.append(("paths-optimal", "paths[%d] flux %s but widest residual bottleneck is %s" % (k, fl, best)))
        R = _remove(R, p, c["scheme"])
    for k in range(len(fls) - 1):
        if fls[k + 1] > fls[k] + tol:
            out.append(("fluxes-antitone", "flux %d = %s > flux %d = %s" % (k + 1, fls[k + 1], k, fls[k])))
    total = sum(sum(M[s]) for s in src)          # what the code calls total_flux (sources as given)
    outflow = sum(sum(M[s]) for s in set(src))
    conserved = _is_conserved(M, n, src, snk) if exact else True
    if sum(fls) > outflow + tol * max(1, outflow):
        if c["scheme"] == "bottleneck":
            key = F2_KEY if not conserved else F2C_KEY
        else:
            key = "sum-le-outflow"
        out.append((key, "scheme=%s: sum of path fluxes %s exceeds the total outflow of the sources %s" % (
            c["scheme"], sum(fls), outflow)))
    if c["num_paths"] is not None and len(fls) > c["num_paths"]:
        out.append(("num-paths", "%d paths returned, %d requested" % (len(fls), c["num_paths"])))
    if _fraction_clause(c, conserved, total):
        want = F(CUTOFFS[c["cutoff"]]) * total
        if sum(fls) < want - F(1, 10 ** 9) * total:
            out.append(("conserved-reaches-fraction", "scheme=%s: explained %s of %s, requested fraction %s" % (
                c["scheme"], sum(fls), total, CUTOFFS[c["cutoff"]])))
        elif _fraction_exact(c, conserved, total) and sum(fls) < want:
            # exact flows (every float operation of the subtract scheme is exact): the only legitimate reason to stop
            # short of the requested fraction is that the code's own double-precision running sum reached the cut-off
            e = _float_expl(c, ps["fluxes"], total)
            if e < CUTOFFS[c["cutoff"]]:
                out.append(("conserved-reaches-fraction", "scheme=subtract, exact flow: %d pathways explain %s of %s (running "
                            "fraction in doubles %r < requested %r) although source->sink pathways of positive flux "
                            "(widest %s) are left in the residual matrix" % (
                                len(fls), sum(fls), total, e, CUTOFFS[c["cutoff"]], _widest(R, n, src, snk)[0])))
    return out


F64_EXACT_LAYOUTS = (None, "C", "F", "T", "win", "winF", "step", "rev", "ro", "roF", "loadmat")


def _fraction_exact(c, conserved, total):
    """domain of the exact form of the fraction clause: that of c17_conserved_reaches_fraction (subtract scheme, sources
    listed once and disjoint from the sinks, cut-off <= 1) on float64 matrices whose arithmetic is exact"""
    return (c["kind"] == "conserved" and c["scheme"] == "subtract" and _fraction_clause(c, conserved, total)
            and not (set(c["src"]) & set(c["snk"])) and c.get("layout") in F64_EXACT_LAYOUTS
            and CUTOFFS[c["cutoff"]] <= 1 and _exact_in_doubles(c))


def _float_expl(c, fluxes, total):
    """the running explained fraction exactly as `paths` accumulates it: expl_flux += flux / total_flux in doubles"""
    t = float(total)
    assert F(t) == total
    e = 0.0
    for x in fluxes:
        e += float(F(x)) / t
    return e


# ----------------------------------------------------------------------------- model comparison
def _cext(s):
    if s == "inf":
        return "PInf"
    if s == "-inf":
        return "NInf"
    return "(Fin %s)" % cq(F(s))


def _cmat(c):
    return "(of_lists %s)" % clist(c["M"], lambda row: clist(row, lambda x: cq(F(x)), "Q"), "(list Q)")


def _cnl(xs):
    return clist(xs, cn, "nat")


ERR = {"IndexError": 1, "ValueError": 2}


def _ambiguous(c, r):
    """the float accumulation of flux/total could fall on the other side of the cut-off"""
    ps = r["paths"]
    if "err" in ps or not ps["fluxes"]:
        return False
    total = sum(sum(F(x) for x in c["M"][s]) for s in c["src"])
    if total <= 0:
        return True
    cut = F(CUTOFFS[c["cutoff"]])
    acc = F(0)
    # subtract scheme on a conserved flow: once everything is explained nothing is left in the residual
    # matrix (c17_subtract_keeps_conserved), so on which side of the cut-off the last float sum falls
    # does not change the result
    harmless_end = (c["kind"] == "conserved" and c["scheme"] == "subtract" and len(set(c["src"])) == len(c["src"])
                    and not (set(c["src"]) & set(c["snk"])) and _is_conserved(_FM(c), c["n"], c["src"], c["snk"]))
    for k, x in enumerate(ps["fluxes"]):
        acc += F(x) / total
        if abs(acc - cut) < F(1, 10 ** 12):
            if harmless_end and acc == 1 and k == len(ps["fluxes"]) - 1:
                continue
            return True
    return False


def _compare_paths(c, r):
    if _ambiguous(c, r):
        return False
    if c["kind"] == "float" and c["scheme"] == "subtract" and c["num_paths"] != 1:
        return False
    return True


def _top_term(c, gen=False):
    return "%s %s %s %s %s" % ("gen_top_path" if gen else "top_path", cn(c["n"]), _cmat(c), _cnl(c["src"]),
                               _cnl(c["snk"]))


def _paths_term(c, gen=False):
    if gen:      # the functions regenerated from path.py by translator/tr_path.py
        fn, rem = "gen_paths", ("gen_scheme_subtract" if c["scheme"] == "subtract" else "gen_scheme_bottleneck")
    else:
        fn, rem = "paths", ("subtract_path" if c["scheme"] == "subtract" else "remove_bottleneck")
    return "%s %s %s %s %s %s %s %s" % (fn, rem, cn(c["n"]), _cmat(c), _cnl(c["src"]), _cnl(c["snk"]),
                                       copt(c["num_paths"], cn, "nat"), cq(F(CUTOFFS[c["cutoff"]])))


def _check_one(c, r, gen):
    t = r["top"]
    if "err" in t:
        code = ERR.get(t["err"], 9)
        top = "top_eqb (%s) %s [] NInf" % (_top_term(c, gen), cn(code))
    else:
        if t["flux"] == "nan":
            return None
        top = "top_eqb (%s) 0 %s %s" % (_top_term(c, gen), _cnl(t["path"]), _cext(t["flux"]))
    if not _compare_paths(c, r):
        return top
    ps = r["paths"]
    if "err" in ps:
        pt = "paths_eqb (%s) %s [] []" % (_paths_term(c, gen), cn(ERR.get(ps["err"], 9)))
    else:
        pt = "paths_eqb (%s) 0 %s %s" % (_paths_term(c, gen), clist(ps["paths"], _cnl, "(list nat)"),
                                         clist(ps["fluxes"], lambda x: cq(F(x)), "Q"))
    return "(%s) && (%s)" % (top, pt)


def _topo(M, n):
    """a topological order of the positive edges (Kahn), None if there is a cycle"""
    left, order = set(range(n)), []
    while left:
        free = sorted(v for v in left if not any(M[u][v] > 0 for u in left))
        if not free:
            return None
        order += free
        left -= set(free)
    return order


def _theorem_hyps(c):
    """Coq term: the executable hypotheses of c17_conserved_reaches_fraction hold for this case
    (conservedb / forwardb imply conserved / acyclic by c17_conserved_tests_sound), or None if the
    case is outside the theorem's domain"""
    if c["kind"] != "conserved" or c["scheme"] != "subtract" or c["num_paths"] is not None:
        return None
    M = _FM(c)
    if len(set(c["src"])) != len(c["src"]) or set(c["src"]) & set(c["snk"]) or not _is_conserved(M, c["n"], c["src"], c["snk"]):
        return None
    order = _topo(M, c["n"])
    return "conservedb %s %s %s %s && forwardb %s %s %s && nodupb %s" % (
        cn(c["n"]), _cmat(c), _cnl(c["src"]), _cnl(c["snk"]), cn(c["n"]), _cmat(c), _cnl(order), _cnl(c["src"]))


def coq_check(c, r):
    """the hand model and the model regenerated from the source must both reproduce the implementation;
    on conserved subtract cases the hypotheses of the fraction theorem are evaluated as well"""
    a = _check_one(c, r, False)
    if a is None:
        return None
    t = "(%s) && (%s)" % (a, _check_one(c, r, True))
    h = _theorem_hyps(c)
    return t if h is None else "(%s) && (%s)" % (t, h)


def coq_show(c):
    return "(%s, %s)" % (_top_term(c), _paths_term(c))


# ----------------------------------------------------------------------------- accounting
def nontrivial(c, r):
    t = r["top"]
    if "err" in t or t["flux"] in ("inf", "-inf", "nan"):
        return False
    _, cnt = _widest(_FM(c), c["n"], c["src"], c["snk"])
    return cnt >= 2


def tags(c, r):
    t = [c["kind"], "scheme-" + c["scheme"], "num_paths-%s" % ("inf" if c["num_paths"] is None else c["num_paths"]),
         "cutoff-%s" % c["cutoff"]]
    top, ps = r["top"], r["paths"]
    if c.get("scale"):
        t.append("scale-2^-%d" % c["scale"])
        if "err" not in top and top["flux"] not in ("inf", "-inf", "nan"):
            t.append("scale-tiny-top-finite")
    if c.get("mixed"):
        t.append("mixed-tiny")
        if "err" not in ps and any(0 < F(x) <= F(1, 10 ** 12) for x in ps["fluxes"]) and \
                any(F(x) > F(1, 10 ** 12) for x in ps["fluxes"]):
            t.append("mixed-tiny-and-ordinary-paths-returned")
        if "err" not in top and top["flux"] not in ("inf", "-inf", "nan") and F(top["flux"]) <= F(1, 10 ** 12):
            t.append("mixed-top-bottleneck-tiny")
    if c.get("layout"):
        lay = c["layout"] if _layout_ok(c, c["layout"]) else "fallback"
        t.append("layout-" + lay)
        if "err" not in ps and len(ps["fluxes"]) >= 2:
            t.append("layout-%s-%s-2+paths" % ("nonC" if lay not in ("C", "ro", "f32", "int") else "C", c["scheme"]))
    if "err" in top:
        t.append("top-" + top["err"])
    elif top["flux"] == "-inf":
        t.append("no-path")
    elif top["flux"] == "inf":
        t.append("source-is-sink")
    else:
        t.append("top-finite")
        if len(c["snk"]) > 1:
            t.append("multi-sink")
        if len(c["src"]) > 1:
            t.append("multi-source")
    if "err" not in ps:
        k = len(ps["fluxes"])
        t.append("npaths-returned-%s" % (k if k < 4 else "4+"))
        if k >= 2 and len(set(ps["fluxes"])) < k:
            t.append("equal-fluxes")
        if _ambiguous(c, r):
            t.append("cutoff-ambiguous-not-compared")
        elif not _compare_paths(c, r):
            t.append("float-subtract-not-compared")
        if c["num_paths"] is not None and k == c["num_paths"]:
            t.append("stopped-by-num_paths")
        if c["kind"] == "conserved":
            M = _FM(c)
            total = sum(sum(M[s]) for s in c["src"])
            if _fraction_clause(c, _is_conserved(M, c["n"], c["src"], c["snk"]), total):
                t.append("fraction-clause-checked")
                if _fraction_exact(c, True, total):
                    t.append("fraction-clause-exact")
                    if sum(F(x) for x in ps["fluxes"]) < F(CUTOFFS[c["cutoff"]]) * total:
                        t.append("fraction-exact-stopped-by-float-sum")
                if c["scheme"] == "subtract":
                    t.append("fraction-theorem-hypotheses-met")
    return t


ESSENTIAL_TAGS = ["conserved", "digraph", "float", "malformed", "scheme-subtract", "scheme-bottleneck", "top-finite",
                  "no-path", "multi-sink", "multi-source", "top-IndexError", "top-ValueError", "npaths-returned-4+",
                  "stopped-by-num_paths", "equal-fluxes", "fraction-clause-checked",
                  "fraction-theorem-hypotheses-met", "cutoff-3", "fraction-clause-exact", "mixed-tiny",
                  "mixed-tiny-and-ordinary-paths-returned", "mixed-top-bottleneck-tiny", "scale-tiny-top-finite"] + [
                  "scale-2^-%d" % k for k in TINY_SCALES] + ["layout-" + l for l in LAYOUTS] + [
                  "layout-nonC-bottleneck-2+paths", "layout-nonC-subtract-2+paths", "layout-C-bottleneck-2+paths",
                  "layout-C-subtract-2+paths"]


def translate(repo):
    return tr_path.translate(repo)


def search(rng, tier):
    """deeper search for a failing input: many more random graphs, oracle only."""
    found = []
    for i in range(4000 if tier == "quick" else 20000):
        sch, npaths, cut = _params(rng)
        n, M, src, snk = _conserved(rng) if i % 3 == 0 else _digraph(rng)
        c = _mk("conserved" if i % 3 == 0 else "digraph", n, M, src, snk, sch, npaths, cut)
        try:
            r = run_impl(c)
        except Exception:
            continue
        for key, msg in oracle(c, r):
            if key not in (F2_KEY, F2C_KEY):
                found.append((key, msg, c, r))
        if found:
            break
    return found
