"""C12: the reversible (Prinz) maximum-likelihood estimator: builders.mle, builders._prinz_mle_py,
libmsm._mle_prinz_dense.

Two kinds of cases.
* "sweep": the real functions are run with max_iter = k (k = 1..3); when the non-convergence warning
  was emitted exactly k sweeps were executed, and the returned (T, pi) must equal, to 1e-9, what the
  translated update formulas (Gen/PrinzGen.v, one for builders.py and one for libmsm.pyx) produce when
  plugged into the loop skeleton of Model/Prinz.v and run over rationals (quotients and roots to
  2^-80).  Matrices with a zero row are the rejected stream (AssertionError <-> None).
* "stop": the number N of sweeps the real functions execute before `abs(logl - oldlogl) > tol` fails is
  measured by probing max_iter (the warning appears iff at least max_iter sweeps ran); the translated
  pseudo log-likelihood terms and convergence test, plugged into `prinz_loop` of Model/Prinz.v and run over
  rationals (ln to 2^-64), must stop after the same N sweeps (py: ln, pyx: log10), and the returned (T, pi)
  must equal the N-sweep model to 1e-9.
* "cert": builders.mle (dense and sparse containers), _prinz_mle_py and _prinz_mle (compiled) run to
  convergence; the returned T, pi are handed to Coq as exact rationals and the certificate checker
  of Model/Prinz.v evaluates stochasticity, detailed balance (1e-9) and the Prinz self-consistency
  residual (1e-6 relative to c_i + c_j; skipped only when the code said it did not converge);
  py vs pyx within 1e-6.  Oracle (Python): the same statements on Fractions, plus log-likelihood
  >= that of the transpose estimate and of random / perturbed reversible matrices on the same support.
"""
import os, sys, math, random, warnings
from fractions import Fraction as F
import numpy as np
from core import cn, cq, cb, clist, copt, VERIF
sys.path.insert(0, os.path.join(VERIF, "translator"))
import tr_prinz

PID = "C12"
PROPS_FILE = "Props/C12.v"
MODEL_TARGETS = ["Model/Prinz.vo", "Gen/PrinzGen.vo"]
GEN_FILES = ["Gen/PrinzGen.v"]
CASE_HEADER = ("From Coq Require Import List ZArith QArith.\nFrom EV Require Import Prinz PrinzGen.\n"
               "Import ListNotations.\nOpen Scope Q_scope.\n")
RULE = ("strongly connected count matrices, n = 1..7 (sweep cases n <= 5): random digraphs of three densities, symmetric "
        "matrices (an exact fixed point), one-directional rings and strongly asymmetric pairs, chains and stars whose end "
        "states have a single neighbour (with and without self-counts), 2-state matrices with empty diagonal (the a == 0 "
        "branch), counts that are small integers, multiples of 1/8, arbitrary doubles, or spread over 1..10^4; dense "
        "ndarray and csr/coo/lil containers for builders.mle; plus matrices with an all-zero row (rejected). "
        "stop cases: n = 2..4, the sweep count of both real functions measured by probing max_iter. "
        "non-trivial := n >= 3, not symmetric, a model was returned and at least one sweep changed X (stop cases: at least 2 sweeps)")
TRUSTED = ["translator/tr_prinz.py (array-element renaming, loop-shape recognition; the logl terms and the convergence test are translated, `logl = 0` / `oldlogl = logl` / `break` / the warning condition n_iter == max_iter - 1 are recognised as the shape prinz_loop implements; np.log -> klog, C log10 -> klog10 = ln/ln 10)",
           "modelled not verified: IEEE rounding (comparison at 1e-9 / 1e-6), numpy sum/division broadcasting, scipy sparse <-> dense conversion; the stopping rule is modelled (prinz_loop) and compared on stop cases whose iteration needs <= 30 sweeps, the executable ln on Q is a 2^-64 approximation (Model/Prinz.v qlog, not proved)",
           "the executable Q instance of the model rounds quotients and square roots down to multiples of 2^-80 (sums, differences, products exact)"]
ASSUMPTIONS = ["count matrices are non-negative with a strongly connected transition graph (after ergodic trimming); "
               "theorems are about exact real arithmetic; convergence of the iteration and global optimality for n >= 3 are NOT proved "
               "(proved: Prinz equations at every state a sweep leaves unchanged, vanishing partial derivatives and strict "
               "coordinate-wise maximality of the full log-likelihood there, global optimality for two states; "
               "observed per input: likelihood >= transpose estimate and >= sampled reversible competitors)"]
SHARD = 20
P = 80
TOL_SWEEP = F(1, 10 ** 9)
TOL1 = F(1, 10 ** 9)
TOL2 = F(1, 10 ** 6)
TOL_IMPL = F(1, 10 ** 6)


def translate(repo):
    return tr_prinz.translate(repo)


# ----------------------------------------------------------------------------- generators
def _strongly_connected(M):
    n = len(M)

    def reach(adj):
        seen = {0}
        todo = [0]
        while todo:
            a = todo.pop()
            for b in range(n):
                if adj(a, b) and b not in seen:
                    seen.add(b)
                    todo.append(b)
        return len(seen) == n
    return reach(lambda a, b: M[a][b] > 0) and reach(lambda a, b: M[b][a] > 0)


def _val(rng, style):
    if style == "int":
        return F(rng.randrange(1, 10))
    if style == "eighth":
        return F(rng.randrange(1, 80), 8)
    if style == "float":
        return F(rng.random() * 8 + 0.01)
    if style == "spread":
        return F(rng.randrange(1, 10) * 10 ** rng.randrange(0, 5))
    raise ValueError(style)


def _matrix(rng, n, shape, style):
    Z = [[F(0)] * n for _ in range(n)]
    if n == 1:
        Z[0][0] = _val(rng, style)
        return Z
    if shape in ("sparse", "mid", "full"):
        p = {"sparse": 0.3, "mid": 0.6, "full": 1.0}[shape]
        for _ in range(200):
            M = [[_val(rng, style) if rng.random() < p else F(0) for _ in range(n)] for _ in range(n)]
            if _strongly_connected(M):
                return M
        shape = "ring"
    if shape == "symmetric":
        for _ in range(200):
            M = [[F(0)] * n for _ in range(n)]
            for i in range(n):
                for j in range(i, n):
                    if rng.random() < 0.6:
                        M[i][j] = M[j][i] = _val(rng, style)
            if _strongly_connected(M):
                return M
        shape = "chain"
    if shape == "ring":           # one-directional ring (+ a few extra entries): C_ji = 0 for most pairs
        M = Z
        for i in range(n):
            M[i][(i + 1) % n] = _val(rng, style)
        for _ in range(rng.randrange(0, n)):
            M[rng.randrange(n)][rng.randrange(n)] = _val(rng, style)
        return M
    if shape == "asym":           # every pair connected, one direction 1000 times heavier
        M = Z
        for i in range(n):
            for j in range(i + 1, n):
                a, b = _val(rng, style) * 1000, _val(rng, style) / (8 if style != "int" else 1)
                M[i][j], M[j][i] = (a, b) if rng.random() < 0.5 else (b, a)
        return M
    if shape in ("chain", "chain-self"):
        M = Z
        for i in range(n - 1):
            M[i][i + 1] = _val(rng, style)
            M[i + 1][i] = _val(rng, style)
        if shape == "chain-self":
            for i in range(n):
                if rng.random() < 0.5:
                    M[i][i] = F(rng.randrange(1, 20))
        return M
    if shape == "star":
        M = Z
        for i in range(1, n):
            M[0][i] = _val(rng, style)
            M[i][0] = _val(rng, style)
        return M
    if shape == "two-empty-diag":
        return [[F(0), _val(rng, style)], [_val(rng, style), F(0)]]
    raise ValueError(shape)


SHAPES = ["sparse", "mid", "full", "symmetric", "ring", "asym", "chain", "chain-self", "star"]
STYLES = ["int", "int", "eighth", "float", "spread"]
CONTAINERS = ["ndarray", "ndarray", "csr_matrix", "coo_matrix", "lil_matrix", "csr_array"]


def _enc(M):
    return [[str(x) for x in row] for row in M]


def _dec(C):
    return [[F(x) for x in row] for row in C]


def generate(rng, tier):
    quick = tier == "quick"
    cases = []
    # fixed regression inputs: the assertion failure repaired by fa226f0, the a == 0 branch, n = 1
    for M in ([[0, 1, 5], [3, 0, 0], [4, 0, 0]], [[0, 9, 0], [2, 0, 3], [0, 1, 0]], [[17, 8, 0], [60000, 11, 5], [0, 800, 0]],
              [[5, 2, 1], [1, 4, 0], [2, 1, 6]], [[0, 3], [7, 0]], [[5]]):
        cases.append({"kind": "cert", "C": _enc([[F(x) for x in r] for r in M]), "container": "ndarray", "shape": "fixed",
                      "style": "int", "seed": 1})
        cases.append({"kind": "sweep", "C": _enc([[F(x) for x in r] for r in M]), "k": 2, "shape": "fixed", "style": "int"})
    n_sweep = 300 if quick else 3000
    for t in range(n_sweep):
        shape = SHAPES[t % len(SHAPES)] if rng.random() < 0.9 else "two-empty-diag"
        style = rng.choice(STYLES)
        n = 2 if shape == "two-empty-diag" else rng.choice([2, 3, 3, 4, 4, 5] if quick else [2, 3, 4, 4, 5, 5, 6])
        M = _matrix(rng, n, shape, style)
        if rng.random() < 0.08:       # rejected stream: a state without outgoing counts
            i = rng.randrange(n)
            M[i] = [F(0)] * n
            shape = "zero-row"
        cases.append({"kind": "sweep", "C": _enc(M), "k": rng.choice([1, 1, 2, 3]), "shape": shape, "style": style})
    n_stop = 14 if quick else 120
    for t in range(n_stop):
        shape = SHAPES[t % len(SHAPES)]
        style = rng.choice(["int", "int", "eighth", "float"])
        n = rng.choice([2, 3, 3, 4])
        M = _matrix(rng, n, shape, style)
        cases.append({"kind": "stop", "C": _enc(M), "shape": shape, "style": style})
    n_cert = 260 if quick else 2600
    for t in range(n_cert):
        shape = SHAPES[t % len(SHAPES)] if rng.random() < 0.93 else "two-empty-diag"
        style = rng.choice(STYLES)
        if style == "spread" and rng.random() < (0.8 if quick else 0.3):
            style = "int"            # widely spread counts converge slowly (seconds per case in pure Python)
        n = 2 if shape == "two-empty-diag" else rng.choice([2, 3, 4, 5, 6, 7])
        if style == "spread":
            n = min(n, 4)
        M = _matrix(rng, n, shape, style)
        cases.append({"kind": "cert", "C": _enc(M), "container": rng.choice(CONTAINERS), "shape": shape, "style": style,
                      "seed": rng.randrange(10 ** 6)})
    return cases


# ----------------------------------------------------------------------------- running the real code
def _fr(a):
    a = np.asarray(a, dtype=float)
    if not np.all(np.isfinite(a)):
        raise FloatingPointError("non-finite value returned")
    if a.ndim == 1:
        return [str(F(float(x))) for x in a]
    return [[str(F(float(x))) for x in row] for row in a]


def _call(f, *a, **kw):
    from enspara import exception
    try:
        with warnings.catch_warnings(record=True) as w:
            warnings.simplefilter("always")
            T, pi = f(*a, **kw)
        conv = [x for x in w if issubclass(x.category, exception.ConvergenceWarning)]
        if hasattr(T, "toarray"):
            T = T.toarray()
        return {"T": _fr(T), "pi": _fr(pi), "warn": bool(conv)}
    except Exception as ex:
        return {"err": type(ex).__name__}


def _array(c):
    M = _dec(c["C"])
    allint = all(x.denominator == 1 for r in M for x in r)
    return np.array([[float(x) for x in r] for r in M]), allint


STOP_CAP = 30      # stop cases whose iteration needs more sweeps are only tagged (the Q model would be slow)
STOP_P = 64


def _warned(f, A, m):
    from enspara import exception
    with warnings.catch_warnings(record=True) as w:
        warnings.simplefilter("always")
        f(A.copy(), max_iter=m)
    return any(issubclass(x.category, exception.ConvergenceWarning) for x in w)


def _nsweeps(f, A):
    """number of sweeps executed when max_iter does not bind = the largest m whose run still warns
    (n_iter == max_iter - 1 also when the break happens in the last allowed pass); None above STOP_CAP"""
    if not _warned(f, A, 1):
        return 0
    lo, hi = 1, 2
    while _warned(f, A, hi):
        lo, hi = hi, hi * 2
        if lo > STOP_CAP:
            return None
    while hi - lo > 1:
        mid = (lo + hi) // 2
        if _warned(f, A, mid):
            lo = mid
        else:
            hi = mid
    return lo if lo <= STOP_CAP else None


def _run_stop(c, A):
    from enspara.msm import builders
    r = {}
    for impl, f in (("py", builders._prinz_mle_py), ("pyx", builders._prinz_mle)):
        try:
            N = _nsweeps(f, A)
        except Exception as ex:
            r[impl] = {"err": type(ex).__name__}
            continue
        if N is None:
            r[impl] = {"N": None}
            continue
        a = _call(f, A.copy(), max_iter=N + 1)
        b = _call(f, A.copy(), max_iter=N + 7)
        a["N"] = N
        a["stable"] = ("T" in a and "T" in b and a["T"] == b["T"] and a["pi"] == b["pi"] and not b["warn"])
        r[impl] = a
    return r


def run_impl(c):
    from enspara.msm import builders
    A, allint = _array(c)
    if c["kind"] == "stop":
        return _run_stop(c, A)
    if c["kind"] == "sweep":
        return {"py": _call(builders._prinz_mle_py, A.copy(), max_iter=c["k"]),
                "pyx": _call(builders._prinz_mle, A.copy(), max_iter=c["k"])}
    import scipy.sparse
    B = A.astype(int) if (allint and c["seed"] % 2 == 0) else A.copy()
    if c["container"] != "ndarray":
        B = getattr(scipy.sparse, c["container"])(B)
    keep = B.copy()

    def mle(X):
        _, T, pi = builders.mle(X)
        return T, pi
    r = {"mle": _call(mle, B), "py": _call(builders._prinz_mle_py, A.copy()), "pyx": _call(builders._prinz_mle, A.copy())}
    same = (abs(keep - B)).sum() == 0
    r["input_unchanged"] = bool(same)
    return r


# ----------------------------------------------------------------------------- Coq side
def _cmat(M):
    return clist(M, lambda r: clist(r, lambda x: cq(F(x)), "Q"), "(list Q)")


def _cres(r):
    if "err" in r:
        return "(@None (list (list Q) * list Q))"
    return "(Some (%s, %s))" % (_cmat(r["T"]), clist(r["pi"], lambda x: cq(F(x)), "Q"))


def coq_show(c):
    n = len(c["C"])
    k = c.get("k", 1)
    return "prinz_run (QOps %d) (py_sweep (QOps %d)) %s (mat_fun %s) %s" % (P, P, cn(n), _cmat(c["C"]), cn(k))


def _sweep_tol(c):
    """1e-9, except for counts spread over more than two orders of magnitude: there the code's
    v = (-b + sqrt(b*b - 4ac)) / (2a) cancels (b > 0, |4ac| << b*b) and a single sweep in doubles is only
    good to ~1e-9 (seen: 1.2e-9 on the ring 6000, 400, 50000, 8000, 3 against a 60-digit evaluation, which
    agrees with the model); realistic mutations move the result by 1e-2 or more."""
    pos = [F(x) for row in c["C"] for x in row if F(x) > 0]
    if pos and max(pos) / min(pos) > 100:
        return F(1, 10 ** 6)
    return TOL_SWEEP


def coq_check(c, r):
    n = len(c["C"])
    Cm = _cmat(c["C"])
    if c["kind"] == "stop":
        parts = []
        for impl, run, swp in (("py", "py_run_stop", "py_sweep"), ("pyx", "pyx_run_stop", "pyx_sweep")):
            ri = r[impl]
            if "err" in ri or ri.get("N") in (None, 0) or "T" not in ri:
                continue
            parts.append("stop_agrees (%s (QOps %d) (QLOps %d) %s (mat_fun %s)) %s %s" % (
                run, STOP_P, STOP_P, cn(n), Cm, cq(F(1, 10 ** 10)), cn(ri["N"])))
            parts.append("result_near %s (prinz_run (QOps %d) (%s (QOps %d)) %s (mat_fun %s) %s) %s" % (
                cq(_sweep_tol(c)), P, swp, P, cn(n), Cm, cn(ri["N"]), _cres(ri)))
        return " && ".join("(%s)" % p for p in parts) if parts else None
    if c["kind"] == "sweep":
        parts = []
        for impl, swp in (("py", "py_sweep"), ("pyx", "pyx_sweep")):
            ri = r[impl]
            if "err" in ri:
                if ri["err"] != "AssertionError":
                    return None          # the oracle reports it
            elif not ri["warn"]:
                continue                 # stopped before k sweeps: nothing to compare sweep by sweep
            parts.append("result_near %s (prinz_run (QOps %d) (%s (QOps %d)) %s (mat_fun %s) %s) %s" % (
                cq(_sweep_tol(c)), P, swp, P, cn(n), Cm, cn(c["k"]), _cres(ri)))
        return " && ".join("(%s)" % p for p in parts) if parts else None
    parts = []
    for impl in ("mle", "py", "pyx"):
        ri = r[impl]
        if "err" in ri:
            return None
        parts.append("cert_ok %s %s %s %s %s %s" % (cq(TOL1), cq(TOL2), cb(not ri["warn"]), Cm, _cmat(ri["T"]),
                                                  clist(ri["pi"], lambda x: cq(F(x)), "Q")))
    parts.append("result_near %s %s %s" % (cq(TOL_IMPL), _cres(r["py"]), _cres(r["pyx"])))
    parts.append("result_near %s %s %s" % (cq(F(1, 10 ** 12)), _cres(r["mle"]), _cres(r["py"])))
    return " && ".join("(%s)" % p for p in parts)


# ----------------------------------------------------------------------------- oracle
def _logl(M, T):
    s = 0.0
    for i, row in enumerate(M):
        for j, cij in enumerate(row):
            if cij > 0:
                t = float(T[i][j])
                if t <= 0:
                    return -math.inf
                s += float(cij) * math.log(t)
    return s


def _rownorm(X):
    return [[x / sum(r) for x in r] for r in X]


def _cert(M, ri, out, name):
    n = len(M)
    T = [[F(x) for x in row] for row in ri["T"]]
    pi = [F(x) for x in ri["pi"]]
    crs = [sum(r) for r in M]
    if len(T) != n or any(len(r) != n for r in T) or len(pi) != n:
        out.append(("shape", "%s: wrong shape" % name))
        return
    if any(x < 0 for x in pi) or abs(sum(pi) - 1) > TOL1 or any(x < 0 for r in T for x in r) \
            or any(abs(sum(r) - 1) > TOL1 for r in T):
        out.append(("stochastic", "%s: T rows / pi are not probability vectors: C=%s" % (name, M)))
    if any(abs(pi[i] * T[i][j] - pi[j] * T[j][i]) > TOL1 for i in range(n) for j in range(n)):
        out.append(("detailed-balance", "%s: pi_i T_ij != pi_j T_ji: C=%s" % (name, M)))
    if not ri["warn"]:
        worst = max(abs(T[i][j] * crs[i] + T[j][i] * crs[j] - (M[i][j] + M[j][i])) / (crs[i] + crs[j])
                    for i in range(n) for j in range(n))
        if worst > TOL2:
            out.append(("self-consistency", "%s: relative residual %.3g of the Prinz equations without a convergence warning: C=%s"
                        % (name, float(worst), [[str(x) for x in r] for r in M])))


def oracle(c, r):
    out = []
    M = _dec(c["C"])
    n = len(M)
    if c["kind"] == "stop":
        for impl in ("py", "pyx"):
            ri = r[impl]
            if "err" in ri:
                out.append(("terminates", "%s raised %s on strongly connected C=%s" % (impl, ri["err"], c["C"])))
            elif ri.get("N") is not None and "T" in ri:
                if ri["N"] < 1:
                    out.append(("stop-rule", "%s: no sweep executed: C=%s" % (impl, c["C"])))
                if ri["warn"] or not ri["stable"]:
                    out.append(("stop-rule", "%s: with max_iter above the measured sweep count %d the run warned or its result "
                                "depends on max_iter: C=%s" % (impl, ri["N"], c["C"])))
                _cert(M, ri, out, impl)
        return out
    rejected = any(sum(row) == 0 for row in M)
    for impl in ("mle", "py", "pyx"):
        if impl not in r:
            continue
        ri = r[impl]
        if rejected:
            if ri.get("err") != "AssertionError":
                out.append(("zero-row-not-rejected", "%s: C=%s gave %s" % (impl, c["C"], str(ri)[:100])))
            continue
        if "err" in ri:
            out.append(("terminates", "%s raised %s on strongly connected C=%s" % (impl, ri["err"], c["C"])))
            continue
        if c["kind"] == "sweep":
            # after k sweeps only the structural facts are promised
            _cert(M, dict(ri, warn=True), out, impl)
        else:
            _cert(M, ri, out, impl)
    if c["kind"] != "cert" or out or rejected:
        return out
    if not r.get("input_unchanged", True):
        out.append(("input-unchanged", "builders.mle modified its argument"))
    # both implementations agree
    for a, b in zip([x for row in r["py"]["T"] for x in row] + r["py"]["pi"],
                    [x for row in r["pyx"]["T"] for x in row] + r["pyx"]["pi"]):
        if abs(F(a) - F(b)) > TOL_IMPL:
            out.append(("py-pyx-agree", "pure-Python and compiled results differ by %.3g: C=%s" % (float(abs(F(a) - F(b))), c["C"])))
            break
    # likelihood: at least the transpose estimate and sampled reversible competitors on the same support
    ri = r["mle"]
    if ri["warn"]:
        return out
    T = [[float(F(x)) for x in row] for row in ri["T"]]
    pi = [float(F(x)) for x in ri["pi"]]
    N = float(sum(sum(row) for row in M))
    tol = 1e-7 * max(1.0, N)
    l_mle = _logl(M, T)
    sym = [[M[i][j] + M[j][i] for j in range(n)] for i in range(n)]
    l_tr = _logl(M, _rownorm(sym))
    if l_mle < l_tr - tol:
        out.append(("likelihood-vs-transpose", "log L(mle) = %.12g < log L(transpose) = %.12g: C=%s" % (l_mle, l_tr, c["C"])))
    rng = random.Random(c["seed"])
    X = [[pi[i] * T[i][j] for j in range(n)] for i in range(n)]
    for trial in range(12):
        Y = [[0.0] * n for _ in range(n)]
        for i in range(n):
            for j in range(i, n):
                if trial < 6:     # perturbation of the returned solution
                    y = X[i][j] * (1 + (0.3 if trial < 3 else 0.01) * (rng.random() - 0.5))
                else:             # arbitrary reversible matrix on the same support
                    y = (rng.random() + 0.05) if (sym[i][j] > 0 or X[i][j] > 0) else 0.0
                Y[i][j] = Y[j][i] = y
        if any(sum(row) <= 0 for row in Y):
            continue
        l_y = _logl(M, _rownorm(Y))
        if l_mle < l_y - tol:
            out.append(("likelihood-vs-reversible", "a reversible matrix on the same support has log L = %.12g > log L(mle) = %.12g: C=%s"
                        % (l_y, l_mle, c["C"])))
            break
    return out


# ----------------------------------------------------------------------------- bookkeeping
def nontrivial(c, r):
    M = _dec(c["C"])
    n = len(M)
    if n < 3 or all(M[i][j] == M[j][i] for i in range(n) for j in range(n)):
        return False
    ri = r.get("py", {})
    if c["kind"] == "stop":
        return "T" in ri and (ri.get("N") or 0) >= 2
    return "T" in ri


def tags(c, r):
    M = _dec(c["C"])
    n = len(M)
    t = [c["kind"], "%s-n%d" % (c["kind"], n), "%s-%s" % (c["kind"], c["shape"]), "%s-%s" % (c["kind"], c["style"])]
    if c["kind"] == "stop":
        for impl in ("py", "pyx"):
            ri = r[impl]
            if ri.get("N") is None:
                t.append("stop-not-compared-%s" % impl)
            else:
                t.append("stop-compared-%s" % impl)
                t.append("stop-%s-N%s" % (impl, "1-5" if ri["N"] <= 5 else "6-20" if ri["N"] <= 20 else "21-30"))
        if r["py"].get("N") is not None and r["pyx"].get("N") is not None:
            t.append("stop-py-pyx-same-count" if r["py"]["N"] == r["pyx"]["N"] else "stop-py-pyx-different-count")
    elif c["kind"] == "sweep":
        t.append("sweep-k%d" % c["k"])
        for impl in ("py", "pyx"):
            ri = r[impl]
            if ri.get("err") == "AssertionError":
                t.append("guard-rejected")
            elif "T" in ri:
                t.append("sweep-compared-%s" % impl if ri["warn"] else "sweep-early-stop")
    else:
        t.append("cert-" + ("dense" if c["container"] == "ndarray" else "sparse"))
        t.append("cert-" + c["container"])
        for impl in ("mle", "py", "pyx"):
            if r[impl].get("warn"):
                t.append("cert-convergence-warning-%s" % impl)
            elif "T" in r[impl]:
                t.append("cert-converged-%s" % impl)
    if n >= 2 and any(sum(1 for j in range(n) if j != i and (M[i][j] > 0 or M[j][i] > 0)) == 1 and M[i][i] == 0 for i in range(n)):
        t.append("leaf-state")
    if n == 2 and M[0][0] == 0 and M[1][1] == 0:
        t.append("a-eq-0-branch")
    if any(M[i][i] > 0 for i in range(n)):
        t.append("self-counts")
    if any(M[i][j] == 0 and M[j][i] > 0 for i in range(n) for j in range(n)):
        t.append("one-way-pair")
    return t


ESSENTIAL_TAGS = ["sweep-k1", "sweep-k2", "sweep-k3", "sweep-compared-py", "sweep-compared-pyx", "guard-rejected",
                  "cert-dense", "cert-sparse", "cert-converged-mle", "cert-converged-pyx", "leaf-state", "a-eq-0-branch",
                  "self-counts", "one-way-pair", "cert-float", "cert-int", "stop-compared-py", "stop-compared-pyx"]


def search(rng, tier):
    found = []
    for c in generate(rng, "quick"):
        r = run_impl(c)
        for key, msg in oracle(c, r):
            found.append((key, msg, c, r))
        if found:
            break
    return found
