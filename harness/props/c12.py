"""C12: the reversible (Prinz) maximum-likelihood estimator: builders.mle, builders._prinz_mle_py,
libmsm._mle_prinz_dense.

Two kinds of cases.
* "sweep": the real functions are run with max_iter = k (k = 1..3); when the non-convergence warning
  was emitted exactly k sweeps were executed, and the returned (T, pi) must equal, to 1e-9, what the
  translated update formulas (Gen/PrinzGen.v, one for builders.py and one for libmsm.pyx) produce when
  plugged into the loop skeleton of Model/Prinz.v and run over rationals (quotients and roots to
  2^-80).  Matrices with a zero row are the rejected stream (AssertionError <-> None).
* "stop": the number N of sweeps the real functions execute before `abs(logl - oldlogl) > tol` fails is
  measured by probing max_iter (the warning appears iff at least max_iter sweeps ran); the translated
  pseudo log-likelihood terms and convergence test, plugged into `prinz_loop` of Model/Prinz.v and run over
  rationals (ln to 2^-64), must stop after the same N sweeps (py: ln, pyx: log10), and the returned (T, pi)
  must equal the N-sweep model to 1e-9.
* "mono": the real functions are run from the same counts with max_iter = 1, 2, .., K (a run that warned executed
  exactly max_iter sweeps, one that did not has stopped and later runs return the same model); the
  log-likelihood sum_kl c_kl ln T_kl of the returned models must be non-decreasing along the sweeps and never
  below that of the transpose estimate (C + C^T) / rowsum (Props/C12.v c12_iteration_monotone,
  c12_returned_model_loglik_ge_transpose).  Differences are evaluated as sum c_kl * log1p(T'_kl / T_kl - 1)
  with the ratio of the two doubles formed exactly (Fractions), slack 1e-9 * sum(C); the K-sweep model is
  also compared with the translated formulas as in "sweep".
* "cert": builders.mle (dense and sparse containers), _prinz_mle_py and _prinz_mle (compiled) run to
  convergence; the returned T, pi are handed to Coq as exact rationals and the certificate checker
  of Model/Prinz.v evaluates stochasticity, detailed balance (1e-9) and the Prinz self-consistency
  residual (1e-6 relative to c_i + c_j; skipped only when the code said it did not converge);
  py vs pyx within 1e-6.  Oracle (Python): the same statements on Fractions, plus log-likelihood
  >= that of the transpose estimate and of random / perturbed reversible matrices on the same support.
  The residual bound of a converged run is 1e-5 relative to c_i + c_j (1e-4 when the positive counts span more than a
  factor 100): see _tol2; the other kinds (dtype, scale, stop) keep 1e-6.
* "dtype" (round 3s): the same counts held in a narrow dtype (int8/uint8/int16/uint16/int32/uint32, float16 dense
  only, float32; values close to the dtype's maximum, so that c_ij + c_ji and the row sums do not fit) and in
  float64 / int64: builders.mle (dense and every sparse container of the rule), _prinz_mle_py run to convergence
  and with max_iter = k must return a model and the same one (1e-9) as from the float64 counts; the compiled entry
  point only accepts float64 (ValueError from the typed signature otherwise; tagged, not demanded).
* shape "balanced-core" (round 3s, second wave; sweep k = 2..3, mono, cert and stop cases): integer counts whose low-numbered
  states are flow-balanced (row sum = column sum: mutually symmetric counts plus circulations), so that in the first
  sweep every pair among them is mapped onto itself exactly (x_i = 2 c_i there), while the higher-numbered states
  exchange very unequal counts; the balanced pairs have to move from the second sweep on, when their row sums have.
  Sweep and mono cases also demand (oracle key py-pyx-agree-k-sweeps) that runs of exactly k sweeps of the two
  implementations return the same model (1e-6).
* "scale" (round 3s): T(s C) = T(C) for s = 2^e (e in -10 -20 -34 -40 20 and one of -100 -70 40 60 100; scaling
  by a power of two is exact in doubles and every product / quotient / root of the iteration commutes with it; only
  numpy's scalar b**2 in the Python code is not always correctly rounded, so runs of exactly k sweeps agree to
  ~1e-16, demanded: 1e-9).  Runs with max_iter = k that warned (= exactly k sweeps) are compared between scales and,
  in Coq, with the k-sweep model of the *unscaled* counts; converged runs of mle / py / pyx must satisfy the
  certificate relative to the scaled counts and agree with the unscaled ones to 1e-4 (the stopping rule is an
  absolute test on a pseudo-likelihood that is not scale-free; observed <= 5.5e-7).  Counts scaled UP by 2^40 and
  more stop early (float resolution of the likelihood sum): known finding self-consistency-huge-counts.
* cert cases with a sparse "recipe" (round 3s, fourth wave): c["container"] is a JSON dict from which a non-canonically
  stored sparse matrix is built through scipy's raw constructors: COO / CSR / CSC (matrix and array classes) with several
  stored entries for one cell (also one stored 1 per transition, what assigns_to_counts returns), explicitly stored zeros
  (on empty cells, opposite one-way counts, on occupied cells), unsorted indices; DIA (dia_matrix, dia_array, spdiags)
  whose `data` is wider than the matrix, with zero padding or junk in the spare columns and unused diagonal ends,
  offsets in any order; BSR with repeated and all-zero blocks.  c["C"] is the matrix the container denotes (stored
  entries of a cell add up), computed from the recipe in exact arithmetic; run_impl checks that scipy's toarray() and
  the container's own storage arrays say the same.  Demanded: everything a cert case demands, relative to that matrix
  (certificate in Coq and in the oracle, likelihood clauses), plus oracle key sparse-dense-agree: builders.mle of the
  container = builders.mle of the dense matrix (1e-12; bit-identical on the unchanged code).
"""
import os, sys, math, random, warnings
from fractions import Fraction as F
import numpy as np
from core import cn, cq, cb, clist, copt, VERIF
sys.path.insert(0, os.path.join(VERIF, "translator"))
import tr_prinz

PID = "C12"
PROPS_FILE = "Props/C12.v"
MODEL_TARGETS = ["Model/Prinz.vo", "Gen/PrinzGen.vo"]
GEN_FILES = ["Gen/PrinzGen.v"]
CASE_HEADER = ("From Coq Require Import List ZArith QArith.\nFrom EV Require Import Prinz PrinzGen.\n"
               "Import ListNotations.\nOpen Scope Q_scope.\n")
RULE = ("strongly connected count matrices, n = 1..7 (sweep cases n <= 5): random digraphs of three densities, symmetric "
        "matrices (an exact fixed point), one-directional rings and strongly asymmetric pairs, chains and stars whose end "
        "states have a single neighbour (with and without self-counts), 2-state matrices with empty diagonal (the a == 0 "
        "branch), counts that are small integers, multiples of 1/8, arbitrary doubles, or spread over 1..10^4; dense "
        "ndarray and csr/coo/lil containers for builders.mle; plus matrices with an all-zero row (rejected). "
        "stop cases: n = 2..4, the sweep count of both real functions measured by probing max_iter. "
        "mono cases: n = 2..5, both real functions run with max_iter = 1..K (K = 4..8) from the same counts, likelihood ordering along the sweeps. "
        "dtype cases: n = 2..4, counts close to the maximum of int8/uint8/int16/uint16/int32/uint32/float16/float32 (pair sums and row sums exceed it), the same numbers as float64/int64 must give the same model through mle (all containers), _prinz_mle_py (converged and k sweeps). "
        "scale cases: n = 2..4, counts multiplied by 2^e, e in {-10,-20,-34,-40,20} and one of {-100,-70,40,60,100}: k-sweep results equal between scales (1e-9) and equal to the model of the unscaled counts, converged results certified relative to the scaled counts. "
        "leaf cases: every chain / star / leaf-on-dense-block pattern for n = 2..5 with and without self counts on the other states, integer and real counts, as sweep and cert cases (both implementations). "
        "balanced-core cases: n = 5..7, integer counts, 3..4 flow-balanced states (symmetric counts + circulations) with the lowest indices followed by 2..3 states exchanging very unequal counts, every core state tied to the rest through cycles; as sweep (k = 2, 3), mono, stop and cert cases. "
        "recipe cases (cert): n = 2..5 (thorough ..6), counts integers or multiples of 1/8, held in non-canonically stored sparse containers built from a JSON recipe: coo/csr/csc matrix and array classes with duplicate stored entries (also one stored 1 per transition), explicitly stored zeros, unsorted indices, DIA (dia_matrix / dia_array / spdiags) with data wider than the matrix (zero padding or junk outside, offsets in any order), BSR with repeated blocks; formats, classes, dtypes (int64/int32/float64) and padding kinds dealt in turn; the matrix they denote (duplicates sum) is computed exactly from the recipe and is what the model is certified against; mle(container) = mle(dense). "
        "non-trivial := n >= 3, not symmetric, a model was returned and at least one sweep changed X (stop cases: at least 2 sweeps)")
TRUSTED = ["translator/tr_prinz.py (array-element renaming, loop-shape recognition; the logl terms and the convergence test are translated, `logl = 0` / `oldlogl = logl` / `break` / the warning condition n_iter == max_iter - 1 are recognised as the shape prinz_loop implements; np.log -> klog, C log10 -> klog10 = ln/ln 10)",
           "modelled not verified: IEEE rounding (comparison at 1e-9 / 1e-6), numpy sum/division broadcasting, scipy sparse <-> dense conversion; the stopping rule is modelled (prinz_loop) and compared on stop cases whose iteration needs <= 30 sweeps, the executable ln on Q is a 2^-64 approximation (Model/Prinz.v qlog, not proved)",
           "the executable Q instance of the model rounds quotients and square roots down to multiples of 2^-80 (sums, differences, products exact)"]
ASSUMPTIONS = ["count matrices are non-negative with a strongly connected transition graph (after ergodic trimming); "
               "theorems are about exact real arithmetic; convergence of the matrices X_k and global optimality for n >= 3 are NOT proved "
               "(proved: Prinz equations at every state a sweep leaves unchanged, vanishing partial derivatives and strict "
               "coordinate-wise maximality of the full log-likelihood there, global optimality for two states; round 3: every "
               "update and every sweep is monotone in the log-likelihood and strictly increasing unless nothing changes, the "
               "returned model is at least as likely as the transpose estimate, the likelihood values along the iteration converge; "
               "observed per input: likelihood non-decreasing sweep by sweep, >= transpose estimate and >= sampled reversible competitors)"]
SHARD = 20
P = 80
TOL_SWEEP = F(1, 10 ** 9)
TOL1 = F(1, 10 ** 9)
TOL2 = F(1, 10 ** 6)
TOL_IMPL = F(1, 10 ** 6)


def translate(repo):
    return tr_prinz.translate(repo)


# ----------------------------------------------------------------------------- generators
def _strongly_connected(M):
    n = len(M)

    def reach(adj):
        seen = {0}
        todo = [0]
        while todo:
            a = todo.pop()
            for b in range(n):
                if adj(a, b) and b not in seen:
                    seen.add(b)
                    todo.append(b)
        return len(seen) == n
    return reach(lambda a, b: M[a][b] > 0) and reach(lambda a, b: M[b][a] > 0)


def _val(rng, style):
    if style == "int":
        return F(rng.randrange(1, 10))
    if style == "eighth":
        return F(rng.randrange(1, 80), 8)
    if style == "float":
        return F(rng.random() * 8 + 0.01)
    if style == "spread":
        return F(rng.randrange(1, 10) * 10 ** rng.randrange(0, 5))
    raise ValueError(style)


def _matrix(rng, n, shape, style):
    Z = [[F(0)] * n for _ in range(n)]
    if n == 1:
        Z[0][0] = _val(rng, style)
        return Z
    if shape in ("sparse", "mid", "full"):
        p = {"sparse": 0.3, "mid": 0.6, "full": 1.0}[shape]
        for _ in range(200):
            M = [[_val(rng, style) if rng.random() < p else F(0) for _ in range(n)] for _ in range(n)]
            if _strongly_connected(M):
                return M
        shape = "ring"
    if shape == "symmetric":
        for _ in range(200):
            M = [[F(0)] * n for _ in range(n)]
            for i in range(n):
                for j in range(i, n):
                    if rng.random() < 0.6:
                        M[i][j] = M[j][i] = _val(rng, style)
            if _strongly_connected(M):
                return M
        shape = "chain"
    if shape == "ring":           # one-directional ring (+ a few extra entries): C_ji = 0 for most pairs
        M = Z
        for i in range(n):
            M[i][(i + 1) % n] = _val(rng, style)
        for _ in range(rng.randrange(0, n)):
            M[rng.randrange(n)][rng.randrange(n)] = _val(rng, style)
        return M
    if shape == "asym":           # every pair connected, one direction 1000 times heavier
        M = Z
        for i in range(n):
            for j in range(i + 1, n):
                a, b = _val(rng, style) * 1000, _val(rng, style) / (8 if style != "int" else 1)
                M[i][j], M[j][i] = (a, b) if rng.random() < 0.5 else (b, a)
        return M
    if shape in ("chain", "chain-self"):
        M = Z
        for i in range(n - 1):
            M[i][i + 1] = _val(rng, style)
            M[i + 1][i] = _val(rng, style)
        if shape == "chain-self":
            for i in range(n):
                if rng.random() < 0.5:
                    M[i][i] = F(rng.randrange(1, 20))
        return M
    if shape == "star":
        M = Z
        for i in range(1, n):
            M[0][i] = _val(rng, style)
            M[i][0] = _val(rng, style)
        return M
    if shape == "leaf-block":     # dense block with one or two states hanging off it by a single pair, no self count
        M = Z
        L = 1 if n <= 3 or rng.random() < 0.6 else 2
        m = n - L
        for i in range(m):
            for j in range(m):
                if i != j or rng.random() < 0.7:
                    M[i][j] = _val(rng, style)
        if m == 1:
            M[0][0] = _val(rng, style) if rng.random() < 0.7 else F(0)
        for l in range(m, n):
            b = rng.randrange(m)
            M[l][b] = _val(rng, style)
            M[b][l] = _val(rng, style)
        if rng.random() < 0.5:    # leaf states first / in the middle: the pair (i, j) is visited in both orders
            perm = list(range(n))
            rng.shuffle(perm)
            M = [[M[perm[i]][perm[j]] for j in range(n)] for i in range(n)]
        return M
    if shape == "two-empty-diag":
        return [[F(0), _val(rng, style)], [_val(rng, style), F(0)]]
    raise ValueError(shape)


def _balance(M):
    """row sum - column sum per state"""
    n = len(M)
    return [sum(M[i]) - sum(M[j][i] for j in range(n)) for i in range(n)]


def _stationary_pairs(M):
    """Observed pairs (i < j) that the first sweep maps onto themselves: both states flow-balanced (then x_i = 2 c_i for
    the start X = C + C^T and the pair's fixed point is c_ij + c_ji = x_ij) and neither row sum moved earlier in the sweep."""
    n = len(M)
    bal = _balance(M)
    moved = {i for i in range(n) if bal[i] != 0}
    out = []
    for i in range(n - 1):
        for j in range(i + 1, n):
            if M[i][j] + M[j][i] == 0:
                continue
            if i in moved or j in moved:
                moved.update((i, j))
            else:
                out.append((i, j))
    return out


def _balanced_core(rng, n):
    """integer counts; states 0..m-1 flow-balanced (symmetric counts + circulations among them), states m..n-1 exchange
    very unequal counts; every pair of groups is tied by symmetric counts so that the core pairs lie on cycles through the
    unbalanced states"""
    for _ in range(400):
        t = rng.choice([2, 2, 3]) if n >= 6 else 2
        m = n - t
        M = [[F(0)] * n for _ in range(n)]
        for i in range(n):
            if rng.random() < 0.7:
                M[i][i] = F(rng.randrange(1, 10))
            for j in range(i + 1, n):
                if rng.random() < (0.75 if (i < m) == (j < m) else 0.6):
                    M[i][j] = M[j][i] = F(rng.randrange(1, 10))
        for _ in range(rng.choice([0, 0, 1, 2])):        # a circulation keeps every state balanced, not the pairs symmetric
            cyc = rng.sample(range(m), 3)
            k = F(rng.randrange(1, 6))
            for a, b in zip(cyc, cyc[1:] + cyc[:1]):
                M[a][b] += k
        for p in range(m, n):                            # the imbalance: unequal exchange among the last states
            for q in range(p + 1, n):
                if q == p + 1 or rng.random() < 0.5:
                    a, b = F(rng.randrange(1, 4)), F(rng.randrange(12, 60))
                    M[p][q], M[q][p] = (a, b) if rng.random() < 0.5 else (b, a)
        bal = _balance(M)
        core_pairs = [(i, j) for (i, j) in _stationary_pairs(M) if j < m]
        tied = all(any(M[i][q] > 0 for q in range(m, n)) for i in range(m))
        if _strongly_connected(M) and all(bal[i] == 0 for i in range(m)) and all(bal[i] != 0 for i in range(m, n)) \
                and len(core_pairs) >= 2 and tied:
            return M
    raise ValueError("balanced core")


def _leaf_family(rng):
    """systematic leaf-state matrices: chains, stars and a leaf on a dense block, n = 2..5, the non-leaf states with
    and without self counts, counts integer and real; the leaf states never have a self count"""
    out = []
    for n in range(2, 6):
        for pattern in ("chain", "star", "leaf-block"):
            for selfc in (False, True):
                for style in ("int", "float"):
                    if pattern == "leaf-block":
                        M = _matrix(rng, n, "leaf-block", style)
                        if not selfc:
                            for i in range(n):
                                M[i][i] = F(0)
                        if n == 2 and M[0][0] == 0 and M[1][1] == 0 and selfc:
                            M[0][0] = _val(rng, style)
                    else:
                        M = _matrix(rng, n, pattern, style)
                        if selfc:
                            deg = [sum(1 for j in range(n) if j != i and M[i][j] > 0) for i in range(n)]
                            inner = [i for i in range(n) if deg[i] >= 2] or [0]
                            for i in inner:
                                M[i][i] = _val(rng, style)
                    out.append((pattern, style, M))
    return out


# narrow dtypes: name -> largest value; float16 / float32 counts are k * 2^e (exactly representable)
INT_DTYPES = {"int8": 2 ** 7 - 1, "uint8": 2 ** 8 - 1, "int16": 2 ** 15 - 1, "uint16": 2 ** 16 - 1,
              "int32": 2 ** 31 - 1, "uint32": 2 ** 32 - 1}
DTYPES = ["int8", "int8", "int16", "int16", "int32", "uint8", "uint16", "uint32", "float16", "float32", "float32-eighth"]


def _narrow_val(rng, dt):
    if dt in INT_DTYPES:
        m = INT_DTYPES[dt]
        u = rng.random()
        if u < 0.15:
            return F(m)
        if u < 0.8:
            return F(rng.randrange(m // 2 + 1, m + 1))      # any two of these do not fit together
        return F(rng.randrange(max(1, m // 10), m // 2 + 1))
    if dt == "float16":                                      # 32768 .. 65504, spacing 32
        return F(rng.randrange(1024, 2048) * 32)
    if dt == "float32":                                      # up to the largest float32, (2^24 - 1) * 2^104
        return F(rng.randrange(2 ** 21, 2 ** 24) * 2 ** 104)
    if dt == "float32-eighth":
        return F(rng.randrange(1, 80), 8)
    raise ValueError(dt)


def _narrow_matrix(rng, n, shape, dt):
    M = _matrix(rng, n, shape, "int")
    return [[_narrow_val(rng, dt) if x > 0 else F(0) for x in row] for row in M]


SCALE_EXPS = [-10, -20, -34, -40, 20]
SCALE_FAR = [-100, -70, -60]
# counts of 2^40 and more: the convergence test compares float sums of magnitude ~ counts with an absolute 1e-10, so the
# iteration stops as soon as the change is below one ulp of that sum: the returned model is visibly unconverged and no
# warning is given (known finding, key self-consistency-huge-counts); everything else is still demanded there
SCALE_HUGE = [40, 60, 100]
HUGE_DTYPES = ("int32", "uint32", "float32")   # counts >= 2^28: self-consistency to 1e-6 is not reached (up to 6e-6 seen at 2^30)


SHAPES = ["sparse", "mid", "full", "symmetric", "ring", "asym", "chain", "chain-self", "star", "leaf-block"]
STYLES = ["int", "int", "eighth", "float", "spread"]
CONTAINERS = ["ndarray", "ndarray", "csr_matrix", "coo_matrix", "lil_matrix", "csr_array"]


def _enc(M):
    return [[str(x) for x in row] for row in M]


def _dec(C):
    return [[F(x) for x in row] for row in C]


# ----------------------------------------------------------------------------- round 3s, fourth wave: sparse "recipes"
# A cert case may carry, instead of a container name, a recipe (a JSON dict) from which a NON-CANONICALLY stored sparse
# matrix is built through the raw constructors: several stored entries for one cell (they add up), explicitly stored
# zeros, unsorted indices, DIA storage that is wider than the matrix and holds junk outside it, BSR with repeated blocks.
# The matrix such a container denotes (= what .toarray() gives; duplicates SUM) is computed here in exact arithmetic from
# the recipe; it is c["C"], and everything the property demands of builders.mle is demanded relative to it.
RECIPE_FMTS = ["coo-dups", "dia-wide", "csr-dups", "coo-unit", "dia-wide", "csc-dups", "coo-zeros", "dia-wide", "csr-unsorted",
               "bsr-dups", "csr-zeros", "dia-wide"]
RECIPE_SHAPES = ["ring", "sparse", "mid", "full", "chain-self", "leaf-block", "asym", "sparse"]
DIA_CLS = ["dia_matrix", "spdiags", "dia_array"]


def _split(rng, v, unit=False):
    """positive parts adding up to v exactly (multiples of 1 / denominator: counts are k/8 or k/64, exact in doubles)"""
    q = F(1, v.denominator)
    units = int(v / q)
    if unit:
        return [q] * units
    k = min(units, rng.choice([1, 2, 2, 3]))
    cuts = sorted(rng.sample(range(1, units), k - 1)) if k > 1 else []
    return [q * (b - a) for a, b in zip([0] + cuts, cuts + [units])]


def _entries(rng, M, dups, zeros, unit=False):
    """stored triplets (i, j, value) denoting M.  dups: cells stored in several positive parts (at least one cell in two
    parts whenever a count allows it); zeros: 'empty' = stored zeros on cells whose count is 0 (one of them opposite a
    one-way count if there is one), 'any' = also on occupied cells"""
    n = len(M)
    ent = []
    for i in range(n):
        for j in range(n):
            if M[i][j] > 0:
                ent.append([(i, j, p) for p in (_split(rng, M[i][j], unit) if dups else [M[i][j]])])
    if dups and all(len(e) == 1 for e in ent):
        big = [t for t, e in enumerate(ent) if e[0][2].numerator >= 2]
        if big:
            t = rng.choice(big)
            i, j, v = ent[t][0]
            q = F(1, v.denominator)
            a = q * rng.randrange(1, int(v / q))
            ent[t] = [(i, j, a), (i, j, v - a)]
    ent = [x for e in ent for x in e]
    if zeros:
        empty = [(i, j) for i in range(n) for j in range(n) if M[i][j] == 0]
        oneway = [(i, j) for (i, j) in empty if M[j][i] > 0]
        cells = []
        if oneway:
            cells.append(rng.choice(oneway))
        for _ in range(rng.choice([1, 2, 3])):
            pool = empty if (zeros == "empty" or rng.random() < 0.6) else [(i, j) for i in range(n) for j in range(n)]
            if pool:
                cells.append(rng.choice(pool))
        if zeros == "empty":
            cells = sorted(set(cells))
        ent += [(i, j, F(0)) for (i, j) in cells]
    rng.shuffle(ent)
    return ent


def _compressed(ent, n, major, sort_minor):
    """(indptr, indices, data) of CSR (major = 0) / CSC (major = 1) holding the triplets in the given order per major index"""
    ent = sorted(ent, key=(lambda e: (e[major], e[1 - major])) if sort_minor else (lambda e: e[major]))
    indptr = [0] * (n + 1)
    for e in ent:
        indptr[e[major] + 1] += 1
    for i in range(n):
        indptr[i + 1] += indptr[i]
    return indptr, [e[1 - major] for e in ent], [str(e[2]) for e in ent]


def _recipe(rng, M, fmt, variant):
    """a recipe of format fmt denoting the count matrix M (exact Fractions that are multiples of 1/8)"""
    n = len(M)
    integral = all(x.denominator == 1 for row in M for x in row)
    rec = {"fmt": fmt, "n": n, "dtype": (("int64", "int32", "int64")[variant % 3] if integral else "float64")}
    arr = "_array" if variant % 4 == 3 else "_matrix"
    junk = (lambda: F(rng.randrange(1, 10))) if integral else (lambda: F(rng.randrange(1, 80), 8))
    if fmt.startswith("coo"):
        unit = fmt == "coo-unit" and integral and max(x for row in M for x in row) <= 30
        ent = _entries(rng, M, dups=fmt in ("coo-dups", "coo-unit"), unit=unit,
                       zeros={"coo-zeros": "empty", "coo-dups": ("any" if variant % 2 else None)}.get(fmt))
        if fmt == "coo-zeros" and variant % 2:
            ent.sort(key=lambda e: e[:2])
        rec.update(cls="coo" + arr, row=[e[0] for e in ent], col=[e[1] for e in ent], data=[str(e[2]) for e in ent])
    elif fmt[:3] in ("csr", "csc"):
        major = 0 if fmt[:3] == "csr" else 1
        if fmt.endswith("dups"):
            ent = _entries(rng, M, dups=True, zeros=("any" if variant % 2 else None))
            sort_minor = variant % 3 == 2           # duplicates next to each other, indices ascending
        elif fmt.endswith("unsorted"):
            ent = sorted(_entries(rng, M, dups=False, zeros=None), key=lambda e: -e[1 - major])
            sort_minor = False                      # every row's indices descending
        else:
            ent = _entries(rng, M, dups=False, zeros="empty")
            sort_minor = True                       # canonical apart from the stored zeros
        indptr, indices, data = _compressed(ent, n, major, sort_minor)
        rec.update(cls=fmt[:3] + arr, indptr=indptr, indices=indices, data=data)
    elif fmt == "dia-wide":
        offs = sorted({j - i for i in range(n) for j in range(n) if M[i][j] > 0})
        spare = [k for k in range(-(n - 1), n) if k not in offs]
        if spare and rng.random() < 0.4:
            offs.append(rng.choice(spare))          # a stored diagonal without counts
        rng.shuffle(offs)
        L = n + rng.choice([1, 1, 2, 3])
        # what the storage holds outside the matrix (spare columns, unused ends of the diagonals): zero padding, junk, either
        pz = (1.0, 0.0, 1.0, 0.4)[(variant // 3) % 4]
        data = [[M[j - k][j] if (j < n and 0 <= j - k < n) else (F(0) if rng.random() < pz else junk()) for j in range(L)]
                for k in offs]
        rec.update(cls=DIA_CLS[variant % 3], offsets=offs, data=[[str(x) for x in row] for row in data])
    elif fmt == "bsr-dups":
        b = {4: 2, 6: rng.choice([2, 3])}.get(n, 1)
        nb = n // b
        indptr, indices, blocks = [0], [], []
        for I in range(nb):
            row = []
            for J in range(nb):
                blk = [[M[I * b + p][J * b + q] for q in range(b)] for p in range(b)]
                if all(x == 0 for r in blk for x in r):
                    if rng.random() < 0.2:
                        row.append((J, blk))        # a stored all-zero block
                    continue
                parts = [[_split(rng, x) if x > 0 else [] for x in r] for r in blk]
                k = max(len(p) for r in parts for p in r)
                for t in range(k):
                    row.append((J, [[(p[t] if t < len(p) else F(0)) for p in r] for r in parts]))
            rng.shuffle(row)
            indices += [J for J, _ in row]
            blocks += [[[str(x) for x in r] for r in blk] for _, blk in row]
            indptr.append(len(indices))
        rec.update(cls="bsr_matrix", b=b, indptr=indptr, indices=indices, data=blocks)
    else:
        raise ValueError(fmt)
    return rec


def _recipe_triplets(rec):
    """every stored (row, col, value) of the container the recipe describes that lies inside the matrix"""
    n, fmt = rec["n"], rec["fmt"]
    if fmt.startswith("coo"):
        return [(i, j, F(v)) for i, j, v in zip(rec["row"], rec["col"], rec["data"])]
    if fmt[:3] in ("csr", "csc"):
        out = []
        for a in range(n):
            for p in range(rec["indptr"][a], rec["indptr"][a + 1]):
                bb = rec["indices"][p]
                out.append((a, bb, F(rec["data"][p])) if fmt[:3] == "csr" else (bb, a, F(rec["data"][p])))
        return out
    if fmt == "dia-wide":
        return [(j - k, j, F(row[j])) for k, row in zip(rec["offsets"], rec["data"]) for j in range(min(n, len(row)))
                if 0 <= j - k < n]
    if fmt == "bsr-dups":
        b = rec["b"]
        return [(I * b + p, rec["indices"][s] * b + q, F(rec["data"][s][p][q])) for I in range(n // b)
                for s in range(rec["indptr"][I], rec["indptr"][I + 1]) for p in range(b) for q in range(b)]
    raise ValueError(fmt)


def _recipe_dense(rec):
    """the matrix the recipe denotes: stored entries of one cell add up, everything else is 0 (exact)"""
    n = rec["n"]
    D = [[F(0)] * n for _ in range(n)]
    for i, j, v in _recipe_triplets(rec):
        D[i][j] += v
    return D


def _recipe_feats(rec):
    n = rec["n"]
    tr = _recipe_triplets(rec)
    cells = [(i, j) for i, j, _ in tr]
    f = []
    pos = [(i, j) for i, j, v in tr if v > 0]
    if len(set(pos)) < len(pos):
        f.append("duplicates")                       # some cell is stored in >= 2 positive parts
    elif len(set(cells)) < len(cells):
        f.append("duplicate-zero-only")
    if any(v == 0 for _, _, v in tr) and rec["fmt"] not in ("dia-wide", "bsr-dups"):
        f.append("stored-zero")
    if rec["fmt"] == "coo-unit" and all(v == 1 for _, _, v in tr):
        f.append("one-entry-per-transition")
    if rec["fmt"][:3] in ("csr", "csc"):
        rows = [rec["indices"][rec["indptr"][a]:rec["indptr"][a + 1]] for a in range(n)]
        if any(r != sorted(r) for r in rows):
            f.append("unsorted-indices")
    if rec["fmt"] == "dia-wide":
        L = len(rec["data"][0])
        if L > n:
            f.append("dia-spare-columns")
        outside = [F(row[j]) for k, row in zip(rec["offsets"], rec["data"]) for j in range(L) if not (j < n and 0 <= j - k < n)]
        if any(v != 0 for v in outside):
            f.append("dia-junk-outside")
        if L > n and all(v == 0 for v in outside):
            f.append("dia-zero-padded")
        if rec["offsets"] != sorted(rec["offsets"]):
            f.append("dia-offsets-unsorted")
    return f


def _recipe_build(rec):
    import scipy.sparse as sp
    n = rec["n"]
    dt = np.dtype(rec["dtype"])

    def arr(x):
        a = np.array([[float(F(v)) for v in r] for r in x] if (x and isinstance(x[0], list)) else [float(F(v)) for v in x])
        return a.astype(dt)
    fmt = rec["fmt"]
    if fmt.startswith("coo"):
        return getattr(sp, rec["cls"])((arr(rec["data"]), (np.array(rec["row"], dtype=int), np.array(rec["col"], dtype=int))),
                                       shape=(n, n))
    if fmt[:3] in ("csr", "csc"):
        return getattr(sp, rec["cls"])((arr(rec["data"]), np.array(rec["indices"], dtype=int), np.array(rec["indptr"], dtype=int)),
                                       shape=(n, n))
    if fmt == "dia-wide":
        if rec["cls"] == "spdiags":
            return sp.spdiags(arr(rec["data"]), rec["offsets"], n, n)
        return getattr(sp, rec["cls"])((arr(rec["data"]), np.array(rec["offsets"])), shape=(n, n))
    if fmt == "bsr-dups":
        b = rec["b"]
        data = np.array([[[float(F(v)) for v in r] for r in blk] for blk in rec["data"]]).reshape(-1, b, b).astype(dt)
        return sp.bsr_matrix((data, np.array(rec["indices"], dtype=int), np.array(rec["indptr"], dtype=int)),
                             shape=(n, n), blocksize=(b, b))
    raise ValueError(fmt)


def _stored_dense(B):
    """what a scipy container denotes, read from its own storage arrays and summed exactly (not through toarray)"""
    n = B.shape[0]
    D = [[F(0)] * n for _ in range(n)]
    f = B.format
    if f == "coo":
        tr = zip(B.row.tolist(), B.col.tolist(), B.data.tolist())
    elif f in ("csr", "csc"):
        ip, ix, dd = B.indptr.tolist(), B.indices.tolist(), B.data.tolist()
        tr = [((a, ix[p], dd[p]) if f == "csr" else (ix[p], a, dd[p])) for a in range(n) for p in range(ip[a], ip[a + 1])]
    elif f == "dia":
        tr = [(j - int(k), j, row[j]) for k, row in zip(B.offsets.tolist(), B.data.tolist()) for j in range(min(n, len(row)))
              if 0 <= j - int(k) < n]
    elif f == "bsr":
        b = B.blocksize[0]
        ip, ix, dd = B.indptr.tolist(), B.indices.tolist(), B.data.tolist()
        tr = [(I * b + p, ix[s] * b + q, dd[s][p][q]) for I in range(n // b) for s in range(ip[I], ip[I + 1])
              for p in range(b) for q in range(b)]
    else:
        raise ValueError(f)
    for i, j, v in tr:
        D[i][j] += F(v)
    return D


def _cname(c):
    return c["container"] if isinstance(c["container"], str) else "recipe"


def generate(rng, tier):
    quick = tier == "quick"
    cases = []
    # fixed regression inputs: the assertion failure repaired by fa226f0, the a == 0 branch, n = 1
    for M in ([[0, 1, 5], [3, 0, 0], [4, 0, 0]], [[0, 9, 0], [2, 0, 3], [0, 1, 0]], [[17, 8, 0], [60000, 11, 5], [0, 800, 0]],
              [[5, 2, 1], [1, 4, 0], [2, 1, 6]], [[0, 3], [7, 0]], [[5]]):
        cases.append({"kind": "cert", "C": _enc([[F(x) for x in r] for r in M]), "container": "ndarray", "shape": "fixed",
                      "style": "int", "seed": 1})
        cases.append({"kind": "sweep", "C": _enc([[F(x) for x in r] for r in M]), "k": 2, "shape": "fixed", "style": "int"})
        cases.append({"kind": "mono", "C": _enc([[F(x) for x in r] for r in M]), "K": 5, "shape": "fixed", "style": "int"})
    n_sweep = 300 if quick else 3000
    for t in range(n_sweep):
        shape = SHAPES[t % len(SHAPES)] if rng.random() < 0.9 else "two-empty-diag"
        style = rng.choice(STYLES)
        n = 2 if shape == "two-empty-diag" else rng.choice([2, 3, 3, 4, 4, 5] if quick else [2, 3, 4, 4, 5, 5, 6])
        M = _matrix(rng, n, shape, style)
        if rng.random() < 0.08:       # rejected stream: a state without outgoing counts
            i = rng.randrange(n)
            M[i] = [F(0)] * n
            shape = "zero-row"
        cases.append({"kind": "sweep", "C": _enc(M), "k": rng.choice([1, 1, 2, 3]), "shape": shape, "style": style})
    n_stop = 14 if quick else 120
    for t in range(n_stop):
        shape = SHAPES[t % len(SHAPES)]
        style = rng.choice(["int", "int", "eighth", "float"])
        n = rng.choice([2, 3, 3, 4])
        M = _matrix(rng, n, shape, style)
        cases.append({"kind": "stop", "C": _enc(M), "shape": shape, "style": style})
    n_mono = 45 if quick else 450
    for t in range(n_mono):
        shape = SHAPES[t % len(SHAPES)] if rng.random() < 0.93 else "two-empty-diag"
        style = rng.choice(["int", "int", "eighth", "float"])
        n = 2 if shape == "two-empty-diag" else rng.choice([2, 3, 3, 4, 4, 5])
        M = _matrix(rng, n, shape, style)
        # tol0: run with tol = 0.0, so that every run executes exactly max_iter sweeps unless logl repeats exactly
        cases.append({"kind": "mono", "C": _enc(M), "K": rng.choice([4, 5, 6, 8]) if n <= 4 else 4, "shape": shape, "style": style,
                      "tol0": rng.random() < 0.5})
    n_cert = 260 if quick else 2600
    for t in range(n_cert):
        shape = SHAPES[t % len(SHAPES)] if rng.random() < 0.93 else "two-empty-diag"
        style = rng.choice(STYLES)
        if style == "spread" and rng.random() < (0.8 if quick else 0.3):
            style = "int"            # widely spread counts converge slowly (seconds per case in pure Python)
        n = 2 if shape == "two-empty-diag" else rng.choice([2, 3, 4, 5, 6, 7])
        if style == "spread":
            n = min(n, 4)
        M = _matrix(rng, n, shape, style)
        cases.append({"kind": "cert", "C": _enc(M), "container": rng.choice(CONTAINERS), "shape": shape, "style": style,
                      "seed": rng.randrange(10 ** 6)})
    # ---- round 3s streams
    # leaf states (one neighbour, no self count), systematically, for both implementations
    for rep in range(1 if quick else 6):
        for pattern, style, M in _leaf_family(rng):
            cases.append({"kind": "sweep", "C": _enc(M), "k": rng.choice([1, 2, 3]), "shape": "leaf-" + pattern, "style": style})
            cases.append({"kind": "cert", "C": _enc(M), "container": rng.choice(CONTAINERS), "shape": "leaf-" + pattern,
                          "style": style, "seed": rng.randrange(10 ** 6)})
    # flow-balanced low-numbered states, imbalance among the last states (integer counts): the pairs of the balanced
    # states are exact fixed points of the first sweep and must move afterwards
    for t in range(30 if quick else 300):
        kind = ("sweep", "cert", "mono", "cert", "sweep", "stop")[t % 6]
        n = rng.choice([5, 5, 5, 6]) if kind in ("sweep", "mono", "stop") else rng.choice([5, 5, 6, 7])
        if quick and kind != "cert":
            n = 5
        M = _balanced_core(rng, n)
        base = {"kind": kind, "C": _enc(M), "shape": "balanced-core", "style": "int"}
        if kind == "sweep":
            base["k"] = rng.choice([2, 3, 3])
        elif kind == "mono":
            base.update(K=rng.choice([4, 5, 6]), tol0=rng.random() < 0.5)
        elif kind == "cert":
            base.update(container=rng.choice(CONTAINERS), seed=rng.randrange(10 ** 6))
        cases.append(base)
    # narrow dtypes
    for M, dt in (([[0, 100, 3], [90, 100, 0], [0, 5, 120]], "int8"), ([[0, 30000], [30000, 7]], "int16"),
                  ([[200, 200], [100, 0]], "uint8")):
        cases.append({"kind": "dtype", "C": _enc([[F(x) for x in r] for r in M]), "dtype": dt, "container": "ndarray", "k": 2,
                      "shape": "fixed", "style": "narrow"})
    n_dtype = 66 if quick else 660
    for t in range(n_dtype):
        dt = DTYPES[t % len(DTYPES)]
        shape = rng.choice(SHAPES)
        n = rng.choice([2, 3, 3, 4])
        M = _narrow_matrix(rng, n, shape, dt)
        cont = CONTAINERS[(t // len(DTYPES)) % len(CONTAINERS)] if dt != "float16" else "ndarray"
        cases.append({"kind": "dtype", "C": _enc(M), "dtype": dt, "container": cont, "k": rng.choice([1, 2, 3]),
                      "shape": shape, "style": "narrow"})
    # scale invariance
    n_scale = 40 if quick else 300
    for t in range(n_scale):
        shape = SHAPES[t % len(SHAPES)] if rng.random() < 0.93 else "two-empty-diag"
        style = rng.choice(["int", "int", "eighth", "float"])
        n = 2 if shape == "two-empty-diag" else rng.choice([2, 3, 3, 4])
        M = _matrix(rng, n, shape, style)
        cases.append({"kind": "scale", "C": _enc(M), "exps": SCALE_EXPS + [rng.choice(SCALE_FAR), rng.choice(SCALE_HUGE)],
                      "k": rng.choice([1, 2, 3]),
                      "container": rng.choice(CONTAINERS), "shape": shape, "style": style})
    # ---- round 3s, fourth wave: builders.mle on non-canonically stored sparse counts (recipes; drawn last, so that the
    # streams above keep their draws).  c["C"] is the matrix the recipe denotes.
    fixed = [  # directed cycles as DIA with spare columns (zero padding / junk); CSR with repeated column indices
        {"fmt": "dia-wide", "n": 4, "dtype": "float64", "cls": "dia_matrix", "offsets": [1, -3],
         "data": [["0", "5", "7", "2", "0", "0"], ["4", "0", "0", "0", "0", "0"]]},
        {"fmt": "dia-wide", "n": 3, "dtype": "int64", "cls": "spdiags", "offsets": [1, -2],
         "data": [["8", "9", "19", "5"], ["13", "12", "7", "3"]]},
        {"fmt": "csr-dups", "n": 3, "dtype": "int64", "cls": "csr_matrix", "indptr": [0, 4, 7, 10],
         "indices": [0, 1, 1, 2, 0, 2, 2, 0, 0, 1], "data": ["3", "2", "5", "1", "4", "6", "1", "2", "2", "7"]}]
    for rec in fixed:
        cases.append({"kind": "cert", "C": _enc(_recipe_dense(rec)), "container": rec, "shape": "fixed", "style": "int", "seed": 1})
    n_rec = 48 if quick else 360
    nth = {}
    for t in range(n_rec):
        fmt = RECIPE_FMTS[t % len(RECIPE_FMTS)]
        shape = RECIPE_SHAPES[(t // len(RECIPE_FMTS) + t) % len(RECIPE_SHAPES)]
        if fmt == "dia-wide" and rng.random() < 0.5:
            shape = rng.choice(["ring", "sparse"])            # pairs observed in one direction only
        style = "eighth" if (t % 3 == 2 and fmt != "coo-unit") else "int"
        if fmt == "coo-unit" and shape == "asym":
            shape = "mid"
        n = rng.choice([2, 3, 3, 4, 4, 5] if quick else [2, 3, 4, 4, 5, 6])
        M = _matrix(rng, n, shape, style)
        nth[fmt] = nth.get(fmt, -1) + 1                       # variants dealt in turn: class, dtype, stored zeros, order
        rec = _recipe(rng, M, fmt, nth[fmt])
        if _recipe_dense(rec) != M:
            raise ValueError("harness: the recipe does not denote the matrix it was made from")
        cases.append({"kind": "cert", "C": _enc(M), "container": rec, "shape": shape, "style": style,
                      "seed": rng.randrange(10 ** 6)})
    return cases


# ----------------------------------------------------------------------------- running the real code
def _fr(a):
    a = np.asarray(a, dtype=float)
    if not np.all(np.isfinite(a)):
        raise FloatingPointError("non-finite value returned")
    if a.ndim == 1:
        return [str(F(float(x))) for x in a]
    return [[str(F(float(x))) for x in row] for row in a]


def _call(f, *a, **kw):
    from enspara import exception
    try:
        with warnings.catch_warnings(record=True) as w:
            warnings.simplefilter("always")
            T, pi = f(*a, **kw)
        conv = [x for x in w if issubclass(x.category, exception.ConvergenceWarning)]
        if hasattr(T, "toarray"):
            T = T.toarray()
        return {"T": _fr(T), "pi": _fr(pi), "warn": bool(conv)}
    except Exception as ex:
        return {"err": type(ex).__name__}


def _array(c):
    M = _dec(c["C"])
    allint = all(x.denominator == 1 for r in M for x in r)
    return np.array([[float(x) for x in r] for r in M]), allint


STOP_CAP = 30      # stop cases whose iteration needs more sweeps are only tagged (the Q model would be slow)
STOP_P = 64


def _warned(f, A, m):
    from enspara import exception
    with warnings.catch_warnings(record=True) as w:
        warnings.simplefilter("always")
        f(A.copy(), max_iter=m)
    return any(issubclass(x.category, exception.ConvergenceWarning) for x in w)


def _nsweeps(f, A):
    """number of sweeps executed when max_iter does not bind = the largest m whose run still warns
    (n_iter == max_iter - 1 also when the break happens in the last allowed pass); None above STOP_CAP"""
    if not _warned(f, A, 1):
        return 0
    lo, hi = 1, 2
    while _warned(f, A, hi):
        lo, hi = hi, hi * 2
        if lo > STOP_CAP:
            return None
    while hi - lo > 1:
        mid = (lo + hi) // 2
        if _warned(f, A, mid):
            lo = mid
        else:
            hi = mid
    return lo if lo <= STOP_CAP else None


def _run_stop(c, A):
    from enspara.msm import builders
    r = {}
    for impl, f in (("py", builders._prinz_mle_py), ("pyx", builders._prinz_mle)):
        try:
            N = _nsweeps(f, A)
        except Exception as ex:
            r[impl] = {"err": type(ex).__name__}
            continue
        if N is None:
            r[impl] = {"N": None}
            continue
        a = _call(f, A.copy(), max_iter=N + 1)
        b = _call(f, A.copy(), max_iter=N + 7)
        a["N"] = N
        a["stable"] = ("T" in a and "T" in b and a["T"] == b["T"] and a["pi"] == b["pi"] and not b["warn"])
        r[impl] = a
    return r


def _mle_fn(X):
    from enspara.msm import builders
    _, T, pi = builders.mle(X)
    return T, pi


def _contain(A, container):
    import scipy.sparse
    return A.copy() if container == "ndarray" else getattr(scipy.sparse, container)(A)


def _np_dtype(dt):
    return "float32" if dt == "float32-eighth" else dt


def _run_dtype(c, A):
    """A: the counts as float64.  ref_*: from float64 (mle_wide: int64 when integral); others from the narrow dtype."""
    from enspara.msm import builders
    py, pyx = builders._prinz_mle_py, builders._prinz_mle
    An = A.astype(_np_dtype(c["dtype"]))
    if not np.array_equal(An.astype(np.float64), A):
        raise ValueError("harness: counts are not representable in %s" % c["dtype"])
    wide = A.astype(np.int64) if (c["dtype"] in INT_DTYPES) else A.copy()
    k = c["k"]
    B = _contain(An, c["container"])
    keep = B.copy()
    r = {"ref_py": _call(py, A.copy()), "ref_pyx": _call(pyx, A.copy()), "ref_py_k": _call(py, A.copy(), max_iter=k),
         "mle_wide": _call(_mle_fn, _contain(wide, c["container"])),
         "mle": _call(_mle_fn, B), "py": _call(py, An.copy()), "py_k": _call(py, An.copy(), max_iter=k),
         "pyx": _call(pyx, An.copy())}
    r["input_unchanged"] = bool((abs(keep.astype(np.float64) - B.astype(np.float64))).sum() == 0) and B.dtype == keep.dtype
    with np.errstate(all="ignore"):
        S = (An + An.T)
        r["pair_sum_wraps"] = bool(np.any(S.astype(np.float64) != A + A.T))
        r["wrapped_rowsum_nonpositive"] = bool(np.any(~(S.astype(np.float64).sum(axis=1) > 0)))
        r["rowsum_exceeds_dtype"] = bool(np.any(An.sum(axis=1, dtype=An.dtype).astype(np.float64) != A.sum(axis=1)))
    return r


def _run_scale(c, A):
    from enspara.msm import builders
    py, pyx = builders._prinz_mle_py, builders._prinz_mle
    k = c["k"]

    def runs(X):
        return {"py_k": _call(py, X.copy(), max_iter=k), "pyx_k": _call(pyx, X.copy(), max_iter=k),
                "py": _call(py, X.copy()), "pyx": _call(pyx, X.copy()), "mle": _call(_mle_fn, _contain(X, c["container"]))}
    r = {"base": runs(A), "scaled": {}}
    for e in c["exps"]:
        X = A * (2.0 ** e)
        if not np.array_equal(X * (2.0 ** -e), A):
            raise ValueError("harness: scaling by 2^%d is not exact" % e)
        r["scaled"][str(e)] = runs(X)
    return r


def run_impl(c):
    from enspara.msm import builders
    A, allint = _array(c)
    if c["kind"] == "stop":
        return _run_stop(c, A)
    if c["kind"] == "dtype":
        return _run_dtype(c, A)
    if c["kind"] == "scale":
        return _run_scale(c, A)
    if c["kind"] == "mono":
        kw = {"tol": 0.0} if c.get("tol0") else {}
        return {impl: [_call(f, A.copy(), max_iter=k, **kw) for k in range(1, c["K"] + 1)]
                for impl, f in (("py", builders._prinz_mle_py), ("pyx", builders._prinz_mle))}
    if c["kind"] == "sweep":
        return {"py": _call(builders._prinz_mle_py, A.copy(), max_iter=c["k"]),
                "pyx": _call(builders._prinz_mle, A.copy(), max_iter=c["k"])}
    import scipy.sparse

    def mle(X):
        _, T, pi = builders.mle(X)
        return T, pi
    if isinstance(c["container"], dict):
        rec = c["container"]
        M = _dec(c["C"])
        if _recipe_dense(rec) != M:
            raise ValueError("harness: the recipe does not denote C")
        B = _recipe_build(rec)
        if _stored_dense(B) != M or not np.array_equal(B.toarray().astype(float), A) or B.toarray().dtype != np.dtype(rec["dtype"]):
            raise ValueError("harness: scipy reads the recipe differently")
        Bd = A.astype(rec["dtype"])
        dt0 = B.dtype
        r = {"mle": _call(mle, B), "mle_dense": _call(mle, Bd), "py": _call(builders._prinz_mle_py, A.copy()),
             "pyx": _call(builders._prinz_mle, A.copy())}
        r["input_unchanged"] = bool(_stored_dense(B) == M and B.dtype == dt0 and np.array_equal(Bd.astype(float), A))
        return r
    B = A.astype(int) if (allint and c["seed"] % 2 == 0) else A.copy()
    if c["container"] != "ndarray":
        B = getattr(scipy.sparse, c["container"])(B)
    keep = B.copy()
    r = {"mle": _call(mle, B), "py": _call(builders._prinz_mle_py, A.copy()), "pyx": _call(builders._prinz_mle, A.copy())}
    same = (abs(keep - B)).sum() == 0
    r["input_unchanged"] = bool(same)
    return r


# ----------------------------------------------------------------------------- Coq side
def _cmat(M):
    return clist(M, lambda r: clist(r, lambda x: cq(F(x)), "Q"), "(list Q)")


def _cres(r):
    if "err" in r:
        return "(@None (list (list Q) * list Q))"
    return "(Some (%s, %s))" % (_cmat(r["T"]), clist(r["pi"], lambda x: cq(F(x)), "Q"))


def coq_show(c):
    n = len(c["C"])
    k = c.get("k", c.get("K", 1))
    return "prinz_run (QOps %d) (py_sweep (QOps %d)) %s (mat_fun %s) %s" % (P, P, cn(n), _cmat(c["C"]), cn(k))


def _sweep_tol(c):
    """1e-9, except for counts spread over more than two orders of magnitude: there the code's
    v = (-b + sqrt(b*b - 4ac)) / (2a) cancels (b > 0, |4ac| << b*b) and a single sweep in doubles is only
    good to ~1e-9 (seen: 1.2e-9 on the ring 6000, 400, 50000, 8000, 3 against a 60-digit evaluation, which
    agrees with the model); realistic mutations move the result by 1e-2 or more."""
    pos = [F(x) for row in c["C"] for x in row if F(x) > 0]
    if pos and max(pos) / min(pos) > 100:
        return F(1, 10 ** 6)
    return TOL_SWEEP


def _scaled(M, e):
    s = F(2) ** e
    return [[F(x) * s for x in row] for row in M]


def coq_check(c, r):
    n = len(c["C"])
    Cm = _cmat(c["C"])
    if c["kind"] == "dtype":
        parts = []
        ri = r["mle"]
        if "T" in ri:
            parts.append("cert_ok %s %s %s %s %s %s" % (cq(TOL1), cq(TOL2), cb(not ri["warn"] and c["dtype"] not in HUGE_DTYPES), Cm,
                                                      _cmat(ri["T"]), clist(ri["pi"], lambda x: cq(F(x)), "Q")))
            if "T" in r["ref_py"]:
                parts.append("result_near %s %s %s" % (cq(TOL_SWEEP), _cres(ri), _cres(r["ref_py"])))
        rk = r["py_k"]
        if "T" in rk and rk["warn"]:
            parts.append("result_near %s (prinz_run (QOps %d) (py_sweep (QOps %d)) %s (mat_fun %s) %s) %s" % (
                cq(_sweep_tol(c)), P, P, cn(n), Cm, cn(c["k"]), _cres(rk)))
        return " && ".join("(%s)" % p for p in parts) if parts else None
    if c["kind"] == "scale":
        # the k-sweep model of the UNSCALED counts against the k-sweep results on every scale (T and pi are scale free)
        parts = []
        for impl, swp in (("py_k", "py_sweep"), ("pyx_k", "pyx_sweep")):
            rs = [rr[impl] for rr in [r["base"]] + [r["scaled"][str(e)] for e in c["exps"]]
                  if "T" in rr[impl] and rr[impl]["warn"]]
            if rs:
                parts.append("let m := prinz_run (QOps %d) (%s (QOps %d)) %s (mat_fun %s) %s in %s" % (
                    P, swp, P, cn(n), Cm, cn(c["k"]),
                    " && ".join("result_near %s m %s" % (cq(_sweep_tol(c)), _cres(ri)) for ri in rs)))
        for e in c["exps"]:
            ri = r["scaled"][str(e)]["mle"]
            if "T" in ri:
                parts.append("cert_ok %s %s %s %s %s %s" % (cq(TOL1), cq(TOL2), cb(not ri["warn"] and e not in SCALE_HUGE), _cmat(_scaled(c["C"], e)),
                                                          _cmat(ri["T"]), clist(ri["pi"], lambda x: cq(F(x)), "Q")))
        return " && ".join("(%s)" % p for p in parts) if parts else None
    if c["kind"] == "stop":
        parts = []
        for impl, run, swp in (("py", "py_run_stop", "py_sweep"), ("pyx", "pyx_run_stop", "pyx_sweep")):
            ri = r[impl]
            if "err" in ri or ri.get("N") in (None, 0) or "T" not in ri:
                continue
            parts.append("stop_agrees (%s (QOps %d) (QLOps %d) %s (mat_fun %s)) %s %s" % (
                run, STOP_P, STOP_P, cn(n), Cm, cq(F(1, 10 ** 10)), cn(ri["N"])))
            parts.append("result_near %s (prinz_run (QOps %d) (%s (QOps %d)) %s (mat_fun %s) %s) %s" % (
                cq(_sweep_tol(c)), P, swp, P, cn(n), Cm, cn(ri["N"]), _cres(ri)))
        return " && ".join("(%s)" % p for p in parts) if parts else None
    if c["kind"] == "mono":
        parts = []
        for impl, swp in (("py", "py_sweep"), ("pyx", "pyx_sweep")):
            runs = r[impl]
            ks = [k for k, ri in enumerate(runs, 1) if "T" in ri and ri["warn"]]
            if any("err" in ri for ri in runs) or not ks:
                continue                 # the oracle reports errors; nothing ran exactly k sweeps
            k = ks[-1]                   # the longest run known to have executed exactly k sweeps
            parts.append("result_near %s (prinz_run (QOps %d) (%s (QOps %d)) %s (mat_fun %s) %s) %s" % (
                cq(_sweep_tol(c)), P, swp, P, cn(n), Cm, cn(k), _cres(runs[k - 1])))
        return " && ".join("(%s)" % p for p in parts) if parts else None
    if c["kind"] == "sweep":
        parts = []
        for impl, swp in (("py", "py_sweep"), ("pyx", "pyx_sweep")):
            ri = r[impl]
            if "err" in ri:
                if ri["err"] != "AssertionError":
                    return None          # the oracle reports it
            elif not ri["warn"]:
                continue                 # stopped before k sweeps: nothing to compare sweep by sweep
            parts.append("result_near %s (prinz_run (QOps %d) (%s (QOps %d)) %s (mat_fun %s) %s) %s" % (
                cq(_sweep_tol(c)), P, swp, P, cn(n), Cm, cn(c["k"]), _cres(ri)))
        return " && ".join("(%s)" % p for p in parts) if parts else None
    parts = []
    M = _dec(c["C"])
    for impl in ("mle", "py", "pyx"):
        ri = r[impl]
        if "err" in ri:
            return None
        parts.append("cert_ok %s %s %s %s %s %s" % (cq(TOL1), cq(_tol2(M)), cb(not ri["warn"]), Cm, _cmat(ri["T"]),
                                                  clist(ri["pi"], lambda x: cq(F(x)), "Q")))
    parts.append("result_near %s %s %s" % (cq(TOL_IMPL), _cres(r["py"]), _cres(r["pyx"])))
    parts.append("result_near %s %s %s" % (cq(F(1, 10 ** 12)), _cres(r["mle"]), _cres(r["py"])))
    return " && ".join("(%s)" % p for p in parts)


# ----------------------------------------------------------------------------- oracle
def _logl(M, T):
    s = 0.0
    for i, row in enumerate(M):
        for j, cij in enumerate(row):
            if cij > 0:
                t = float(T[i][j])
                if t <= 0:
                    return -math.inf
                s += float(cij) * math.log(t)
    return s


def _rownorm(X):
    return [[x / sum(r) for x in r] for r in X]


def _worst(M, T):
    """largest residual of the Prinz equations relative to c_i + c_j"""
    n = len(M)
    crs = [sum(r) for r in M]
    return max(abs(T[i][j] * crs[i] + T[j][i] * crs[j] - (M[i][j] + M[j][i])) / (crs[i] + crs[j]) for i in range(n) for j in range(n))


def _tol2(M):
    """Bound on the residual of the Prinz equations (relative to c_i + c_j) of a run that stopped without a warning.
    The stopping rule is an absolute test (1e-10) on the change of the pseudo log-likelihood between two sweeps; the
    property promises self-consistency up to that convergence tolerance, which is not a bound on the residual: slowly
    mixing counts meet the test while the residual is still of order 1e-6 (and 20000 further sweeps under tol = 1e-13
    lower it by a tenth).  Observed on the unchanged code over 6000 random matrices of every family, n <= 7: <= 9.9e-7
    when the positive counts lie within a factor 100 of each other, <= 5.7e-6 beyond (strongly asymmetric pairs, real
    counts; 1.54e-6 in the thorough run of seed 1).  Demanded: 1e-5 resp. 1e-4; seeded changes leave >= 1e-3."""
    pos = [x for row in M for x in row if x > 0]
    return 100 * TOL2 if (pos and max(pos) / min(pos) > 100) else 10 * TOL2


def _cert(M, ri, out, name, tol2=TOL2):
    n = len(M)
    T = [[F(x) for x in row] for row in ri["T"]]
    pi = [F(x) for x in ri["pi"]]
    crs = [sum(r) for r in M]
    if len(T) != n or any(len(r) != n for r in T) or len(pi) != n:
        out.append(("shape", "%s: wrong shape" % name))
        return
    if any(x < 0 for x in pi) or abs(sum(pi) - 1) > TOL1 or any(x < 0 for r in T for x in r) \
            or any(abs(sum(r) - 1) > TOL1 for r in T):
        out.append(("stochastic", "%s: T rows / pi are not probability vectors: C=%s" % (name, _enc(M))))
    if any(abs(pi[i] * T[i][j] - pi[j] * T[j][i]) > TOL1 for i in range(n) for j in range(n)):
        out.append(("detailed-balance", "%s: pi_i T_ij != pi_j T_ji: C=%s" % (name, _enc(M))))
    if not ri["warn"]:
        worst = _worst(M, T)
        if worst > tol2:
            out.append(("self-consistency", "%s: relative residual %.3g of the Prinz equations without a convergence warning: C=%s"
                        % (name, float(worst), [[str(x) for x in r] for r in M])))


def _dlogl(M, T0, T1):
    """log L(T1) - log L(T0) on the counts M, T0 and T1 exact rationals (the doubles the code returned, or the exact
    transpose estimate): sum of c_kl * log1p(T1_kl / T0_kl - 1), the ratio formed exactly and rounded once.  Returns
    None if T0 has a zero where M has a count (log L(T0) = -inf), -inf if T1 has."""
    d = 0.0
    for i, row in enumerate(M):
        for j, cij in enumerate(row):
            if cij > 0:
                if T0[i][j] <= 0:
                    return None
                if T1[i][j] <= 0:
                    return -math.inf
                q = T1[i][j] / T0[i][j] - 1
                d += float(cij) * math.log1p(float(q))
    return d


def _mono_slack(c, M):
    """cannot false-alarm: the doubles of one sweep are good to ~1e-15 relative (1e-9 for widely spread counts, see
    _sweep_tol), which moves sum c_kl ln T_kl by that times sum(C); a wrong update moves it by O(1) * counts"""
    N = float(sum(sum(row) for row in M))
    return (1e-9 if _sweep_tol(c) == TOL_SWEEP else 1e-6) * max(1.0, N)


def _mono(c, M, runs, out, name):
    n = len(M)
    sym = [[M[i][j] + M[j][i] for j in range(n)] for i in range(n)]
    seq = [_rownorm(sym)] + [[[F(x) for x in row] for row in ri["T"]] for ri in runs]
    slack = _mono_slack(c, M)
    incs = []
    for k in range(1, len(seq)):
        d = _dlogl(M, seq[k - 1], seq[k])
        if d is None:
            out.append(("likelihood-monotone", "%s: T after %d sweep(s) is zero where C has a count: C=%s" % (name, k - 1, c["C"])))
            return None
        incs.append(d)
        if d < -slack:
            out.append(("likelihood-monotone", "%s: log L drops by %.6g from max_iter=%d to max_iter=%d (slack %.3g): C=%s"
                        % (name, -d, k - 1, k, slack, c["C"])))
            return None
    tot = _dlogl(M, seq[0], seq[-1])
    if tot is None or tot < -slack:
        out.append(("likelihood-vs-transpose", "%s: log L after %d sweeps is below that of the transpose estimate by %.6g: C=%s"
                    % (name, len(runs), -(tot or 0.0), c["C"])))
    # once a run has stopped without the warning, longer runs return the same model
    for k in range(1, len(runs)):
        if not runs[k - 1]["warn"] and (runs[k]["T"] != runs[k - 1]["T"] or runs[k]["warn"]):
            out.append(("stop-rule", "%s: max_iter=%d stopped without warning but max_iter=%d returns a different model / warns: C=%s"
                        % (name, k, k + 1, c["C"])))
            break
    return incs


def _mono_incs(c, r, impl):
    """increments of log L along the sweeps of one implementation (for tags); None if not available"""
    runs = r.get(impl)
    if not isinstance(runs, list) or any("T" not in ri for ri in runs):
        return None
    return _mono(c, _dec(c["C"]), runs, [], impl)


TOL_SCALE_CONV = F(1, 10 ** 4)     # observed on the unchanged code: <= 5.5e-7 (strongly asymmetric pairs), seeded changes: >= 1e-2


def _maxdiff(a, b):
    """largest |difference| over T and pi of two results that both carry a model"""
    xs = [x for row in a["T"] for x in row] + a["pi"]
    ys = [x for row in b["T"] for x in row] + b["pi"]
    if len(xs) != len(ys):
        return F(1)
    return max(abs(F(x) - F(y)) for x, y in zip(xs, ys))


def _oracle_dtype(c, r, M, out):
    what = "%s %s" % (c["dtype"], c["container"])
    for name in ("ref_py", "ref_pyx", "ref_py_k", "mle_wide", "mle", "py", "py_k"):
        if "err" in r[name]:
            out.append(("terminates", "%s (%s) raised %s on strongly connected C=%s" % (name, what, r[name]["err"], c["C"])))
    if "err" in r["pyx"] and r["pyx"]["err"] not in ("ValueError", "TypeError"):
        out.append(("terminates", "pyx (%s) raised %s on strongly connected C=%s" % (what, r["pyx"]["err"], c["C"])))
    if out:
        return
    huge = c["dtype"] in HUGE_DTYPES
    for name in ("mle", "py"):
        _cert(M, dict(r[name], warn=True) if huge else r[name], out, "%s (%s)" % (name, what))
    _cert(M, dict(r["py_k"], warn=True), out, "py_k (%s)" % what)
    for a, b, tol in (("mle", "ref_py", TOL_SWEEP), ("mle", "mle_wide", TOL_SWEEP), ("py", "ref_py", TOL_SWEEP),
                      ("py_k", "ref_py_k", TOL_SWEEP), ("pyx", "ref_pyx", TOL_SWEEP)):
        if "T" in r[a] and "T" in r[b]:
            d = _maxdiff(r[a], r[b])
            if d > tol:
                out.append(("dtype-independent", "%s from %s counts differs by %.3g from %s (float64 / int64 counts): C=%s%s"
                            % (a, what, float(d), b, c["C"], (", max_iter=%d" % c["k"]) if a == "py_k" else "")))
    if not r["input_unchanged"]:
        out.append(("input-unchanged", "builders.mle modified its %s argument" % what))


def _oracle_scale(c, r, M, out):
    allr = [(0, r["base"])] + [(e, r["scaled"][str(e)]) for e in c["exps"]]
    for e, rr in allr:
        for name in ("py_k", "pyx_k", "py", "pyx", "mle"):
            if "err" in rr[name]:
                out.append(("terminates", "%s raised %s on strongly connected 2^%d * C, C=%s" % (name, rr[name]["err"], e, c["C"])))
    if out:
        return
    huge_out = []
    for e, rr in allr:
        Ms = _scaled(M, e)
        for name in ("py", "pyx", "mle"):
            if e in SCALE_HUGE:
                _cert(Ms, dict(rr[name], warn=True), out, "%s on 2^%d * C" % (name, e))
                tmp = []
                _cert(Ms, rr[name], tmp, "%s on 2^%d * C" % (name, e))
                huge_out += [("self-consistency-huge-counts", m) for k_, m in tmp if k_ == "self-consistency"]
            else:
                _cert(Ms, rr[name], out, "%s on 2^%d * C" % (name, e))
        for name in ("py_k", "pyx_k"):
            _cert(Ms, dict(rr[name], warn=True), out, "%s on 2^%d * C" % (name, e))
    out += huge_out[:1]
    b = r["base"]
    for e, rr in allr[1:]:
        for name in ("py_k", "pyx_k"):
            if b[name]["warn"] and rr[name]["warn"]:          # both executed exactly k sweeps
                d = _maxdiff(b[name], rr[name])
                if d > _sweep_tol(c):
                    out.append(("scale-invariant", "%s: after %d sweep(s) the model from 2^%d * C differs by %.3g from that of C=%s"
                                % (name, c["k"], e, float(d), c["C"])))
        for name in ("py", "pyx", "mle"):
            if not b[name]["warn"] and not rr[name]["warn"] and e not in SCALE_HUGE:
                d = _maxdiff(b[name], rr[name])
                if d > TOL_SCALE_CONV:
                    out.append(("scale-invariant", "%s: the converged model from 2^%d * C differs by %.3g from that of C=%s"
                                % (name, e, float(d), c["C"])))


def _agree_k(c, py, pyx, k, out):
    """both implementations stopped by max_iter = k (both warned, so both executed exactly k sweeps of the same iteration):
    they return the same model.  Each is within _sweep_tol of the k-sweep model (Coq comparison), so the distance between
    them is below 2 _sweep_tol on the unchanged code; demanded: the tolerance of the converged comparison, 1e-6 (2e-6 for
    counts spread over more than two orders of magnitude)."""
    if not out and "T" in py and "T" in pyx and py["warn"] and pyx["warn"]:
        d = _maxdiff(py, pyx)
        if d > max(TOL_IMPL, 2 * _sweep_tol(c)):
            out.append(("py-pyx-agree-k-sweeps", "after exactly %d sweeps (max_iter=%d, both warned) the pure-Python and the compiled "
                        "model differ by %.3g: C=%s" % (k, k, float(d), c["C"])))


def oracle(c, r):
    out = []
    M = _dec(c["C"])
    n = len(M)
    if c["kind"] == "dtype":
        _oracle_dtype(c, r, M, out)
        return out
    if c["kind"] == "scale":
        _oracle_scale(c, r, M, out)
        return out
    if c["kind"] == "mono":
        for impl in ("py", "pyx"):
            runs = r[impl]
            bad = [ri["err"] for ri in runs if "err" in ri]
            if bad:
                out.append(("terminates", "%s raised %s on strongly connected C=%s" % (impl, bad[0], c["C"])))
                continue
            for ri in runs:
                _cert(M, dict(ri, warn=True), out, impl)
                if out:
                    return out
            _mono(c, M, runs, out, impl)
        _agree_k(c, r["py"][-1], r["pyx"][-1], c["K"], out)
        return out
    if c["kind"] == "stop":
        for impl in ("py", "pyx"):
            ri = r[impl]
            if "err" in ri:
                out.append(("terminates", "%s raised %s on strongly connected C=%s" % (impl, ri["err"], c["C"])))
            elif ri.get("N") is not None and "T" in ri:
                if ri["N"] < 1:
                    out.append(("stop-rule", "%s: no sweep executed: C=%s" % (impl, c["C"])))
                if ri["warn"] or not ri["stable"]:
                    out.append(("stop-rule", "%s: with max_iter above the measured sweep count %d the run warned or its result "
                                "depends on max_iter: C=%s" % (impl, ri["N"], c["C"])))
                _cert(M, ri, out, impl)
        return out
    rejected = any(sum(row) == 0 for row in M)
    for impl in ("mle", "py", "pyx"):
        if impl not in r:
            continue
        ri = r[impl]
        if rejected:
            if ri.get("err") != "AssertionError":
                out.append(("zero-row-not-rejected", "%s: C=%s gave %s" % (impl, c["C"], str(ri)[:100])))
            continue
        if "err" in ri:
            out.append(("terminates", "%s raised %s on strongly connected C=%s" % (impl, ri["err"], c["C"])))
            continue
        if c["kind"] == "sweep":
            # after k sweeps only the structural facts are promised
            _cert(M, dict(ri, warn=True), out, impl)
        else:
            _cert(M, ri, out, impl, _tol2(M))
    if c["kind"] == "sweep" and not rejected and not out:
        _agree_k(c, r["py"], r["pyx"], c["k"], out)
    if "mle_dense" in r and not rejected and "T" in r["mle"]:
        # the same counts given densely: the estimator sees C.toarray() in both cases, so the models are the same
        # (bit-identical on the unchanged code; demanded: 1e-12, as between mle and _prinz_mle_py in the Coq comparison)
        if "err" in r["mle_dense"]:
            out.append(("terminates", "mle raised %s on the dense form of strongly connected C=%s" % (r["mle_dense"]["err"], c["C"])))
        else:
            d = _maxdiff(r["mle"], r["mle_dense"])
            if d > F(1, 10 ** 12):
                out.append(("sparse-dense-agree", "builders.mle of the sparse container %s differs by %.3g from builders.mle of the "
                            "matrix it denotes, C=%s" % (str(c["container"])[:300], float(d), c["C"])))
    if c["kind"] != "cert" or out or rejected:
        return out
    if not r.get("input_unchanged", True):
        out.append(("input-unchanged", "builders.mle modified its argument"))
    # both implementations agree
    for a, b in zip([x for row in r["py"]["T"] for x in row] + r["py"]["pi"],
                    [x for row in r["pyx"]["T"] for x in row] + r["pyx"]["pi"]):
        if abs(F(a) - F(b)) > TOL_IMPL:
            out.append(("py-pyx-agree", "pure-Python and compiled results differ by %.3g: C=%s" % (float(abs(F(a) - F(b))), c["C"])))
            break
    # likelihood: at least the transpose estimate and sampled reversible competitors on the same support
    ri = r["mle"]
    if ri["warn"]:
        return out
    T = [[float(F(x)) for x in row] for row in ri["T"]]
    pi = [float(F(x)) for x in ri["pi"]]
    N = float(sum(sum(row) for row in M))
    tol = 1e-7 * max(1.0, N)
    l_mle = _logl(M, T)
    sym = [[M[i][j] + M[j][i] for j in range(n)] for i in range(n)]
    l_tr = _logl(M, _rownorm(sym))
    if l_mle < l_tr - tol:
        out.append(("likelihood-vs-transpose", "log L(mle) = %.12g < log L(transpose) = %.12g: C=%s" % (l_mle, l_tr, c["C"])))
    rng = random.Random(c["seed"])
    X = [[pi[i] * T[i][j] for j in range(n)] for i in range(n)]
    for trial in range(12):
        Y = [[0.0] * n for _ in range(n)]
        for i in range(n):
            for j in range(i, n):
                if trial < 6:     # perturbation of the returned solution
                    y = X[i][j] * (1 + (0.3 if trial < 3 else 0.01) * (rng.random() - 0.5))
                else:             # arbitrary reversible matrix on the same support
                    y = (rng.random() + 0.05) if (sym[i][j] > 0 or X[i][j] > 0) else 0.0
                Y[i][j] = Y[j][i] = y
        if any(sum(row) <= 0 for row in Y):
            continue
        l_y = _logl(M, _rownorm(Y))
        if l_mle < l_y - tol:
            out.append(("likelihood-vs-reversible", "a reversible matrix on the same support has log L = %.12g > log L(mle) = %.12g: C=%s"
                        % (l_y, l_mle, c["C"])))
            break
    return out


# ----------------------------------------------------------------------------- bookkeeping
def nontrivial(c, r):
    M = _dec(c["C"])
    n = len(M)
    if n < 3 or all(M[i][j] == M[j][i] for i in range(n) for j in range(n)):
        return False
    if c["kind"] == "mono":
        incs = _mono_incs(c, r, "py")
        return incs is not None and sum(1 for d in incs if d > _mono_slack(c, M)) >= 2
    if c["kind"] == "dtype":
        return "T" in r.get("mle", {}) and bool(r.get("pair_sum_wraps"))
    if c["kind"] == "scale":
        return "base" in r and all("T" in rr["mle"] and "T" in rr["py_k"] for rr in [r["base"]] + list(r["scaled"].values()))
    ri = r.get("py", {})
    if c["kind"] == "stop":
        return "T" in ri and (ri.get("N") or 0) >= 2
    return "T" in ri


def tags(c, r):
    M = _dec(c["C"])
    n = len(M)
    t = [c["kind"], "%s-n%d" % (c["kind"], n), "%s-%s" % (c["kind"], c["shape"]), "%s-%s" % (c["kind"], c["style"])]
    if c["kind"] == "stop":
        for impl in ("py", "pyx"):
            ri = r[impl]
            if ri.get("N") is None:
                t.append("stop-not-compared-%s" % impl)
            else:
                t.append("stop-compared-%s" % impl)
                t.append("stop-%s-N%s" % (impl, "1-5" if ri["N"] <= 5 else "6-20" if ri["N"] <= 20 else "21-30"))
        if r["py"].get("N") is not None and r["pyx"].get("N") is not None:
            t.append("stop-py-pyx-same-count" if r["py"]["N"] == r["pyx"]["N"] else "stop-py-pyx-different-count")
    elif c["kind"] == "dtype":
        t.append("dtype-" + c["dtype"])
        t.append("dtype-" + ("dense" if c["container"] == "ndarray" else "sparse"))
        t.append("dtype-" + c["container"])
        t.append("dtype-k%d" % c["k"])
        if "mle" in r:
            signed = c["dtype"] in ("int8", "int16", "int32")
            if r["pair_sum_wraps"]:
                t.append("dtype-pair-sum-exceeds-dtype")
                if signed:
                    t.append("dtype-signed-pair-sum-wraps")
            if r["rowsum_exceeds_dtype"]:
                t.append("dtype-row-sum-exceeds-dtype")
            if r["wrapped_rowsum_nonpositive"]:
                t.append("dtype-wrapped-symmetrised-row-sum-nonpositive")
            t.append("dtype-pyx-" + ("accepts" if "T" in r["pyx"] else "rejects-" + str(r["pyx"].get("err"))))
            if "T" in r["py_k"] and r["py_k"]["warn"] and "T" in r["ref_py_k"] and r["ref_py_k"]["warn"]:
                t.append("dtype-k-sweeps-compared")
            if "T" in r["mle"] and "T" in r["ref_py"]:
                t.append("dtype-converged-compared")
    elif c["kind"] == "scale":
        t.append("scale-k%d" % c["k"])
        t.append("scale-" + ("dense" if c["container"] == "ndarray" else "sparse"))
        if "base" in r:
            b = r["base"]
            for e in c["exps"]:
                rr = r["scaled"][str(e)]
                for name in ("py_k", "pyx_k"):
                    if "T" in b[name] and "T" in rr[name] and b[name]["warn"] and rr[name]["warn"]:
                        t.append("scale-2^%d-%s-compared" % (e, name))
                        if b[name]["T"] == rr[name]["T"] and b[name]["pi"] == rr[name]["pi"]:
                            t.append("scale-%s-bit-identical" % name)
                        else:
                            t.append("scale-%s-not-bit-identical" % name)
                for name in ("py", "pyx", "mle"):
                    if "T" in b[name] and "T" in rr[name] and not b[name]["warn"] and not rr[name]["warn"] and e not in SCALE_HUGE:
                        t.append("scale-2^%d-%s-converged-compared" % (e, name))
                        d = float(_maxdiff(b[name], rr[name]))
                        t.append("scale-converged-diff-" + ("0" if d == 0 else "<=1e-12" if d <= 1e-12 else "<=1e-9" if d <= 1e-9
                                                            else "<=1e-7" if d <= 1e-7 else ">1e-7"))
            mx = max(F(x) for row in c["C"] for x in row)
            if mx * F(2) ** (-34) < F(1, 10 ** 8):
                t.append("scale-pair-sums-below-1e-8")
    elif c["kind"] == "mono":
        t.append("mono-K%d" % c["K"])
        t.append("mono-tol-0" if c.get("tol0") else "mono-tol-default")
        for impl in ("py", "pyx"):
            incs = _mono_incs(c, r, impl)
            if incs is None:
                t.append("mono-not-compared-%s" % impl)
                continue
            t.append("mono-compared-%s" % impl)
            slack = _mono_slack(c, M)
            strict = sum(1 for d in incs if d > slack)
            t.append("mono-%s-strict-increases-%s" % (impl, "0" if strict == 0 else "1" if strict == 1 else "2+"))
            if any(abs(d) <= slack for d in incs):
                t.append("mono-%s-flat-step" % impl)
            if any(-slack <= d < 0 for d in incs):
                t.append("mono-%s-negative-within-slack" % impl)
            if all(ri["warn"] for ri in r[impl]):
                t.append("mono-%s-all-runs-exact-k-sweeps" % impl)
            else:
                t.append("mono-%s-stopped-within-K" % impl)
    elif c["kind"] == "sweep":
        t.append("sweep-k%d" % c["k"])
        for impl in ("py", "pyx"):
            ri = r[impl]
            if ri.get("err") == "AssertionError":
                t.append("guard-rejected")
            elif "T" in ri:
                t.append("sweep-compared-%s" % impl if ri["warn"] else "sweep-early-stop")
    else:
        t.append("cert-" + ("dense" if c["container"] == "ndarray" else "sparse"))
        t.append("cert-" + _cname(c))
        if isinstance(c["container"], dict):
            rec = c["container"]
            oneway = any(M[i][j] == 0 and M[j][i] > 0 for i in range(n) for j in range(n))
            t += ["recipe-" + rec["fmt"], "recipe-" + rec["cls"], "recipe-" + rec["dtype"]]
            got = "T" in r.get("mle", {}) and "T" in r.get("mle_dense", {})
            for f in _recipe_feats(rec):
                t.append("recipe-" + f)
                if got:
                    t.append("recipe-%s-compared" % f)
                    if oneway:
                        t.append("recipe-%s-one-way-pair-compared" % f)
        for impl in ("mle", "py", "pyx"):
            if r[impl].get("warn"):
                t.append("cert-convergence-warning-%s" % impl)
            elif "T" in r[impl]:
                t.append("cert-converged-%s" % impl)
                if all(sum(row) > 0 for row in M) and _worst(M, [[F(x) for x in row] for row in r[impl]["T"]]) > TOL2:
                    t.append("cert-residual-above-1e-6-%s" % impl)
    if n >= 2 and any(sum(1 for j in range(n) if j != i and (M[i][j] > 0 or M[j][i] > 0)) == 1 and M[i][i] == 0 for i in range(n)):
        t.append("leaf-state")
        t.append("leaf-state-" + c["kind"])
        if c["shape"].startswith("leaf-"):
            t.append(c["shape"] + ("-self-counts" if any(M[i][i] > 0 for i in range(n)) else "-no-self-counts"))
            for impl in ("py", "pyx"):
                if "T" in r.get(impl, {}):
                    t.append("leaf-returned-model-" + impl)
    if c["style"] == "int" or all(x.denominator == 1 for row in M for x in row):
        sp = _stationary_pairs(M)
        if len(sp) >= 2 and any(b != 0 for b in _balance(M)):
            # >= 2 observed pairs are exact fixed points of the first sweep although the counts are not symmetric
            t.append("first-sweep-stationary-pairs")
            t.append("first-sweep-stationary-pairs-" + c["kind"])
            if c["kind"] in ("sweep", "mono") and c.get("k", c.get("K", 0)) >= 2:
                for impl in ("py", "pyx"):
                    ri = r.get(impl)
                    ri = ri[-1] if isinstance(ri, list) and ri else ri
                    if isinstance(ri, dict) and "T" in ri and ri["warn"]:
                        t.append("first-sweep-stationary-pairs-later-sweep-compared-" + impl)
    if n == 2 and M[0][0] == 0 and M[1][1] == 0:
        t.append("a-eq-0-branch")
    if any(M[i][i] > 0 for i in range(n)):
        t.append("self-counts")
    if any(M[i][j] == 0 and M[j][i] > 0 for i in range(n) for j in range(n)):
        t.append("one-way-pair")
    return t


ESSENTIAL_TAGS = ["sweep-k1", "sweep-k2", "sweep-k3", "sweep-compared-py", "sweep-compared-pyx", "guard-rejected",
                  "cert-dense", "cert-sparse", "cert-converged-mle", "cert-converged-pyx", "leaf-state", "a-eq-0-branch",
                  "self-counts", "one-way-pair", "cert-float", "cert-int", "stop-compared-py", "stop-compared-pyx",
                  "mono-compared-py", "mono-compared-pyx", "mono-py-strict-increases-2+", "mono-pyx-strict-increases-2+",
                  # round 3s
                  "leaf-state-sweep", "leaf-state-cert", "leaf-state-mono", "leaf-chain-no-self-counts", "leaf-chain-self-counts",
                  "leaf-star-no-self-counts", "leaf-star-self-counts", "leaf-leaf-block-no-self-counts", "leaf-leaf-block-self-counts",
                  "leaf-returned-model-py", "leaf-returned-model-pyx",
                  "dtype-int8", "dtype-int16", "dtype-int32", "dtype-uint8", "dtype-uint16", "dtype-float32", "dtype-dense",
                  "dtype-sparse", "dtype-signed-pair-sum-wraps", "dtype-row-sum-exceeds-dtype",
                  "dtype-wrapped-symmetrised-row-sum-nonpositive", "dtype-k-sweeps-compared", "dtype-converged-compared",
                  "scale-2^-10-py_k-compared", "scale-2^-34-py_k-compared", "scale-2^-40-py_k-compared", "scale-2^20-py_k-compared",
                  "scale-2^-20-pyx_k-compared", "scale-2^-40-pyx_k-compared", "scale-2^-40-mle-converged-compared",
                  "scale-2^-34-py-converged-compared", "scale-2^-34-pyx-converged-compared", "scale-pair-sums-below-1e-8",
                  # round 3s, second wave
                  "first-sweep-stationary-pairs-sweep", "first-sweep-stationary-pairs-cert", "first-sweep-stationary-pairs-mono",
                  "first-sweep-stationary-pairs-later-sweep-compared-py", "first-sweep-stationary-pairs-later-sweep-compared-pyx",
                  # round 3s, fourth wave: non-canonically stored sparse counts
                  "recipe-coo-dups", "recipe-coo-unit", "recipe-csr-dups", "recipe-csc-dups", "recipe-csr-unsorted", "recipe-coo-zeros",
                  "recipe-csr-zeros", "recipe-dia-wide", "recipe-bsr-dups", "recipe-dia_matrix", "recipe-spdiags", "recipe-dia_array",
                  "recipe-duplicates-compared", "recipe-stored-zero-compared", "recipe-unsorted-indices-compared",
                  "recipe-one-entry-per-transition-compared", "recipe-dia-spare-columns-one-way-pair-compared",
                  "recipe-dia-junk-outside-compared", "recipe-dia-zero-padded-one-way-pair-compared",
                  "recipe-duplicates-one-way-pair-compared", "recipe-float64", "recipe-int64"]


def search(rng, tier):
    found = []
    for c in generate(rng, "quick"):
        r = run_impl(c)
        for key, msg in oracle(c, r):
            found.append((key, msg, c, r))
        if found:
            break
    return found
