"""C16: MSM estimator = its function pipeline; save/load round trip; eigenspectrum post-processing;
implied timescales; ensemble propagation."""
import functools, math, os, shutil, sys, tempfile, pickle
from fractions import Fraction
import numpy as np
from core import cz, cn, cb, cq, clist, copt, VERIF
sys.path.insert(0, os.path.join(VERIF, "translator"))
import tr_msm
import tr_spectrum

PID = "C16"
PROPS_FILE = "Props/C16.v"
MODEL_TARGETS = ["Model/Msm.vo", "Gen/MsmCfgGen.vo", "Gen/MsmSpecGen.vo", "Gen/MsmAuxGen.vo"]
GEN_FILES = ["Gen/MsmCfgGen.v", "Gen/MsmSpecGen.v", "Gen/MsmAuxGen.v"]
CASE_HEADER = ("From Coq Require Import List ZArith QArith.\n"
               "From EV Require Import MsmBase MsmCfgGen Msm MsmSpecBase MsmSpecGen.\nFrom EV Require Trim Builders.\n"
               "Import ListNotations.\n")
SHARD = 30
RULE = ("four streams. fit: random sets of 1..4 state trajectories (lengths 1..14, 1..5 states, small ids so that "
        "ties between components occur), lag 1..4 (and 0 / -1 for the error path), builder normalize/transpose/mle "
        "given by name or as callable (incl. functools.partial(calculate_eq_probs=False)), trim on/off, sliding "
        "window on/off, max_n_states None/exact/larger/too small; the real MSM(...).fit is compared (a) exactly "
        "with the real function pipeline assigns_to_counts -> trim_disconnected -> builder called with the same "
        "settings (oracle), (b) with the Coq model msm_fit (generated dataflow over the C03/C11/C04 models; counts "
        "and mapping exact, probabilities 1e-9), then saved/loaded (also force-overwrite and pickle) and compared "
        "field by field. eig: ergodic row-stochastic matrices (2..6 states) incl. cyclic ones with complex pairs "
        "and ones with negative eigenvalues, dense/sparse, n_eigs None/2../too large/1; raw scipy.linalg.eig "
        "output is validated numerically and post-processed by the Coq model eig_post. ens: synthetic_ensemble on "
        "dyadic matrices (compared exactly) and general ones (1e-9), with and without observable, n_steps 0..7, "
        "wrong-length start vectors. imp: implied_timescales with a recording builder: the matrix handed to the "
        "eigen-solver is compared with the Coq model of calc_imp_times' pipeline, the times with -lag/log(lambda). "
        "Round 3: eig / ens / imp cases are also evaluated on the definitions regenerated from the source "
        "(gen_eigenspectrum incl. its solver choice, gen_ensemble[_obs], the calc_imp_times arguments of "
        "gen_implied_timescales); the directory written by MSM.save is compared with the translated file table. "
        "Round 3s: hist: ONE estimator object fitted 2..5 times while trim / lag_time / max_n_states / sliding_window / "
        "method are changed through set_params or attribute assignment and the data change (same data, another number of "
        "states, exactly as many states as the previous fit kept after trimming away a non-final state): after every "
        "fit every attribute must equal the function pipeline on the settings and data then in force (last two fits also "
        "against the Coq model). eig flavour nearsym: rare-event chains of 2..3 symmetric dyadic basins joined by crossings "
        "a*2^-k1 / b*2^-k2 (a, b in {1,3}, k in 30..37, |k1-k2| >= 4) -- np.allclose(T, T.T) holds, T is not symmetric, the "
        "per-state weights of neighbouring basins differ by a factor >= 16/3: stationarity and eigenpair residuals at 1e-13 / "
        "1e-12 (measured on the unchanged code: <= 4e-15), values against LAPACK at 1e-12, first vector and eq_probs against "
        "the stationary distribution solved in rationals (50 % per component; measured <= 1.3 %). bigeig: "
        "the sparse decomposition repeated twice in the same process must be bit-identical. "
        "Round 3s (D): imp on lag-time lists as scans produce them -- rounded log-spaced grids ([1, 1, 2, 3, 5, 8]), an explicit "
        "repeat ([2, 5, 5, 9]), repeats far apart ([3, 1, 3]), unsorted lists, both at once, one lag time several times (lags 1..10, "
        "trajectories of 20..36 frames; every style in every run): the result has one row per ENTRY of lag_times and row i equals "
        "calc_imp_times for lag_times[i] (1e-9), rows of equal lag times are equal; the Coq comparison (map over the list) is "
        "kept for these lists. densebig: ONE dense C-contiguous float64 ndarray with 1000..1100 states per quick run (thorough: also "
        "Fortran-ordered, left=False, second call through eigenspectrum): a strongly connected lazy ring with ~6 random hops per "
        "state, row-normalised; eigenspectrum(T), then the SAME object through eq_probs / eigenspectrum again, then "
        "synthetic_ensemble(T, p0, 6), then builders.normalize on the dense counts: the caller's array is compared with a snapshot "
        "taken before the call after every step (argument-modified), the first vector must be stationary for the snapshot AND for "
        "the matrix the caller holds afterwards (1e-8; measured 1e-17), the second decomposition must agree with the first (1e-8; "
        "measured 0), the ensemble history must be p0 . T^k of the snapshot (1e-9), normalize must return counts/rowsum (1e-12) with "
        "stationary populations; oracle only (no Coq term at this size), results are small summaries. "
        "Round 3s (E): fit stream `short` (36 quick / 288 thorough): 1..3 trajectories of <= lag_time frames next to 1..3 longer ones, in "
        "two of three cases a short one is the only visit to the largest state id while max_n_states=None (the inferred number of states "
        "then rests on a trajectory without any transition), trim off / on alternately, short ones first / last / anywhere; fit stream "
        "`islands` (36 / 288): 2..4 closed sets of 2..4 states (ids in blocks / interleaved / shuffled), every trajectory a cycle through "
        "one set followed by random moves inside it, so every state has a count to and from another state although the sets are mutually "
        "disconnected, weights different (sometimes tied), sometimes an extra never-connected state, trim on in three of four cases; both "
        "judged by the same clauses as the main fit stream (estimator == function pipeline, Coq model, round trip). "
        "non-trivial := hist: >= 2 successful fits with >= 2 states; fit: >= 2 states kept and >= 3 transitions counted; eig: >= 3 states; ens: >= 2 steps and "
        ">= 2 states; imp: >= 1 finite timescale; densebig: every step ran")
TRUSTED = ["translator/tr_msm.py (attribute stores of MSM.__init__, argument binding of the calls in fit and "
           "calc_imp_times against the callees' signatures, config dict, MSM(**config))",
           "translator/tr_spectrum.py + the NumPy vocabulary of Base/MsmSpecBase.v, Base/MsmAuxBase.v (eigenspectrum's "
           "guard / solver choice / post-processing, calc_imp_times' eigenspectrum call and formula, implied_timescales' "
           "loop, synthetic_ensemble, the save/load attribute-file table: regenerated and proved equal to the model)",
           "eigen-solver: LAPACK geev behind scipy.linalg.eig (its raw output is an input of the model eig_post; the "
           "oracle checks the eigenpair residuals at 1e-9)",
           "file formats: Matrix-Market mmwrite/mmread (precision 20), np.savetxt/loadtxt, csv, pickle: the round trip "
           "is checked by execution only (oracle), not modelled",
           "models of C03 (Counts.counts_matrix), C11 (Trim.trim_disconnected) and C04 (Builders.*) are reused; for "
           "mle the symmetric matrix of the Prinz iteration is reconstructed from the implementation's output (C12)",
           "np.log / math.log in the implied-timescale comparison (double precision glue); IEEE rounding (1e-9)",
           "theorems over R (imp_time_*) use the standard library's real-number axioms"]
ASSUMPTIONS = ["state ids >= 0, trajectories non-empty; stationarity of populations is claimed only where the builder "
               "claims it (C04): normalize with strongly connected counts; transpose/mle as in C04",
               "spectral clauses are conditional on the eigen-solver returning eigenpairs (hypothesis of the theorems, "
               "checked numerically per case)",
               "round trip: all stored numbers finite (a model fitted to zero counts has nan populations) and populations "
               "present (a model fitted with calculate_eq_probs=False cannot be saved: np.savetxt(None) raises ValueError)",
               "sparse >= 1000-state decompositions (ARPACK): the property demands real values in descending order, leading "
               "value one and a stationary first vector - not that the non-leading values are 'the n_eigs largest'; agreement "
               "with the dense decomposition is demanded as an extra except in one class where it does not hold on the "
               "unchanged code and the property does not ask for it: every returned value is the real part of a genuine "
               "eigenvalue, the leading value agrees, a complex pair sits at the cut and the skipped eigenvalues lie within "
               "0.03 (real part) of the smallest returned one (tag arpack-crowded-cut-tolerated); all other clauses are "
               "unconditional there",
               "implied_timescales with trim=True: if trimming leaves fewer than n_times+1 states at some lag times only, "
               "the rows have different lengths and np.array raises ValueError; such inputs are outside the clause"]
EXHAUSTIVE = {"thorough": False}
TOL = Fraction(1, 10 ** 9)
BUILDERS = ["normalize", "transpose", "mle"]


def translate(repo):
    out = dict(tr_msm.translate(repo))
    out.update(tr_spectrum.translate(repo))
    return out


# ----------------------------------------------------------------------------- brute-force helpers (generator side)
def _counts(trjs, lag, sliding, n):
    M = [[0] * n for _ in range(n)]
    for t in trjs:
        for p in range(len(t) - lag):
            if sliding or p % lag == 0:
                M[t[p]][t[p + lag]] += 1
    return M


def _components(M):
    n = len(M)
    R = [[i == j or M[i][j] > 0 for j in range(n)] for i in range(n)]
    for k in range(n):
        for i in range(n):
            if R[i][k]:
                for j in range(n):
                    if R[k][j]:
                        R[i][j] = True
    comps, seen = [], set()
    for i in range(n):
        if i not in seen:
            c = [j for j in range(n) if R[i][j] and R[j][i]]
            seen.update(c)
            comps.append(c)
    return comps


def _final_candidates(c):
    """count matrices the builder may receive (several when components tie for the largest weight)"""
    trjs, lag = c["trjs"], c["lag"]
    if lag < 1:
        return None
    mx = max(max(t) for t in trjs)
    n = c["maxn"] if c["maxn"] is not None else mx + 1
    g = max(n, mx + 1)
    big = _counts(trjs, lag, c["sliding"], g)
    if any(big[i][j] for i in range(g) for j in range(g) if i >= n or j >= n):
        return None                          # coo_matrix rejects a coordinate outside the shape
    M = [row[:n] for row in big[:n]]
    if not c["trim"]:
        return [M]
    comps = _components(M)
    w = [sum(sum(M[i]) for i in comp) for comp in comps]
    return [[[M[i][j] for j in comp] for i in comp] for comp, x in zip(comps, w) if x == max(w)]


def _sc_pos(M):
    return len(M) >= 1 and len(_components(M)) == 1 and all(sum(r) > 0 for r in M)


# ----------------------------------------------------------------------------- generation
def _gen_fit(rng):
    ns = rng.choice([1, 2, 3, 3, 4, 4, 5])
    ntr = rng.randint(1, 4)
    style = rng.random()
    trjs = []
    for _ in range(ntr):
        L = rng.choice([1, 2, 3, 5, 6, 8, 10, 12, 14])
        if style < 0.5:
            t = [rng.randrange(ns) for _ in range(L)]
        else:                       # sticky walk: metastable blocks, disconnected pieces
            s = rng.randrange(ns)
            t = []
            for _ in range(L):
                if rng.random() < 0.45:
                    s = min(ns - 1, max(0, s + rng.choice([-1, 1])))
                t.append(s)
        trjs.append(t)
    mx = max(max(t) for t in trjs)
    c = {"kind": "fit", "trjs": trjs, "lag": rng.choice([1, 1, 1, 2, 2, 3, 4]), "trim": rng.random() < 0.5,
         "sliding": rng.random() < 0.5, "maxn": rng.choice([None, None, mx + 1, mx + 2, mx + 3]),
         "by": rng.choice(["name", "fn", "fn"]), "builder": rng.choice(BUILDERS), "eq": True,
         "ctor": rng.choice(["init", "from_assignments"])}
    r = rng.random()
    if r < 0.04:
        c["lag"] = rng.choice([0, -1])
    elif r < 0.08 and mx >= 1:
        c["maxn"] = mx                       # too small: coo_matrix rejects the coordinate
    return _fit_settle(c, rng)


def _fit_settle(c, rng):
    """builder / populations choice that the counts of the case allow (shared by all fit generators)"""
    cands = _final_candidates(c)
    if cands is not None:
        if c["builder"] == "mle":
            if all(_sc_pos(M) and len(M) >= 2 for M in cands):
                pass
            elif all(any(sum(r) == 0 for r in M) for M in cands) and rng.random() < 0.5:
                pass                         # deterministic rejection: a state without outgoing counts
            else:
                c["builder"] = rng.choice(["normalize", "transpose"])
        if c["builder"] == "normalize" and not all(_sc_pos(M) for M in cands):
            c["by"], c["eq"] = "fn", False   # populations not determined: ask for none
        if c["builder"] == "transpose" and not all(sum(map(sum, M)) > 0 for M in cands):
            c["by"], c["eq"] = "fn", False   # 0/0 populations
        if c["by"] == "fn" and c["eq"] and c["builder"] != "mle" and rng.random() < 0.25:
            c["eq"] = False
    if c["by"] == "name":
        c["eq"] = True
    return c


def _short_top(c):
    """a trajectory with <= lag frames holds the largest state id, which no longer trajectory visits, and the number of
    states is inferred from the data: leaving such a trajectory out of the counting changes the number of states"""
    if c["lag"] < 1 or c["maxn"] is not None:
        return False
    mx = max(max(t) for t in c["trjs"])
    lo = [t for t in c["trjs"] if len(t) > c["lag"]]
    return bool(lo) and max(max(t) for t in lo) < mx


def _gen_fit_short(rng, i):
    """aborted runs: 1..3 trajectories of <= lag_time frames next to 1..3 longer ones; (two of three cases) a short one
    is the only visit to the state with the largest id, so that the inferred number of states rests on a trajectory
    that contributes no transition.  trim off and on, position of the short trajectories first / last / anywhere"""
    lag = rng.choice([1, 2, 2, 3, 3, 4, 5])
    ns = rng.choice([2, 3, 3, 4, 5])
    longs = []
    for _ in range(rng.randint(1, 3)):
        L = lag + rng.choice([1, 1, 2, 4, 7, 11])
        if rng.random() < 0.5:
            longs.append([rng.randrange(ns) for _ in range(L)])
        else:
            s, t = rng.randrange(ns), []
            for _ in range(L):
                if rng.random() < 0.5:
                    s = (s + rng.choice([-1, 1])) % ns
                t.append(s)
            longs.append(t)
    top = max(max(t) for t in longs)
    shorts = []
    for j in range(rng.randint(1, 3)):
        L = rng.randint(1, lag)
        if j == 0 and i % 3 != 2:
            hi = top + rng.choice([1, 1, 1, 2, 3])           # the only visit(s) to the largest id
            t = [rng.choice([hi, rng.randrange(hi + 1)]) for _ in range(L)]
            t[rng.randrange(L)] = hi
        else:
            t = [rng.randrange(top + 1) for _ in range(L)]
        shorts.append(t)
    where = rng.choice(["first", "last", "mixed"])
    trjs = shorts + longs if where == "first" else longs + shorts
    if where == "mixed":
        rng.shuffle(trjs)
    mx = max(max(t) for t in trjs)
    c = {"kind": "fit", "trjs": trjs, "lag": lag, "trim": i % 2 == 1, "sliding": rng.random() < 0.5,
         "maxn": rng.choice([None, None, None, mx + 1, mx + 2]),
         "by": rng.choice(["name", "fn", "fn"]), "builder": rng.choice(BUILDERS), "eq": True,
         "ctor": rng.choice(["init", "from_assignments"]), "stream": "short"}
    return _fit_settle(c, rng)


def _closed_components(M):
    """number of connected components (>= 2 states each) in which every state has a count to AND from another state"""
    n = len(M)
    ok = [any(M[i][j] for j in range(n) if j != i) and any(M[j][i] for j in range(n) if j != i) for i in range(n)]
    return sum(1 for comp in _components(M) if len(comp) >= 2 and all(ok[i] for i in comp))


def _gen_fit_islands(rng, i):
    """2..4 sets of states that are never left: every trajectory walks inside ONE set (a cycle through all its states,
    then random moves inside), so the sets are internally connected and mutually disconnected, of different (sometimes
    equal) weight; state ids of the sets in blocks, interleaved or shuffled; (one of four cases) an extra state that is
    only visited once.  trim on (three of four cases)"""
    nc = rng.choice([2, 2, 2, 3, 3, 4])
    sizes = [rng.choice([2, 2, 3, 3, 4]) for _ in range(nc)]
    ids = list(range(sum(sizes)))
    form = rng.choice(["blocks", "interleaved", "shuffled"])
    if form == "shuffled":
        rng.shuffle(ids)
    elif form == "interleaved":
        ids = sorted(ids, key=lambda x: (x % nc, x))
    comps, p = [], 0
    for s in sizes:
        comps.append(ids[p:p + s])
        p += s
    lag = rng.choice([1, 1, 1, 1, 2, 3])
    base = rng.choice([3, 5, 8])
    trjs = []
    for k, comp in enumerate(comps):
        for rep in range(rng.choice([1, 1, 2])):
            L = len(comp) * lag + 1 + rng.choice([0, 1, 2]) + (base * ((k * 2 + i) % nc) if i % 5 else 0)
            t = [comp[q % len(comp)] for q in range(len(comp) + 1)]
            if lag > 1:                          # the cycle at the pace of the lag time: a b c a -> a a b b c c a a
                t = [x for x in t for _ in range(lag)]
            while len(t) < L:
                t.append(rng.choice(comp))
            trjs.append(t)
    if i % 4 == 3:
        trjs.append([len(ids)] * rng.choice([1, 2, lag + 1]))           # a state nothing leads to or from
    rng.shuffle(trjs)
    mx = max(max(t) for t in trjs)
    c = {"kind": "fit", "trjs": trjs, "lag": lag, "trim": i % 4 != 2, "sliding": rng.random() < 0.6,
         "maxn": rng.choice([None, None, mx + 1, mx + 2]),
         "by": rng.choice(["name", "fn", "fn"]), "builder": rng.choice(BUILDERS), "eq": True,
         "ctor": rng.choice(["init", "from_assignments"]), "stream": "islands"}
    return _fit_settle(c, rng)


def _rand_stochastic(rng, n, flavour):
    if flavour == "cyclic":                  # rotation-dominated: complex pairs
        M = [[0] * n for _ in range(n)]
        for i in range(n):
            M[i][(i + 1) % n] = rng.randint(4, 9)
            M[i][i] = rng.randint(0, 2)
            if rng.random() < 0.4:
                M[i][rng.randrange(n)] += 1
    elif flavour == "anti":                  # little self-transition: negative eigenvalues
        M = [[(0 if i == j else rng.randint(1, 6)) for j in range(n)] for i in range(n)]
    elif flavour == "metastable":
        M = [[(rng.randint(20, 40) if i == j else (rng.randint(0, 2) if abs(i - j) == 1 else 0)) for j in range(n)]
             for i in range(n)]
        for i in range(n - 1):
            M[i][i + 1] = max(M[i][i + 1], 1)
            M[i + 1][i] = max(M[i + 1][i], 1)
    else:
        M = [[rng.randint(0, 5) for _ in range(n)] for _ in range(n)]
        perm = list(range(n))
        rng.shuffle(perm)
        for a in range(n):
            M[perm[a]][perm[(a + 1) % n]] += 1
        M[0][0] += 1                         # aperiodic
    return M


def _gen_eig(rng):
    n = rng.randint(2, 6)
    fl = rng.choice(["cyclic", "cyclic", "anti", "metastable", "random", "random"])
    if fl == "cyclic" and n < 3:
        n = 3
    M = _rand_stochastic(rng, n, fl)
    ne = rng.choice([None, None, None, 2, 3, n, n + 2, 1, 0])
    return {"kind": "eig", "M": M, "n_eigs": ne, "sparse": rng.random() < 0.4, "flavour": fl}


def _gen_ens(rng):
    n = rng.randint(1, 5)
    dyadic = rng.random() < 0.6
    if dyadic:
        T = []
        for i in range(n):
            row = [0] * n
            for _ in range(8):
                row[rng.randrange(n)] += 1
            T.append([str(Fraction(x, 8)) for x in row])
        p = [0] * n
        for _ in range(16):
            p[rng.randrange(n)] += 1
        p0 = [str(Fraction(x, 16)) for x in p]
    else:
        M = _rand_stochastic(rng, n, "random") if n >= 2 else [[3]]
        T = [[str(Fraction(float(x) / float(sum(r)))) for x in r] for r in M]
        w = [rng.randint(0, 5) for _ in range(n)]
        if sum(w) == 0:
            w[0] = 1
        p0 = [str(Fraction(float(x) / float(sum(w)))) for x in w]
    c = {"kind": "ens", "T": T, "p0": p0, "n_steps": rng.choice([0, 1, 2, 2, 3, 4, 5, 7]), "dyadic": dyadic,
         "obs": None, "sparse": rng.random() < 0.4}
    if rng.random() < 0.25:
        # start vector given as an INTEGER one-hot array (a state index turned into a vector): the history
        # must still be p0 * T^k in floating point
        p = [0] * n
        p[rng.randrange(n)] = 1
        c["p0"] = [str(x) for x in p]
        c["p0_dtype"] = rng.choice(["int64", "int32", "bool"])
    if rng.random() < 0.45:
        c["obs"] = [str(Fraction(rng.randint(-4, 8), rng.choice([1, 1, 2]))) for _ in range(n)]
    if rng.random() < 0.1:
        c["p0"] = c["p0"] + ["0"]            # wrong length
        if c["obs"] is not None and rng.random() < 0.5:
            c["obs"] = c["obs"] + ["1"]
    return c


def _gen_imp(rng):
    ns = rng.randint(2, 5)
    ntr = rng.randint(1, 3)
    trjs = []
    for _ in range(ntr):
        s = rng.randrange(ns)
        t = []
        for _ in range(rng.choice([12, 16, 20, 24])):
            if rng.random() < 0.4:
                s = rng.randrange(ns)
            t.append(s)
        trjs.append(t)
    if len({x for t in trjs for x in t}) < 2 or max(max(t) for t in trjs) < 1:
        trjs[0][0:2] = [0, 1]                # a one-state system has no timescale (n_eigs would be 1)
    return {"kind": "imp", "trjs": trjs, "lags": sorted(rng.sample([1, 2, 3, 4], rng.randint(1, 3))),
            "builder": rng.choice(["normalize", "transpose"]), "n_times": rng.choice([None, 1, 2, 3, 6]),
            "sliding": rng.random() < 0.5, "trim": rng.random() < 0.5}


# ---- round 3s (D): lag-time grids with repeats / out of order; dense >= 1000-state matrices ---------------------
GRID_STYLES = ["loggrid", "dup-sorted", "dup-apart", "unsorted", "dup-unsorted", "all-same"]


def _gen_imp_grid(rng, style):
    """implied_timescales on lag-time lists as scans produce them: rounded log-spaced grids (the short lag times come
    out several times: [1, 1, 2, 3, 5, 8]), an explicit repeat ([2, 5, 5, 9]), repeats far apart ([3, 1, 3]), lists
    that are not sorted, both at once, one lag time asked for several times.  Row i of the result belongs to
    lag_times[i]."""
    ns = rng.randint(2, 5)
    trjs = []
    for _ in range(rng.randint(1, 3)):
        s = rng.randrange(ns)
        t = []
        for _ in range(rng.choice([20, 24, 30, 36])):
            if rng.random() < 0.4:
                s = rng.randrange(ns)
            t.append(s)
        trjs.append(t)
    if len({x for t in trjs for x in t}) < 2 or max(max(t) for t in trjs) < 1:
        trjs[0][0:2] = [0, 1]
    pool = list(range(1, 9))
    if style == "loggrid":
        top, m = rng.choice([5, 8, 10]), rng.randint(5, 8)           # top^(1/(m-1)) < 2: the grid starts 1, 1, ...
        lags = [max(1, int(top ** (i / (m - 1)) + 1e-9)) for i in range(m)]
    elif style == "dup-sorted":
        lags = sorted(rng.sample(pool, rng.randint(2, 4)))
        i = rng.randrange(len(lags))
        lags.insert(i, lags[i])
    elif style == "dup-apart":
        lags = rng.sample(pool, rng.randint(2, 4))
        lags.append(lags[rng.randrange(len(lags) - 1)])
    elif style == "all-same":
        lags = [rng.choice(pool[:5])] * rng.randint(2, 4)
    else:
        lags = rng.sample(pool, rng.randint(2, 5 if style == "unsorted" else 4))
        if style == "dup-unsorted":
            for _ in range(rng.randint(1, 3)):
                lags.insert(rng.randrange(len(lags) + 1), rng.choice(lags))
        while lags == sorted(lags):
            rng.shuffle(lags)
    return {"kind": "imp", "trjs": trjs, "lags": lags, "grid": style,
            "builder": rng.choice(["normalize", "transpose"]), "n_times": rng.choice([None, 1, 2, 3, 6]),
            "sliding": rng.random() < 0.5, "trim": rng.random() < 0.3}


def _gen_densebig(rng, order="C", left=True, second="eq_probs"):
    """a dense ndarray transition matrix with 1000..1100 states (the size from which eigenspectrum stops densifying and
    a caller's dense matrix goes to LAPACK as it is), decomposed, then used again"""
    return {"kind": "densebig", "n": rng.randint(1000, 1100), "seed": rng.randrange(10 ** 6),
            "n_eigs": rng.choice([None, 2, 3, 4, 6]), "order": order, "left": left, "second": second,
            "counts_dtype": rng.choice(["int64", "float64"])}


# ---- round 3s: estimator histories, near-symmetric rare-event chains -------------------------------------------
def _kept_states(c):
    """original ids kept by the function pipeline for this configuration (None: rejected, or a weight tie)"""
    trjs, lag = c["trjs"], c["lag"]
    if lag < 1:
        return None
    mx = max(max(t) for t in trjs)
    n = c["maxn"] if c["maxn"] is not None else mx + 1
    if mx + 1 > n:
        return None
    M = _counts(trjs, lag, c["sliding"], n)
    if not c["trim"]:
        return list(range(n))
    comps = _components(M)
    w = [sum(sum(M[i]) for i in comp) for comp in comps]
    best = [comp for comp, x in zip(comps, w) if x == max(w)]
    return sorted(best[0]) if len(best) == 1 else None


def _walks(rng, ns, ntr=None):
    """1..3 trajectories over exactly the states 0..ns-1 (every state visited, the last one surely)"""
    trjs = []
    for _ in range(ntr or rng.randint(1, 3)):
        L = rng.choice([4, 6, 8, 10, 12])
        s = rng.randrange(ns)
        t = []
        for _ in range(L):
            if rng.random() < 0.6:
                s = rng.randrange(ns)
            t.append(s)
        trjs.append(t)
    order = list(range(ns))
    rng.shuffle(order)
    trjs[0] = trjs[0] + order + order[:1]
    return trjs


def _gapped(rng):
    """data in which ergodic trimming drops a state that is not the last one: a well-connected set plus states that
    are only entered (or only left, or never seen)"""
    ns = rng.randint(3, 6)
    drop = sorted(rng.sample(range(ns - 1), rng.randint(1, min(2, ns - 2))))     # never the last state
    keep = [i for i in range(ns) if i not in drop]
    core_ = _walks(rng, len(keep), rng.randint(1, 2))
    trjs = [[keep[x] for x in t] for t in core_]
    for d in drop:
        r = rng.random()
        if r < 0.4:
            trjs.append([d, d, rng.choice(keep)])          # only left
        elif r < 0.8:
            trjs[0] = trjs[0] + [d]                        # only entered, at the very end
        # else: never seen (a gap in the numbering)
    return trjs


def _legal_method(c, rng):
    """choose how the builder is given so that the configuration is inside the property's domain (as _gen_fit does)"""
    cands = _final_candidates(c)
    c["by"], c["eq"] = "fn", True
    if cands is None:
        return c
    if c["builder"] == "mle" and not all(_sc_pos(M) and len(M) >= 2 for M in cands):
        c["builder"] = rng.choice(["normalize", "transpose"])
    if c["builder"] == "normalize" and not all(_sc_pos(M) for M in cands):
        c["eq"] = False
    if c["builder"] == "transpose" and not all(sum(map(sum, M)) > 0 for M in cands):
        c["eq"] = False
    return c


def _gen_hist(rng, trap):
    """one MSM object refitted 2..5 times while trim / lag_time / max_n_states / sliding_window / method are changed
    through set_params or attribute assignment and the data change (other numbers of states)"""
    first = {"trjs": _gapped(rng) if (trap or rng.random() < 0.5) else _walks(rng, rng.randint(2, 5)),
             "lag": rng.choice([1, 1, 2, 3]), "trim": True if trap else rng.random() < 0.6,
             "sliding": rng.random() < 0.5, "maxn": None, "builder": rng.choice(BUILDERS)}
    steps = [_legal_method(first, rng)]
    if rng.random() < 0.3:
        first["by"] = "name" if first["eq"] else "fn"      # the constructor may be given the builder's name
    for k in range(rng.randint(1, 4)):
        prev = steps[-1]
        st = {key: prev[key] for key in ("trjs", "lag", "trim", "sliding", "maxn", "builder")}
        st["trjs"] = [list(t) for t in prev["trjs"]]
        kept = _kept_states(prev)
        what = rng.sample(["trim", "lag", "maxn", "sliding", "method", "data", "data"], rng.randint(1, 2))
        if trap and k == 0:
            what = ["trim", "data"]
        if "trim" in what:
            st["trim"] = not prev["trim"]
        if "lag" in what:
            st["lag"] = rng.choice([x for x in (1, 2, 3, 4) if x != prev["lag"]])
        if "sliding" in what:
            st["sliding"] = not prev["sliding"]
        if "method" in what:
            st["builder"] = rng.choice(BUILDERS)
        if "data" in what:
            r = rng.random()
            if (trap and k == 0) or (r < 0.45 and kept):
                st["trjs"] = _walks(rng, max(1, len(kept or [0, 1])))     # exactly as many states as were kept before
                st["maxn"] = None
            elif r < 0.75:
                st["trjs"] = _gapped(rng)
            else:
                st["trjs"] = _walks(rng, rng.randint(1, 6))
        mx = max(max(t) for t in st["trjs"])
        if "maxn" in what:
            st["maxn"] = rng.choice([None, mx + 1, mx + 2, mx + 3])
        elif st["maxn"] is not None and st["maxn"] < mx + 1:
            st["maxn"] = rng.choice([None, mx + 1]) if rng.random() < 0.85 else st["maxn"]   # (rarely: too small, rejected)
        st = _legal_method(st, rng)
        st["how"] = rng.choice(["set_params", "set_params", "setattr"])
        st["reset_all"] = rng.random() < 0.2               # hand every parameter to set_params, changed or not
        steps.append(st)
    return {"kind": "hist", "steps": steps, "trap": bool(trap)}


def _nearsym(rng):
    """rare-event chain that passes np.allclose(T, T.T) without being symmetric: 2..3 basins, each a symmetric
    (doubly stochastic, dyadic) block, joined by crossings a*2^-k1 one way and b*2^-k2 the other way, a, b in {1, 3},
    k in 30..37, |k1 - k2| >= 4: the per-state weights of neighbouring basins differ by a factor >= 16/3 while every
    asymmetry is below 1e-8"""
    nb = rng.choice([2, 2, 3])
    sizes = [rng.randint(1, 3) for _ in range(nb)]
    n = sum(sizes)
    T = [[Fraction(0)] * n for _ in range(n)]
    off, blocks, units = 0, [], 32
    for sz in sizes:
        idx = list(range(off, off + sz))
        blocks.append(idx)
        off += sz
        for i in idx:
            T[i][i] = Fraction(units)
        links = list(zip(idx, idx[1:])) + [tuple(rng.sample(idx, 2)) for _ in range(rng.randint(0, 2 * sz) if sz >= 2 else 0)]
        for i, j in links:
            w = rng.randint(1, 4)
            if T[i][i] - w >= 8 and T[j][j] - w >= 8:
                T[i][i] -= w; T[j][j] -= w; T[i][j] += w; T[j][i] += w
        for i in idx:
            for j in idx:
                T[i][j] /= units
    pairs = [(blocks[b], blocks[b + 1]) for b in range(nb - 1)]
    for A, B in pairs:
        i, j = rng.choice(A), rng.choice(B)
        while True:
            k1, k2 = rng.randint(30, 37), rng.randint(30, 37)
            if abs(k1 - k2) >= 4:
                break
        e1, e2 = Fraction(rng.choice([1, 3]), 2 ** k1), Fraction(rng.choice([1, 3]), 2 ** k2)
        T[i][j] += e1; T[i][i] -= e1
        T[j][i] += e2; T[j][j] -= e2
    return {"kind": "eig", "M": None, "Tq": [[str(x) for x in row] for row in T], "n_eigs": rng.choice([None, None, 2, 3]),
            "sparse": rng.random() < 0.4, "flavour": "nearsym"}


def _exact_stationary(T):
    """the stationary distribution of an irreducible chain, solved in rationals"""
    n = len(T)
    A = [[T[j][i] - (1 if i == j else 0) for j in range(n)] for i in range(n)]
    A[-1] = [Fraction(1)] * n
    b = [Fraction(0)] * (n - 1) + [Fraction(1)]
    for col in range(n):
        p = next(r for r in range(col, n) if A[r][col] != 0)
        A[col], A[p] = A[p], A[col]
        b[col], b[p] = b[p], b[col]
        for r in range(n):
            if r != col and A[r][col] != 0:
                f = A[r][col] / A[col][col]
                A[r] = [x - f * y for x, y in zip(A[r], A[col])]
                b[r] -= f * b[col]
    return [b[i] / A[i][i] for i in range(n)]


def generate(rng, tier):
    k = 1 if tier == "quick" else 8
    cases = [_gen_fit(rng) for _ in range(240 * k)]
    cases += [_gen_eig(rng) for _ in range(90 * k)]
    cases += [_gen_ens(rng) for _ in range(90 * k)]
    cases += [_gen_imp(rng) for _ in range(40 * k)]
    cases += [_gen_hist(rng, i % 3 == 0) for i in range(60 * k)]
    cases += [_nearsym(rng) for _ in range(30 * k)]
    # the sparse >= 1000-state branch of eigenspectrum (ARPACK): a fast-mixing chain crossed with a fast
    # two-state flip, so that a negative eigenvalue of large magnitude (-0.96) competes with the positive top
    # a case of the tolerated class 'complex pair at the cut' (ARPACK returns 0.62997 (+-0.0915i) as 4th value, the
    # 4th largest real part is 0.63189); everything the property states about this decomposition stays checked
    cases.append({"kind": "bigeig", "m": 500, "seed": 382948, "n_eigs": 4, "fmt": "csr_matrix"})
    for _ in range(1 if tier == "quick" else 3):
        cases.append({"kind": "bigeig", "m": rng.choice([500, 520, 601]), "seed": rng.randrange(10 ** 6),
                      "n_eigs": rng.choice([3, 4, 5]), "fmt": rng.choice(["csr_matrix", "coo_matrix"])})
    # lag-time lists with repeated entries and / or out of order (every style in every run)
    cases += [_gen_imp_grid(rng, GRID_STYLES[i % len(GRID_STYLES)]) for i in range(30 * k)]
    # the dense >= 1000-state branch (LAPACK on the caller's ndarray): argument intact, same answer twice, later uses
    cases.append(_gen_densebig(rng))
    if tier == "thorough":
        cases.append(_gen_densebig(rng, order="F"))
        cases.append(_gen_densebig(rng, order="C", left=False, second="eigenspectrum"))
        cases.append(_gen_densebig(rng, order="F", left=False, second="eigenspectrum"))
        cases.append(_gen_densebig(rng, order="C", second="eigenspectrum"))
    if tier == "thorough":
        # small scope: every configuration of the estimator on a few fixed assignment sets
        import itertools
        sets = [[[0, 1, 1, 0, 1, 2, 2, 0, 1, 0]], [[0, 0, 1, 1, 0], [2, 3, 3, 2, 2, 3]], [[0, 1, 2, 0, 1, 2, 0], [3]],
                [[1, 1, 1, 1]], [[0, 1], [1, 0], [2, 2, 2]]]
        for trjs, lag, b, by, trim, sl, mx in itertools.product(sets, (1, 2, 3), BUILDERS, ("name", "fn"),
                                                                 (False, True), (False, True), (None, 5)):
            c = {"kind": "fit", "trjs": trjs, "lag": lag, "trim": trim, "sliding": sl, "maxn": mx, "by": by,
                 "builder": b, "eq": True, "ctor": "init"}
            cands = _final_candidates(c)
            if b == "mle" and not all(_sc_pos(M) and len(M) >= 2 for M in cands):
                continue
            if b == "normalize" and not all(_sc_pos(M) for M in cands):
                c["by"], c["eq"] = "fn", False
            if b == "transpose" and not all(sum(map(sum, M)) > 0 for M in cands):
                c["by"], c["eq"] = "fn", False
            cases.append(c)
    # round 3s (E): trajectories no longer than the lag time (one of them the only visit to the largest state id while the
    # number of states is inferred), and several closed, internally connected sets of states of different weight
    cases += [_gen_fit_short(rng, i) for i in range(36 * k)]
    cases += [_gen_fit_islands(rng, i) for i in range(36 * k)]
    return cases


# ----------------------------------------------------------------------------- running the real code
def _fr(x):
    return str(Fraction(float(x)))


def _dense(x):
    import scipy.sparse as sp
    return np.asarray(x.toarray()) if sp.issparse(x) else np.asarray(x)


def _method(c):
    from enspara.msm import builders
    if c["by"] == "name":
        return c["builder"]
    f = getattr(builders, c["builder"])
    if not c["eq"]:
        return functools.partial(f, calculate_eq_probs=False)
    return f


def _ints(A):
    A = np.asarray(A, dtype=float)
    return [[_fr(x) for x in r] for r in A]


def _fit_fields(mapping, tc, tp, pi):
    to_orig = {int(k): int(v) for k, v in mapping.to_original.items()}
    to_mapped = {int(k): int(v) for k, v in mapping.to_mapped.items()}
    tcd, tpd = _dense(tc), _dense(tp)
    fin = bool(np.all(np.isfinite(tcd)) and np.all(np.isfinite(tpd)) and
               (pi is None or np.all(np.isfinite(np.asarray(pi, dtype=float)))))
    if not fin:
        return {"err": "NonFinite"}
    return {"to_original": sorted(to_orig.items()), "to_mapped": sorted(to_mapped.items()),
            "keep": [to_orig[k] for k in sorted(to_orig)],
            "C": _ints(tcd), "T": _ints(tpd), "pi": None if pi is None else [_fr(x) for x in np.asarray(pi).ravel()],
            "kinds": [type(tc).__name__, type(tp).__name__], "pi_shape": None if pi is None else list(np.shape(pi))}


def _estimator(c):
    from enspara.msm import MSM
    from enspara.ra.ra import RaggedArray
    kw = dict(lag_time=c["lag"], method=_method(c), trim=c["trim"], sliding_window=c["sliding"],
              max_n_states=c["maxn"])
    if c["ctor"] == "from_assignments":
        return MSM.from_assignments(RaggedArray(c["trjs"]), **kw)
    m = MSM(**kw)
    m.fit(RaggedArray(c["trjs"]))
    return m


def _pipeline(c):
    """the independent composition of the library's functions with the same settings"""
    from enspara.msm import builders
    from enspara.msm.transition_matrices import assigns_to_counts, trim_disconnected, TrimMapping
    from enspara.ra.ra import RaggedArray
    C = assigns_to_counts(RaggedArray(c["trjs"]), c["lag"], max_n_states=c["maxn"], sliding_window=c["sliding"])
    if c["trim"]:
        mapping, C = trim_disconnected(C)
    else:
        n = C.shape[0]
        mapping = TrimMapping([(i, i) for i in range(n)])
    f = getattr(builders, c["builder"])
    tc, tp, pi = f(C) if c["eq"] else f(C, calculate_eq_probs=False)
    return _fit_fields(mapping, tc, tp, pi)


def _roundtrip(m):
    from enspara.msm import MSM
    d = tempfile.mkdtemp(prefix="c16_")
    out = {}
    try:
        p = os.path.join(d, "model")
        m.save(p)
        try:
            import json
            out["files"] = sorted(os.listdir(p))
            with open(os.path.join(p, "manifest.json")) as f:
                out["manifest"] = sorted(json.load(f).items())
        except Exception as ex:
            out["manifest"] = "err:" + type(ex).__name__
        m2 = MSM.load(p)
        out["eq_op"] = bool(m == m2) and bool(m2 == m)
        out["config"] = bool(m2.lag_time == m.lag_time and type(m2.lag_time) is type(m.lag_time)
                             and m2.trim == m.trim and m2.sliding_window == m.sliding_window
                             and m2.max_n_states == m.max_n_states and m2.method == m.method
                             and (m2.method is m.method or isinstance(m.method, functools.partial)))
        out["config_detail"] = repr({k: getattr(m2, k) for k in ("lag_time", "trim", "sliding_window", "max_n_states")})
        out["counts"] = bool(_dense(m2.tcounts_).shape == _dense(m.tcounts_).shape and
                             np.array_equal(_dense(m2.tcounts_), _dense(m.tcounts_)))
        out["probs"] = bool(_dense(m2.tprobs_).shape == _dense(m.tprobs_).shape and
                            np.array_equal(_dense(m2.tprobs_), _dense(m.tprobs_)))
        if m.eq_probs_ is None:
            out["pops"] = None
        else:
            out["pops"] = bool(np.shape(m2.eq_probs_) == np.shape(m.eq_probs_) and
                               np.array_equal(np.asarray(m2.eq_probs_), np.asarray(m.eq_probs_)))
        out["mapping"] = bool(m2.mapping_.to_original == m.mapping_.to_original and
                              m2.mapping_.to_mapped == m.mapping_.to_mapped)
        out["n_states"] = bool(m2.n_states_ == m.n_states_)
        try:
            m.save(p, force=True)            # overwrite
            out["force"] = bool(MSM.load(p) == m)
        except Exception as ex:
            out["force"] = "err:" + type(ex).__name__
        try:
            m.save(p)                        # without force an existing directory must not be clobbered silently
            out["noforce"] = "accepted"
        except Exception as ex:
            out["noforce"] = "err:" + type(ex).__name__
        m3 = pickle.loads(pickle.dumps(m))
        out["pickle"] = bool(m3 == m and m3.max_n_states == m.max_n_states and m3.sliding_window == m.sliding_window)
    except Exception as ex:
        out["err"] = type(ex).__name__ + ": " + str(ex)[:200]
    finally:
        shutil.rmtree(d, ignore_errors=True)
    return out


def _run_fit(c):
    res = {}
    m = None
    try:
        m = _estimator(c)
        res["est"] = _fit_fields(m.mapping_, m.tcounts_, m.tprobs_, m.eq_probs_)
        res["attrs"] = [int(m.lag_time), bool(m.trim), bool(m.sliding_window),
                        None if m.max_n_states is None else int(m.max_n_states)]
    except Exception as ex:
        res["est"] = {"err": type(ex).__name__}
    try:
        res["pipe"] = _pipeline(c)
    except Exception as ex:
        res["pipe"] = {"err": type(ex).__name__}
    if c["builder"] == "mle" and "err" not in res["est"]:
        if res["est"]["pi"] is not None:
            res["mle_pi"] = res["est"]["pi"]
    if m is not None and "err" not in res["est"] and m.eq_probs_ is not None:
        # a model fitted without populations (calculate_eq_probs=False) cannot be saved: np.savetxt(None)
        # raises ValueError -- loud, and outside the round-trip clause (see ASSUMPTIONS)
        res["rt"] = _roundtrip(m)
    return res


def _run_hist(c):
    from enspara.msm import MSM
    from enspara.ra.ra import RaggedArray
    steps = c["steps"]
    s0 = steps[0]
    m = MSM(lag_time=s0["lag"], method=_method(s0), trim=s0["trim"], sliding_window=s0["sliding"], max_n_states=s0["maxn"])
    out = []
    names = {"lag": "lag_time", "trim": "trim", "sliding": "sliding_window", "maxn": "max_n_states"}
    for k, st in enumerate(steps):
        rec = {}
        if k > 0:
            prev = steps[k - 1]
            ch = {names[f]: st[f] for f in names if st[f] != prev[f] or st["reset_all"]}
            if (st["builder"], st["eq"], st["by"]) != (prev["builder"], prev["eq"], prev["by"]) or st["reset_all"]:
                ch["method"] = _method(st)
            rec["changed"] = sorted(ch)
            if st["how"] == "set_params":
                m.set_params(**ch)
            else:
                for name, v in ch.items():
                    setattr(m, name, v)
        try:
            m.fit(RaggedArray(st["trjs"]))
            # (snapshot to plain Python values now: the next fit replaces / may reuse the attributes)
            rec["est"] = _fit_fields(m.mapping_, m.tcounts_, m.tprobs_, m.eq_probs_)
            rec["attrs"] = [int(m.lag_time), bool(m.trim), bool(m.sliding_window),
                            None if m.max_n_states is None else int(m.max_n_states)]
            if "err" not in rec["est"]:
                rec["n_states"] = int(m.n_states_)
        except Exception as ex:
            rec["est"] = {"err": type(ex).__name__}
        try:
            rec["pipe"] = _pipeline(st)
        except Exception as ex:
            rec["pipe"] = {"err": type(ex).__name__}
        if st["builder"] == "mle" and "err" not in rec["est"] and rec["est"]["pi"] is not None:
            rec["mle_pi"] = rec["est"]["pi"]
        out.append(rec)
    return {"steps": out}


def _run_eig(c):
    import scipy.linalg, scipy.sparse
    from enspara.msm.transition_matrices import eigenspectrum
    if c.get("Tq") is not None:              # an exactly representable matrix given entry by entry
        T = np.array([[float(Fraction(x)) for x in row] for row in c["Tq"]], dtype=float)
    else:
        M = np.array(c["M"], dtype=float)
        T = M / M.sum(axis=1)[:, None]
    res = {"T": _ints(T)}
    if c.get("flavour") == "nearsym":
        from enspara.msm.transition_matrices import eq_probs
        res["allclose_sym"] = bool(np.allclose(T, T.T) and not np.array_equal(T, T.T))
        try:
            e = eq_probs(scipy.sparse.csr_matrix(T) if c["sparse"] else T.copy())
            res["eqp"] = [_fr(x) for x in np.asarray(e, dtype=float).ravel()]
        except Exception as ex:
            res["eqp"] = {"err": type(ex).__name__}
    w, V = scipy.linalg.eig(T.T)             # what eigenspectrum(left=True) hands to its post-processing
    res["raw_vals"] = [[_fr(z.real), _fr(z.imag)] for z in w]
    res["raw_vecs"] = [[[_fr(z.real), _fr(z.imag)] for z in V[:, k]] for k in range(V.shape[1])]
    arg = scipy.sparse.csr_matrix(T) if c["sparse"] else T.copy()
    try:
        vals, vecs = eigenspectrum(arg, n_eigs=c["n_eigs"])
        res["out"] = {"vals": [_fr(x) for x in vals], "vecs": [[_fr(x) for x in vecs[:, k]] for k in range(vecs.shape[1])],
                      "real": bool(np.isrealobj(vals) and np.isrealobj(vecs)), "shape": [list(vals.shape), list(vecs.shape)]}
    except Exception as ex:
        res["out"] = {"err": type(ex).__name__}
    return res


def _run_ens(c):
    import scipy.sparse
    from enspara.msm.synthetic_data import synthetic_ensemble
    T = np.array([[float(Fraction(x)) for x in r] for r in c["T"]], dtype=float)
    p0 = np.array([float(Fraction(x)) for x in c["p0"]], dtype=float)
    if c.get("p0_dtype"):
        p0 = p0.astype(c["p0_dtype"])
    obs = None if c["obs"] is None else np.array([float(Fraction(x)) for x in c["obs"]], dtype=float)
    arg = scipy.sparse.csr_matrix(T) if c["sparse"] else T
    p0_before = p0.copy()
    try:
        p, o = synthetic_ensemble(arg, p0, c["n_steps"], observable_per_state=obs)
    except Exception as ex:
        return {"err": type(ex).__name__}
    o = np.asarray(o)
    return {"p": [_fr(x) for x in np.asarray(p).ravel()],
            "obs": [_fr(x) for x in o] if o.ndim == 1 else [[_fr(x) for x in r] for r in o],
            "ndim": int(o.ndim), "p0_unchanged": bool(np.array_equal(p0, p0_before))}


def _run_imp(c):
    from enspara.msm import builders
    from enspara.msm.timescales import implied_timescales
    from enspara.msm.transition_matrices import eigenspectrum
    from enspara.ra.ra import RaggedArray
    f = getattr(builders, c["builder"])
    rec = []

    def method(C):
        out = f(C, calculate_eq_probs=False)     # only the transition matrix is used by calc_imp_times
        rec.append((_dense(C).tolist(), _dense(out[1]).copy()))
        return out
    try:
        with np.errstate(all="ignore"):
            ts = implied_timescales(RaggedArray(c["trjs"]), c["lags"], method, n_times=c["n_times"],
                                    sliding_window=c["sliding"], trim=c["trim"])
    except Exception as ex:
        return {"err": type(ex).__name__, "msg": str(ex)[:200]}
    ts = np.asarray(ts, dtype=float)
    out = {"times": [[None if not np.isfinite(x) else _fr(x) for x in row] for row in ts] if ts.ndim == 2 else None,
           "shape": list(ts.shape), "T": [_ints(t) for _, t in rec], "Cin": [cin for cin, _ in rec], "spectra": []}
    for _, t in rec:
        try:
            ev, _v = eigenspectrum(t)
            out["spectra"].append([float(x) for x in ev])
        except Exception as ex:
            out["spectra"].append(None)
    # row i of the result belongs to lag_times[i]: the single-lag computation asked for directly, lag time by lag time
    # in the order (and as often as) the list names them
    from enspara.msm.timescales import calc_imp_times
    ns = max(max(t) for t in c["trjs"]) + 1
    nt = min(c["n_times"] if c["n_times"] is not None else ns // 10 + 1, ns - 1)
    ref = []
    for lag in c["lags"]:
        try:
            with np.errstate(all="ignore"):
                row = calc_imp_times(RaggedArray(c["trjs"]), lag, ns, nt, lambda C: f(C, calculate_eq_probs=False),
                                     c["sliding"], c["trim"])
            ref.append([None if not np.isfinite(x) else _fr(x) for x in np.asarray(row, dtype=float).ravel()])
        except Exception as ex:
            ref.append({"err": type(ex).__name__})
    out["ref"] = ref
    return out


def _dense_counts(n, seed):
    """dense strongly connected count matrix: a lazy ring plus ~6 random hops per state (integers, as float64)"""
    rs = np.random.RandomState(seed)
    C = np.zeros((n, n))
    idx = np.arange(n)
    C[idx, idx] = rs.randint(5, 30, n)
    C[idx, (idx + 1) % n] += rs.randint(1, 9, n)
    C[idx, (idx - 1) % n] += rs.randint(1, 9, n)
    a, b = rs.randint(0, n, 6 * n), rs.randint(0, n, 6 * n)
    np.add.at(C, (a, b), rs.randint(1, 5, 6 * n))
    return C


def _arr_summary(A, A0):
    """how an array the caller holds compares with the snapshot taken before the call (small summary, no big lists)"""
    same = bool(A.shape == A0.shape and A.dtype == A0.dtype and np.array_equal(A, A0))
    out = {"same": same, "dtype": str(A.dtype), "c_contig": bool(A.flags["C_CONTIGUOUS"]), "f_contig": bool(A.flags["F_CONTIGUOUS"])}
    if not same and A.shape == A0.shape:
        with np.errstate(all="ignore"):
            D = np.abs(np.asarray(A, dtype=float) - np.asarray(A0, dtype=float))
            out["max_change"] = float(np.nanmax(D)) if np.isfinite(D).any() else None
            out["n_changed"] = int((~(D == 0)).sum())
            rs = np.asarray(A, dtype=float).sum(axis=1)
            out["rowsum_range"] = [float(np.nanmin(rs)), float(np.nanmax(rs))]
    return out


def _run_densebig(c):
    import hashlib
    from enspara.msm import builders
    from enspara.msm.transition_matrices import eigenspectrum, eq_probs
    from enspara.msm.synthetic_data import synthetic_ensemble
    n, left = c["n"], c["left"]
    C = _dense_counts(n, c["seed"])
    T0 = np.ascontiguousarray(C / C.sum(axis=1, keepdims=True), dtype=np.float64)       # the snapshot (never handed out)
    T = np.array(T0, order=c["order"], copy=True)                                       # what the caller holds
    out = {"input": {"dtype": str(T.dtype), "c_contig": bool(T.flags["C_CONTIGUOUS"]), "f_contig": bool(T.flags["F_CONTIGUOUS"]),
                     "type": type(T).__name__, "sha": hashlib.sha256(T0.tobytes()).hexdigest()[:16],
                     "rowsum_err": float(np.abs(T0.sum(axis=1) - 1).max()), "min_diag": float(T0.diagonal().min())}}
    op = (lambda v, M: v @ M) if left else (lambda v, M: M @ v)

    def digest(vals, vecs):
        vals, v = np.array(vals, dtype=float, copy=True), np.array(vecs[:, 0], dtype=float, copy=True)
        return {"vals": [float(x) for x in vals[:6]], "n_vals": int(len(vals)), "real": bool(np.isrealobj(vals) and np.isrealobj(vecs)),
                "shape": list(np.shape(vecs)), "descending": bool(np.all(np.diff(vals) <= 1e-9)),
                "sum": float(v.sum()), "min": float(v.min()), "head": [float(x) for x in v[:4]],
                "resid_snapshot": float(np.abs(op(v, T0) - vals[0] * v).max()),
                "resid_held": float(np.abs(op(v, T) - vals[0] * v).max())}, vals, v
    try:
        vals, vecs = eigenspectrum(T, n_eigs=c["n_eigs"], left=left)
        out["first"], vals1, v1 = digest(vals, vecs)
        out["arg_after_first"] = _arr_summary(T, T0)
        # the same object decomposed again (through eq_probs, or eigenspectrum once more)
        if c["second"] == "eq_probs":
            pi2 = np.array(eq_probs(T), dtype=float, copy=True)
            out["second"] = {"via": "eq_probs", "d_vec": float(np.abs(pi2 - v1).max()), "d_vals": None,
                             "resid_snapshot": float(np.abs(pi2 @ T0 - pi2).max()), "head": [float(x) for x in pi2[:4]]}
        else:
            vals2, vecs2 = eigenspectrum(T, n_eigs=c["n_eigs"], left=left)
            d2, vals2, v2 = digest(vals2, vecs2)
            out["second"] = {"via": "eigenspectrum", "d_vec": float(np.abs(v2 - v1).max()),
                             "d_vals": float(np.abs(vals2 - vals1).max()) if len(vals2) == len(vals1) else None,
                             "resid_snapshot": d2["resid_snapshot"], "head": d2["head"]}
        out["arg_after_second"] = _arr_summary(T, T0)
        # ... and propagated: row k of the history is p0 . T^k for the matrix the caller passed in
        p0 = np.zeros(n)
        p0[c["seed"] % n] = 1.0
        p_end, hist = synthetic_ensemble(T, p0, 6)
        want = [p0]
        for _ in range(5):
            want.append(want[-1] @ T0)
        hist = np.asarray(hist, dtype=float)
        out["ens"] = {"d_end": float(np.abs(np.asarray(p_end, dtype=float) - want[-1]).max()),
                      "d_hist": float(np.abs(hist - np.array(want)).max()) if hist.shape == (6, n) else None,
                      "total": float(np.asarray(p_end, dtype=float).sum())}
        out["arg_after_ens"] = _arr_summary(T, T0)
    except Exception as ex:
        out["err"] = type(ex).__name__
        out["msg"] = str(ex)[:200]
        return out
    # the function pipeline on dense counts of this size: builders.normalize hands back counts / rowsum and its populations
    try:
        Cn0 = C.astype(c["counts_dtype"])
        Cn = Cn0.copy()
        C_out, T_out, pi_out = builders.normalize(Cn)
        T_out, pi_out = np.asarray(T_out, dtype=float), np.array(pi_out, dtype=float, copy=True)
        out["norm"] = {"d_T": float(np.abs(T_out - T0).max()) if T_out.shape == T0.shape else None,
                       "rowsum_range": [float(T_out.sum(axis=1).min()), float(T_out.sum(axis=1).max())],
                       "resid": float(np.abs(pi_out @ T0 - pi_out).max()), "sum": float(pi_out.sum()),
                       "d_C": float(np.abs(np.asarray(C_out, dtype=float) - C).max()), "d_pi_first": float(np.abs(pi_out - v1).max()) if left else None,
                       "arg": _arr_summary(Cn, Cn0), "t_layout": [bool(np.asarray(T_out).flags["C_CONTIGUOUS"])]}
    except Exception as ex:
        out["norm"] = {"err": type(ex).__name__, "msg": str(ex)[:200]}
    return out


def _run_bigeig(c):
    import scipy.linalg
    import scipy.sparse as sp
    from enspara.msm.transition_matrices import eigenspectrum, eq_probs
    rs = np.random.RandomState(c["seed"])
    m = c["m"]
    rows, cols, vals = [], [], []
    for i in range(m):
        for j, w in [(i, 5), ((i + 1) % m, 2)] + [(int(rs.randint(m)), 1) for _ in range(4)]:
            rows.append(i); cols.append(j); vals.append(w + rs.randint(0, 6))
    B = sp.coo_matrix((np.array(vals, dtype=float), (rows, cols)), shape=(m, m)).tocsr()
    B = sp.diags(1.0 / np.asarray(B.sum(axis=1)).ravel()) @ B
    Fl = sp.csr_matrix(np.array([[0.02, 0.98], [0.98, 0.02]]))
    T = sp.kron(Fl, B).tocsr()
    out = {}
    try:
        vs, vecs = eigenspectrum(getattr(sp, c["fmt"])(T), n_eigs=c["n_eigs"])
        vs, vecs = np.array(vs, copy=True), np.array(vecs, copy=True)
        vd, vecd = eigenspectrum(T.toarray(), n_eigs=c["n_eigs"])
        pi = vecs[:, 0]
        out = {"vals": [float(x) for x in vs], "dense": [float(x) for x in vd],
               "resid": float(np.abs(pi @ T.toarray() - pi).max()), "sum": float(pi.sum()), "min": float(pi.min()),
               "eqp": float(np.abs(eq_probs(getattr(sp, c["fmt"])(T)) - vecd[:, 0]).max())}
        # the same decomposition asked for again (and again, on a fresh container of the same matrix) in this process:
        # a function of its arguments gives the same answer
        rep = []
        for arg in (getattr(sp, c["fmt"])(T), sp.csr_matrix(T.toarray())):
            v2, w2 = eigenspectrum(arg, n_eigs=c["n_eigs"])
            rep.append({"same": bool(np.array_equal(v2, vs) and np.array_equal(w2, vecs)),
                        "dvals": float(np.abs(np.asarray(v2) - vs).max()), "dvecs": float(np.abs(np.asarray(w2) - vecs).max()),
                        "flipped": [int(j) for j in range(vecs.shape[1])
                                    if np.abs(w2[:, j] + vecs[:, j]).max() < np.abs(w2[:, j] - vecs[:, j]).max()]})
        out["repeat"] = rep
        # the top of the full spectrum (complex), to tell apart the ways in which sparse and dense values can differ
        w = scipy.linalg.eigvals(T.toarray())
        top = w[np.argsort(-w.real)][:c["n_eigs"] + 6]
        out["spectrum"] = [[float(z.real), float(z.imag)] for z in top]
    except Exception as ex:
        out = {"err": type(ex).__name__, "msg": str(ex)[:200]}
    return out


ARPACK_KEY = "eig-sparse-misses-crowded-eigenvalue"      # tolerated class (not demanded by the property), see ASSUMPTIONS


def _sparse_dense_key(c, r):
    """sparse and dense values differ.  One specific class is a known finding of the unchanged code (ARPACK, which="LR",
    default Krylov space): every returned value is the real part of a genuine eigenvalue, the leading value agrees, and
    the eigenvalues that were skipped lie within 0.03 (real part) of the smallest returned one, with a complex pair
    among the eigenvalues crowding the cut (Arnoldi converges to the outermost eigenvalues of the bulk first: a pair
    0.619 +- 0.147i is found before 0.634 +- 0.019i).  Anything else -- a value that is no eigenvalue, a wrong leading
    value, eigenvalues skipped from farther away (which="LM"/"SR") -- is reported under eig-sparse-vs-dense."""
    spec = r.get("spectrum")
    if not spec:
        return "eig-sparse-vs-dense"
    v, dense, k = r["vals"], r["dense"], c["n_eigs"]
    re_all = [z[0] for z in spec]
    genuine = all(min(abs(x - y) for y in re_all) < 1e-7 for x in v)
    skipped = [y for y in dense if min(abs(x - y) for x in v) > 1e-7]
    crowded = bool(skipped) and all(abs(y - min(v)) < 3e-2 for y in skipped) and any(z[1] != 0 for z in spec[:k + 2])
    if genuine and abs(v[0] - dense[0]) < 1e-7 and crowded:
        return ARPACK_KEY
    return "eig-sparse-vs-dense"


def _oracle_bigeig(c, r):
    if "err" in r:
        return [("eig-no-value", "eigenspectrum on a %d-state sparse matrix raised %s %s" % (2 * c["m"], r["err"], r.get("msg")))]
    out = []
    v = r["vals"]
    if any(b > a + 1e-9 for a, b in zip(v, v[1:])):
        out.append(("eig-descending", "values %s" % v))
    if abs(v[0] - 1) > 1e-8:
        out.append(("eig-leading-one", "leading value %r" % v[0]))
    if max(abs(a - b) for a, b in zip(v, r["dense"])) > 1e-7 and _sparse_dense_key(c, r) != ARPACK_KEY:
        out.append(("eig-sparse-vs-dense", "sparse %s vs dense %s; top of the spectrum %s" % (v, r["dense"], r.get("spectrum"))))
    if r["resid"] > 1e-8 or abs(r["sum"] - 1) > 1e-8 or r["min"] < -1e-10:
        out.append(("eig-stationary", "first vector: |pi T - pi| = %.2e, sum %.8f, min %.2e" % (r["resid"], r["sum"], r["min"])))
    if r["eqp"] > 1e-8:
        out.append(("eig-stationary", "eq_probs(sparse) differs from the dense stationary vector by %.2e" % r["eqp"]))
    for i, rep in enumerate(r.get("repeat", [])):
        if not rep["same"]:
            out.append(("eig-repeatable", "call %d of eigenspectrum on the same %d-state sparse matrix (n_eigs=%d) in one process "
                        "differs from the first call: values by %.3e, vectors by %.3e, vectors with flipped sign %s" % (
                            i + 2, 2 * c["m"], c["n_eigs"], rep["dvals"], rep["dvecs"], rep["flipped"])))
    return out


def run_impl(c):
    k = c["kind"]
    if k == "bigeig":
        with np.errstate(all="ignore"):
            return _run_bigeig(c)
    if k == "densebig":
        with np.errstate(all="ignore"):
            return _run_densebig(c)
    with np.errstate(all="ignore"):
        if k == "hist":
            return _run_hist(c)
        if k == "fit":
            return _run_fit(c)
        if k == "eig":
            return _run_eig(c)
        if k == "ens":
            return _run_ens(c)
        return _run_imp(c)


# ----------------------------------------------------------------------------- oracle
def _F(x):
    return Fraction(x)


def _close(a, b, tol=TOL):
    return abs(a - b) <= tol * max(1, abs(b))


@functools.lru_cache(maxsize=1)
def _io_table():
    """(key, file name) pairs and manifest name as translated from the current source of MSM.save"""
    try:
        import core
        from pyast import parse_file, find_func
        tree, _ = parse_file(core.REPO, tr_spectrum.REL_MSM)
        names, _rows, man = tr_spectrum.tr_save(find_func(tree, "save", tr_spectrum.REL_MSM, cls="MSM"))
        return [(k, v) for k, v in names], man
    except Exception:
        return None, None           # a rejected source is reported by the translator step


def _oracle_fit(c, r):
    out = []
    est, pipe = r["est"], r["pipe"]
    if ("err" in est) != ("err" in pipe):
        out.append(("fit-eq-pipeline", "estimator %s but function pipeline %s" % (
            est.get("err", "returns a model"), pipe.get("err", "returns a model"))))
        return out
    if "err" in est:
        return out
    if r["attrs"] != [c["lag"], c["trim"], c["sliding"], c["maxn"]]:
        out.append(("init-keeps-args", "constructor arguments (lag, trim, sliding, max_n_states) = %s stored as %s" % (
            [c["lag"], c["trim"], c["sliding"], c["maxn"]], r["attrs"])))
    for f, name in (("C", "counts"), ("T", "probabilities"), ("pi", "populations"), ("keep", "mapping"),
                    ("to_original", "mapping"), ("to_mapped", "mapping"), ("kinds", "container"), ("pi_shape", "populations")):
        if est[f] != pipe[f]:
            out.append(("fit-eq-pipeline", "%s differ: estimator %s, assigns_to_counts->%sbuilder %s" % (
                name, str(est[f])[:160], "trim_disconnected->" if c["trim"] else "", str(pipe[f])[:160])))
    n = len(est["C"])
    if not (len(est["T"]) == n and len(est["keep"]) == n and (est["pi"] is None or len(est["pi"]) == n)):
        out.append(("fit-shapes", "attributes disagree on the number of states"))
    if not c["trim"] and est["keep"] != list(range(n)):
        out.append(("mapping-identity", "untrimmed model has mapping %s" % est["to_original"]))
    if c["trim"] is False and c["maxn"] is not None and n != c["maxn"]:
        out.append(("fit-shapes", "max_n_states=%s but %d states" % (c["maxn"], n)))
    rt = r.get("rt")
    if rt is not None:
        if "err" in rt:
            out.append(("roundtrip", "save/load raised %s" % rt["err"]))
        else:
            for f in ("eq_op", "config", "counts", "probs", "pops", "mapping", "n_states", "pickle"):
                if rt[f] is False:
                    out.append(("roundtrip-" + f, "MSM.load(MSM.save(m)) differs from m in: %s %s" % (
                        f, rt.get("config_detail") if f == "config" else "")))
            # the directory on disk is the attribute <-> file table that the translator read off MSM.save
            # (Gen/MsmAuxGen.v gen_default_fnames / gen_manifest_save, proved equal to Model/MsmIO.v)
            names, man = _io_table()
            if names is not None and "manifest" in rt:
                if [list(x) for x in rt["manifest"]] != [list(x) for x in sorted(names)] or rt.get("files") != sorted([v for _, v in names] + [man]):
                    out.append(("roundtrip-files", "manifest %s / files %s on disk, MSM.save's table says %s + %s" % (
                        rt["manifest"], rt.get("files"), names, man)))
            if rt["force"] is not True:
                out.append(("roundtrip-force", "save(force=True) over an existing model: %s" % rt["force"]))
    return out


def _oracle_eig(c, r):
    out = []
    T = [[_F(x) for x in row] for row in r["T"]]
    n = len(T)
    o = r["out"]
    ne = c["n_eigs"]
    if ne is not None and ne < 2:
        if "err" not in o:
            out.append(("eig-error-clause", "n_eigs=%s accepted" % ne))
        return out
    if "err" in o:
        out.append(("eig-error-clause", "valid input rejected: %s" % o["err"]))
        return out
    k = n if ne is None else min(ne, n)
    vals = [_F(x) for x in o["vals"]]
    vecs = [[_F(x) for x in v] for v in o["vecs"]]
    if not o["real"] or len(vals) != k or len(vecs) != k or any(len(v) != n for v in vecs):
        out.append(("eig-shape", "not real or wrong shape: %s" % o["shape"]))
        return out
    # trusted part, validated: raw pairs are eigenpairs of T^T
    Tf = np.array([[float(x) for x in row] for row in T])
    for lam, v in zip(r["raw_vals"], r["raw_vecs"]):
        z = complex(float(_F(lam[0])), float(_F(lam[1])))
        vv = np.array([complex(float(_F(a)), float(_F(b))) for a, b in v])
        if np.max(np.abs(vv @ Tf - z * vv)) > 1e-9:
            out.append(("eig-solver", "LAPACK pair has residual > 1e-9 (trusted component misbehaves)"))
    if any(vals[i] < vals[i + 1] for i in range(k - 1)):
        out.append(("eig-descending", "eigenvalues not in descending order: %s" % [float(x) for x in vals]))
    if not _close(vals[0], Fraction(1)):
        out.append(("eig-leading-one", "leading eigenvalue %s" % float(vals[0])))
    raw_re = sorted((_F(x[0]) for x in r["raw_vals"]), reverse=True)[:k]
    if any(not _close(a, b) for a, b in zip(vals, raw_re)):
        out.append(("eig-values", "returned values are not the %d largest real parts of the spectrum" % k))
    v0 = vecs[0]
    if not _close(sum(v0), Fraction(1)):
        out.append(("eig-first-sums-to-one", "first vector sums to %s" % float(sum(v0))))
    for j in range(n):
        if not _close(sum(v0[i] * T[i][j] for i in range(n)), v0[j]):
            out.append(("eig-stationary", "first left eigenvector is not stationary in component %d" % j))
            break
    if any(x < -Fraction(1, 10 ** 9) for x in v0):
        out.append(("eig-stationary", "stationary vector has a negative entry"))
    if c.get("flavour") == "nearsym":
        out += _oracle_nearsym(c, r, T, vals, vecs, k)
    return out


TIGHT = Fraction(1, 10 ** 13)        # unchanged code: residuals <= 1e-15 on these chains (measured), 100x margin
PI_REL = Fraction(1, 2)              # unchanged code: <= 1.3e-2 on 3000 such chains (eps / spectral gap), 40x margin;
                                     # a solver that symmetrises the matrix is off by >= 2.1 (weights 16/3 : 1 vs 1 : 1)


def _oracle_nearsym(c, r, T, vals, vecs, k):
    """rare-event chains whose asymmetry (crossing probabilities 2^-30 .. 2^-37) is below the absolute tolerances used
    elsewhere: residuals are judged at the scale of the doubles, the stationary vector against the exact one"""
    out = []
    n = len(T)
    pi = _exact_stationary(T)
    what = "near-symmetric chain (np.allclose(T, T.T) is %s; smallest crossing %.2e)" % (
        r.get("allclose_sym"), float(min(x for row in T for x in row if x > 0)))

    def judge(v, name, key):
        res = max(abs(sum(v[i] * T[i][j] for i in range(n)) - v[j]) for j in range(n))
        if res > TIGHT:
            out.append((key, "%s: %s is not stationary: max |v T - v| = %.3e" % (what, name, float(res))))
        rel = max(abs(a - b) / b for a, b in zip(v, pi))
        if rel > PI_REL:
            out.append((key, "%s: %s = %s but the stationary distribution is %s (relative error %.2f)" % (
                what, name, [round(float(x), 6) for x in v], [round(float(x), 6) for x in pi], float(rel))))
    judge(vecs[0], "first left eigenvector", "eig-stationary")
    if abs(vals[0] - 1) > TIGHT * 10:
        out.append(("eig-leading-one", "%s: leading eigenvalue 1 %+.3e" % (what, float(vals[0] - 1))))
    raw_re = sorted((_F(x[0]) for x in r["raw_vals"]), reverse=True)[:k]
    if any(abs(a - b) > TIGHT * 10 for a, b in zip(vals, raw_re)):
        out.append(("eig-values", "%s: returned values differ from the spectrum by %.3e" % (
            what, max(float(abs(a - b)) for a, b in zip(vals, raw_re)))))
    if all(_F(z[1]) == 0 for z in r["raw_vals"]):
        for j, (lam, v) in enumerate(zip(vals, vecs)):
            res = max(abs(sum(v[i] * T[i][q] for i in range(n)) - lam * v[q]) for q in range(n))
            if res > TIGHT * 10 * max(abs(x) for x in v):
                out.append(("eig-pairs", "%s: pair %d (value %.12f) is not a left eigenpair: residual %.3e" % (
                    what, j, float(lam), float(res))))
                break
    e = r.get("eqp")
    if isinstance(e, dict):
        out.append(("eig-stationary", "%s: eq_probs raised %s" % (what, e["err"])))
    elif e is not None:
        judge([_F(x) for x in e], "eq_probs(T)", "eig-stationary")
    return out


def _oracle_hist(c, r):
    out = []
    names = []
    for k, (st, rec) in enumerate(zip(c["steps"], r["steps"])):
        names.append("fit(%d traj, %d states, trim=%s, lag=%d, sliding=%s, max_n_states=%s, %s)" % (
            len(st["trjs"]), max(max(t) for t in st["trjs"]) + 1, st["trim"], st["lag"], st["sliding"], st["maxn"], st["builder"]))
        rr = dict(rec)
        rr.setdefault("attrs", [st["lag"], st["trim"], st["sliding"], st["maxn"]])
        for key, msg in _oracle_fit(st, rr):
            out.append(("history-" + key, "one MSM object, step %d of: %s%s -- %s" % (
                k + 1, " -> ".join(names), "" if k == 0 else " (parameters %s changed through %s)" % (
                    rec.get("changed"), st["how"]), msg)))
        if "err" not in rec["est"] and rec.get("n_states") != len(rec["est"]["C"]):
            out.append(("history-fit-shapes", "step %d: n_states_ = %s but %d states" % (k + 1, rec.get("n_states"), len(rec["est"]["C"]))))
    return out


def _oracle_ens(c, r):
    out = []
    T = [[_F(x) for x in row] for row in c["T"]]
    p = [_F(x) for x in c["p0"]]
    n = len(T)
    iters = max(c["n_steps"] - 1, 0)
    bad = (len(p) != n and iters > 0) or (c["obs"] is not None and len(c["obs"]) != len(p))
    if bad:
        if "err" not in r:
            out.append(("ens-error-clause", "mis-shaped input accepted"))
        return out
    if "err" in r:
        out.append(("ens-error-clause", "valid input rejected: %s" % r["err"]))
        return out
    traj = [p]
    for _ in range(iters):
        p = [sum(p[i] * T[i][j] for i in range(n)) for j in range(n)]
        traj.append(p)
    tol = Fraction(0) if c["dyadic"] else TOL
    if len(r["p"]) != len(p) or any(abs(_F(a) - b) > tol * max(1, abs(b)) for a, b in zip(r["p"], p)):
        out.append(("ens-power", "final populations differ from p0 . T^%d" % iters))
    if c["obs"] is None:
        got = r["obs"]
        if r["ndim"] != 2 or len(got) != len(traj) or any(
                len(g) != len(e) or any(abs(_F(a) - b) > tol * max(1, abs(b)) for a, b in zip(g, e))
                for g, e in zip(got, traj)):
            out.append(("ens-trajectory", "row k of the output is not p0 . T^k"))
    else:
        ob = [_F(x) for x in c["obs"]]
        exp = [sum(a * b for a, b in zip(q, ob)) for q in traj]
        if r["ndim"] != 1 or len(r["obs"]) != len(exp) or any(
                abs(_F(a) - b) > tol * max(1, abs(b)) for a, b in zip(r["obs"], exp)):
            out.append(("ens-observable", "observable series is not (p0 . T^k) . obs"))
    if not r["p0_unchanged"]:
        out.append(("ens-input-mutated", "init_pops was modified"))
    return out


def _oracle_imp_rows(c, r, nt):
    """the result has one row per entry of lag_times -- repeated entries included, in the order given -- and row i is
    the single-lag computation for lag_times[i]"""
    out = []
    lags = c["lags"]
    what = "lag_times=%s (%s)" % (lags, ", ".join(
        (["repeated entries"] if len(set(lags)) < len(lags) else []) + (["not sorted"] if lags != sorted(lags) else [])) or "sorted, distinct")
    shape = r.get("shape") or []
    if len(shape) < 1 or shape[0] != len(lags):
        out.append(("imp-rows", "%s has %d entries but the result has shape %s (expected %d rows, one per entry): rows no "
                    "longer line up with the lag times" % (what, len(lags), tuple(shape), len(lags))))
    rows, ref = r.get("times"), r.get("ref")
    if rows is None or ref is None:
        return out

    def same(a, b):
        if a is None or b is None:
            return a is None and b is None
        a, b = float(_F(a)), float(_F(b))
        return abs(a - b) <= 1e-9 * max(1.0, abs(b))
    for i, lag in enumerate(lags):
        if i >= len(rows) or isinstance(ref[i], dict):
            continue
        if len(rows[i]) != len(ref[i]) or not all(same(a, b) for a, b in zip(rows[i], ref[i])):
            out.append(("imp-row-vs-lag", "%s: row %d of implied_timescales is %s, calc_imp_times for lag_times[%d]=%d gives %s%s" % (
                what, i, [None if x is None else float(_F(x)) for x in rows[i]], i, lag,
                [None if x is None else float(_F(x)) for x in ref[i]],
                "" if not any(isinstance(q, list) and len(q) == len(rows[i]) and all(same(a, b) for a, b in zip(rows[i], q))
                              for q in ref) else " (the row belongs to lag time %d)" % next(
                    l2 for l2, q in zip(lags, ref) if isinstance(q, list) and len(q) == len(rows[i]) and all(same(a, b) for a, b in zip(rows[i], q))))))
            break
    for i in range(min(len(rows), len(lags))):
        for j in range(i + 1, min(len(rows), len(lags))):
            if lags[i] == lags[j] and rows[i] != rows[j]:
                out.append(("imp-duplicate-rows", "%s: rows %d and %d are both for lag time %d but differ" % (what, i, j, lags[i])))
                return out
    return out


def _oracle_densebig(c, r):
    """dense ndarray with >= 1000 states: spectrum sound; the caller's matrix is an input, not a work area; a function of
    its arguments gives the same answer twice; later uses of the same matrix see the same matrix"""
    out = []
    inp = r.get("input", {})
    what = "dense %s ndarray, %d states, %s-ordered (strongly connected lazy ring + random hops, _dense_counts(%d, %d) row-normalised), left=%s, n_eigs=%s" % (
        inp.get("dtype"), c["n"], c["order"], c["n"], c["seed"], c["left"], c["n_eigs"])
    if "err" in r:
        return [("eig-no-value", "%s: %s %s" % (what, r["err"], r.get("msg")))]
    TOL8 = 1e-8
    f = r["first"]
    k = c["n"] if c["n_eigs"] is None else min(c["n_eigs"], c["n"])
    if not f["real"] or f["n_vals"] != k or f["shape"] != [c["n"], k]:
        out.append(("eig-shape", "%s: not real or wrong shape: %d values, vectors %s" % (what, f["n_vals"], f["shape"])))
    if not f["descending"]:
        out.append(("eig-descending", "%s: values %s" % (what, f["vals"])))
    if abs(f["vals"][0] - 1) > TOL8:
        out.append(("eig-leading-one", "%s: leading value %r" % (what, f["vals"][0])))
    name = "left" if c["left"] else "right"
    if not (f["resid_snapshot"] <= TOL8) or abs(f["sum"] - 1) > TOL8 or f["min"] < -1e-10:
        out.append(("eig-stationary", "%s: first %s eigenvector: residual %.3e against the matrix as passed in, sum %.10f, min %.2e" % (
            what, name, f["resid_snapshot"], f["sum"], f["min"])))
    if not (f["resid_held"] <= TOL8):
        out.append(("eig-stationary", "%s: the returned first %s eigenvector is not %s for the T the caller holds after the call: "
                    "max |%s - v| = %.3e" % (what, name, "stationary" if c["left"] else "invariant", "v T" if c["left"] else "T v", f["resid_held"])))
    for stage, label in (("arg_after_first", "eigenspectrum(T)"),
                         ("arg_after_second", "%s(T) on the same object" % r["second"]["via"]),
                         ("arg_after_ens", "synthetic_ensemble(T, p0, 6)")):
        a = r[stage]
        if not a["same"]:
            out.append(("argument-modified", "%s: %s changed the caller's transition matrix in place (max abs change %s, %s entries, "
                        "row sums now in %s; dtype %s, C-contiguous %s)" % (what, label, a.get("max_change"), a.get("n_changed"),
                                                                            a.get("rowsum_range"), a["dtype"], a["c_contig"])))
            break
    s2 = r["second"]
    if not (s2["d_vec"] <= TOL8) or (s2["d_vals"] is not None and not (s2["d_vals"] <= TOL8)) or not (s2["resid_snapshot"] <= TOL8):
        out.append(("eig-repeatable", "%s: decomposing the same matrix object twice (second time through %s) gives different answers: "
                    "first vectors differ by %.3e, values by %s; second vector's residual against the matrix as passed in %.3e; "
                    "first entries %s vs %s" % (what, s2["via"], s2["d_vec"], s2["d_vals"], s2["resid_snapshot"], f["head"], s2["head"])))
    e = r["ens"]
    if e["d_hist"] is None or not (e["d_end"] <= 1e-9) or not (e["d_hist"] <= 1e-9):
        out.append(("ens-power", "%s: after the decomposition, synthetic_ensemble(T, p0, 6) is not p0 . T^5 for the matrix passed in: "
                    "max abs difference %.3e (history %s), total population %.6g" % (what, e["d_end"], e["d_hist"], e["total"])))
    nm = r.get("norm")
    if nm is not None:
        whatn = "builders.normalize on dense %s counts, %d states (_dense_counts(%d, %d))" % (c["counts_dtype"], c["n"], c["n"], c["seed"])
        if "err" in nm:
            out.append(("pipeline-normalize-dense", "%s raised %s %s" % (whatn, nm["err"], nm.get("msg"))))
        else:
            if nm["d_T"] is None or not (nm["d_T"] <= 1e-12) or not (nm["d_C"] == 0):
                out.append(("pipeline-normalize-dense", "%s: returned transition probabilities are not counts/rowsum (max abs difference %s, "
                            "row sums in %s; returned counts differ by %s)" % (whatn, nm["d_T"], nm["rowsum_range"], nm["d_C"])))
            if not (nm["resid"] <= TOL8) or abs(nm["sum"] - 1) > TOL8:
                out.append(("pipeline-normalize-dense", "%s: populations not stationary for counts/rowsum: residual %.3e, sum %.10f" % (
                    whatn, nm["resid"], nm["sum"])))
            if not nm["arg"]["same"]:
                out.append(("argument-modified", "%s changed the caller's count matrix in place (max abs change %s)" % (
                    whatn, nm["arg"].get("max_change"))))
    return out


def _oracle_imp(c, r):
    out = []
    ns = max(max(t) for t in c["trjs"]) + 1
    if "err" in r:
        if c["trim"] and r["err"] == "ValueError" and "inhomogeneous" in (r.get("msg") or ""):
            return out      # trimming left different numbers of states at different lags: ragged rows (ASSUMPTIONS)
        out.append(("imp-error", "implied_timescales raised %s %s" % (r["err"], r.get("msg"))))
        return out
    nt = c["n_times"] if c["n_times"] is not None else ns // 10 + 1
    nt = min(nt, ns - 1)
    out += _oracle_imp_rows(c, r, nt)
    if len(r["T"]) != len(c["lags"]):
        out.append(("imp-shape", "builder called %d times for %d lag times" % (len(r["T"]), len(c["lags"]))))
        return out
    for li, lag in enumerate(c["lags"]):
        # the counts handed to the builder are those of the function pipeline with this lag
        exp = _final_candidates({"trjs": c["trjs"], "lag": lag, "sliding": c["sliding"], "maxn": ns, "trim": c["trim"]})
        if r["Cin"][li] not in [[[x for x in row] for row in M] for M in exp]:
            out.append(("imp-counts", "lag %d: builder received %s, pipeline gives %s" % (lag, r["Cin"][li], exp[:1])))
        spec = r["spectra"][li]
        if spec is None or r["times"] is None:
            out.append(("imp-shape", "no spectrum / ragged result"))
            continue
        row = r["times"][li]
        lam = spec[1:nt + 1]
        if len(row) != len(lam):
            out.append(("imp-shape", "lag %d: %d timescales, expected %d" % (lag, len(row), len(lam))))
            continue
        for t, l in zip(row, lam):
            if l <= 0 or l >= 1:
                if t is not None and l < 0:
                    out.append(("imp-formula", "eigenvalue %r < 0 gave a finite timescale" % l))
                continue
            e = -lag / math.log(l)
            if t is None or abs(float(_F(t)) - e) > 1e-9 * max(1.0, abs(e)):
                out.append(("imp-formula", "lag %d eigenvalue %r: timescale %s, -lag/log = %r" % (
                    lag, l, None if t is None else float(_F(t)), e)))
            elif float(_F(t)) <= 0:
                out.append(("imp-positive", "timescale %r not positive for eigenvalue %r" % (float(_F(t)), l)))
    return out


def oracle(c, r):
    if "err" in r and str(r["err"]).startswith("Unexpected"):
        return [("harness", "run_impl failed: %s %s" % (r["err"], r.get("msg")))]
    if c["kind"] == "bigeig":
        return _oracle_bigeig(c, r)
    if c["kind"] == "densebig":
        return _oracle_densebig(c, r)
    return {"fit": _oracle_fit, "eig": _oracle_eig, "ens": _oracle_ens, "imp": _oracle_imp, "hist": _oracle_hist}[c["kind"]](c, r)


# ----------------------------------------------------------------------------- Coq side
def _cqs(s):
    return cq(_F(s))


def _cmat(M):
    return clist(M, lambda r: clist(r, _cqs, "Q"), "(list Q)")


def _cvec(v):
    return clist(v, _cqs, "Q")


def _ctrjs(trjs):
    return clist(trjs, lambda t: clist(t, cz, "Z"), "(list Z)")


def _cbname(b):
    return {"normalize": "Normalize", "transpose": "Transpose", "mle": "Mle"}[b]


def _cmethod(c):
    if c["by"] == "name":
        return "(ByName %s)" % _cbname(c["builder"])
    return "(ByCallable {| bf_name := %s; bf_eq := %s |})" % (_cbname(c["builder"]), cb(c["eq"]))


def _cself(c):
    return "(init %s %s %s %s %s)" % (cz(c["lag"]), _cmethod(c), cb(c["trim"]), cb(c["sliding"]), copt(c["maxn"], cz, "Z"))


def _cdict(items):
    return clist(items, lambda kv: "(%s, %s)" % (cn(kv[0]), cn(kv[1])), "(nat * nat)")


def _X(c, r):
    if c["builder"] != "mle" or r is None or "err" in r["est"] or r.get("mle_pi") is None:
        return "(@nil (list Q))"
    return "(Builders.sym_of %s %s)" % (_cvec(r["mle_pi"]), _cmat(r["est"]["T"]))


def _coq_fit(c, r):
    est = r["est"]
    if "err" in est:
        exp = "(@None fit_result)"
    else:
        pi = "(@None (list Q))" if est["pi"] is None else "(Some %s)" % _cvec(est["pi"])
        exp = "(Some (observed_mapping %s %s %s, (%s, %s, %s)))" % (
            clist(est["keep"], cn, "nat"), _cdict(est["to_original"]), _cdict(est["to_mapped"]),
            _cmat(est["C"]), _cmat(est["T"]), pi)
    return "fit_agrees %s %s %s %s" % (_X(c, r), _cself(c), _ctrjs(c["trjs"]), exp)


def _ccplx(z):
    return "(%s, %s)" % (_cqs(z[0]), _cqs(z[1]))


def _eig_model(c, r):
    return "(eig_post %s %s %s)" % (copt(c["n_eigs"], cz, "Z"), clist(r["raw_vals"], _ccplx, "cplx"),
                                    clist(r["raw_vecs"], lambda v: clist(v, _ccplx, "cplx"), "(list cplx)"))


def _coq_eig(c, r):
    o = r["out"]
    if "err" in o:
        exp = "(@None (list Q * list (list Q)))"
    else:
        exp = "(Some (%s, %s))" % (_cvec(o["vals"]), _cmat(o["vecs"]))
    # the same comparison for the function regenerated from the source (guard, solver choice on the transposed
    # input, post-processing), with LAPACK's raw output as the solver's answer
    raw = "(%s, %s)" % (clist(r["raw_vals"], _ccplx, "cplx"), clist(r["raw_vecs"], lambda v: clist(v, _ccplx, "cplx"), "(list cplx)"))
    T = "(%s, %s)" % (cb(c["sparse"]), _cmat(r["T"]))
    gen = "(gen_eigenspectrum lmx_ops (fun _ => %s) %s %s eig_default_left eig_default_maxiter eig_default_tol)" % (
        raw, T, copt(c["n_eigs"], cz, "Z"))
    dense = "(is_call_eig (gen_solver lmx_ops %s 2%%Z eig_default_left eig_default_maxiter eig_default_tol))" % T
    return "(qpair_close %s %s && qpair_close %s %s && %s)%%bool" % (_eig_model(c, r), exp, gen, exp, dense)


def _ens_model(c):
    if c["obs"] is None:
        return "(ensemble %s %s %s)" % (_cmat(c["T"]), _cvec(c["p0"]), cz(c["n_steps"]))
    return "(ensemble_obs %s %s %s %s)" % (_cmat(c["T"]), _cvec(c["p0"]), cz(c["n_steps"]), _cvec(c["obs"]))


def _ens_gen(c):
    """synthetic_ensemble as regenerated from the source (Gen/MsmSpecGen.v)"""
    if c["obs"] is None:
        return "(gen_ensemble %s %s %s %s)" % (cb(c["sparse"]), _cmat(c["T"]), _cvec(c["p0"]), cz(c["n_steps"]))
    return "(gen_ensemble_obs %s %s %s %s %s)" % (cb(c["sparse"]), _cmat(c["T"]), _cvec(c["p0"]), cz(c["n_steps"]),
                                                 _cvec(c["obs"]))


def _coq_ens(c, r):
    if c["obs"] is None:
        exp = "(@None (list Q * list (list Q)))" if "err" in r else "(Some (%s, %s))" % (_cvec(r["p"]), _cmat(r["obs"]))
        cmp_ = "ens_eqb" if c["dyadic"] else "qpair_close"
    else:
        exp = "(@None (list Q * list Q))" if "err" in r else "(Some (%s, %s))" % (_cvec(r["p"]), _cvec(r["obs"]))
        cmp_ = "ens_obs_eqb" if c["dyadic"] else \
            "(fun a b => match a, b with Some (x, y), Some (u, v) => Builders.vec_close tol9 x u && Builders.vec_close tol9 y v | None, None => true | _, _ => false end)"
    return "(%s %s %s && %s %s %s)%%bool" % (cmp_, _ens_model(c), exp, cmp_, _ens_gen(c), exp)


def _imp_terms(c, r):
    b = "{| bf_name := %s; bf_eq := false |}" % _cbname(c["builder"])
    a = _ctrjs(c["trjs"])
    return ["(imp_tprobs [] %s %s %s (imp_n_states %s) %s %s)" % (b, a, cz(lag), a, cb(c["sliding"]), cb(c["trim"]))
            for lag in c["lags"]]


def _coq_imp(c, r):
    if "err" in r or r["times"] is None or len(r["T"]) != len(c["lags"]):
        return None
    ns = max(max(t) for t in c["trjs"]) + 1
    parts = ["optmat_close %s (Some %s)" % (m, _cmat(T)) for m, T in zip(_imp_terms(c, r), r["T"])]
    if not c["trim"]:    # (trimming may leave fewer states than timescales asked for)
        parts.append("(Z.eqb (imp_n_times (imp_n_states %s) %s) %s)" % (
            _ctrjs(c["trjs"]), copt(c["n_times"], cz, "Z"), cz(r["shape"][1])))
    # implied_timescales as regenerated from the source: the arguments of each calc_imp_times call
    # (lag, n_states, n_times, sliding_window, trim), in lag-time order
    a = _ctrjs(c["trjs"])
    rec = "(fun (a : assigns) t ns nt (m : unit) sl tr => [t; ns; %sb2z sl; b2z tr]%%Z)" % ("" if c["trim"] else "nt; ")
    exp = clist([[lag, ns] + ([] if c["trim"] else [r["shape"][1]]) + [int(c["sliding"]), int(c["trim"])] for lag in c["lags"]],
                lambda row: clist(row, cz, "Z"), "(list Z)")
    parts.append("(zll_eqb (gen_implied_timescales (fun a => (imp_n_states a - 1)%%Z) %s %s %s tt %s %s %s) %s)" % (
        rec, a, clist(c["lags"], cz, "Z"), copt(c["n_times"], cz, "Z"), cb(c["sliding"]), cb(c["trim"]), exp))
    return "(" + " && ".join(parts) + ")%bool"


def _tie(c, r):
    cands = _final_candidates(c)
    return c["kind"] == "fit" and cands is not None and len(cands) > 1


def coq_check(c, r):
    if c["kind"] in ("bigeig", "densebig"):
        return None        # 1000+ states: oracle only
    if "err" in r and str(r["err"]).startswith("Unexpected"):
        return None
    k = c["kind"]
    if k == "hist":
        # the last two fits of the history against the model of a fresh estimator with the settings then in force
        parts = [_coq_fit(st, rec) for st, rec in list(zip(c["steps"], r["steps"]))[-2:]]
        return "(" + " && ".join("(%s)" % p for p in parts) + ")%bool"
    if k == "fit":
        return _coq_fit(c, r)
    if k == "eig":
        return _coq_eig(c, r)
    if k == "ens":
        return _coq_ens(c, r)
    if k == "imp" and c["trim"]:
        # a tie between components may be broken differently by SciPy: the oracle's imp-counts clause covers it
        for lag in c["lags"]:
            ns = max(max(t) for t in c["trjs"]) + 1
            cands = _final_candidates({"trjs": c["trjs"], "lag": lag, "sliding": c["sliding"], "maxn": ns, "trim": True})
            if cands is None or len(cands) > 1:
                return None
    return _coq_imp(c, r)


def coq_show(c):
    k = c["kind"]
    if k in ("bigeig", "densebig"):
        return "tt"
    if k == "hist":
        st = c["steps"][-1]
        return "option_map (fun m : fit_result => Trim.tr_keep (fst m)) (msm_fit (@nil (list Q)) %s %s)" % (
            _cself(st), _ctrjs(st["trjs"]))
    if k == "fit":
        try:
            r = run_impl(c)
        except Exception:
            r = None
        return "option_map (fun m : fit_result => (Trim.tr_keep (fst m), Builders.result_red (Some (snd m)))) (msm_fit %s %s %s)" % (
            _X(c, r), _cself(c), _ctrjs(c["trjs"]))
    if k == "eig":
        return "option_map (fun r => (map Qred (fst r), Builders.mat_red (snd r))) " + _eig_model(c, run_impl(c))
    if k == "ens":
        return _ens_model(c)
    return clist(_imp_terms(c, None), lambda x: "option_map Builders.mat_red " + x)


def nontrivial(c, r):
    k = c["kind"]
    if k == "bigeig":
        return "err" not in r
    if k == "densebig":
        return "err" not in r and "err" not in r.get("norm", {"err": 1})
    if k == "hist":
        good = [rec for rec in r.get("steps", []) if "err" not in rec["est"] and len(rec["est"]["C"]) >= 2]
        return len(good) >= 2
    if k == "fit":
        e = r.get("est", {})
        return "err" not in e and len(e["C"]) >= 2 and sum(_F(x) for row in e["C"] for x in row) >= 3
    if k == "eig":
        return len(c["M"] if c.get("M") is not None else c["Tq"]) >= 3 and "err" not in r.get("out", {"err": 1})
    if k == "ens":
        return "err" not in r and c["n_steps"] >= 3 and len(c["T"]) >= 2
    return "err" not in r and r["times"] is not None and any(x is not None for row in r["times"] for x in row)


def tags(c, r):
    k = c["kind"]
    t = ["kind:" + k]
    if k == "bigeig":
        return t + ["arpack-1000-states"] + (["arpack-repeated-calls"] if r.get("repeat") else []) + (
            ["arpack-crowded-cut-tolerated"] if ("vals" in r and max(abs(a - b) for a, b in zip(r["vals"], r["dense"])) > 1e-7
                                                and _sparse_dense_key(c, r) == ARPACK_KEY) else [])
    if k == "densebig":
        inp = r.get("input", {})
        t.append("dense-1000-states")
        t.append("dense-order-%s" % c["order"])
        t.append("dense-left" if c["left"] else "dense-right")
        if inp.get("type") == "ndarray" and inp.get("dtype") == "float64" and inp.get("c_contig") and c["n"] >= 1000 and c["left"]:
            t.append("dense-c-contiguous-float64-left")
        if "arg_after_first" in r and "arg_after_second" in r:
            t.append("dense-argument-unchanged-checked")
        if "second" in r:
            t += ["dense-call-twice", "dense-second-via-" + r["second"]["via"]]
        if "ens" in r:
            t.append("dense-ensemble-after-decomposition")
        if "norm" in r and "err" not in r["norm"]:
            t.append("dense-normalize-pipeline")
        return t
    if k == "hist":
        steps, recs = c["steps"], r.get("steps", [])
        t.append("hist-steps=%d" % len(steps))
        for i in range(1, min(len(steps), len(recs))):
            a, b, ra, rb = steps[i - 1], steps[i], recs[i - 1], recs[i]
            t.append("hist-" + b["how"])
            for f in ("trim", "lag", "sliding", "maxn"):
                if a[f] != b[f]:
                    t.append("hist-change-" + f)
            if (a["builder"], a["eq"]) != (b["builder"], b["eq"]):
                t.append("hist-change-method")
            if a["trjs"] != b["trjs"]:
                t.append("hist-change-data")
                if max(max(x) for x in a["trjs"]) != max(max(x) for x in b["trjs"]):
                    t.append("hist-change-state-count")
            else:
                t.append("hist-same-data")
            if "err" in rb["est"]:
                t.append("hist-step-rejects")
            elif "err" not in ra["est"]:
                ka = ra["est"]["keep"]
                if a["trim"] and not b["trim"]:
                    t.append("hist-trim-on-to-off")
                    if ka != list(range(len(ka))) and len(rb["est"]["keep"]) == len(ka):
                        t.append("hist-renumbered-then-untrimmed-same-size")
                if not a["trim"] and b["trim"]:
                    t.append("hist-trim-off-to-on")
                if a["trim"] and b["trim"] and ka != rb["est"]["keep"]:
                    t.append("hist-trim-mapping-changes")
        return sorted(set(t))
    if k == "fit":
        t += ["builder:" + c["builder"], "by:" + c["by"], "trim-on" if c["trim"] else "trim-off",
              "sliding" if c["sliding"] else "strided", "maxn-given" if c["maxn"] is not None else "maxn-inferred",
              "lag=%d" % c["lag"], "eq-on" if c["eq"] else "eq-off", "ctor:" + c["ctor"]]
        e = r.get("est", {"err": "-"})
        if "err" in e:
            t.append("fit-rejects")
        else:
            t.append("kept=%d" % min(len(e["keep"]), 5))
            if c["trim"]:
                mx = max(max(x) for x in c["trjs"])
                n0 = c["maxn"] if c["maxn"] is not None else mx + 1
                if len(e["keep"]) < n0:
                    t.append("trim-removes-states")
                if e["keep"] != list(range(len(e["keep"]))):
                    t.append("trim-renumbers")
            if _tie(c, r):
                t.append("trim-weight-tie")
            if c["lag"] >= 1 and any(len(x) <= c["lag"] for x in c["trjs"]) and any(len(x) > c["lag"] for x in c["trjs"]):
                t.append("fit-short-trajectory")
            if _short_top(c):
                t += ["fit-short-top-trajectory", "fit-short-top-trimmed" if c["trim"] else "fit-short-top-untrimmed"]
            if c["lag"] >= 1 and _final_candidates(c) is not None:
                mx = max(max(x) for x in c["trjs"])
                n0 = c["maxn"] if c["maxn"] is not None else mx + 1
                M0 = [row[:n0] for row in _counts(c["trjs"], c["lag"], c["sliding"], max(n0, mx + 1))[:n0]]
                ncl = _closed_components(M0)
                if ncl >= 2:
                    t.append("fit-closed-islands-trim-on" if c["trim"] else "fit-closed-islands-trim-off")
                    if c["trim"] and ncl == len(_components(M0)):
                        t.append("fit-only-closed-islands-trim-on")       # no state without a count to / from another state
                        if not _tie(c, r):
                            t.append("fit-only-closed-islands-unequal-weight")
            if "rt" in r and "err" not in r["rt"]:
                t.append("roundtrip-run")
    elif k == "eig":
        if c["flavour"] == "nearsym" and r.get("allclose_sym"):
            t.append("eig-allclose-symmetric-but-not-symmetric")
        t += ["eig:" + c["flavour"], "eig-sparse" if c["sparse"] else "eig-dense",
              "n_eigs:" + ("none" if c["n_eigs"] is None else "lt2" if c["n_eigs"] < 2 else "given")]
        if any(_F(z[1]) != 0 for z in r.get("raw_vals", [])):
            t.append("eig-complex-pair")
        if any(_F(z[0]) < 0 and _F(z[1]) == 0 for z in r.get("raw_vals", [])):
            t.append("eig-negative-real")
    elif k == "ens":
        t += ["ens-dyadic" if c["dyadic"] else "ens-general", "ens-obs" if c["obs"] is not None else "ens-pops",
              "ens-steps=%d" % min(c["n_steps"], 3)]
        if "err" in r:
            t.append("ens-rejects")
    else:
        t += ["imp-trim" if c["trim"] else "imp-notrim", "imp-sliding" if c["sliding"] else "imp-strided"]
        dup, uns = len(set(c["lags"])) < len(c["lags"]), c["lags"] != sorted(c["lags"])
        t += (["imp-lags-duplicate"] if dup else []) + (["imp-lags-unsorted"] if uns else []) + (
            ["imp-lags-duplicate-and-unsorted"] if dup and uns else []) + (["imp-lags-sorted-distinct"] if not dup and not uns else [])
        if c.get("grid"):
            t.append("imp-grid:" + c["grid"])
        if "err" not in r and r.get("ref") is not None and r.get("times") is not None:
            t.append("imp-rows-vs-single-lag")
            if dup:
                t.append("imp-rows-vs-single-lag-duplicate")
        if "err" in r:
            t.append("imp-ragged-after-trim")
        elif r["times"] is not None:
            if any(x is None for row in r["times"] for x in row):
                t.append("imp-nan")
    return t


ESSENTIAL_TAGS = ["arpack-1000-states", "kind:fit", "kind:eig", "kind:ens", "kind:imp", "builder:normalize", "builder:transpose", "builder:mle",
                  "by:name", "by:fn", "trim-on", "trim-off", "sliding", "strided", "maxn-given", "maxn-inferred",
                  "lag=1", "lag=2", "lag=3", "lag=4", "fit-rejects", "trim-removes-states", "trim-renumbers",
                  "roundtrip-run", "eig-complex-pair", "eig-negative-real", "eig-sparse", "eig-dense", "n_eigs:lt2",
                  "ens-dyadic", "ens-general", "ens-obs", "ens-pops", "ens-rejects", "imp-trim", "imp-notrim",
                  "imp-sliding", "imp-strided", "eq-off", "ctor:from_assignments",
                  "kind:hist", "hist-set_params", "hist-setattr", "hist-change-trim", "hist-change-lag", "hist-change-sliding",
                  "hist-change-maxn", "hist-change-method", "hist-change-data", "hist-change-state-count", "hist-same-data",
                  "hist-trim-on-to-off", "hist-trim-off-to-on", "hist-renumbered-then-untrimmed-same-size",
                  "hist-trim-mapping-changes", "eig:nearsym", "eig-allclose-symmetric-but-not-symmetric",
                  "arpack-repeated-calls",
                  "imp-lags-duplicate", "imp-lags-unsorted", "imp-lags-duplicate-and-unsorted", "imp-lags-sorted-distinct",
                  "imp-grid:loggrid", "imp-rows-vs-single-lag-duplicate",
                  "dense-1000-states", "dense-c-contiguous-float64-left", "dense-argument-unchanged-checked", "dense-call-twice",
                  "dense-ensemble-after-decomposition", "dense-normalize-pipeline",
                  "fit-short-trajectory", "fit-short-top-trajectory", "fit-short-top-trimmed", "fit-short-top-untrimmed",
                  "fit-closed-islands-trim-on", "fit-closed-islands-trim-off", "fit-only-closed-islands-trim-on",
                  "fit-only-closed-islands-unequal-weight"]


def search(rng, tier):
    found = []
    gens = [_gen_fit] * 6 + [_gen_eig, _gen_ens, _gen_imp, lambda g: _gen_imp_grid(g, g.choice(GRID_STYLES))]
    for i in range(900):
        c = gens[i % len(gens)](rng)
        try:
            r = run_impl(c)
        except Exception as ex:
            r = {"err": "Unexpected:" + type(ex).__name__, "msg": str(ex)[:200]}
        for key, msg in oracle(c, r):
            found.append((key, msg, c, r))
        if found:
            break
    return found
