"""C06: ragged-array writes keep all views coherent over any operation history.

A case is a start array (nested or flat+lengths constructor) and a sequence of items: writes
(`__setitem__` in all its index forms, augmented assignment, `append`) and observations (comparisons,
arithmetic, reductions, element reads).  After EVERY write the three slots `_data`, `_array`, `lengths`
are recorded and compared (i) in Coq with the model's data / rows / lens (Model/RaggedOps.v `check_trace`)
and (ii) by the oracle with an independent list-of-rows interpreter written here, together with the public
read paths (iteration and a[i:j] go through `_array`; flatten, a[r, c] and a[:, :] through `_data`).
Aliasing clauses (copy=True never aliases, operators return new objects and leave operands alone) are
runtime checks made by mutating the source / the result and re-reading.
"""
import os
import sys
from fractions import Fraction as F
from math import gcd
import numpy as np
from core import cz, cn, cb, clist, copt, VERIF
sys.path.insert(0, os.path.join(VERIF, "translator"))
import tr_ragged
import tr_ragged_ops

PID = "C06"
PROPS_FILE = "Props/C06.v"
MODEL_TARGETS = ["Model/RaggedOps.vo", "Gen/RaOpsGen.vo", "Model/RaggedOpsGen.vo"]
GEN_FILES = ["Gen/RaOpsGen.v"]
CASE_HEADER = ("From Coq Require Import List ZArith.\nFrom EV Require Import PySlice RaggedOps.\n"
               "Import ListNotations.\n")
RULE = ("start arrays of 1..5 rows x 1..5 small integers (rectangular and not; nested-list, flat+list-lengths and "
        "flat+ndarray-lengths constructors), then 1..12 (quick) / 1..40 (thorough) items drawn from: row / rows / "
        "row-slice assignment, 2-D (slice|list, slice|int|list) assignment, (r, c) element, boolean-mask assignment, "
        "augmented assignment on every index form, append, plus comparisons / arithmetic / reductions / element reads; "
        "values are scalars, flat vectors, nested lists and RaggedArrays; ~12% of the writes are malformed on purpose "
        "(out-of-range index, wrong value length, scalar for a ragged row, flat append).  After every write _data, "
        "_array, lengths and six public read paths are compared with the Coq model and with a list-of-rows interpreter. "
        "Three further streams: (i) observe-append-observe histories (starts, a[r, c], a[:, s], a[r] read before an "
        "append and again after it, then a write into the appended row); (ii) one-row arrays built from an ndarray row "
        "with the default copy, and writes into one-row selections a[i:i+1] / a[[i]] of any array, after which the "
        "parent must be unchanged; (iii) rectangular arrays built from nested lists / flat data with lengths given as a "
        "list, 2-D slice assignment, then row reads and a whole-row assignment; (iv) element types: arrays of bool / uint8 / "
        "int16 / int32 / int64 / float32 / float64 (typed rows, typed flat data, nested Python lists), appends of rows given "
        "as RaggedArray, flat-built RaggedArray, list or tuple of typed ndarrays, nested lists -- each row in its own type, "
        "mostly one the array's type cannot hold (non-integral reals into integers, |x| >= 2^31 into int32, float64 values "
        "that are not float32 values, integers and reals into bool), [] rows included -- and flat appends (rejected); "
        "then every assignment form with values that NumPy's promotion of everything put in so far holds exactly, and "
        "reads (row, element, column slice, starts, max, min).  Values are read back as exact numbers and compared with "
        "the list-of-rows interpreter; in Coq the same history is evaluated times the common denominator of its values "
        "(writes and reads do no arithmetic).  "
        "(v) index arguments: writes a[R, C] = v and reads a[R, C] through ndarray index objects (int8..int64, negative "
        "entries, also two columns of one table) that the caller keeps and uses again after an append, after a row "
        "assignment that changes a row length, and on a second array; the objects must be unchanged after every use. "
        "(vi) rowless arrays (oracle only): z = a[empty row slice, slice|int|list], a[empty row slice], RaggedArray([]), "
        "RaggedArray(flat, lengths=[]), then up to 5 of: z op k, k op z, z cmp k, k cmp z, ~(z cmp k), z op z, z cmp z, "
        "z[:, :] = v, z.append(rows), z[:, s], z[s]; after every stage len, iteration, lengths, shape[:2], size, flatten, "
        "starts, _data, _array must agree with the list-of-rows value (starts of a rowless array: known finding). "
        "(vii) NaN / inf (oracle only): float64 / float32 arrays holding NaN, +inf, -inf; all six comparison operators "
        "with a scalar on the right and on the left (reflected), with a RaggedArray, negated, .all() / .any(), a[mask] "
        "and masked writes a[a >= k] = v, a[k <= a] = v, a[a <= b] = v; expected values are Python's float comparisons. "
        "(viii) index dtypes and broadcasting: writes a[R, C] = v and reads a[R, C] through index ndarrays of dtype int8 / "
        "uint8 / int32 / uint32 / uint64 (kept by the caller, used again after an append) on arrays with 2-3 rows of 130..290 "
        "elements or 130..300 rows of 1..2 elements, and of dtype int16 / uint16 on arrays with rows of 32770+ / 65538+ elements "
        "or that many rows (oracle only; the per-element read path is skipped there), so that negative row + number of rows, "
        "negative column + row length, row start + column leave the range of the index dtype; forms pairs / vector+scalar / "
        "scalar+vector / n against 1 / 1 against n (NumPy broadcasting of the two index vectors), dealt from a deck; element "
        "values are distinct (0..n-1), so a write or read that lands in another row shows.  The general stream also draws "
        "a[[r..], [c]] = v and a[[r], [c..]] = v (index lists of different lengths, one entry against n).  "
        "(ix) mask histories: a mask is a ragged array of booleans with its own row layout, a[mask] = v writes a[r][c] for "
        "every set mask[r][c]; masks computed as `a cmp k` at one point of the history and kept by the caller while a row is "
        "replaced by a longer / shorter one or rows are appended, and masks computed on another array b whose rows are laid "
        "out differently (or given as a ragged array of booleans), then a[mask] = scalar / flat vector / RaggedArray of "
        "ragged rows / nested lists and a[mask] op= k; set elements outside the array: IndexError; the mask must read the "
        "same before and after.  "
        "non-trivial := >= 2 rows, >= 3 successful writes, at least one through the row view (route A) and one through "
        "the flat data (route B); or any case of the three streams with >= 1 successful write")
TRUSTED = ["translator/tr_ragged_ops.py (+ tr_ragged.py for the flat-offset arithmetic): the write path's structure is "
           "regenerated from the current source -- per index form of __setitem__ the ordered statements that touch the "
           "object, the two append branches, the constructor's slot sources per input class and the default of copy, the "
           "map_operator / __invert__ calls and the 23 operator methods, __slots__, the starts / size definitions in "
           "effect.  Local computations on the way are pinned as text; the meaning of each effect statement "
           "(Model/RaggedOpsGen.v: it assigns exactly that slot) and the NumPy semantics of the row-view write are "
           "trusted",
           "modelled not verified: NumPy fancy assignment (in order, last write wins), pairing of the two index vectors by "
           "broadcasting (cells_of: equal lengths element by element, one entry against all), broadcasting of a scalar / "
           "length-1 value, np.concatenate, object-array row storage; ra.where's flat->(row,col) conversion is C05's",
           "aliasing clauses (copy never aliases the caller's data; operators return new objects and never alter "
           "operands) are heap facts: checked at run time by mutating source / result, not proved"]
ASSUMPTIONS = ["integer element data, every row non-empty, slice steps non-zero; values compared as integers (the dtype "
               "of _data may drift to object after a row assignment on an equally-long array - not compared); the element-type "
               "stream (iv) has typed / real / boolean data and empty appended rows, compares exact values, not the dtype "
               "(reported in the message only), and never assigns through __setitem__ a value that the array's promoted "
               "type does not hold (NumPy casts such a value on assignment, as for an ndarray)",
               "never generated (model not claimed there): a RaggedArray assigned to a single integer row index, "
               "index lists of unequal lengths none of which has one entry, augmented assignment on an empty selection, "
               "operands of different total size"]
SHARD = 60


def translate(repo):
    files = dict(tr_ragged.translate(repo))        # Gen/RaGen.v: the offset arithmetic used by the write path
    files.update(tr_ragged_ops.translate(repo))
    return files

EXHAUSTIVE = {"thorough": False}

BIN = {"add": ("BAdd", "__add__", "__iadd__"), "sub": ("BSub", "__sub__", "__isub__"), "mul": ("BMul", "__mul__", "__imul__"),
       "fdiv": ("BFloorDiv", "__floordiv__", "__ifloordiv__"), "mod": ("BMod", "__mod__", "__imod__"),
       "pow": ("BPow", "__pow__", "__ipow__")}
RBIN = {"add": "__radd__", "sub": "__rsub__", "mul": "__rmul__"}
CMP = {"eq": ("CEq", "__eq__"), "ne": ("CNe", "__ne__"), "lt": ("CLt", "__lt__"), "le": ("CLe", "__le__"),
       "gt": ("CGt", "__gt__"), "ge": ("CGe", "__ge__")}
LOG = {"and": ("LAnd", "__and__"), "or": ("LOr", "__or__"), "xor": ("LXor", "__xor__")}


def pybin(o, x, k):
    # only the requested operation is evaluated (k ** x with an element x of 10^18 never ends)
    if o == "add":
        return x + k
    if o == "sub":
        return x - k
    if o == "mul":
        return x * k
    if o == "fdiv":
        return (x // k) if k else 0
    if o == "mod":
        return (x % k) if k else 0
    if o == "pow":
        return x ** k if k >= 0 else 0
    raise KeyError(o)


def pycmp(c, x, k):
    return {"eq": x == k, "ne": x != k, "lt": x < k, "le": x <= k, "gt": x > k, "ge": x >= k}[c]


# ----------------------------------------------------------------------------- list-of-rows interpreter
class Rej(Exception):
    def __init__(self, kind):
        self.kind = kind


def _wrap(n, i):
    j = i + n if i < 0 else i
    if j < 0 or j >= n:
        raise Rej("IndexError")
    return j


def _sl(spec, n):
    a, b, k = spec
    return list(range(*slice(a, b, k).indices(n)))


def _selrows(rows, sel):
    n = len(rows)
    if sel[0] == "sl":
        return _sl(sel[1:], n)
    return [_wrap(n, i) for i in sel[1]]


def _rect(rows):
    return all(len(r) == len(rows[0]) for r in rows)


def _bcast(n, v):
    if v[0] == "s":
        return [v[1]] * n
    xs = list(v[1])
    if len(xs) == n:
        return xs
    if len(xs) == 1:
        return xs * n
    raise Rej("Reject")


def _cells(rows, rsel, csel):
    """(row, col) cells in assignment order, resolved to naturals (IndexError outside)."""
    n = len(rows)
    out = []
    if rsel[0] == "sl":
        rws = _sl(rsel[1:], n)
        for r in rws:
            if csel[0] == "sl":
                out += [(r, c) for c in _sl(csel[1:], len(rows[r]))]
            elif csel[0] == "int":
                out.append((r, csel[1]))
            else:
                out += [(r, c) for c in csel[1]]
    else:
        rl = rsel[1]
        if csel[0] == "sl":
            for r in rl:
                rr = _wrap(n, r)
                out += [(rr, c) for c in _sl(csel[1:], len(rows[rr]))]
        elif csel[0] == "int":
            if not rl:
                raise Rej("IndexError")
            out = [(r, csel[1]) for r in rl]
        else:
            # the two index lists are paired as NumPy pairs index arrays, by broadcasting: equally long element by
            # element, a one-entry list against every entry of the other
            cl = csel[1]
            if len(rl) != len(cl):
                if 1 not in (len(rl), len(cl)):
                    raise Rej("Reject")
                if not rl or not cl:
                    raise Rej("IndexError")          # an empty list is a float64 index array
                rl, cl = (list(rl) * len(cl), list(cl)) if len(rl) == 1 else (list(rl), list(cl) * len(rl))
            if not rl:
                raise Rej("IndexError")
            out = list(zip(rl, cl))
    res = []
    for r, c in out:
        rr = _wrap(n, r)
        res.append((rr, _wrap(len(rows[rr]), c)))
    return res


def _mask_cells(rows, mask):
    out = [(r, c) for r, bs in enumerate(mask) for c, b in enumerate(bs) if b]
    res = []
    for r, c in out:
        rr = _wrap(len(rows), r)
        res.append((rr, _wrap(len(rows[rr]), c)))
    return res


def _bval_1d(v):
    if v[0] == "s":
        return v
    if v[0] == "v":
        if not v[1]:
            raise Rej("IndexError")
        return v
    if not v[1]:
        raise Rej("IndexError")
    return ["v", [x for row in v[1] for x in row]]


def shadow_apply(rows, op):
    """list-of-rows semantics of one write; returns the new rows or raises Rej(kind)."""
    rows = [list(r) for r in rows]
    k = op[0]
    if k == "SetElem":
        return shadow_apply(rows, ["Set2D", ["li", [op[1]]], ["int", op[2]], ["s", op[3]]])
    if k == "AugElem":
        return shadow_apply(rows, ["Aug2D", ["li", [op[1]]], ["int", op[2]], op[3], op[4]])
    if k == "SetRow":
        i = _wrap(len(rows), op[1])
        v = op[2]
        if _rect(rows):
            rows[i] = _bcast(len(rows[i]), v)
        else:
            if v[0] == "s":
                raise Rej("Reject")
            rows[i] = list(v[1])
        return rows
    if k == "SetRows":
        v = op[2]
        if v[0] == "rows":      # numpy matches the number of rows before it bounds-checks the indices
            cnt = len(_sl(op[1][1:], len(rows))) if op[1][0] == "sl" else len(op[1][1])
            if len(v[1]) != cnt and len(v[1]) != 1:
                raise Rej("Reject")
        idxs = _selrows(rows, op[1])
        if v[0] == "s":
            if _rect(rows):
                for i in idxs:
                    rows[i] = [v[1]] * len(rows[i])
            elif idxs:
                raise Rej("Reject")
            return rows
        vs = [list(x) for x in v[1]]
        if len(vs) != len(idxs):
            if len(vs) != 1:
                raise Rej("Reject")
            vs = vs * len(idxs)
        for i, x in zip(idxs, vs):
            rows[i] = list(x)
        return rows
    if k == "SetRowSl":
        i = _wrap(len(rows), op[1])
        idxs = _sl(op[2], len(rows[i]))
        vals = _bcast(len(idxs), op[3])
        for j, x in zip(idxs, vals):
            rows[i][j] = x
        return rows
    if k == "AugRow":
        i = _wrap(len(rows), op[1])
        return shadow_apply(rows, ["SetRow", op[1], ["v", [pybin(op[2], x, op[3]) for x in rows[i]]]])
    if k == "AugRows":
        idxs = _selrows(rows, op[1])
        return shadow_apply(rows, ["SetRows", op[1], ["rows", [[pybin(op[2], x, op[3]) for x in rows[i]] for i in idxs]]])
    if k in ("Set2D", "SetMask"):
        cells = _cells(rows, op[1], op[2]) if k == "Set2D" else _mask_cells(rows, op[1]["mask"])
        v1 = _bval_1d(op[3] if k == "Set2D" else op[2])
        vals = _bcast(len(cells), v1)
        for (r, c), x in zip(cells, vals):
            rows[r][c] = x
        return rows
    if k in ("Aug2D", "AugMask"):
        cells = _cells(rows, op[1], op[2]) if k == "Aug2D" else _mask_cells(rows, op[1]["mask"])
        o, kk = (op[3], op[4]) if k == "Aug2D" else (op[2], op[3])
        vals = [pybin(o, rows[r][c], kk) for r, c in cells]
        for (r, c), x in zip(cells, vals):
            rows[r][c] = x
        return rows
    if k == "Append":
        if not op[1]:
            raise Rej("Reject")
        return rows + [list(r) for r in op[1]]
    if k == "AppendFlat":
        raise Rej("Reject")
    raise AssertionError(k)


# ----------------------------------------------------------------------------- generator
def _val(rng):
    return rng.randint(-3, 9)


def _slice(rng, n, allow_empty=True):
    def bound():
        q = rng.random()
        if q < 0.3:
            return None
        return rng.randint(-n - 1, n + 1)
    k = rng.choice([None, None, 1, 1, 2, -1, -1, -2, 3])
    return [bound(), bound(), k]


def _rowsel(rng, n, bad):
    if rng.random() < 0.55:
        return ["sl"] + _slice(rng, n)
    m = rng.randint(1, min(3, n + 1))
    lo, hi = (-n, n - 1) if not bad else (-n - 2, n + 1)
    return ["li", [rng.randint(lo, hi) for _ in range(m)]]


def _gen_op(rng, rows, bad):
    n = len(rows)
    maxlen = max(len(r) for r in rows)
    big = max(abs(x) for r in rows for x in r) > 10 ** 5
    binops = ["add", "sub", "add", "sub", "fdiv", "mod"] + ([] if big else ["mul", "pow"])

    def binarg(o):
        return {"add": rng.randint(-3, 5), "sub": rng.randint(-3, 5), "mul": rng.randint(-2, 3),
                "fdiv": rng.choice([1, 2, 3, -2]), "mod": rng.choice([2, 3, 5]), "pow": rng.choice([0, 1, 2, 2, 3])}[o]

    def ridx():
        return rng.randint(-n - 2, n + 1) if bad and rng.random() < 0.5 else rng.randint(-n, n - 1)

    kind = rng.choice(["SetRow", "SetRow", "SetRows", "SetRows", "SetRowSl", "SetRowSl", "AugRow", "AugRows",
                       "Set2D", "Set2D", "Set2D", "SetElem", "SetElem", "SetMask", "SetMask", "Aug2D", "Aug2D",
                       "AugElem", "AugMask", "Append", "Append"] + (["AppendFlat"] if bad else []))
    if kind == "SetRow":
        r = ridx()
        L = len(rows[r % n]) if -n <= r < n else 2
        q = rng.random()
        if q < 0.3:
            v = ["s", _val(rng)]
        elif _rect(rows) and not bad:
            v = ["v", [_val(rng) for _ in range(L if rng.random() < 0.85 else 1)]]
        else:
            v = ["v", [_val(rng) for _ in range(rng.randint(1, 5))]]
        return ["SetRow", r, v]
    if kind == "SetRows":
        sel = _rowsel(rng, n, bad)
        try:
            idxs = _selrows(rows, sel)
        except Rej:
            idxs = [0]
        q = rng.random()
        if q < 0.25:
            return ["SetRows", sel, ["s", _val(rng)]]
        cnt = len(idxs)
        if bad and rng.random() < 0.5:
            cnt = cnt + rng.choice([1, 2])
        elif q < 0.35:
            cnt = 1
        cnt = max(cnt, 1)
        keep = rng.random() < 0.5      # keep the row lengths (stays rectangular when it was)
        vs = []
        for j in range(cnt):
            L = len(rows[idxs[j]]) if keep and j < len(idxs) else rng.randint(1, 4)
            vs.append([_val(rng) for _ in range(L)])
        return ["SetRows", sel, ["rows", vs]]
    if kind == "SetRowSl":
        r = ridx()
        L = len(rows[r % n]) if -n <= r < n else 2
        sl = _slice(rng, L)
        cnt = len(_sl(sl, L))
        q = rng.random()
        if q < 0.35:
            v = ["s", _val(rng)]
        elif bad and rng.random() < 0.6:
            v = ["v", [_val(rng) for _ in range(cnt + 2)]]
        else:
            v = ["v", [_val(rng) for _ in range(cnt if q < 0.9 else 1)]]
        return ["SetRowSl", r, sl, v]
    if kind == "AugRow":
        o = rng.choice(binops)
        return ["AugRow", ridx(), o, binarg(o)]
    if kind == "AugRows":
        o = rng.choice(binops)
        for _ in range(6):
            sel = _rowsel(rng, n, bad)
            try:
                if _selrows(rows, sel):
                    break
            except Rej:
                break
        else:
            sel = ["sl", None, None, None]
        return ["AugRows", sel, o, binarg(o)]
    if kind in ("SetElem", "AugElem"):
        r = ridx()
        L = len(rows[r % n]) if -n <= r < n else 2
        c = rng.randint(-L - 2, L + 1) if bad else rng.randint(-L, L - 1)
        if kind == "SetElem":
            return ["SetElem", r, c, _val(rng)]
        o = rng.choice(binops)
        return ["AugElem", r, c, o, binarg(o)]
    if kind in ("Set2D", "Aug2D"):
        for _ in range(8):
            rsel = _rowsel(rng, n, bad)
            q = rng.random()
            if q < 0.5:
                csel = ["sl"] + _slice(rng, maxlen)
            elif q < 0.7:
                csel = ["int", rng.randint(-1, maxlen - 1) if bad else rng.randint(-1, min(len(r) for r in rows) - 1)]
            elif rsel[0] == "li":
                lim = maxlen if bad else min(len(r) for r in rows)
                csel = ["li", [rng.randint(-lim, lim - 1) for _ in rsel[1]]]
                qb = rng.random()
                if qb < 0.2:          # one column entry against every row entry
                    csel = ["li", csel[1][:1]]
                elif qb < 0.4:        # one row entry against 1..3 column entries
                    rsel = ["li", rsel[1][:1]]
                    csel = ["li", [rng.randint(-lim, lim - 1) for _ in range(rng.randint(1, 3))]]
            else:
                lim = maxlen if bad else min(len(r) for r in rows)
                csel = ["li", [rng.randint(-lim, lim - 1) for _ in range(rng.randint(1, 3))]]
            try:
                cells = _cells(rows, rsel, csel)
            except Rej:
                cells = None
            if kind == "Set2D" or cells:
                break
        else:
            rsel, csel = ["sl", None, None, None], ["sl", None, None, None]
            cells = _cells(rows, rsel, csel)
        if kind == "Aug2D":
            o = rng.choice(binops)
            return ["Aug2D", rsel, csel, o, binarg(o)]
        cnt = len(cells) if cells is not None else 2
        q = rng.random()
        if q < 0.3:
            v = ["s", _val(rng)]
        elif bad and rng.random() < 0.5:
            v = ["v", [_val(rng) for _ in range(cnt + rng.choice([1, 2]))]]
        elif q < 0.4:
            v = ["v", [_val(rng)]]
        else:
            flat = [_val(rng) for _ in range(cnt)]
            v = ["v", flat]
            if cells and rng.random() < 0.55:
                # the same values as one row per selected row (RaggedArray or nested lists)
                per = []
                last = None
                for (r, c), x in zip(cells, flat):
                    if rsel[0] == "sl" and csel[0] == "sl" and r == last:
                        per[-1].append(x)
                    elif rsel[0] == "sl" and csel[0] == "sl":
                        per.append([x])
                        last = r
                    else:
                        per.append([x])
                v = [rng.choice(["rows", "nested"]), per]
        return ["Set2D", rsel, csel, v]
    if kind in ("SetMask", "AugMask"):
        c = rng.choice(list(CMP))
        k = _val(rng)
        mask = [[pycmp(c, x, k) for x in r] for r in rows]
        cnt = sum(map(sum, mask))
        spec = {"mask": mask, "cmp": [c, k] if rng.random() < 0.7 else None}
        if kind == "AugMask":
            if cnt == 0:
                mask = [[True] * len(r) for r in rows]
                spec = {"mask": mask, "cmp": None}
            o = rng.choice(binops)
            return ["AugMask", spec, o, binarg(o)]
        q = rng.random()
        if q < 0.45:
            v = ["s", _val(rng)]
        elif bad:
            v = ["v", [_val(rng) for _ in range(cnt + 2)]]
        else:
            v = ["v", [_val(rng) for _ in range(cnt)]] if cnt else ["s", _val(rng)]
        return ["SetMask", spec, v]
    if kind == "Append":
        m = rng.randint(1, 2)
        L0 = rng.randint(1, 4)
        same = rng.random() < 0.5
        vs = [[_val(rng) for _ in range(L0 if same else rng.randint(1, 4))] for _ in range(m)]
        return ["Append", vs, rng.choice(["ra", "lists"])]
    return ["AppendFlat", [_val(rng) for _ in range(rng.randint(1, 3))]]


def _gen_obs(rng, rows):
    q = rng.choice(["Cmp", "Cmp", "CmpRA", "NotCmp", "Logic", "Bin", "Bin", "RBin", "BinRA", "All", "Any", "Max", "Min",
                    "AllCmp", "AnyCmp", "Elem"])
    c = rng.choice(list(CMP))
    k = _val(rng)
    big = max(abs(x) for r in rows for x in r) > 10 ** 5
    if q in ("Cmp", "NotCmp", "AllCmp", "AnyCmp"):
        return [q, c, k]
    if q == "CmpRA":
        other = [[x if rng.random() < 0.6 else _val(rng) for x in r] for r in rows]
        return [q, c, other]
    if q == "Logic":
        return [q, rng.choice(list(LOG)), c, k, rng.choice(list(CMP)), _val(rng)]
    if q == "Bin":
        o = rng.choice(["add", "sub", "fdiv", "mod"] + ([] if big else ["mul", "pow"]))
        kk = {"add": k, "sub": k, "mul": rng.randint(-2, 3), "fdiv": rng.choice([1, 2, 3, -2]), "mod": rng.choice([2, 3, 5]),
              "pow": rng.choice([0, 1, 2, 3])}[o]
        return [q, o, kk]
    if q == "RBin":
        return [q, rng.choice(["add", "sub"] + ([] if big else ["mul"])), k]
    if q == "BinRA":
        o = rng.choice(["add", "sub"] + ([] if big else ["mul"]))
        return [q, o, [[_val(rng) for _ in r] for r in rows]]
    if q == "Elem":
        r = rng.randint(-len(rows), len(rows) - 1)
        L = len(rows[r])
        return [q, r, rng.randint(-L, L) if rng.random() < 0.2 else rng.randint(-L, L - 1)]
    return [q]


def _obs_reads(rng, rows):
    """explicit observations through the three derived paths: starts, a[r, c] / a[:, s] (flat data), a[r] (row view)"""
    n = len(rows)
    r = rng.randint(-n, n - 1)
    out = [["Starts"], ["Elem", r, rng.randint(-len(rows[r]), len(rows[r]) - 1)], ["ColSl"] + _slice(rng, max(map(len, rows))),
           ["Row", rng.randint(-n, n - 1)]]
    if rng.random() < 0.5:
        out.append(["ColSl", None, None, rng.choice([None, 2, -1])])
    rng.shuffle(out)
    return [{"t": "obs", "q": q} for q in out[:rng.randint(2, len(out))]]


def _flat_init(rows, np_lens):
    return {"kind": "flat", "data": [x for r in rows for x in r], "lens": [len(r) for r in rows], "np": np_lens}


def _track(items, cur, op):
    items.append({"t": "op", "op": op})
    try:
        return shadow_apply(cur, op)
    except Rej:
        return cur


def _stream_append(rng, maxitems):
    """observe - append - observe - write into the appended rows - observe"""
    n = rng.randint(1, 4)
    rect = rng.random() < 0.4
    L = rng.randint(1, 4)
    rows = [[_val(rng) for _ in range(L if rect else rng.randint(1, 5))] for _ in range(n)]
    init = {"kind": "rows", "rows": rows, "np": rng.random() < 0.5} if rng.random() < 0.5 \
        else _flat_init(rows, rng.random() < 0.5)
    items, cur = [], rows
    for _ in range(rng.randint(1, 1 + maxitems // 8)):
        items += _obs_reads(rng, cur)
        if rng.random() < 0.4:                      # mask read / write before the append as well
            c, k = rng.choice(list(CMP)), _val(rng)
            mask = [[pycmp(c, x, k) for x in r] for r in cur]
            cur = _track(items, cur, ["SetMask", {"mask": mask, "cmp": [c, k]}, ["s", _val(rng)]])
        m = rng.randint(1, 2)
        vs = [[_val(rng) for _ in range(L if rect and rng.random() < 0.7 else rng.randint(1, 4))] for _ in range(m)]
        cur = _track(items, cur, ["Append", vs, rng.choice(["ra", "lists"])])
        items += _obs_reads(rng, cur)
        nn = len(cur)
        q = rng.random()
        last = len(cur[-1])
        if q < 0.35:
            cur = _track(items, cur, ["SetElem", rng.choice([-1, nn - 1]), rng.randint(-last, last - 1), _val(rng)])
        elif q < 0.6:
            c, k = rng.choice(list(CMP)), _val(rng)
            mask = [[pycmp(c, x, k) for x in r] for r in cur]
            mask[-1][rng.randint(0, last - 1)] = True
            cur = _track(items, cur, ["SetMask", {"mask": mask, "cmp": None}, ["s", _val(rng)]])
        elif q < 0.85:
            cur = _track(items, cur, ["Set2D", ["sl", None, None, None], ["sl", None, None, rng.choice([None, 2])], ["s", _val(rng)]])
        else:
            cur = _track(items, cur, ["SetRow", -1, ["v", [_val(rng) for _ in range(last)]]])
        items += _obs_reads(rng, cur)
    return {"init": init, "items": items, "stream": "append"}


def _selw(rng, rows):
    i = rng.randint(0, len(rows) - 1)
    return {"t": "selw", "how": rng.choice(["sl", "li"]), "r": i, "c": rng.randint(-len(rows[i]), len(rows[i]) - 1),
            "v": 70 + rng.randint(0, 9)}


def _stream_onerow(rng, maxitems):
    """one-row arrays from an ndarray row (default copy); writes into one-row selections of any array"""
    if rng.random() < 0.6:
        rows = [[_val(rng) for _ in range(rng.randint(1, 6))]]
        init = {"kind": "rows", "rows": rows, "np": True}
    else:
        n = rng.randint(2, 4)
        rect = rng.random() < 0.4
        L = rng.randint(1, 4)
        rows = [[_val(rng) for _ in range(L if rect else rng.randint(1, 5))] for _ in range(n)]
        init = {"kind": "rows", "rows": rows, "np": rng.random() < 0.7} if rng.random() < 0.6 \
            else _flat_init(rows, rng.random() < 0.5)
    items, cur = [], rows
    for _ in range(rng.randint(2, 3 + maxitems // 6)):
        q = rng.random()
        if q < 0.45:
            items.append(_selw(rng, cur))
            items.append({"t": "obs", "q": rng.choice([["Max"], ["Min"], ["Cmp", "gt", 50], ["Row", rng.randint(-len(cur), len(cur) - 1)]])})
        elif q < 0.75:
            r = rng.randint(-len(cur), len(cur) - 1)
            cur = _track(items, cur, ["SetElem", r, rng.randint(-len(cur[r]), len(cur[r]) - 1), _val(rng)])
        elif q < 0.9:
            cur = _track(items, cur, _gen_op(rng, cur, False))
        else:
            items += _obs_reads(rng, cur)
    return {"init": init, "items": items, "stream": "onerow"}


def _stream_rect(rng, maxitems):
    """rectangular arrays from nested lists / lengths given as a list; 2-D slice assignment; row reads"""
    n, L = rng.randint(2, 4), rng.randint(2, 4)
    rows = [[_val(rng) for _ in range(L)] for _ in range(n)]
    init = {"kind": "rows", "rows": rows, "np": False} if rng.random() < 0.5 else _flat_init(rows, False)
    items, cur = [], rows
    for _ in range(rng.randint(1, 2 + maxitems // 8)):
        q = rng.random()
        if q < 0.45:
            rsel, csel = ["sl"] + _slice(rng, n), ["sl"] + _slice(rng, L)
        elif q < 0.6:
            rsel, csel = ["sl"] + _slice(rng, n), ["int", rng.randint(-L, L - 1)]
        elif q < 0.75:
            rsel, csel = ["sl"] + _slice(rng, n), ["li", [rng.randint(-L, L - 1) for _ in range(rng.randint(1, 2))]]
        else:
            rsel, csel = ["li", [rng.randint(-n, n - 1) for _ in range(rng.randint(1, 2))]], ["sl"] + _slice(rng, L)
        if rng.random() < 0.5:
            rsel = ["sl", None, None, None]
        try:
            cells = _cells(cur, rsel, csel)
        except Rej:
            cells = []
        if rng.random() < 0.5 or not cells:
            v = ["s", 40 + rng.randint(0, 9)]
        else:
            v = ["v", [40 + rng.randint(0, 9) for _ in cells]]
        cur = _track(items, cur, ["Set2D", rsel, csel, v])
        for _ in range(rng.randint(1, 3)):
            items.append({"t": "obs", "q": ["Row", rng.randint(-n, n - 1)]})
        q = rng.random()
        if q < 0.4:         # a whole-row write re-runs the constructor on the row view
            cur = _track(items, cur, ["SetRow", rng.randint(-n, n - 1), ["v", [_val(rng) for _ in range(L)]]])
            items += _obs_reads(rng, cur)
        elif q < 0.6:
            cur = _track(items, cur, ["AugRows", ["sl", None, None, None], "add", 1])
        elif q < 0.8:
            items.append({"t": "obs", "q": ["Elem", rng.randint(-n, n - 1), rng.randint(-L, L - 1)]})
    return {"init": init, "items": items, "stream": "rect"}


# ----------------------------------------------------------------------------- dtype stream (round 3s)
DT_SMALL = {"bool": [True, False], "uint8": list(range(0, 10)), "int16": list(range(-3, 10)),
            "int32": list(range(-3, 10)), "int64": list(range(-3, 10)),
            "float32": [k / 4 for k in range(-6, 20)], "float64": [k / 4 for k in range(-6, 20)]}
# values that no narrower dtype of the list holds
DT_WIDE = {"bool": [True, False], "uint8": [200, 255, 128], "int16": [300, -32768, 32767, -4],
           "int32": [70000, 2 ** 31 - 1, -2 ** 31, -40000], "int64": [2 ** 31, 2 ** 40, -2 ** 35 + 1, 2 ** 32 + 5],
           "float32": [0.5, 2.25, -0.75, 1.5, 2.0 ** 20 + 0.5, -0.375],
           "float64": [0.1, 1 / 3, 1e-3, 2.0 ** 31 + 0.5, 0.2, -2.7, 1e-9, 123456.789]}
DTS = ["bool", "uint8", "int16", "int32", "int64", "float32", "float64"]
# (array type, type of the first append) dealt in every run: the widenings named by ESSENTIAL_TAGS
DT_FORCED = [("float32", "float64"), ("float32", "float64"), ("int32", "int64"), ("int16", "float64"), ("bool", "int16"),
             ("bool", "float32"), ("int64", "float64"), ("uint8", "int32")]


def _dt_pick(rng, dt, wide=0.5):
    return rng.choice(DT_WIDE[dt] if rng.random() < wide else DT_SMALL[dt])


def _map_val(v, f):
    if v[0] == "s":
        return ["s", f(v[1])]
    if v[0] == "v":
        return ["v", [f(x) for x in v[1]]]
    return [v[0], [[f(x) for x in row] for row in v[1]]]


def _map_op(op, f):
    """the same write with every element value x replaced by f(x) (indices, masks, dtypes untouched)"""
    k = op[0]
    if k == "SetElem":
        return op[:3] + [f(op[3])]
    if k in ("SetRow", "SetRows", "SetMask"):
        return [k, op[1], _map_val(op[2], f)]
    if k in ("SetRowSl", "Set2D"):
        return [k, op[1], op[2], _map_val(op[3], f)]
    if k == "Append":
        return [k, [[f(x) for x in row] for row in op[1]]] + list(op[2:])
    if k == "AppendFlat":
        return [k, [f(x) for x in op[1]]] + list(op[2:])
    raise AssertionError(k)


def _dt_obs(rng, rows):
    full = [i for i, r in enumerate(rows) if r]
    r = rng.choice(full)
    n = len(rows)
    out = [["Starts"], ["Elem", rng.choice([r, r - n]), rng.randint(-len(rows[r]), len(rows[r]) - 1)],
           ["ColSl"] + _slice(rng, max(map(len, rows))), ["Row", rng.randint(-n, n - 1)], ["Max"], ["Min"]]
    rng.shuffle(out)
    return [{"t": "obs", "q": q} for q in out[:rng.randint(1, 3)]]


def _stream_dtype(rng, maxitems, force=None):
    """arrays of every element type; appends (RaggedArray / flat-built RaggedArray / list or tuple of typed arrays / nested
    lists, [] rows included) of rows in another element type, mostly one the array's own type cannot hold; then writes of
    values the promoted type holds.  Values are exact in the types they are given in, so every view must return them."""
    # force = (element type of the array, element type of the first append): a few cases per run are dealt, so that
    # the widenings the essential tags name occur under every seed
    base = force[0] if force else rng.choice(DTS)
    n = rng.randint(1, 3)
    rect = rng.random() < 0.4
    L = rng.randint(1, 3)
    rows = [[_dt_pick(rng, base, 0.15) for _ in range(L if rect else rng.randint(1, 4))] for _ in range(n)]
    q = rng.random() * (0.85 if force else 1.0)
    if q < 0.45:
        init = {"kind": "rows", "rows": rows, "np": True, "dt": base}
    elif q < 0.85:
        init = dict(_flat_init(rows, rng.random() < 0.5), dt=base)
    else:                       # nested Python lists: the element type is the one NumPy infers
        base = rng.choice(["bool", "int64", "float64"])
        rows = [[_dt_pick(rng, base, 0.15) for _ in r] for r in rows]
        if base == "float64":
            rows[0][0] = 0.5
        init = {"kind": "rows", "rows": rows, "np": False, "dt": None}
    tracked = np.dtype(base)
    items, cur = [], rows
    nsteps = rng.randint(1, 2 + maxitems // 6)
    for step in range(nsteps):
        q = rng.random()
        has_empty = any(len(r) == 0 for r in cur)
        if step == 0 or q < 0.5:
            how = rng.choice(["ra", "raflat", "arrays", "arrays", "tuple", "lists", "lists"])
            wider = [d for d in DTS if np.result_type(tracked, d) != tracked]
            dt = rng.choice(wider) if wider and rng.random() < 0.75 else rng.choice(DTS)
            forced = force is not None and step == 0
            if forced:
                how, dt = rng.choice(["ra", "raflat", "arrays", "tuple"]), force[1]
            m = rng.randint(1, 3)
            vs, dts = [], []
            for j in range(m):
                d = dt if how == "raflat" or forced or rng.random() < 0.8 else rng.choice(DTS)
                if how == "lists":
                    d = rng.choice(["bool", "int64", "float64"]) if d not in ("bool", "int64", "float64") else d
                ln = 0 if rng.random() < 0.15 and not forced else (L if rect and rng.random() < 0.6 else rng.randint(1, 3))
                row = [_dt_pick(rng, d, 1.0 if forced else 0.6) for _ in range(ln)]
                if how == "lists" and d == "float64" and row and all(float(x).is_integer() for x in row):
                    row[0] = 0.5
                vs.append(row)
                dts.append(None if how == "lists" else d)
            if how in ("ra", "raflat") and not any(vs):
                vs[0] = [_dt_pick(rng, dts[0] or "int64", 0.6)]
            op = ["Append", vs, how, dts]
            cur = _track(items, cur, op)
            for row, d in zip(vs, dts):
                if row:
                    tracked = np.result_type(tracked, d if d else np.array(row).dtype)
        elif q < 0.56:
            d = rng.choice(DTS)
            cur = _track(items, cur, ["AppendFlat", [_dt_pick(rng, d) for _ in range(rng.randint(1, 3))],
                                     rng.choice([d, None]) if d in ("bool", "int64", "float64") else d])
        else:
            # a write of values that the element type reached so far holds exactly
            pick = lambda _x=None: _dt_pick(rng, tracked.name, 0.5)
            if has_empty:
                full = [i for i, r in enumerate(cur) if r]
                r = rng.choice(full)
                op = ["SetElem", rng.choice([r, r - len(cur)]), rng.randint(-len(cur[r]), len(cur[r]) - 1), pick()]
            else:
                while True:
                    op = _gen_op(rng, cur, False)
                    if op[0] in ("SetRow", "SetRows", "SetRowSl", "Set2D", "SetElem", "SetMask"):
                        break
                op = _map_op(op, pick)
            cur = _track(items, cur, op)
        items += _dt_obs(rng, cur)
    return {"init": init, "items": items, "stream": "dtype"}


# ----------------------------------------------------------------------------- rowless arrays (round 3s)
# Self-contained cases (oracle only; the Coq trace model has no rowless observers): an array z without rows is produced
# from `a` by an operation, then operators / writers / append act on z; after every stage all views of z are compared
# with each other and with the list-of-rows model.
def _empty_rowslice(rng, n):
    return rng.choice([[0, 0, None], [n, None, None], [n + 1, None, None], [None, 0, None], [-1, 0, None], [1, 1, None],
                       [None, -n - 1, None], [n, n + 3, 2], [n, None, 1], [-n - 2, -n, None], [2, 1, None],
                       [0, 0, -1]])


def _stream_rowless(rng):
    n = rng.randint(1, 4)
    rect = rng.random() < 0.4
    L = rng.randint(1, 4)
    rows = [[_val(rng) for _ in range(L if rect else rng.randint(1, 5))] for _ in range(n)]
    q = rng.random()
    maxlen = max(map(len, rows))
    if q < 0.55:
        rsl = _empty_rowslice(rng, n) if rng.random() < 0.85 else _slice(rng, n)
        cq = rng.random()
        if cq < 0.5:
            csel = ["sl"] + _slice(rng, maxlen)
        elif cq < 0.75:
            csel = ["int", rng.randint(-1, min(map(len, rows)) - 1)]
        else:
            lim = min(map(len, rows))
            csel = ["li", [rng.randint(-lim, lim - 1) for _ in range(rng.randint(1, 2))]]
        src = ["sl2", rsl, csel]
    elif q < 0.75:
        src = ["rows", _empty_rowslice(rng, n)]
    elif q < 0.88:
        src = ["ctor"]
    else:
        src = ["ctor_flat", rng.random() < 0.5]
    chain = []
    isbool = False      # after a comparison z is a boolean array: no arithmetic on it (NumPy's bool + bool is `or`)
    for _ in range(rng.randint(1, 5)):
        k = rng.choice(["cmp", "lcmp", "not_cmp", "cmpself", "colsl", "rowsl"] if isbool else
                       ["bin", "bin", "rbin", "cmp", "lcmp", "not_cmp", "binself", "cmpself", "set_all", "append", "colsl",
                        "rowsl"])
        zcur = _rowless_model({"rows": rows, "src": src, "chain": chain})[-1]
        if k == "append" and zcur and not any(zcur):
            continue        # rows but no element: append re-initialises the array (rows of length 0 are outside the property)
        isbool = isbool or k in ("cmp", "lcmp", "not_cmp", "cmpself")
        if k in ("bin", "rbin"):
            o = rng.choice(["add", "sub", "mul"] + (["fdiv", "mod"] if k == "bin" else []))
            chain.append([k, o, {"fdiv": rng.choice([1, 2, 3]), "mod": rng.choice([2, 3, 5])}.get(o, rng.randint(-2, 4))])
        elif k in ("cmp", "lcmp", "not_cmp"):
            chain.append([k, rng.choice(list(CMP)), _val(rng)])
        elif k == "binself":
            chain.append([k, rng.choice(["add", "sub", "mul"])])
        elif k == "cmpself":
            chain.append([k, rng.choice(list(CMP))])
        elif k == "set_all":
            chain.append([k, _val(rng)])
        elif k == "append":
            chain.append([k, [[_val(rng) for _ in range(rng.randint(1, 3))] for _ in range(rng.randint(1, 2))],
                          rng.choice(["ra", "lists"])])
        elif k == "colsl":
            chain.append([k] + _slice(rng, 3))
        else:
            chain.append([k] + rng.choice([[0, 0, None], [None, None, None], [1, None, None], [None, None, -1]]))
    return {"stream": "rowless", "rows": rows, "ctor": rng.choice(["rows", "flat", "flat_np"]), "src": src, "chain": chain}


def _views(z):
    out = {}

    def rec(name, f):
        try:
            out[name] = f()
        except Exception as ex:
            out[name] = {"err": type(ex).__name__ + ": " + str(ex)[:80]}
    rec("snap", lambda: _snap(z))
    rec("len", lambda: int(len(z)))
    rec("iter", lambda: [[_toint(x) for x in np.asarray(r).tolist()] for r in z])
    rec("lengths", lambda: [int(x) for x in z.lengths])
    rec("shape", lambda: [None if x is None else int(x) for x in z.shape])
    rec("size", lambda: int(z.size))
    rec("flatten", lambda: [_toint(x) for x in z.flatten().tolist()])
    rec("starts", lambda: [_toint(x) for x in z.starts.tolist()])
    return out


def _run_rowless(c):
    import operator
    from enspara.ra.ra import RaggedArray
    rows = c["rows"]
    if c["ctor"] == "rows":
        a = RaggedArray([list(r) for r in rows])
    else:
        lens = [len(r) for r in rows]
        a = RaggedArray(np.array([x for r in rows for x in r]), lengths=np.array(lens) if c["ctor"] == "flat_np" else lens)
    a0 = _snap(a)
    stages = []
    src = c["src"]
    try:
        if src[0] == "sl2":
            cs = src[2]
            ci = _pysl(cs[1:]) if cs[0] == "sl" else cs[1] if cs[0] == "int" else list(cs[1])
            z = a[_pysl(src[1]), ci]
        elif src[0] == "rows":
            z = a[_pysl(src[1])]
        elif src[0] == "ctor":
            z = RaggedArray([])
        else:
            z = RaggedArray(np.array([], dtype=int), lengths=np.array([], dtype=int) if src[1] else [])
    except Exception as ex:
        return {"stages": [{"err": type(ex).__name__ + ": " + str(ex)[:120]}], "operand_ok": _snap(a) == a0}
    stages.append(_views(z))
    for st in c["chain"]:
        k = st[0]
        try:
            if k == "bin":
                z = getattr(z, BIN[st[1]][1])(st[2])
            elif k == "rbin":
                z = getattr(z, RBIN[st[1]])(st[2])
            elif k == "cmp":
                z = getattr(z, CMP[st[1]][1])(st[2])
            elif k == "lcmp":
                z = getattr(operator, st[1])(st[2], z)
            elif k == "not_cmp":
                z = ~getattr(z, CMP[st[1]][1])(st[2])
            elif k == "binself":
                z = getattr(z, BIN[st[1]][1])(z)
            elif k == "cmpself":
                z = getattr(z, CMP[st[1]][1])(z)
            elif k == "set_all":
                z[:, :] = st[1]
            elif k == "append":
                z.append(RaggedArray([list(r) for r in st[1]]) if st[2] == "ra" else [np.array(r) for r in st[1]])
            elif k == "colsl":
                z = z[:, _pysl(st[1:])]
            elif k == "rowsl":
                z = z[_pysl(st[1:])]
            stages.append(_views(z))
        except Exception as ex:
            stages.append({"err": type(ex).__name__ + ": " + str(ex)[:120]})
            break
    return {"stages": stages, "operand_ok": _snap(a) == a0}


def _rowless_model(c):
    """the list-of-rows value of z after the source and after every chain step"""
    rows = [list(r) for r in c["rows"]]
    src = c["src"]
    if src[0] == "sl2":
        sel = [rows[i] for i in _sl(src[1], len(rows))]
        cs = src[2]
        if cs[0] == "sl":
            z = [list(r[_pysl(cs[1:])]) for r in sel]
        elif cs[0] == "int":
            z = [[r[cs[1]]] for r in sel]
        else:
            z = [[r[j] for j in cs[1]] for r in sel]
    elif src[0] == "rows":
        z = [list(rows[i]) for i in _sl(src[1], len(rows))]
    else:
        z = []
    out = [z]
    for st in c["chain"]:
        k = st[0]
        if k == "bin":
            z = [[pybin(st[1], x, st[2]) for x in r] for r in z]
        elif k == "rbin":
            z = [[pybin(st[1], st[2], x) for x in r] for r in z]
        elif k == "cmp":
            z = [[int(pycmp(st[1], x, st[2])) for x in r] for r in z]
        elif k == "lcmp":
            z = [[int(pycmp(st[1], st[2], x)) for x in r] for r in z]
        elif k == "not_cmp":
            z = [[int(not pycmp(st[1], x, st[2])) for x in r] for r in z]
        elif k == "binself":
            z = [[pybin(st[1], x, x) for x in r] for r in z]
        elif k == "cmpself":
            z = [[int(pycmp(st[1], x, x)) for x in r] for r in z]
        elif k == "set_all":
            z = [[st[1]] * len(r) for r in z]
        elif k == "append":
            z = [list(r) for r in z] + [list(r) for r in st[1]]
        elif k == "colsl":
            z = [list(r[_pysl(st[1:])]) for r in z]
        elif k == "rowsl":
            z = [list(r) for r in z[_pysl(st[1:])]]
        out.append(z)
    return out


def _oracle_rowless(c, r):
    out = []
    if not r.get("operand_ok", False):
        out.append(("operands-unaltered", "the array was altered by producing / working on the selection %s" % c["src"]))
    model = _rowless_model(c)
    names = [str(c["src"])] + [str(st) for st in c["chain"]]
    for i, (z, name) in enumerate(zip(model, names)):
        what = "z = a%s on rows %s, then %s" % (c["src"], c["rows"], c["chain"][:i]) if i else "z = %s of rows %s" % (c["src"], c["rows"])
        if i >= len(r["stages"]):
            break
        got = r["stages"][i]
        if "err" in got and "snap" not in got:
            out.append(("rowless-views" if not z else "op-structure", "%s: raised %s, the list-of-rows model gives %s" % (what, got["err"], z)))
            break
        flat = [x for row in z for x in row]
        lens = [len(row) for row in z]
        rectl = len(z) > 0 and len(set(lens)) == 1
        exp = {"snap": _ra_of(z), "len": len(z), "iter": z, "lengths": lens, "shape": [len(z), lens[0] if rectl else None],
               "size": len(flat), "flatten": flat}
        key = "rowless-views" if not z else "op-structure"
        if isinstance(got.get("shape"), list) and not z:
            # (rows, row length); a third entry (element width) means nothing without elements: an empty row slice of a
            # rectangular array reports the row length there
            got = dict(got, shape=got["shape"][:2])
        bad = [k for k, v in exp.items() if got.get(k) != v]
        if bad:
            out.append((key, "%s: %s; the list-of-rows model has %d rows %s" % (
                what, "; ".join("%s is %s (expected %s)" % (k, got.get(k), exp[k]) for k in bad), len(z), z)))
        st_exp = [sum(lens[:j]) for j in range(len(lens))]
        if got.get("starts") != st_exp:
            out.append(("rowless-starts" if not z else "op-structure", "%s: starts is %s, the list-of-rows model has %d rows "
                        "and starts %s" % (what, got.get("starts"), len(z), st_exp)))
    return out


# ----------------------------------------------------------------------------- NaN / inf comparisons (round 3s)
SPECIAL = {"nan": float("nan"), "inf": float("inf"), "-inf": float("-inf")}
FVALS = [0.0, 1.0, 2.5, 4.0, -1.5, 6.5, 9.0, "nan", "nan", "inf", "-inf"]


def _dec(x):
    return SPECIAL[x] if isinstance(x, str) else float(x)


def _enc(x):
    x = float(x)
    if x != x:
        return "nan"
    if x in (float("inf"), float("-inf")):
        return "inf" if x > 0 else "-inf"
    return x


def _stream_nan(rng, maxitems):
    n = rng.randint(1, 4)
    rect = rng.random() < 0.4
    L = rng.randint(1, 4)
    rows = [[rng.choice(FVALS) for _ in range(L if rect else rng.randint(1, 5))] for _ in range(n)]
    if not any(isinstance(x, str) for r in rows for x in r):
        rows[rng.randrange(n)][0] = "nan"
    items = []
    for _ in range(rng.randint(2, 3 + maxitems // 3)):
        k = rng.choice(["cmp", "cmp", "cmp", "cmpra", "cmpra", "notcmp", "maskset", "maskset", "maskget", "allcmp", "anycmp",
                        "masksetra"])
        c = rng.choice(list(CMP))
        kk = rng.choice(FVALS[:7] + ["nan", "inf", "-inf"]) if rng.random() < 0.9 else 4
        side = rng.choice(["r", "r", "l"])
        if k in ("cmp", "maskget"):
            items.append([k, c, kk, side])
        elif k in ("notcmp", "allcmp", "anycmp"):
            items.append([k, c, kk])
        elif k == "maskset":
            items.append([k, c, kk, side, rng.choice(FVALS[:7])])
        else:
            other = [[x if rng.random() < 0.4 else rng.choice(FVALS) for x in r] for r in rows]
            items.append([k, c, other] + ([rng.choice(FVALS[:7])] if k == "masksetra" else []))
    return {"stream": "nan", "rows": rows, "ctor": rng.choice(["rows", "rows_np", "flat", "flat_np"]),
            "f32": rng.random() < 0.2, "items": items}


def _fsnap(a):
    return {"data": [_enc(x) for x in np.asarray(a._data, dtype=float).tolist()],
            "arr": [[_enc(x) for x in np.asarray(r, dtype=float).tolist()] for r in a._array],
            "lens": [int(x) for x in a.lengths],
            "iter": [[_enc(x) for x in np.asarray(r, dtype=float).tolist()] for r in a],
            "elems": [[_enc(a[i, j][0]) for j in range(int(a.lengths[i]))] for i in range(len(a.lengths))]}


def _run_nan(c):
    import operator
    from enspara.ra.ra import RaggedArray
    dt = np.float32 if c["f32"] else np.float64
    rows = [[_dec(x) for x in r] for r in c["rows"]]
    if c["ctor"] == "rows":
        a = RaggedArray([list(r) for r in rows])
    elif c["ctor"] == "rows_np":
        a = RaggedArray([np.array(r, dtype=dt) for r in rows])
    else:
        lens = [len(r) for r in rows]
        a = RaggedArray(np.array([x for r in rows for x in r], dtype=dt), lengths=np.array(lens) if c["ctor"] == "flat_np" else lens)
    out = {"init": _fsnap(a), "steps": []}

    def cmpf(cn, k, side):
        if side == "l":
            return getattr(operator, cn)(k, a)          # scalar on the left: Python reflects the operator
        return getattr(a, CMP[cn][1])(k)
    for it in c["items"]:
        k = it[0]
        rec = {}
        before = _fsnap(a)
        try:
            if k == "cmp":
                rec["ra"] = _snap(cmpf(it[1], _dec(it[2]), it[3]))
            elif k == "cmpra":
                rec["ra"] = _snap(getattr(a, CMP[it[1]][1])(RaggedArray([[_dec(x) for x in r] for r in it[2]])))
            elif k == "notcmp":
                rec["ra"] = _snap(~getattr(a, CMP[it[1]][1])(_dec(it[2])))
            elif k == "allcmp":
                rec["val"] = bool(getattr(a, CMP[it[1]][1])(_dec(it[2])).all())
            elif k == "anycmp":
                rec["val"] = bool(getattr(a, CMP[it[1]][1])(_dec(it[2])).any())
            elif k == "maskget":
                rec["val"] = [_enc(x) for x in np.asarray(a[cmpf(it[1], _dec(it[2]), it[3])], dtype=float).tolist()]
            elif k == "maskset":
                a[cmpf(it[1], _dec(it[2]), it[3])] = _dec(it[4])
            elif k == "masksetra":
                a[getattr(a, CMP[it[1]][1])(RaggedArray([[_dec(x) for x in r] for r in it[2]]))] = _dec(it[3])
        except Exception as ex:
            rec["err"] = type(ex).__name__ + ": " + str(ex)[:120]
        if k in ("maskset", "masksetra"):
            rec["after"] = _fsnap(a)
        elif _fsnap(a) != before:
            rec["operand_altered"] = _fsnap(a)
        out["steps"].append(rec)
    return out


def _oracle_nan(c, r):
    out = []
    rows = [list(x) for x in c["rows"]]            # encoded values

    def cm(cn, x, y):
        return int(pycmp(cn, _dec(x), _dec(y)))

    def fs(rows):
        return {"data": [x for r in rows for x in r], "arr": rows, "lens": [len(r) for r in rows], "iter": rows, "elems": rows}
    norm = lambda rows: [[_enc(_dec(x)) for x in r] for r in rows]
    if r["init"] != fs(norm(rows)):
        out.append(("matches-list-model", "after construction from %s: views %s" % (rows, r["init"])))
    for i, (it, rec) in enumerate(zip(c["items"], r["steps"])):
        k = it[0]
        tag = "item %d %s on rows %s" % (i, it, rows)
        if "err" in rec:
            out.append(("op-structure", "%s: raised %s" % (tag, rec["err"])))
            continue
        if "operand_altered" in rec:
            out.append(("operands-unaltered", "%s: the operand is %s afterwards" % (tag, rec["operand_altered"])))
        if k in ("cmp", "maskget", "maskset"):
            left = it[3] == "l"
            m = [[cm(it[1], it[2], x) if left else cm(it[1], x, it[2]) for x in row] for row in rows]
        elif k in ("cmpra", "masksetra"):
            m = [[cm(it[1], x, y) for x, y in zip(row, o)] for row, o in zip(rows, it[2])]
        elif k == "notcmp":
            m = [[1 - cm(it[1], x, it[2]) for x in row] for row in rows]
        else:
            m = [[cm(it[1], x, it[2]) for x in row] for row in rows]
        if k in ("cmp", "cmpra", "notcmp"):
            if rec.get("ra") != _ra_of(m):
                out.append(("op-structure", "%s: got %s, element-wise (IEEE: every ordered comparison with NaN is false) %s"
                            % (tag, rec.get("ra"), m)))
        elif k in ("allcmp", "anycmp"):
            exp = (all if k == "allcmp" else any)(x for row in m for x in row)
            if rec.get("val") != exp:
                out.append(("op-structure", "%s: got %s, expected %s" % (tag, rec.get("val"), exp)))
        elif k == "maskget":
            exp = [_enc(_dec(x)) for row, mr in zip(rows, m) for x, b in zip(row, mr) if b]
            if rec.get("val") != exp:
                out.append(("op-structure", "%s: a[mask] gives %s, the rows selected element-wise are %s" % (tag, rec.get("val"), exp)))
        else:
            v = it[4] if k == "maskset" else it[3]
            rows = [[v if b else x for x, b in zip(row, mr)] for row, mr in zip(rows, m)]
            if rec.get("after") != fs(norm(rows)):
                out.append(("matches-list-model", "%s: views afterwards %s, the list-of-rows model %s" % (tag, rec.get("after"), norm(rows))))
                rows = [list(x) for x in rec["after"]["arr"]] if rec.get("after") else rows
    return out


def _special(c):
    return c.get("stream") in ("rowless", "nan")


# ----------------------------------------------------------------------------- index-argument stream (round 3s)
def _pool_entry(rng, rows):
    """index objects kept by the caller: ndarrays (also two columns of one table) with negative entries"""
    n = len(rows)
    form = rng.choice(["pairs", "pairs", "pairs", "ps", "el"])
    m = rng.randint(1, 3)
    if form == "el":
        r = rng.randint(-n, n - 1)
        L = len(rows[r])
        rs, cs = [r] * m, [rng.choice([-1, -L, rng.randint(-L, L - 1)]) for _ in range(m)]
    else:
        rs = [rng.choice([-1, -n, rng.randint(-n, n - 1)]) for _ in range(m)]
        if form == "ps":
            lim = min(len(rows[r]) for r in rs)
            cs = [rng.randint(-lim, -1)] * m
        else:
            cs = [rng.choice([-1, -len(rows[r]), rng.randint(-len(rows[r]), len(rows[r]) - 1)]) for r in rs]
    return {"form": form, "rs": rs, "cs": cs, "dt": rng.choice([None, None, "int32", "int16", "int8"]),
            "view": form == "pairs" and rng.random() < 0.4}


def _pool_op(rng, e, rows):
    rsel = ["li", list(e["rs"])]
    csel = ["int", e["cs"][0]] if e["form"] == "ps" else ["li", list(e["cs"])]
    q = rng.random()
    cnt = len(e["rs"]) if e["form"] == "ps" else max(len(e["rs"]), len(e["cs"]))
    v = ["s", 50 + rng.randint(0, 9)] if q < 0.5 else ["v", [50 + rng.randint(0, 9) for _ in range(cnt)]]
    return ["Set2D", rsel, csel, v]


def _stream_ixarg(rng, maxitems):
    """writes and reads through index ndarrays that the caller keeps and uses again: after an append, after a row
    assignment that changes a row length, and on a second array with other row lengths"""
    n = rng.randint(1, 4)
    rows = [[_val(rng) for _ in range(rng.randint(1, 5))] for _ in range(n)]
    init = {"kind": "rows", "rows": rows, "np": rng.random() < 0.5} if rng.random() < 0.5 \
        else _flat_init(rows, rng.random() < 0.5)
    pool = [_pool_entry(rng, rows) for _ in range(rng.randint(1, 2))]
    items, cur = [], rows

    def use(j):
        nonlocal cur
        q = rng.random()
        if q < 0.55:
            op = _pool_op(rng, pool[j], cur)
            items.append({"t": "op", "op": op, "pool": j})
            try:
                cur = shadow_apply(cur, op)
            except Rej:
                pass
        elif q < 0.8:
            items.append({"t": "poolread", "pool": j})
        else:
            m = rng.randint(1, 4)
            items.append({"t": "poolread", "pool": j,
                          "rows2": [[_val(rng) for _ in range(rng.randint(1, 5))] for _ in range(m)]})
    for _ in range(rng.randint(2, 2 + maxitems // 6)):
        j = rng.randrange(len(pool))
        use(j)
        q = rng.random()
        if q < 0.5:
            vs = [[_val(rng) for _ in range(rng.randint(1, 4))] for _ in range(rng.randint(1, 2))]
            cur = _track(items, cur, ["Append", vs, rng.choice(["ra", "lists"])])
        elif q < 0.8 and not _rect(cur):
            cur = _track(items, cur, ["SetRow", rng.randint(-len(cur), len(cur) - 1),
                                     ["v", [_val(rng) for _ in range(rng.randint(1, 5))]]])
        elif q < 0.9:
            items += _obs_reads(rng, cur)
        use(j)
        if rng.random() < 0.5:
            items += _obs_reads(rng, cur)
    return {"init": init, "items": items, "stream": "ixarg", "pool": pool}



# ----------------------------------------------------------------------------- mask-history stream (round 3s, wave 5)
# A mask is a ragged array of booleans with its OWN row layout; a[mask] = v writes a[r][c] for every (r, c) with
# mask[r][c] set.  Masks kept by the caller across layout changes (a row replaced by one of another length, rows
# appended) and masks computed on another array whose rows are laid out differently.
def _mask_values(rng, mask, form, base=20):
    """a value for a[mask] = v: scalar / flat vector / one row per mask row holding a set element (RaggedArray, nested lists)"""
    per = [[base + rng.randint(0, 9) for b in row if b] for row in mask]
    per = [x for x in per if x]
    if form == "s" or not per:
        return ["s", base + rng.randint(0, 9)]
    if form == "v":
        return ["v", [x for row in per for x in row]]
    return [form, per]


def _mask_of(rows, rng, want_true=True):
    for _ in range(8):
        c, k = rng.choice(list(CMP)), _val(rng)
        mask = [[pycmp(c, x, k) for x in r] for r in rows]
        if not want_true or 0 < sum(map(sum, mask)):
            return c, k, mask
    c, k = "ge", min(x for r in rows for x in r)
    return c, k, [[True] * len(r) for r in rows]


def _relayout(rng, cur, grow):
    """one write that changes the row layout: a row replaced by a longer (grow) / shorter one, or rows appended"""
    n = len(cur)
    q = rng.random()
    if q < 0.25:
        vs = [[_val(rng) for _ in range(rng.randint(1, 4))] for _ in range(rng.randint(1, 2))]
        return ["Append", vs, rng.choice(["ra", "lists"])]
    i = rng.randrange(n - 1) if n > 1 and rng.random() < 0.8 else rng.randrange(n)     # mostly not the last row: later rows move
    L = len(cur[i])
    newL = L + rng.randint(1, 3) if grow or L == 1 else rng.randint(1, L - 1)
    new = list(cur[i][:newL]) + [_val(rng) for _ in range(newL - L)] if rng.random() < 0.6 else [_val(rng) for _ in range(newL)]
    if len(set(len(r) for r in cur)) > 1 and rng.random() < 0.6:
        return ["SetRow", rng.choice([i, i - n]), ["v", new]]
    return ["SetRows", ["li", [rng.choice([i, i - n])]], ["rows", [new]]]


def _mask_writes(rng, items, cur, spec_of, mask):
    forms = ["s", "v", "rows", "nested", "aug"]
    rng.shuffle(forms)
    if rng.random() < 0.4:
        items.append({"t": "maskread", "spec": spec_of()})
    for form in forms[:rng.randint(1, 3)]:
        if form == "aug":
            o = rng.choice(["add", "sub", "add", "mul"])
            cur = _track(items, cur, ["AugMask", spec_of(), o, {"add": 100, "sub": 50, "mul": 2}[o]])
        else:
            cur = _track(items, cur, ["SetMask", spec_of(), _mask_values(rng, mask, form, rng.choice([20, 40, 60]))])
        if rng.random() < 0.5:
            items.append({"t": "maskread", "spec": spec_of()})     # what was written is what the same mask reads back
        if rng.random() < 0.4:
            items += _obs_reads(rng, cur)
    return cur


def _stream_mask(rng, maxitems):
    n = rng.randint(2, 4)
    rect = rng.random() < 0.25
    L = rng.randint(1, 4)
    rows = [[_val(rng) for _ in range(L if rect else rng.randint(1, 5))] for _ in range(n)]
    init = {"kind": "rows", "rows": rows, "np": rng.random() < 0.5} if rng.random() < 0.5 \
        else _flat_init(rows, rng.random() < 0.5)
    items, cur = [], rows
    for _ in range(rng.randrange(3)):
        if rng.random() < 0.3:
            items.append({"t": "obs", "q": _gen_obs(rng, cur)})
        else:
            cur = _track(items, cur, _gen_op(rng, cur, False))
    for rnd in range(rng.randint(1, 1 + maxitems // 12)):
        if rng.random() < 0.6:
            # ---- stale mask: `mask = a cmp k` now, used after the layout changed
            at = len(items)
            c, k, mask = _mask_of(cur, rng)
            grow = rng.random() < 0.8
            if rng.random() < 0.25:              # the ordinary use first: same layout
                cur = _track(items, cur, ["SetMask", {"mask": mask, "cmp": [c, k], "at": at}, ["s", _val(rng)]])
            for _ in range(rng.randint(1, 2)):
                cur = _track(items, cur, _relayout(rng, cur, grow))
            if rng.random() < 0.3:
                items += _obs_reads(rng, cur)
            cur = _mask_writes(rng, items, cur, lambda: {"mask": mask, "cmp": [c, k], "at": at}, mask)
        else:
            # ---- foreign mask: computed on another array b whose rows are laid out differently
            m = len(cur) if rng.random() < 0.7 else rng.randint(1, len(cur))
            fit = rng.random() < 0.85            # every set element of the mask exists in a
            lens = []
            for r in range(m):
                La = len(cur[r])
                lens.append(rng.randint(1, La) if fit or rng.random() < 0.5 else La + rng.randint(1, 2))
            if m > 1 and lens[:m - 1] == [len(x) for x in cur[:m - 1]]:
                cand = [r for r in range(m - 1) if len(cur[r]) > 1]
                if cand:
                    r = rng.choice(cand)
                    lens[r] = rng.randint(1, len(cur[r]) - 1)
            rows2 = [[_val(rng) for _ in range(x)] for x in lens]
            c, k, mask = _mask_of(rows2, rng)
            how = rng.choice(["cmp", "cmp", "bools"])
            spec = {"mask": mask, "cmp": None, "of": {"rows": rows2, "cmp": [c, k]}} if how == "cmp" else {"mask": mask, "cmp": None}
            cur = _mask_writes(rng, items, cur, lambda: dict(spec), mask)
        items += _obs_reads(rng, cur)
    return {"init": init, "items": items, "stream": "mask"}


# ----------------------------------------------------------------------------- index dtypes / broadcasting stream
IXR = {"int8": (-2 ** 7, 2 ** 7 - 1), "uint8": (0, 2 ** 8 - 1), "int16": (-2 ** 15, 2 ** 15 - 1),
       "uint16": (0, 2 ** 16 - 1), "int32": (-2 ** 31, 2 ** 31 - 1), "uint32": (0, 2 ** 32 - 1),
       "int64": (-2 ** 63, 2 ** 63 - 1), "uint64": (0, 2 ** 64 - 1)}
IXW_SMALL = ["int8", "uint8", "int32", "uint32", "uint64"]
IXW_BIG = ["int16", "uint16"]
IXW_FORMS = ["pairs", "pairs", "ps", "el", "bc", "br"]
COQ_MAX = 600          # arrays of the index-dtype stream with more elements: oracle only
READS_MAX = 5000       # above, the per-element read path a[r, c] for every (r, c) is skipped


def _ixw_top(dt):
    return IXR[dt][1] if dt in ("int8", "uint8", "int16", "uint16") else 127


def _ixw_lens(rng, dt, shape):
    """row lengths with which resolving an index held in dtype dt leaves the dtype's range: rows longer than its
    maximum ("long") or more rows than its maximum ("many"); the 32/64-bit types get the int8 sizes."""
    top = _ixw_top(dt)
    if shape == "small":
        return [rng.randint(1, 5) for _ in range(rng.randint(1, 4))]
    if shape == "long":
        nr = 2 if top != 127 or rng.random() < 0.6 else 3
        lo, hi = (132, 280 if nr == 2 else 190) if top == 127 else (260, 290) if top == 255 else (top + 5, top + 400)
        return [rng.randint(lo, hi)] * nr if rng.random() < 0.3 else [rng.randint(lo, hi) for _ in range(nr)]
    nr = rng.randint(top + 5, top + (40 if top < 300 else 300))
    lens = [1] * nr if rng.random() < 0.25 else [rng.choice([1, 1, 2]) for _ in range(nr)]
    while top < 300 and sum(lens) > 560:
        lens[lens.index(2)] = 1
    return lens


def _ixw_pick(rng, n, dt, mode=None):
    """an index into a sequence of length n that dtype dt holds: "neg" a small negative one (signed types), "top" one
    of the largest, "bad" one outside (None if the dtype holds none), else any"""
    dlo, dhi = IXR[dt]
    lo, hi = max(-n, dlo), min(n - 1, dhi)
    if mode == "bad":
        cands = [x for x in (n, -n - 1) if dlo <= x <= dhi]
        return rng.choice(cands) if cands else None
    if mode == "neg" and lo < 0:
        x = rng.choice([-1, -1, -2, -3])
    elif mode == "top":
        x = rng.choice([hi, hi, hi - 1, rng.randint(hi // 2, hi)])
    else:
        x = rng.choice([lo, hi, 0, -1, rng.randint(lo, hi), rng.randint(lo, hi)])
    return min(max(x, lo), hi)


def _ixw_entry(rng, lens, dt, shape, form):
    """a pool entry (index objects kept by the caller) of dtype dt whose resolution leaves the dtype's range"""
    nr = len(lens)
    signed = IXR[dt][0] < 0
    rmode = ("neg" if signed else "top") if shape == "many" else None
    cmode = ("neg" if signed else "top") if shape == "long" else None
    bad = rng.random() < 0.06

    def row(first):
        if not signed and shape == "long" and first:
            return nr - 1
        return _ixw_pick(rng, nr, dt, rmode if first or rng.random() < 0.5 else None)

    def col(n, first):
        if bad and first:
            x = _ixw_pick(rng, n, dt, "bad")
            if x is not None:
                return x
        return _ixw_pick(rng, n, dt, cmode if first or rng.random() < 0.5 else None)
    m = rng.randint(2, 3) if form in ("bc", "br") else rng.randint(1, 3)
    if form in ("el", "br"):
        r = row(True)
        cs = [col(lens[r], i == 0) for i in range(m)]
        rs = [r] * m if form == "el" else [r]
    else:
        rs = [row(i == 0) for i in range(m)]
        if form in ("ps", "bc"):
            c0 = col(min(lens[r] for r in rs), True)
            cs = [c0] * m if form == "ps" else [c0]
        else:
            cs = [col(lens[r], i == 0) for i, r in enumerate(rs)]
    return {"form": form, "rs": rs, "cs": cs, "dt": dt, "view": form == "pairs" and rng.random() < 0.3}


def _stream_ixwide(rng, spec):
    """writes a[R, C] = v and reads a[R, C] through index ndarrays of a narrow dtype (kept by the caller) on arrays
    whose rows are longer / more numerous than that dtype counts, and through index vectors of different lengths
    (one entry against n: NumPy broadcasting); distinct element values, so a write that lands elsewhere shows"""
    dt, shape, form = spec
    lens = _ixw_lens(rng, dt, shape)
    rows, p = [], 0
    for L in lens:
        rows.append(list(range(p, p + L)))
        p += L
    if p <= COQ_MAX and rng.random() < 0.3:
        init = {"kind": "rows", "rows": rows, "np": rng.random() < 0.5}
    else:
        init = _flat_init(rows, rng.random() < 0.5)
    big = p > COQ_MAX          # tens of thousands of elements / rows: one entry, read - write - read
    pool = [_ixw_entry(rng, lens, dt, shape, form)]
    if not big and rng.random() < 0.5:
        pool.append(_ixw_entry(rng, lens, dt, shape, rng.choice(IXW_FORMS)))
    items, cur = [], rows

    def write(j):
        nonlocal cur
        op = _pool_op(rng, pool[j], cur)
        items.append({"t": "op", "op": op, "pool": j})
        try:
            cur = shadow_apply(cur, op)
        except Rej:
            pass
    for j in range(len(pool)):
        if big or rng.random() < 0.5:
            items.append({"t": "poolread", "pool": j})
        write(j)
        items.append({"t": "poolread", "pool": j})
    if not big and rng.random() < 0.5:
        vs = [[700 + i for i in range(rng.randint(1, 3))]]
        cur = _track(items, cur, ["Append", vs, rng.choice(["ra", "lists"])])
        j = rng.randrange(len(pool))
        write(j)
        items.append({"t": "poolread", "pool": j})
    if p <= COQ_MAX:
        n = len(cur)
        r = rng.randint(-n, n - 1)
        items.append({"t": "obs", "q": ["Elem", r, rng.randint(-len(cur[r]), len(cur[r]) - 1)]})
        items.append({"t": "obs", "q": ["Row", rng.randint(-n, n - 1)]})
    return {"init": init, "items": items, "stream": "ixwide", "pool": pool}


def _ixwide_cases(rng, n, big):
    deck = [(dt, sh, f) for f in IXW_FORMS for sh in ("long", "many") for dt in IXW_SMALL]
    deck += [(dt, "small", f) for f in ("bc", "br", "bc", "br") for dt in ("int8", "int64", "uint8", "int16")]
    bigdeck = [(dt, sh, f) for f in ("pairs", "ps", "el", "bc") for sh in ("long", "many") for dt in IXW_BIG]
    return [_stream_ixwide(rng, deck[i % len(deck)]) for i in range(n)] + \
        [_stream_ixwide(rng, bigdeck[i % len(bigdeck)]) for i in range(big)]


def _ninit(c):
    i = c["init"]
    return len(i["data"]) if i["kind"] == "flat" else sum(len(x) for x in i["rows"])


def generate(rng, tier):
    ncases = 320 if tier == "quick" else 2600
    maxitems = 12 if tier == "quick" else 40
    cases = []
    for _ in range(ncases):
        n = rng.randint(1, 5)
        if rng.random() < 0.4:
            L = rng.randint(1, 4)
            rows = [[_val(rng) for _ in range(L)] for _ in range(n)]
        else:
            rows = [[_val(rng) for _ in range(rng.randint(1, 5))] for _ in range(n)]
        q = rng.random()
        if q < 0.45:
            init = {"kind": "rows", "rows": rows, "np": rng.random() < 0.5}
        else:
            init = {"kind": "flat", "data": [x for r in rows for x in r], "lens": [len(r) for r in rows],
                    "np": rng.random() < 0.5}
        items = []
        cur = rows
        for _ in range(rng.randint(1, maxitems)):
            if rng.random() < 0.25:
                items.append({"t": "obs", "q": _gen_obs(rng, cur)})
                continue
            op = _gen_op(rng, cur, rng.random() < 0.12)
            items.append({"t": "op", "op": op})
            try:
                cur = shadow_apply(cur, op)
            except Rej:
                pass
        cases.append({"init": init, "items": items})
    nstream = 50 if tier == "quick" else 400
    for f in (_stream_append, _stream_onerow, _stream_rect):
        for _ in range(nstream):
            cases.append(f(rng, maxitems))
    for _ in range(140 if tier == "quick" else 1200):
        cases.append(_stream_dtype(rng, maxitems))
    for force in DT_FORCED * (1 if tier == "quick" else 4):
        cases.append(_stream_dtype(rng, maxitems, force))
    for _ in range(120 if tier == "quick" else 1000):
        cases.append(_stream_ixarg(rng, maxitems))
    for _ in range(120 if tier == "quick" else 1000):
        cases.append(_stream_rowless(rng))
    for _ in range(150 if tier == "quick" else 1200):
        cases.append(_stream_nan(rng, maxitems))
    cases += _ixwide_cases(rng, 76, 8) if tier == "quick" else _ixwide_cases(rng, 760, 48)
    for _ in range(90 if tier == "quick" else 800):
        cases.append(_stream_mask(rng, maxitems))
    return cases


# ----------------------------------------------------------------------------- running the real code
def _toint(x):
    try:
        return int(x)
    except Exception:
        return "non-scalar:" + str(x)[:40]


_NUM = [False]      # dtype stream: element values are read back as exact Python numbers (int or float), never truncated


def _tonum(x):
    if isinstance(x, (bool, np.bool_, int, np.integer)):
        return int(x)
    if isinstance(x, (float, np.floating)):
        return float(x)
    return "non-scalar:" + str(x)[:40]


def _cv(x):
    """reader of the public read paths (raises on anything that is not a number)"""
    if not _NUM[0]:
        return int(x)
    v = _tonum(x)
    if isinstance(v, str):
        raise TypeError(v)
    return v


def _scramble(arr):
    """in-place change of every element (aliasing probes), whatever the dtype"""
    if arr.dtype == bool:
        np.logical_not(arr, out=arr)
    elif arr.dtype.kind in "iu" and arr.dtype.itemsize < 4:
        arr += 100
    else:
        arr += 1000


def _snap(a):
    # robust against a corrupted object (scalars in row slots, arrays in cells): such content is reported, not raised
    sv = _tonum if _NUM[0] else _toint

    def fast(x):
        # plain 1-d integer arrays (the usual case; large in the index-dtype stream): same values, converted at once
        return not _NUM[0] and isinstance(x, np.ndarray) and x.ndim == 1 and x.dtype.kind in "iu"
    return {"data": a._data.tolist() if fast(a._data) else [sv(x) for x in list(a._data)],
            "arr": [r.tolist() if fast(r) else [sv(x) for x in np.atleast_1d(np.asarray(r, dtype=object))] for r in a._array],
            "lens": [_toint(x) for x in list(a.lengths)]}


def _errkind(ex):
    return "IndexError" if isinstance(ex, IndexError) else "Reject"


def _pysl(spec):
    return slice(spec[0], spec[1], spec[2])


def _rowidx(sel, rng_np):
    if sel[0] == "sl":
        return _pysl(sel[1:])
    return np.array(sel[1]) if rng_np else list(sel[1])


def _reads(a):
    """public read paths; each may fail on its own (recorded, judged by the oracle)."""
    out = {}

    def rec(name, f):
        try:
            out[name] = f()
        except Exception as ex:
            out[name] = {"err": type(ex).__name__ + ": " + str(ex)[:80]}
    n = len(a.lengths)
    rec("iter", lambda: [[_cv(x) for x in np.asarray(r).tolist()] for r in a])                    # _array
    rec("rowslice", lambda: [_cv(x) for x in a[0:n]._data.tolist()])                               # _array -> ctor
    rec("flatten", lambda: [_cv(x) for x in a.flatten().tolist()])                                 # _data
    if a.size > READS_MAX:
        out["elems"] = "skipped-large"
    else:
        rec("elems", lambda: [[_cv(a[r, c][0]) for c in range(int(a.lengths[r]))] for r in range(n)])  # _data + lengths
    rec("full2d", lambda: _snap(a[:, :]))                                                          # _data + lengths
    rec("rowreads", lambda: [[_cv(x) for x in np.asarray(a[r]).tolist()] for r in range(n)])      # _array
    rec("starts", lambda: [_cv(x) for x in a.starts.tolist()])
    rec("len", lambda: int(len(a)))
    rec("size", lambda: int(a.size))
    rec("max", lambda: _cv(a.max()))
    rec("min", lambda: _cv(a.min()))
    return out


def _mk_value(v, RaggedArray):
    if v[0] == "s":
        return v[1], None
    if v[0] == "v":
        return list(v[1]), None
    if v[0] == "nested":
        return [list(x) for x in v[1]], None
    ra = RaggedArray([list(x) for x in v[1]])
    return ra, ra


def _pool_objects(pool):
    """the caller's index objects, built once per case: [(row index object, column index object)]"""
    objs = []
    for e in pool:
        if e["view"]:
            table = np.array([e["rs"], e["cs"]], dtype=e["dt"]).T.copy()        # one (row, col) pair per line
            objs.append((table[:, 0], table[:, 1]))
        elif e["form"] == "ps":
            objs.append((np.array(e["rs"], dtype=e["dt"]), e["cs"][0]))
        elif e["form"] == "el":
            objs.append((e["rs"][0], np.array(e["cs"], dtype=e["dt"])))
        else:
            objs.append((np.array(e["rs"], dtype=e["dt"]), np.array(e["cs"], dtype=e["dt"])))
    return objs


def _pool_snap(obj):
    return [x.tolist() if isinstance(x, np.ndarray) else int(x) for x in obj]


_MASK_NOTES = []    # aliasing remarks made while a mask item ran (collected by run_impl)
_MASKS = [None]     # mask-history stream: per run, the masks the caller keeps {item index where computed: mask object}


def _mask_snap(m):
    return [[bool(x) for x in np.asarray(r).tolist()] for r in m]


def _mask_object(a, spec, RaggedArray):
    """the mask object of a SetMask / AugMask item and, when its content is known in advance, that content"""
    if spec.get("at") is not None and _MASKS[0] is not None and spec["at"] in _MASKS[0]:
        return _MASKS[0][spec["at"]]                               # computed earlier in the history, kept since (object, content then)
    if spec.get("of"):
        b = RaggedArray([list(r) for r in spec["of"]["rows"]])
        return getattr(b, CMP[spec["of"]["cmp"][0]][1])(spec["of"]["cmp"][1]), spec["mask"]
    if spec["cmp"]:
        return getattr(a, CMP[spec["cmp"][0]][1])(spec["cmp"][1]), None
    return RaggedArray([list(map(bool, r)) for r in spec["mask"]]), spec["mask"]


class MaskAltered(Exception):
    pass


def _do_op(a, op, RaggedArray, ixobj=None):
    """executes one write on the real object; returns the RaggedArray value involved (if any)."""
    k = op[0]
    if ixobj is not None:
        val, ra = _mk_value(op[3], RaggedArray)
        a[ixobj] = val
        return ra
    if k == "SetRow":
        v = op[2]
        a[op[1]] = v[1] if v[0] == "s" else np.array(v[1]) if len(v[1]) % 2 else list(v[1])
        return None
    if k == "SetRows":
        val, ra = _mk_value(op[2], RaggedArray)
        a[_rowidx(op[1], len(str(op)) % 2)] = val
        return ra
    if k == "SetRowSl":
        v = op[3]
        a[op[1], _pysl(op[2])] = v[1] if v[0] == "s" else list(v[1])
        return None
    if k == "AugRow":
        a[op[1]] = getattr(a[op[1]], BIN[op[2]][2])(op[3])      # what `a[r] op= k` does
        return None
    if k == "AugRows":
        idx = _rowidx(op[1], len(str(op)) % 2)
        a[idx] = getattr(a[idx], BIN[op[2]][1])(op[3])           # no __iop__ on RaggedArray: falls back to __op__
        return None
    if k == "SetElem":
        a[op[1], op[2]] = op[3]
        return None
    if k == "AugElem":
        a[op[1], op[2]] = getattr(a[op[1], op[2]], BIN[op[3]][2])(op[4])
        return None
    if k in ("Set2D", "Aug2D"):
        rsel, csel = op[1], op[2]
        ri = _rowidx(rsel, len(str(op)) % 2)
        ci = _pysl(csel[1:]) if csel[0] == "sl" else csel[1] if csel[0] == "int" else \
            np.array(csel[1]) if len(csel[1]) and len(str(op)) % 3 == 0 else list(csel[1])
        if k == "Set2D":
            val, ra = _mk_value(op[3], RaggedArray)
            a[ri, ci] = val
            return ra
        cur = a[ri, ci]
        a[ri, ci] = getattr(cur, BIN[op[3]][1])(op[4])
        return None
    if k in ("SetMask", "AugMask"):
        spec = op[1]
        m, content = _mask_object(a, spec, RaggedArray)
        if content is not None:
            content = [[bool(x) for x in r] for r in content]
            if _mask_snap(m) != content:
                raise MaskAltered("before use the mask reads %s, when it was computed it read %s" % (_mask_snap(m), content))
        try:
            if k == "SetMask":
                val, ra = _mk_value(op[2], RaggedArray)
                a[m] = val
                return ra
            cur = a[m]
            a[m] = getattr(cur, BIN[op[2]][1])(op[3])
            return None
        finally:
            if content is not None and _mask_snap(m) != content:
                _MASK_NOTES.append("operand altered: the mask %s handed to a[mask] = v reads %s afterwards" % (content, _mask_snap(m)))
    if k == "Append" and len(op) > 3:
        # dtype stream: every row in its own dtype (None: what NumPy makes of the Python list)
        rows, how, dts = op[1], op[2], op[3]
        typed = [np.array(x, dtype=d) if d else np.array(x) for x, d in zip(rows, dts)]
        if how == "ra":
            ra = RaggedArray(typed)
            a.append(ra)
            return ra
        if how == "raflat":
            ra = RaggedArray(np.concatenate(typed), lengths=[len(x) for x in rows])
            a.append(ra)
            return ra
        if how == "arrays":
            a.append(typed)
            return None
        if how == "tuple":
            a.append(tuple(typed))
            return None
        a.append([list(x) for x in rows])
        return None
    if k == "AppendFlat" and len(op) > 2:
        a.append(np.array(op[1], dtype=op[2]) if op[2] else list(op[1]))
        return None
    if k == "Append":
        if op[2] == "ra":
            ra = RaggedArray([list(x) for x in op[1]])
            a.append(ra)
            return ra
        a.append([np.array(x) for x in op[1]])
        return None
    if k == "AppendFlat":
        a.append(list(op[1]))
        return None
    raise AssertionError(k)


def _do_obs(a, q, RaggedArray):
    k = q[0]
    if k == "Cmp":
        return getattr(a, CMP[q[1]][1])(q[2])
    if k == "CmpRA":
        return getattr(a, CMP[q[1]][1])(RaggedArray([list(r) for r in q[2]]))
    if k == "NotCmp":
        return ~getattr(a, CMP[q[1]][1])(q[2])
    if k == "Logic":
        return getattr(getattr(a, CMP[q[2]][1])(q[3]), LOG[q[1]][1])(getattr(a, CMP[q[4]][1])(q[5]))
    if k == "Bin":
        return getattr(a, BIN[q[1]][1])(q[2])
    if k == "RBin":
        return getattr(a, RBIN[q[1]])(q[2])
    if k == "BinRA":
        return getattr(a, BIN[q[1]][1])(RaggedArray([list(r) for r in q[2]]))
    if k == "All":
        return bool(a.all())
    if k == "Any":
        return bool(a.any())
    if k == "Max":
        return _cv(a.max())
    if k == "Min":
        return _cv(a.min())
    if k == "AllCmp":
        return bool(getattr(a, CMP[q[1]][1])(q[2]).all())
    if k == "AnyCmp":
        return bool(getattr(a, CMP[q[1]][1])(q[2]).any())
    if k == "Elem":
        return _cv(a[q[1], q[2]][0])
    if k == "Starts":
        return [int(x) for x in a.starts.tolist()]
    if k == "Row":
        return [_cv(x) for x in np.asarray(a[q[1]]).tolist()]
    if k == "ColSl":
        return a[:, _pysl(q[1:])]
    raise AssertionError(k)


def run_impl(c):
    from enspara.ra.ra import RaggedArray
    if c.get("stream") == "rowless":
        return _run_rowless(c)
    if c.get("stream") == "nan":
        return _run_nan(c)
    init = c["init"]
    out = {"alias": []}
    _NUM[0] = c.get("stream") == "dtype"
    dt = init.get("dt")
    # ---- construction (copy=True is the default) and the copy-never-aliases clause
    if init["kind"] == "rows":
        src = [np.array(r, dtype=dt) for r in init["rows"]] if init["np"] else [list(r) for r in init["rows"]]
        a = RaggedArray(src)
        s0 = _snap(a)
        if init["np"]:
            for r in src:
                _scramble(r)
    else:
        src = np.array(init["data"], dtype=dt)
        lens = np.array(init["lens"]) if init["np"] else list(init["lens"])
        a = RaggedArray(src, lengths=lens)
        s0 = _snap(a)
        _scramble(src)
        if init["np"]:
            lens += 7
    if _snap(a) != s0:
        out["alias"].append("constructor(copy=True) aliases the caller's data")
    out["init"] = s0
    out["init_reads"] = _reads(a)
    if _NUM[0]:
        out["init_dtype"] = str(a._data.dtype)
    steps = []
    pool = _pool_objects(c["pool"]) if "pool" in c else []
    pool0 = [_pool_snap(o) for o in pool]

    def pool_check(j, what):
        if _pool_snap(pool[j]) != pool0[j]:
            out["alias"].append("operand altered: the index arrays %s handed to %s are %s afterwards" % (
                pool0[j], what, _pool_snap(pool[j])))
            pool0[j] = _pool_snap(pool[j])          # reported once per change
    _MASKS[0] = {}
    del _MASK_NOTES[:]
    mask_at = {}
    for it in c["items"]:
        if it["t"] == "op" and it["op"][0] in ("SetMask", "AugMask") and it["op"][1].get("at") is not None:
            mask_at[it["op"][1]["at"]] = it["op"][1]["cmp"]
        if it["t"] == "maskread" and it["spec"].get("at") is not None:
            mask_at[it["spec"]["at"]] = it["spec"]["cmp"]
    for idx, it in enumerate(c["items"]):
        if idx in mask_at:
            # `mask = a cmp k`: the caller computes a mask here and keeps it
            try:
                mobj = getattr(a, CMP[mask_at[idx][0]][1])(mask_at[idx][1])
                _MASKS[0][idx] = (mobj, _mask_snap(mobj))          # content snapshotted now: plain Python values
            except Exception:
                pass
        before = _snap(a)
        if it["t"] == "poolread":
            # a read a[R, C] with the caller's index arrays, on the array itself or on a second array
            rec = {}
            try:
                tgt = RaggedArray([list(x) for x in it["rows2"]]) if "rows2" in it else a
                rec["val"] = [_cv(x) for x in np.asarray(tgt[pool[it["pool"]]]).reshape(-1).tolist()]
            except Exception as ex:
                rec["err"] = _errkind(ex)
                rec["msg"] = type(ex).__name__ + ": " + str(ex)[:120]
            pool_check(it["pool"], "__getitem__")
            if _snap(a) != before:
                out["alias"].append("operand altered by a read through index arrays")
            steps.append(rec)
            continue
        if it["t"] == "maskread":
            rec = {}
            try:
                m, content = _mask_object(a, it["spec"], RaggedArray)
                if content is not None and _mask_snap(m) != [[bool(x) for x in row] for row in content]:
                    out["alias"].append("operand altered: a mask kept by the caller reads %s, when it was computed it read %s" % (
                        _mask_snap(m), content))
                rec["val"] = [_cv(x) for x in np.asarray(a[m]).reshape(-1).tolist()]
                if content is not None and _mask_snap(m) != [[bool(x) for x in row] for row in content]:
                    out["alias"].append("operand altered: the mask %s handed to a[mask] reads %s afterwards" % (content, _mask_snap(m)))
            except Exception as ex:
                rec["err"] = _errkind(ex)
                rec["msg"] = type(ex).__name__ + ": " + str(ex)[:120]
            if _snap(a) != before:
                out["alias"].append("operand altered by a read through a mask")
            steps.append(rec)
            continue
        if it["t"] == "op":
            rec = {}
            try:
                ra = _do_op(a, it["op"], RaggedArray, pool[it["pool"]] if "pool" in it else None)
                rec["e"] = None
            except MaskAltered as ex:
                ra = None
                rec["e"] = "Reject"
                rec["msg"] = "mask altered: " + str(ex)[:300]
                out["alias"].append("operand altered: a mask kept by the caller changed (%s)" % str(ex)[:300])
            except Exception as ex:
                ra = None
                rec["e"] = _errkind(ex)
                rec["msg"] = type(ex).__name__ + ": " + str(ex)[:120]
            while _MASK_NOTES:
                out["alias"].append(_MASK_NOTES.pop(0))
            rec.update(_snap(a))
            rec["reads"] = _reads(a)
            if "pool" in it:
                pool_check(it["pool"], "__setitem__")
            if _NUM[0]:
                rec["dtype"] = str(a._data.dtype)
            if ra is not None:
                # the value handed in must not be tied to the array afterwards
                keep = _snap(a)
                _scramble(ra._data)
                for r in ra._array:
                    try:
                        _scramble(r)
                    except Exception:
                        pass
                if _snap(a) != keep:
                    out["alias"].append("array shares memory with the value assigned/appended (%s)" % it["op"][0])
            steps.append(rec)
        elif it["t"] == "selw":
            # a one-row selection is a new object: writing into it must not reach the parent
            rec = {}
            try:
                sel = a[it["r"]:it["r"] + 1] if it["how"] == "sl" else a[[it["r"]]]
                sel[0, it["c"]] = it["v"]
                rec["sel"] = _snap(sel)
            except Exception as ex:
                rec["err"] = _errkind(ex)
                rec["msg"] = type(ex).__name__ + ": " + str(ex)[:120]
            if _snap(a) != before:
                out["alias"].append("operand altered by a write into the one-row selection a[%s] (now %s)"
                                    % ("%d:%d" % (it["r"], it["r"] + 1) if it["how"] == "sl" else "[%d]" % it["r"], _snap(a)))
            steps.append(rec)
        else:
            rec = {}
            try:
                r = _do_obs(a, it["q"], RaggedArray)
                if isinstance(r, RaggedArray):
                    rec["ra"] = _snap(r)
                    if r is a or np.shares_memory(r._data, a._data):
                        out["alias"].append("operator result is not a new object (%s)" % it["q"][0])
                    # writing into the result must not reach the operand
                    try:
                        r[0, 0] = 12345
                        r._data[-1] = 54321
                    except Exception:
                        pass
                else:
                    rec["val"] = r
            except Exception as ex:
                rec["err"] = _errkind(ex)
                rec["msg"] = type(ex).__name__ + ": " + str(ex)[:120]
            if _snap(a) != before:
                out["alias"].append("operand altered by %s" % it["q"][0])
            steps.append(rec)
    out["steps"] = steps
    _MASKS[0] = None
    return out


# ----------------------------------------------------------------------------- oracle
def _expect_reads(rows):
    flat = [x for r in rows for x in r]
    lens = [len(r) for r in rows]
    st, acc = [], 0
    for L in lens:
        st.append(acc)
        acc += L
    return {"iter": rows, "rowslice": flat, "flatten": flat, "elems": rows,
            "full2d": {"data": flat, "arr": rows, "lens": lens}, "rowreads": rows, "starts": st, "len": len(rows),
            "size": len(flat), "max": max(flat), "min": min(flat)}


def _sh(x, n=900):
    """long values (arrays of the index-dtype stream) abbreviated in messages"""
    t = str(x)
    return t if len(t) <= n else t[:n // 2] + " ... " + t[-n // 2:]


def _diff(got, exp):
    """first flat positions where two long flat lists differ"""
    if not (isinstance(got, list) and isinstance(exp, list)) or len(exp) <= 60:
        return ""
    if len(got) != len(exp):
        return " [lengths %d / %d]" % (len(got), len(exp))
    d = [(i, got[i], exp[i]) for i in range(len(exp)) if got[i] != exp[i]][:8]
    return " [first differences (position, implementation, model): %s]" % d


def _check_state(tag, snap, reads, rows, out):
    flat = [x for r in rows for x in r]
    lens = [len(r) for r in rows]
    if [x for r in snap["arr"] for x in r] != snap["data"] or [len(r) for r in snap["arr"]] != snap["lens"]:
        out.append(("slots-coherent", "%s: _data %s / _array %s / lengths %s disagree" % (
            tag, _sh(snap["data"]), _sh(snap["arr"]), _sh(snap["lens"]))))
    if snap["data"] != flat or snap["arr"] != rows or snap["lens"] != lens:
        out.append(("matches-list-model", "%s: slots %s, list-of-rows model says %s%s" % (
            tag, _sh(snap), _sh(rows), _diff(snap["data"], flat))))
    exp = _expect_reads(rows)
    for k, v in exp.items():
        if reads.get(k) == "skipped-large" and len(flat) > READS_MAX:
            continue
        if reads.get(k) != v:
            out.append(("public-reads", "%s: read path %s gives %s, list-of-rows model says %s" % (tag, k, _sh(reads.get(k)), _sh(v))))


def oracle(c, r):
    out = []
    if c.get("stream") == "rowless":
        return _oracle_rowless(c, r)
    if c.get("stream") == "nan":
        return _oracle_nan(c, r)
    if "steps" not in r:
        return [("harness", "run_impl failed: %s" % r)]
    init = c["init"]
    rows = [list(x) for x in init["rows"]] if init["kind"] == "rows" else None
    if rows is None:
        rows, p = [], 0
        for L in init["lens"]:
            rows.append(init["data"][p:p + L])
            p += L
    _check_state("after construction", r["init"], r["init_reads"], rows, out)
    for msg in r["alias"]:
        key = "copy-no-alias" if msg.startswith("constructor") else "operands-unaltered" if msg.startswith("operand") \
            else "op-new-object" if msg.startswith("operator") else "value-no-alias"
        out.append((key, msg))
    for i, (it, rec) in enumerate(zip(c["items"], r["steps"])):
        tag = "item %d %s" % (i, (it.get("op") or it.get("q") or [it["t"]])[0])
        if "pool" in it and it["t"] == "op":
            tag += " (index arrays of the caller, used before: %s)" % c["pool"][it["pool"]]
        if it["t"] == "op" and it["op"][0] in ("SetMask", "AugMask") and (it["op"][1].get("at") is not None or it["op"][1].get("of")
                                                                         or c.get("stream") == "mask"):
            sp = it["op"][1]
            tag += " through the mask %s (%s) on rows %s" % (
                [[int(b) for b in row] for row in sp["mask"]],
                "computed as a %s %d before item %d and kept" % (sp["cmp"][0], sp["cmp"][1], sp["at"]) if sp.get("at") is not None
                else "computed as b %s %d on b = %s" % (sp["of"]["cmp"][0], sp["of"]["cmp"][1], sp["of"]["rows"]) if sp.get("of")
                else "given as a ragged array of booleans", rows)
            if it["op"][0] == "SetMask":
                tag += " value %s" % (it["op"][2],)
        if it["t"] == "op" and "dtype" in rec:
            prev_dt = ([r.get("init_dtype")] + [x["dtype"] for x in r["steps"][:i] if "dtype" in x])[-1]
            tag += " %s(_data was %s, is %s)" % (
                "of rows %s typed %s by %s " % (it["op"][1], it["op"][3], it["op"][2]) if it["op"][0] == "Append" and len(it["op"]) > 3
                else "", prev_dt, rec["dtype"])
        if it["t"] == "op":
            try:
                new = shadow_apply(rows, it["op"])
                exp_e = None
            except Rej as ex:
                new, exp_e = rows, ex.kind
            if rec["e"] is not None:
                # a rejected write must leave the object as it was (whatever the model thinks of the write)
                prev = r["steps"][i - 1] if i > 0 and c["items"][i - 1]["t"] == "op" else None
                if {k: rec[k] for k in ("data", "arr", "lens")} != _state_before(r, c, i):
                    out.append(("reject-unchanged", "%s raised %s but changed the array to %s" % (tag, rec.get("msg"), _sh(_snap_of(rec)))))
            if rec["e"] != exp_e:
                out.append(("outcome", "%s: implementation %s, list-of-rows model %s" % (tag, rec.get("msg") or "succeeded", exp_e or "succeeds")))
                # follow the implementation so that one disagreement is reported once
                if rec["e"] is None:
                    new = [list(x) for x in rec["arr"]]
                    rows = new
                    continue
            rows = new
            _check_state(tag, rec, rec["reads"], rows, out)
        elif it["t"] == "poolread":
            e = c["pool"][it["pool"]]
            tgt = [list(x) for x in it["rows2"]] if "rows2" in it else rows
            try:
                cells = _cells(tgt, ["li", list(e["rs"])], ["int", e["cs"][0]] if e["form"] == "ps" else ["li", list(e["cs"])])
                exp = [tgt[r][cc] for r, cc in cells]
            except Rej as ex:
                exp = {"err": ex.kind}
            got = rec["val"] if "val" in rec else {"err": rec.get("err")}
            if got != exp:
                out.append(("index-arrays-reused", "%s: a[R, C] with the caller's index arrays R=%s C=%s on rows %s gives %s (%s), "
                            "the list-of-rows model %s" % (tag, e["rs"], e["cs"] if e["form"] != "ps" else e["cs"][0],
                                                           _sh(tgt) if len(tgt) < 40 else "<%d rows of lengths %d..%d>" % (
                                                               len(tgt), min(map(len, tgt)), max(map(len, tgt))),
                                                           got, rec.get("msg"), exp)))
        elif it["t"] == "maskread":
            sp = it["spec"]
            try:
                exp = [rows[r_][c_] for r_, c_ in _mask_cells(rows, sp["mask"])]
            except Rej as ex:
                exp = {"err": ex.kind}
            got = rec["val"] if "val" in rec else {"err": rec.get("err")}
            if got != exp:
                out.append(("mask-read", "%s: a[mask] with the mask %s (%s) on rows %s gives %s (%s), the list-of-rows model %s" % (
                    tag, [[int(b) for b in row] for row in sp["mask"]],
                    "computed as a %s %d before item %d and kept" % (sp["cmp"][0], sp["cmp"][1], sp["at"]) if sp.get("at") is not None
                    else "computed on b = %s" % sp["of"]["rows"] if sp.get("of") else "given as booleans", rows, got, rec.get("msg"), exp)))
        elif it["t"] == "selw":
            row = list(rows[it["r"]])
            row[it["c"]] = it["v"]
            if rec.get("sel") != _ra_of([row]):
                out.append(("op-new-object", "%s: write into a one-row selection gave %s (%s), expected %s"
                            % (tag, rec.get("sel"), rec.get("msg"), _ra_of([row]))))
        else:
            q = it["q"]
            exp = _expect_obs(rows, q)
            got = rec["ra"] if "ra" in rec else (rec["val"] if "val" in rec else {"err": rec.get("err")})
            if got != exp:
                out.append(("op-structure", "%s %s: got %s (%s), element-wise on the rows gives %s" % (tag, q, got, rec.get("msg"), exp)))
    return out


def _snap_of(rec):
    return {k: rec[k] for k in ("data", "arr", "lens")}


def _state_before(r, c, i):
    for j in range(i - 1, -1, -1):
        if c["items"][j]["t"] == "op":
            return _snap_of(r["steps"][j])
    return r["init"]


def _ra_of(rows2):
    return {"data": [x for r in rows2 for x in r], "arr": rows2, "lens": [len(r) for r in rows2]}


def _expect_obs(rows, q):
    k = q[0]
    flat = [x for r in rows for x in r]
    if k == "Cmp":
        return _ra_of([[int(pycmp(q[1], x, q[2])) for x in r] for r in rows])
    if k == "CmpRA":
        return _ra_of([[int(pycmp(q[1], x, y)) for x, y in zip(r, o)] for r, o in zip(rows, q[2])])
    if k == "NotCmp":
        return _ra_of([[int(not pycmp(q[1], x, q[2])) for x in r] for r in rows])
    if k == "Logic":
        f = {"and": lambda a, b: a and b, "or": lambda a, b: a or b, "xor": lambda a, b: a != b}[q[1]]
        return _ra_of([[int(f(pycmp(q[2], x, q[3]), pycmp(q[4], x, q[5]))) for x in r] for r in rows])
    if k == "Bin":
        return _ra_of([[pybin(q[1], x, q[2]) for x in r] for r in rows])
    if k == "RBin":
        return _ra_of([[pybin(q[1], q[2], x) for x in r] for r in rows])
    if k == "BinRA":
        return _ra_of([[pybin(q[1], x, y) for x, y in zip(r, o)] for r, o in zip(rows, q[2])])
    if k == "All":
        return all(x != 0 for x in flat)
    if k == "Any":
        return any(x != 0 for x in flat)
    if k == "Max":
        return max(flat)
    if k == "Min":
        return min(flat)
    if k == "AllCmp":
        return all(pycmp(q[1], x, q[2]) for x in flat)
    if k == "AnyCmp":
        return any(pycmp(q[1], x, q[2]) for x in flat)
    if k == "Elem":
        try:
            r = _wrap(len(rows), q[1])
            return rows[r][_wrap(len(rows[r]), q[2])]
        except Rej as ex:
            return {"err": ex.kind}
    if k == "Starts":
        return [sum(len(r) for r in rows[:i]) for i in range(len(rows))]
    if k == "Row":
        try:
            return list(rows[_wrap(len(rows), q[1])])
        except Rej as ex:
            return {"err": ex.kind}
    if k == "ColSl":
        return _ra_of([list(r[_pysl(q[1:])]) for r in rows])
    raise AssertionError(k)


# ----------------------------------------------------------------------------- Coq terms
def _zl(xs):
    return clist(xs, cz, "Z")


def _zll(xss):
    return clist(xss, _zl, "(list Z)")


def _oz(x):
    return copt(x, cz, "Z")


def _cval(v):
    return "(CScalar %s)" % cz(v[1]) if v[0] == "s" else "(CVec %s)" % _zl(v[1])


def _bval(v):
    if v[0] in ("s", "v"):
        return "(BCells %s)" % _cval(v)
    return "(BRows %s)" % _zll(v[1])


def _rval(v):
    return "(RScalar %s)" % cz(v[1]) if v[0] == "s" else "(RRows %s)" % _zll(v[1])


def _rsel(s):
    if s[0] == "sl":
        return "(RSlice %s %s %s)" % (_oz(s[1]), _oz(s[2]), _oz(s[3]))
    return "(RList %s)" % _zl(s[1])


def _csel(s):
    if s[0] == "sl":
        return "(CSlice %s %s %s)" % (_oz(s[1]), _oz(s[2]), _oz(s[3]))
    if s[0] == "int":
        return "(CInt %s)" % cz(s[1])
    return "(CList %s)" % _zl(s[1])


def _mask(spec):
    return clist(spec["mask"], lambda r: clist(r, cb, "bool"), "(list bool)")


def _op(op):
    k = op[0]
    if k == "SetRow":
        return "SetRow %s %s" % (cz(op[1]), _cval(op[2]))
    if k == "SetRows":
        return "SetRows %s %s" % (_rsel(op[1]), _rval(op[2]))
    if k == "SetRowSl":
        return "SetRowSl %s %s %s %s %s" % (cz(op[1]), _oz(op[2][0]), _oz(op[2][1]), _oz(op[2][2]), _cval(op[3]))
    if k == "AugRow":
        return "AugRow %s %s %s" % (cz(op[1]), BIN[op[2]][0], cz(op[3]))
    if k == "AugRows":
        return "AugRows %s %s %s" % (_rsel(op[1]), BIN[op[2]][0], cz(op[3]))
    if k == "SetElem":
        return "Set2D (RList [%s]) (CInt %s) (BCells (CScalar %s))" % (cz(op[1]), cz(op[2]), cz(op[3]))
    if k == "AugElem":
        return "Aug2D (RList [%s]) (CInt %s) %s %s" % (cz(op[1]), cz(op[2]), BIN[op[3]][0], cz(op[4]))
    if k == "Set2D":
        return "Set2D %s %s %s" % (_rsel(op[1]), _csel(op[2]), _bval(op[3]))
    if k == "Aug2D":
        return "Aug2D %s %s %s %s" % (_rsel(op[1]), _csel(op[2]), BIN[op[3]][0], cz(op[4]))
    if k == "SetMask":
        return "SetMask %s %s" % (_mask(op[1]), _bval(op[2]))
    if k == "AugMask":
        return "AugMask %s %s %s" % (_mask(op[1]), BIN[op[2]][0], cz(op[3]))
    if k == "Append":
        return "Append %s" % _zll(op[1])
    if k == "AppendFlat":
        return "AppendFlat %s" % _zl(op[1])
    raise AssertionError(k)


def _obs(q):
    k = q[0]
    if k in ("Cmp", "NotCmp", "AllCmp", "AnyCmp"):
        return "O%s %s %s" % (k, CMP[q[1]][0], cz(q[2]))
    if k == "CmpRA":
        return "OCmpRA %s %s" % (CMP[q[1]][0], _zll(q[2]))
    if k == "Logic":
        return "OLogic %s %s %s %s %s" % (LOG[q[1]][0], CMP[q[2]][0], cz(q[3]), CMP[q[4]][0], cz(q[5]))
    if k == "Bin":
        return "OBin %s %s" % (BIN[q[1]][0], cz(q[2]))
    if k == "RBin":
        return "ORBin %s %s" % (BIN[q[1]][0], cz(q[2]))
    if k == "BinRA":
        return "OBinRA %s %s" % (BIN[q[1]][0], _zll(q[2]))
    if k == "Elem":
        return "OElem %s %s" % (cz(q[1]), cz(q[2]))
    if k == "Row":
        return "ORow %s" % cz(q[1])
    if k == "ColSl":
        return "OColSl %s %s %s" % (_oz(q[1]), _oz(q[2]), _oz(q[3]))
    return "O" + k


def _coq_items(c):
    """the items the Coq trace follows (a write into a selection does not concern the array itself)"""
    return [it for it in c["items"] if it["t"] not in ("selw", "poolread", "maskread")]


def _items(c):
    return clist(_coq_items(c), lambda it: "(IOp (%s))" % _op(it["op"]) if it["t"] == "op" else "(IObs (%s))" % _obs(it["q"]), "item")


def _init(c):
    i = c["init"]
    if i["kind"] == "rows":
        return "(FromRows %s)" % _zll(i["rows"])
    return "(FromFlat %s %s)" % (_zl(i["data"]), clist(i["lens"], cn, "nat"))


def _slots(s):
    return "%s %s %s" % (_zl(s["data"]), _zll(s["arr"]), clist(s["lens"], cn, "nat"))


def _err(e):
    return "EIndex" if e == "IndexError" else "EReject"


def _fr(x):
    return F(int(x)) if isinstance(x, (bool, int)) else F(x)


def _map_snap(sn, f):
    return {"data": [f(x) for x in sn["data"]], "arr": [[f(x) for x in row] for row in sn["arr"]], "lens": sn["lens"]}


def _scaled(c, r):
    """dtype stream: writes and reads move values without arithmetic, so the history commutes with multiplying every
    element value by a constant: the case (and the implementation's answer) times the common denominator of all its
    values is an integer history, which the model over Z evaluates."""
    def walk(f):
        i = c["init"]
        i2 = dict(i)
        if i["kind"] == "rows":
            i2["rows"] = [[f(x) for x in row] for row in i["rows"]]
        else:
            i2["data"] = [f(x) for x in i["data"]]
        c2 = {"init": i2, "items": [dict(it, op=_map_op(it["op"], f)) if it["t"] == "op" else it for it in c["items"]]}
        if r is None:
            return c2, None
        r2 = {"init": _map_snap(r["init"], f), "steps": []}
        for it, rec in zip(c["items"], r["steps"]):
            rec2 = dict(rec)
            if it["t"] == "op":
                rec2.update(_map_snap(rec, f))
            elif "ra" in rec:
                rec2["ra"] = _map_snap(rec["ra"], f)
            elif "val" in rec and it["q"][0] in ("Elem", "Max", "Min"):
                rec2["val"] = f(rec["val"])
            elif "val" in rec and it["q"][0] == "Row":
                rec2["val"] = [f(x) for x in rec["val"]]
            r2["steps"].append(rec2)
        return c2, r2
    seen = []
    walk(lambda x: seen.append(_fr(x)) or x)
    D = 1
    for x in seen:
        D = D * x.denominator // gcd(D, x.denominator)
    return walk(lambda x: int(_fr(x) * D))


def coq_check(c, r):
    if _special(c) or "steps" not in r:
        return None
    if c.get("stream") == "ixwide" and _ninit(c) > COQ_MAX:
        return None
    if c.get("stream") == "dtype":
        c, r = _scaled(c, r)
    exp = ["(VRA %s)" % _slots(r["init"])]
    for it, rec in zip(c["items"], r["steps"]):
        if it["t"] in ("selw", "poolread", "maskread"):
            continue
        if it["t"] == "op":
            exp.append("(VStep %s %s)" % (copt(rec["e"], _err, "err"), _slots(rec)))
        elif "ra" in rec:
            exp.append("(VRA %s)" % _slots(rec["ra"]))
        elif "err" in rec:
            exp.append("(VErr %s)" % _err(rec["err"]))
        elif isinstance(rec["val"], bool):
            exp.append("(VBool %s)" % cb(rec["val"]))
        elif it["q"][0] == "Starts":
            exp.append("(VNats %s)" % clist(rec["val"], cn, "nat"))
        elif it["q"][0] == "Row":
            exp.append("(VZs %s)" % _zl(rec["val"]))
        else:
            exp.append("(VZ (Some %s))" % cz(rec["val"]))
    return "check_trace %s %s %s" % (_init(c), _items(c), clist(exp, lambda x: x, "oval"))


def coq_show(c):
    if _special(c) or (c.get("stream") == "ixwide" and _ninit(c) > COQ_MAX):
        return "tt"
    if c.get("stream") == "dtype":
        c = _scaled(c, None)[0]
    return "full_trace %s %s" % (_init(c), _items(c))


# ----------------------------------------------------------------------------- accounting
ROUTE_A = {"SetRow", "SetRows", "SetRowSl", "AugRow", "AugRows"}
ROUTE_B = {"Set2D", "SetElem", "SetMask", "Aug2D", "AugElem", "AugMask"}


def _ok_ops(c, r):
    return [it["op"][0] for it, rec in zip(c["items"], r.get("steps", [])) if it["t"] == "op" and rec.get("e") is None]


def nontrivial(c, r):
    if c.get("stream") == "rowless":
        return len(r.get("stages", [])) >= 2
    if c.get("stream") == "nan":
        return len(r.get("steps", [])) >= 2
    ok = _ok_ops(c, r)
    nrows = len(c["init"]["rows"]) if c["init"]["kind"] == "rows" else len(c["init"]["lens"])
    if c.get("stream"):
        return len(ok) >= 1
    return nrows >= 2 and len(ok) >= 3 and any(k in ROUTE_A for k in ok) and any(k in ROUTE_B for k in ok)


def _kind(d):
    return {"b": "bool", "u": "int", "i": "int", "f": "float", "O": "object"}.get(np.dtype(d).kind, "other")


def _dtype_tags(c, r):
    """what the dtype stream exercised; `widen` = an append of values the array's element type (as the list-of-rows model
    tracks it: NumPy's promotion of everything put in so far) does not hold"""
    t = set()
    if "steps" not in r or "init_dtype" not in r:
        return t
    cur = np.dtype(r["init_dtype"])
    t.add("dt-start-" + cur.name)
    widened = False
    for it, rec in zip(c["items"], r["steps"]):
        if it["t"] != "op" or rec.get("e") is not None:
            continue
        op = it["op"]
        if op[0] == "Append":
            t.add("dt-append-" + op[2])
            if any(len(x) == 0 for x in op[1]):
                t.add("dt-append-emptyrow")
                if op[2] == "lists":
                    t.add("dt-append-emptylist")
            for row, d in zip(op[1], op[3]):
                if not row:
                    continue
                d = np.dtype(d) if d else np.array(row).dtype
                new = np.result_type(cur, d) if cur.kind != "O" else cur
                if new != cur:
                    widened = True
                    t.add("dt-widen-%s-%s" % (_kind(cur), _kind(d)))
                    if cur.kind in "iu" and d.kind in "iu":
                        t.add("dt-widen-int-int-%s" % ("beyond-int32" if any(abs(x) >= 2 ** 31 for x in row) else "small"))
                    if cur.kind in "iu" and d.kind == "f" and any(not float(x).is_integer() for x in row):
                        t.add("dt-widen-int-float-nonintegral")
                    if cur.name == "float32" and d.name == "float64" and any(float(np.float32(x)) != x for x in row):
                        t.add("dt-widen-float32-float64-inexact")
                elif d != cur:
                    t.add("dt-append-narrower")
                cur = new
        elif widened:
            t.add("dt-write-after-widening")
            t.add("dt-write-after-widening-" + op[0])
        if rec.get("dtype") == "object":
            t.add("dt-data-object")
    return t


def _special_tags(c, r):
    t = {"stream-" + c["stream"]}
    if c["stream"] == "rowless":
        model = _rowless_model(c)
        t.add("rowless-src-" + c["src"][0] + ("-" + c["src"][2][0] if c["src"][0] == "sl2" else ""))
        for z, st in zip(model, [None] + c["chain"]):
            if st is None:
                t.add("rowless-produced" if not z else "rowless-control-nonempty")
        for i, st in enumerate(c["chain"]):
            if i + 1 < len(r.get("stages", [])) and not model[i]:
                t.add("rowless-then-" + st[0])
        return sorted(t)
    vals = [x for row in c["rows"] for x in row]
    for it in c["items"]:
        t.add("nan-" + it[0])
        if it[0] in ("cmp", "maskget", "maskset"):
            t.add("nan-scalar-" + ("left" if it[3] == "l" else "right"))
            t.add("nan-op-" + it[1])
        if isinstance(it[2], str):
            t.add("nan-scalar-" + it[2])
    if "nan" in vals:
        t.add("nan-in-data")
    if "inf" in vals or "-inf" in vals:
        t.add("inf-in-data")
    return sorted(t)


def _ixw_tags(e, lens):
    """which steps of resolving the caller's index arrays (dtype e["dt"]) leave that dtype's range on an array with
    these row lengths"""
    t = set()
    dt = e["dt"]
    if not dt:
        return t
    top = IXR[dt][1]
    nr = len(lens)
    starts = [0]
    for l in lens[:-1]:
        starts.append(starts[-1] + l)
    rs, cs = list(e["rs"]), list(e["cs"])
    if len(rs) != len(cs):
        rs, cs = (rs * len(cs), cs) if len(rs) == 1 else (rs, cs * len(rs))
    rdt = None if e["form"] == "el" else dt        # "el": the row is a Python int, "ps": the column is
    cdt = None if e["form"] == "ps" else dt
    for r0, c0 in zip(rs, cs):
        if rdt and r0 < 0 and r0 + nr > top:
            t.add("ixw-negrow-leaves-" + dt)
        r1 = r0 + nr if r0 < 0 else r0
        if not 0 <= r1 < nr:
            continue
        if cdt and c0 < 0 and c0 + lens[r1] > top:
            t.add("ixw-negcol-leaves-" + dt)
        c1 = c0 + lens[r1] if c0 < 0 else c0
        if cdt and 0 <= c1 < lens[r1] and starts[r1] + c1 > top:
            t.add("ixw-offset-leaves-" + dt)
    return t


def tags(c, r):
    if _special(c):
        return _special_tags(c, r)
    t = set()
    i = c["init"]
    lens = [len(x) for x in i["rows"]] if i["kind"] == "rows" else i["lens"]
    t.add("start-rect" if len(set(lens)) == 1 else "start-ragged")
    t.add("ctor-" + i["kind"] + ("-np" if i["np"] else ""))
    if c.get("stream"):
        t.add("stream-" + c["stream"])
    if c.get("stream") == "dtype":
        t |= _dtype_tags(c, r)
    if len(lens) == 1 and i["kind"] == "rows" and i["np"]:
        t.add("start-onerow-ndarray")
    listbuilt_rect = len(lens) > 1 and len(set(lens)) == 1 and not i["np"]
    prev = None
    seen_before, appended, slice_written = set(), False, False
    curlens = list(lens)
    if c.get("stream") == "ixwide":
        t.add("ixw-coq" if _ninit(c) <= COQ_MAX else "ixw-oracle-only-large")
    for it, rec in zip(c["items"], r.get("steps", [])):
        if it["t"] == "poolread":
            t.add("pool-read" + ("-second-array" if "rows2" in it else ""))
            if c.get("stream") == "ixwide" and "rows2" not in it:
                t |= {x.replace("ixw-", "ixw-read-") for x in _ixw_tags(c["pool"][it["pool"]], curlens)}
            continue
        if it["t"] == "op" and "pool" in it:
            e = c["pool"][it["pool"]]
            t.add("pool-write-" + e["form"])
            if c.get("stream") == "ixwide":
                t |= _ixw_tags(e, curlens)
            if rec.get("e") is None:
                t.add("pool-write-ok")
                if appended:
                    t.add("pool-write-after-append")
            if e["view"]:
                t.add("pool-index-view")
            if e["dt"]:
                t.add("pool-index-" + e["dt"])
            if any(x < 0 for x in e["rs"] + e["cs"]):
                t.add("pool-index-negative")
        if it["t"] == "maskread":
            t.add("mask-read")
            if "val" in rec and [len(row) for row in it["spec"]["mask"]] != curlens:
                t.add("mask-read-layout-differs")
            continue
        if it["t"] == "selw":
            if "sel" in rec:
                t.add("selw-" + it["how"])
                if len(rec["sel"]["data"]) >= 1 and len(lens) == 1:
                    t.add("selw-of-onerow")
            continue
        if it["t"] == "obs":
            t.add("obs-" + it["q"][0])
            q0 = it["q"][0]
            if q0 in ("Starts", "Elem", "ColSl") and "err" not in rec:
                if appended and q0 in seen_before:
                    t.add("hist-%s-append-%s" % (q0, q0))
                seen_before.add(q0)
            if q0 == "Row" and slice_written and listbuilt_rect:
                t.add("rect-listbuilt-2dslice-rowread")
            continue
        k = it["op"][0]
        if k in ("SetMask", "AugMask") and c.get("stream") == "mask":
            sp = it["op"][1]
            mlens = [len(row) for row in sp["mask"]]
            kindm = "stale" if sp.get("at") is not None else "foreign"
            if mlens != curlens:
                t.add("mask-%s-layout-differs" % kindm)
                flat_m = [p for p, b in enumerate(x for row in sp["mask"] for x in row) if b]
                st = [sum(curlens[:q]) for q in range(len(curlens))]
                inside = all(r_ < len(curlens) and c_ < curlens[r_] for r_, row in enumerate(sp["mask"]) for c_, b in enumerate(row) if b)
                if not inside:
                    t.add("mask-cell-outside-array")
                if rec.get("e") is None and inside:
                    flat_a = [st[r_] + c_ for r_, row in enumerate(sp["mask"]) for c_, b in enumerate(row) if b]
                    if flat_a != flat_m:
                        # the set elements sit at other flat positions in the array than in the mask
                        t.add("mask-%s-positions-differ" % kindm)
                        t.add("mask-positions-differ-" + ("aug" if k == "AugMask" else "val-" + it["op"][2][0]))
            else:
                t.add("mask-%s-same-layout" % kindm)
            if sp.get("of"):
                t.add("mask-foreign-from-comparison")
        if "lens" in rec:
            curlens = list(rec["lens"])
        if rec.get("e") is None and k in ("Set2D", "Aug2D") and it["op"][1][0] == "li" and it["op"][2][0] == "li" \
                and len(it["op"][1][1]) != len(it["op"][2][1]):
            t.add("2d-li-li-broadcast-" + ("col" if len(it["op"][2][1]) == 1 else "row"))
        if rec.get("e") is None:
            t.add("ok-" + k)
            route = "A" if k in ROUTE_A else "B" if k in ROUTE_B else "append"
            if prev and prev != route:
                t.add("switch-%s-%s" % (prev, route))
            prev = route
            if k == "Append":
                appended = True
            if k == "Set2D" and it["op"][2][0] == "sl" and len(set(rec["lens"])) == 1:
                slice_written = True
            if k in ("SetElem", "SetMask", "Set2D", "SetRow") and appended and seen_before:
                t.add("write-after-append")
            if k == "Set2D":
                t.add("2d-%s-%s" % (it["op"][1][0], it["op"][2][0]))
                t.add("2d-val-" + it["op"][3][0])
            if k == "SetRows":
                t.add("rows-val-" + it["op"][2][0])
                if len(set(rec["lens"])) > 1 and prev is not None:
                    t.add("rows-changes-shape")
        else:
            t.add("rejected-" + rec["e"])
            t.add("rejected-" + k)
    return sorted(t)


ESSENTIAL_TAGS = ["start-rect", "start-ragged", "ctor-rows", "ctor-flat", "ctor-flat-np",
                  "ok-SetRow", "ok-SetRows", "ok-SetRowSl", "ok-AugRow", "ok-AugRows", "ok-Set2D", "ok-SetElem",
                  "ok-SetMask", "ok-Aug2D", "ok-AugElem", "ok-AugMask", "ok-Append",
                  "switch-A-B", "switch-B-A", "switch-append-A", "switch-append-B",
                  "2d-sl-sl", "2d-sl-int", "2d-sl-li", "2d-li-sl", "2d-li-li", "2d-val-rows", "2d-val-nested",
                  "rows-val-rows", "rows-val-s", "rejected-IndexError", "rejected-Reject", "rejected-AppendFlat",
                  "obs-Cmp", "obs-Bin", "obs-BinRA", "obs-NotCmp", "obs-Max", "obs-All",
                  "obs-Starts", "obs-Row", "obs-ColSl", "stream-append", "stream-onerow", "stream-rect",
                  "hist-Starts-append-Starts", "hist-Elem-append-Elem", "hist-ColSl-append-ColSl", "write-after-append",
                  "start-onerow-ndarray", "selw-sl", "selw-li", "selw-of-onerow", "rect-listbuilt-2dslice-rowread",
                  "stream-dtype", "dt-append-ra", "dt-append-raflat", "dt-append-arrays", "dt-append-tuple", "dt-append-lists",
                  "dt-append-emptyrow", "dt-append-emptylist", "dt-append-narrower",
                  "dt-widen-int-float", "dt-widen-int-float-nonintegral", "dt-widen-int-int", "dt-widen-int-int-beyond-int32",
                  "dt-widen-float-float", "dt-widen-float32-float64-inexact", "dt-widen-bool-int", "dt-widen-bool-float",
                  "dt-write-after-widening"] + ["dt-start-" + d for d in DTS] + [
                  "stream-ixarg", "pool-write-pairs", "pool-write-ps", "pool-write-el", "pool-write-ok", "pool-write-after-append",
                  "pool-index-view", "pool-index-negative", "pool-index-int32", "pool-read", "pool-read-second-array",
                  "stream-ixwide", "ixw-coq", "ixw-oracle-only-large", "pool-write-bc", "pool-write-br",
                  "pool-index-int8", "pool-index-uint8", "pool-index-int16", "pool-index-uint16", "pool-index-uint32",
                  "pool-index-uint64", "ixw-negcol-leaves-int8", "ixw-negrow-leaves-int8", "ixw-negcol-leaves-int16",
                  "ixw-negrow-leaves-int16", "ixw-offset-leaves-uint8", "ixw-offset-leaves-uint16",
                  "ixw-read-negcol-leaves-int8", "ixw-read-negrow-leaves-int8",
                  "2d-li-li-broadcast-col", "2d-li-li-broadcast-row",
                  "stream-rowless", "rowless-produced", "rowless-src-sl2-sl", "rowless-src-sl2-int", "rowless-src-sl2-li",
                  "rowless-src-rows", "rowless-src-ctor", "rowless-src-ctor_flat", "rowless-then-bin", "rowless-then-cmp",
                  "rowless-then-not_cmp", "rowless-then-append", "rowless-then-set_all", "rowless-then-binself",
                  "stream-nan", "nan-in-data", "inf-in-data", "nan-cmp", "nan-cmpra", "nan-notcmp", "nan-maskset",
                  "nan-masksetra", "nan-maskget", "nan-scalar-left", "nan-scalar-right", "nan-scalar-nan"] + [
                  "nan-op-" + o for o in CMP] + [
                  "stream-mask", "mask-stale-layout-differs", "mask-foreign-layout-differs", "mask-stale-positions-differ",
                  "mask-foreign-positions-differ", "mask-foreign-from-comparison", "mask-cell-outside-array",
                  "mask-positions-differ-aug", "mask-positions-differ-val-s", "mask-positions-differ-val-v",
                  "mask-positions-differ-val-rows", "mask-positions-differ-val-nested", "mask-read", "mask-read-layout-differs"]
