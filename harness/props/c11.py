"""C11: ergodic trimming keeps exactly the heaviest strongly connected component."""
import itertools, os, sys
import numpy as np
from core import cz, cn, cb, clist, VERIF
sys.path.insert(0, os.path.join(VERIF, "translator"))
import tr_trim

PID = "C11"
PROPS_FILE = "Props/C11.v"
MODEL_TARGETS = ["Model/Trim.vo", "Gen/TrimGen.vo", "Model/TrimView.vo"]
GEN_FILES = ["Gen/TrimGen.v"]
CASE_HEADER = ("From Coq Require Import List ZArith.\nFrom EV Require Import Trim TrimBase TrimGen TrimView.\n"
               "Import ListNotations.\n")


def translate(repo):
    return tr_trim.translate(repo)


RULE = ("count matrices over 1..8 states built from planted strongly connected components (random cycle + chords "
        "at or above the threshold) joined by one-way bridges along a random component order, isolated states, "
        "sub-threshold counts anywhere (they carry weight but are no edges), state ids shuffled; plus fully random "
        "small-integer matrices, an equal-weight stream (any maximiser accepted), an empty / non-square stream; "
        "thresholds 0..3; each case runs trim_disconnected with both renumbering modes, the dense container and one "
        "of 9 sparse containers, and (threshold 1) MSM(trim=True/False).fit on trajectories realising the matrix; "
        "TrimMapping alone on injective (original, mapped) pair lists in arbitrary order; "
        "thorough adds every 0/1 digraph on <= 3 states with two weightings and every 0/1 digraph on 4 states; "
        "non-trivial := >= 2 components w.r.t. the threshold and at least one state removed. "
        "Every result is compared twice inside Coq: with the hand model (impl_agrees) and with the code GENERATED "
        "from the current source of trim_disconnected / TrimMapping / MSM.fit (gen_impl_agrees, gen_fit_agrees, "
        "gen_mapping_agrees), the latter run on the input as given: for sparse containers the stored entries, "
        "for the split-COO stream and for MSM.fit the unit entries themselves")
TRUSTED = ["translator/tr_trim.py (typed statement-by-statement translation of trim_disconnected, TrimMapping.__init__ / "
           "to_mapped and, through tr_msm.tr_fit, of MSM.fit's trimming step; rejects aliasing assignments and any "
           "statement outside its table) and the reading of the NumPy / SciPy / Python calls in coq/Base/TrimBase.v "
           "(sparse container = shape + stored entries summed by toarray; masked / np.ix_ / row / column assignment; "
           "sum(axis); boolean-mask indexing; np.where; np.argmax = first maximum; zip objects are truthy)",
           "modelled not verified: scipy.sparse.csgraph.connected_components(connection='strong') is specified as "
           "mutual reachability (its label numbering is not modelled: on equal maximum weights any maximiser is accepted)",
           "modelled not verified: NumPy boolean/fancy indexing (np.ix_, np.where), sparse container constructors / toarray, "
           "Python dict comprehension (insertion-ordered association list)",
           "MSM.fit is driven with an identity `method` callable; assigns_to_counts is C03's subject"]
ASSUMPTIONS = ["counts are non-negative integers in a square 2-D matrix with >= 1 state (0 states / non-square: the code raises, modelled as None)",
               "when several components tie for the largest total count the property does not say which is kept; any of them is accepted"]
EXHAUSTIVE = {"thorough": True}
SHARD = 250

SPARSE = ["csr_matrix", "csc_matrix", "coo_matrix", "lil_matrix", "dok_matrix", "bsr_matrix", "dia_matrix",
          "csr_array", "coo_array"]


# ----------------------------------------------------------------------------- generators
def _planted(rng, n, thr):
    hi = max(thr, 1)
    ids = list(range(n))
    rng.shuffle(ids)
    comps, k = [], 0
    while k < n:
        s = rng.choice([1, 1, 2, 2, 3, 4])
        comps.append(ids[k:k + s])
        k += s
    C = [[0] * n for _ in range(n)]
    for comp in comps:
        if len(comp) == 1:
            if rng.random() < 0.5:                       # isolated state, with or without a self count
                C[comp[0]][comp[0]] = rng.choice([0, hi, hi + 3, 9])
            continue
        for a, b in zip(comp, comp[1:] + comp[:1]):       # a directed cycle makes it strongly connected
            C[a][b] = hi + rng.randrange(3)
        for _ in range(rng.randrange(3)):
            a, b = rng.choice(comp), rng.choice(comp)
            C[a][b] = hi + rng.randrange(4)
    for x in range(len(comps)):                           # one-way bridges: earlier -> later only
        for y in range(x + 1, len(comps)):
            if rng.random() < 0.45:
                a, b = rng.choice(comps[x]), rng.choice(comps[y])
                C[a][b] = hi + rng.randrange(6)
    if thr >= 2:                                          # sub-threshold counts: weight, no edge
        for _ in range(rng.randrange(2 * n)):
            a, b = rng.randrange(n), rng.randrange(n)
            if C[a][b] == 0:
                C[a][b] = rng.randrange(1, thr)
    return C


def _random(rng, n):
    return [[rng.choice([0, 0, 0, 0, 1, 1, 2, 3]) for _ in range(n)] for _ in range(n)]


def _tie(rng, thr):
    """two or three components with the same total count"""
    hi = max(thr, 1)
    k = rng.choice([2, 2, 3])
    sizes = [rng.choice([1, 2, 3]) for _ in range(k)]
    n = sum(sizes)
    ids = list(range(n))
    rng.shuffle(ids)
    C = [[0] * n for _ in range(n)]
    tot = hi * 3 + rng.randrange(3)
    p = 0
    for s in sizes:
        comp = ids[p:p + s]
        p += s
        if s == 1:
            C[comp[0]][comp[0]] = tot
        else:
            for a, b in zip(comp, comp[1:] + comp[:1]):
                C[a][b] = hi
            C[comp[0]][comp[1]] += tot - hi * s
    return C


def _mk(C, thr, ren, cont, extras=True, fit=None):
    return {"C": C, "thr": thr, "renumber": ren, "cont": cont, "extras": extras,
            "fit": fit if fit is not None else False}


def generate(rng, tier):
    cases = []
    nrand = 420 if tier == "quick" else 3000
    for k in range(nrand):
        thr = rng.choice([0, 1, 1, 1, 2, 2, 3])
        u = rng.random()
        if u < 0.6:
            C = _planted(rng, rng.choice([2, 3, 4, 5, 5, 6, 6, 7, 8]), thr)
        elif u < 0.8:
            C = _random(rng, rng.choice([1, 2, 3, 4, 5, 6]))
        else:
            C = _tie(rng, thr)
        cont = rng.choice(["dense"] + SPARSE + ["dense"])
        cases.append(_mk(C, thr, rng.random() < 0.5, cont, True, fit=(thr == 1 and rng.random() < 0.6)))
        if rng.random() < 0.25:
            # non-canonical sparse input: COO whose counts are split over several stored unit entries
            cs = _mk(C, thr, rng.random() < 0.5, rng.choice(["coo_matrix", "coo_array"]), True, fit=False)
            cs["split"] = True
            cases.append(cs)
    # TrimMapping on its own: injective (original, mapped) pairs in arbitrary order, and the empty list
    for k in range(40 if tier == "quick" else 400):
        m = rng.randrange(0, 7) if k else 0
        origs = rng.sample(range(10), m)
        mapped = rng.sample(range(10), m) if rng.random() < 0.5 else rng.sample(range(m), m)
        cases.append({"kind": "tm", "pairs": [[o, t] for o, t in zip(origs, mapped)]})
    # the code's error paths
    for C in ([], [[1, 2, 3], [0, 1, 1]], [[1, 2], [0, 1], [1, 1]], [[]]):
        for ren in (True, False):
            cases.append(_mk(C, 1, ren, "dense", False))
    cases.append(_mk([], 1, True, "csr_matrix", False))
    # exhaustive small scope
    top = 3
    for n in range(1, top + 1):
        for idx, bits in enumerate(itertools.product((0, 1), repeat=n * n)):
            A = [list(bits[i * n:(i + 1) * n]) for i in range(n)]
            if tier == "quick" and n == 3 and (idx % 5):
                continue
            cases.append(_mk(A, 1, sum(bits) % 2 == 0, "dense", False))
            if tier == "thorough":
                # second weighting: count (i,j) = 1 + ((2*i + j) mod 3), threshold 2 removes the ones
                W = [[A[i][j] * (1 + (2 * i + j) % 3) for j in range(n)] for i in range(n)]
                cases.append(_mk(W, 2, sum(bits) % 2 == 1, "dense", False))
    if tier == "thorough":
        n = 4
        for bits in itertools.product((0, 1), repeat=16):
            A = [list(bits[i * n:(i + 1) * n]) for i in range(n)]
            cases.append(_mk(A, 1, sum(bits) % 2 == 0, "dense", False))
            W = [[A[i][j] * (1 + (2 * i + j) % 3) for j in range(n)] for i in range(n)]
            cases.append(_mk(W, 2, sum(bits) % 2 == 1, "dense", False))
    return cases


# ----------------------------------------------------------------------------- implementation
_SPLIT = [False]   # build COO input with every count split into unit entries (as assigns_to_counts returns it)


def _split_entries(C):
    """the unit entries (row, col) a split COO input is built from, in the order they are stored"""
    rows, cols = [], []
    for i in range(len(C)):
        for j in range(len(C[i])):
            rows += [i] * int(C[i][j])
            cols += [j] * int(C[i][j])
    order = np.random.RandomState(len(rows)).permutation(len(rows))
    return [rows[k] for k in order], [cols[k] for k in order]


def _is_split(name, C, split):
    return bool(split) and name in ("coo_matrix", "coo_array") and len(C) > 0 and all(len(r) == len(C) for r in C)


def _container(name, C):
    import scipy.sparse as sp
    a = np.array(C, dtype=np.int64)
    if a.ndim != 2:
        a = a.reshape((len(C), 0))
    if name == "dense":
        return a
    if _is_split(name, C, _SPLIT[0]):
        rows, cols = _split_entries(C)
        return getattr(sp, name)((np.ones(len(rows), dtype=np.int64), (np.array(rows, dtype=int), np.array(cols, dtype=int))),
                                 shape=a.shape)
    return getattr(sp, name)(a)


def _canon(mapping, counts):
    import scipy.sparse as sp
    # dictionaries are compared as finite maps: items sorted by key (dict order is not part of the property)
    to_o = sorted([int(k), int(v)] for k, v in mapping.to_original.items())
    to_m = sorted([int(k), int(v)] for k, v in mapping.to_mapped.items())
    dense = counts.toarray() if sp.issparse(counts) else np.asarray(counts)
    return {"keep": [v for _, v in to_o], "counts": [[int(x) for x in row] for row in dense.tolist()],
            "to_original": to_o, "to_mapped": to_m,
            "type": "dense" if type(counts) is np.ndarray else type(counts).__name__}


def _trim(C, thr, ren, cont):
    from enspara.msm.transition_matrices import trim_disconnected
    try:
        m, t = trim_disconnected(_container(cont, C), threshold=thr, renumber_states=ren)
        return _canon(m, t)
    except Exception as ex:
        return {"err": type(ex).__name__}


def _fit(C, trim):
    from enspara.msm.msm import MSM
    n = len(C)
    trj = [[i, j] for i in range(n) for j in range(n) for _ in range(C[i][j])]
    try:
        m = MSM(lag_time=1, method=lambda c: (c, None, None), trim=trim, max_n_states=n)
        m.fit(np.array(trj, dtype=np.int64))
        return _canon(m.mapping_, m.tcounts_)
    except Exception as ex:
        return {"err": type(ex).__name__}


def _run_tm(c):
    from enspara.msm.transition_matrices import TrimMapping
    try:
        m = TrimMapping([(o, t) for o, t in c["pairs"]])
        return {"to_original": sorted([int(k), int(v)] for k, v in m.to_original.items()),
                "to_mapped": sorted([int(k), int(v)] for k, v in m.to_mapped.items())}
    except Exception as ex:
        return {"err": type(ex).__name__}


def run_impl(c):
    if c.get("kind") == "tm":
        return {"main": _run_tm(c)}
    C, thr, ren, cont = c["C"], c["thr"], c["renumber"], c["cont"]
    _SPLIT[0] = bool(c.get("split"))
    res = {"main": _trim(C, thr, ren, cont)}
    if c["extras"]:
        res["other"] = _trim(C, thr, not ren, cont)
        if cont != "dense":
            res["dense"] = _trim(C, thr, ren, "dense")
    if c["fit"] and sum(map(sum, C)) > 0:
        res["fit"] = _fit(C, True)
        res["fit_notrim"] = _fit(C, False)
    return res


# ----------------------------------------------------------------------------- oracle
def _edges(C, thr):
    n = len(C)
    return [[C[i][j] >= thr and C[i][j] != 0 for j in range(n)] for i in range(n)]


def _reach(E):
    n = len(E)
    R = [[i == j or E[i][j] for j in range(n)] for i in range(n)]
    for k in range(n):
        for i in range(n):
            if R[i][k]:
                for j in range(n):
                    if R[k][j]:
                        R[i][j] = True
    return R


def _sccs(C, thr):
    n = len(C)
    R = _reach(_edges(C, thr))
    seen, out = set(), []
    for i in range(n):
        if i not in seen:
            comp = [j for j in range(n) if R[i][j] and R[j][i]]
            seen.update(comp)
            out.append(comp)
    return out


def _wellformed(C):
    return len(C) > 0 and all(len(r) == len(C) for r in C)


def _weights(C, comps):
    return [sum(sum(C[i]) for i in comp) for comp in comps]


def _check_one(C, thr, ren, cont, r, pre):
    out = []
    if not _wellformed(C):
        if "err" not in r:
            out.append((pre + "reject", "malformed input accepted: %s" % r))
        return out
    if "err" in r:
        return [(pre + "raises", "valid input raised %s" % r["err"])]
    n = len(C)
    comps = _sccs(C, thr)
    w = _weights(C, comps)
    keep = r["keep"]
    if sorted(keep) not in comps:
        out.append((pre + "keep-is-scc", "kept %s is not a strongly connected component %s" % (keep, comps)))
    elif w[comps.index(sorted(keep))] != max(w):
        out.append((pre + "keep-heaviest", "kept %s weighs %d, heaviest weighs %d (%s %s)" % (
            keep, w[comps.index(sorted(keep))], max(w), comps, w)))
    if keep != sorted(set(keep)):
        out.append((pre + "mapping-order", "kept ids not strictly increasing: %s" % keep))
    m = len(keep)
    T = r["counts"]
    if ren:
        if T != [[C[i][j] for j in keep] for i in keep]:
            out.append((pre + "counts-preserved", "renumbered counts %s" % T))
        if r["to_original"] != [[k, keep[k]] for k in range(m)]:
            out.append((pre + "mapping", "to_original %s" % r["to_original"]))
        # the trimmed matrix is strongly connected w.r.t. the threshold
        if m and len(T) == m and all(len(row) == m for row in T):
            R = _reach(_edges(T, thr))
            if not all(all(row) for row in R):
                out.append((pre + "trimmed-connected", "trimmed matrix %s not strongly connected" % T))
    else:
        ks = set(keep)
        if T != [[C[i][j] if (i in ks and j in ks) else 0 for j in range(n)] for i in range(n)]:
            out.append((pre + "removed-zero", "in-place counts %s" % T))
        if r["to_original"] != [[k, k] for k in keep]:
            out.append((pre + "mapping", "to_original %s" % r["to_original"]))
        R = _reach(_edges(T, thr)) if len(T) == n else None
        if R is not None and not all(R[a][b] for a in keep for b in keep):
            out.append((pre + "trimmed-connected", "kept states not mutually reachable in %s" % T))
    if sorted(r["to_mapped"]) != sorted([v, k] for k, v in r["to_original"]) or \
            len({k for k, _ in r["to_mapped"]}) != len(r["to_mapped"]):
        out.append((pre + "mapping-inverse", "to_mapped %s vs to_original %s" % (r["to_mapped"], r["to_original"])))
    if r["type"] != cont:
        out.append((pre + "container", "container %s became %s" % (cont, r["type"])))
    return out


def oracle(c, r):
    if c.get("kind") == "tm":
        m = r["main"]
        if not c["pairs"]:
            return []          # nothing to map: the property is silent (the code leaves to_original unset)
        if "err" in m:
            return [("mapping-raises", "TrimMapping(%s) raised %s" % (c["pairs"], m["err"]))]
        out = []
        if m["to_original"] != sorted([t, o] for o, t in c["pairs"]):
            out.append(("mapping", "to_original %s for (original, mapped) pairs %s" % (m["to_original"], c["pairs"])))
        if m["to_mapped"] != sorted([o, t] for o, t in c["pairs"]):
            out.append(("mapping-inverse", "to_mapped %s for (original, mapped) pairs %s" % (m["to_mapped"], c["pairs"])))
        return out
    C, thr, ren, cont = c["C"], c["thr"], c["renumber"], c["cont"]
    out = _check_one(C, thr, ren, cont, r["main"], "")
    if "other" in r:
        out += _check_one(C, thr, not ren, cont, r["other"], "other-")
        a, b = (r["main"], r["other"]) if ren else (r["other"], r["main"])   # a renumbered, b in place
        if "err" not in a and "err" not in b:
            ka = a["keep"]
            if ka != b["keep"] or a["counts"] != [[b["counts"][i][j] for j in ka] for i in ka] or \
                    [[k, v] for k, v in a["to_original"]] != [[i, p[1]] for i, p in enumerate(b["to_original"])]:
                out.append(("variants-same-model", "renumbered %s vs in-place %s" % (a, b)))
        elif ("err" in a) != ("err" in b):
            out.append(("variants-same-model", "one variant raised: %s / %s" % (a, b)))
    if "dense" in r:
        d, s = r["dense"], r["main"]
        if ("err" in d) != ("err" in s) or ("err" not in d and any(d[k] != s[k] for k in ("keep", "counts", "to_original", "to_mapped"))):
            out.append(("dense-sparse-agree", "dense %s vs %s %s" % (d, cont, s)))
    if "fit" in r:
        ref = r["main"] if (ren and thr == 1) else r.get("other")
        f = r["fit"]
        if ref is not None and "err" not in ref:
            if "err" in f or any(f[k] != ref[k] for k in ("keep", "counts", "to_original", "to_mapped")):
                out.append(("msm-fit", "MSM(trim=True).fit reports %s, trim_disconnected %s" % (f, ref)))
        g = r["fit_notrim"]
        n = len(C)
        if "err" in g or g["to_original"] != [[k, k] for k in range(n)] or g["counts"] != C:
            out.append(("msm-fit-notrim", "MSM(trim=False).fit reports %s" % g))
    return out


# ----------------------------------------------------------------------------- Coq side
def _cmat(C):
    return clist(C, lambda row: clist(row, cz, "Z"), "(list Z)")


def _ccont(name):
    return "Dense" if name == "dense" else "(Sparse %d)" % SPARSE.index(name)


def _cpairs(ps):
    return clist(ps, lambda p: "(%s, %s)" % (cn(p[0]), cn(p[1])), "(nat * nat)")


def _cres(r):
    if "err" in r:
        return "(@None trim_result)"
    if r["type"] == "dense":
        cont = "Dense"
    elif r["type"] in SPARSE:
        cont = "(Sparse %d)" % SPARSE.index(r["type"])
    else:
        cont = "(Sparse 99)"
    return "(Some (Build_trim_result %s %s %s %s %s))" % (
        clist(r["keep"], cn, "nat"), _cmat(r["counts"]), _cpairs(r["to_original"]), _cpairs(r["to_mapped"]), cont)


def _cinp(name, C, split=False):
    """the input as the code receives it: NdArray cells | SparseM format rows cols stored-entries"""
    if name == "dense":
        return "(NdArray %s)" % _cmat(C)
    nr = len(C)
    nc = len(C[0]) if C else 0
    if _is_split(name, C, split):
        rows, cols = _split_entries(C)
        st = [(i, j, 1) for i, j in zip(rows, cols)]
    else:
        st = [(i, j, C[i][j]) for i in range(nr) for j in range(len(C[i])) if C[i][j] != 0]
    return "(SparseM %d %d %d %s)" % (SPARSE.index(name), nr, nc,
                                      clist(st, lambda e: "(%s, %s, %s)" % (cn(e[0]), cn(e[1]), cz(e[2])), "(nat * nat * Z)"))


def _cfit_inp(C):
    """assigns_to_counts returns a COO matrix with one stored unit entry per observed transition"""
    st = [(i, j, 1) for i in range(len(C)) for j in range(len(C)) for _ in range(C[i][j])]
    return "(SparseM %d %d %d %s)" % (SPARSE.index("coo_matrix"), len(C), len(C),
                                      clist(st, lambda e: "(%s, %s, %s)" % (cn(e[0]), cn(e[1]), cz(e[2])), "(nat * nat * Z)"))


def coq_check(c, r):
    if c.get("kind") == "tm":
        m = r["main"]
        if str(m.get("err", "")).startswith("Unexpected"):
            return "false"
        res = "(@None (dict * dict))" if "err" in m else "(Some (%s, %s))" % (_cpairs(m["to_original"]), _cpairs(m["to_mapped"]))
        return "((mapping_agrees %s %s) && (gen_mapping_agrees %s %s))%%bool" % (
            _cpairs(c["pairs"]), res, _cpairs(c["pairs"]), res)
    if any(isinstance(v, dict) and str(v.get("err", "")).startswith("Unexpected") for v in r.values()) or "main" not in r:
        return "false"
    C, thr, ren, cont = _cmat(c["C"]), cz(c["thr"]), c["renumber"], _ccont(c["cont"])
    inp = _cinp(c["cont"], c["C"], c.get("split"))
    terms = ["impl_agrees %s %s %s %s %s" % (thr, C, cb(ren), cont, _cres(r["main"])),
             "gen_impl_agrees %s %s %s %s" % (inp, thr, cb(ren), _cres(r["main"]))]
    if "other" in r:
        terms.append("impl_agrees %s %s %s %s %s" % (thr, C, cb(not ren), cont, _cres(r["other"])))
        terms.append("gen_impl_agrees %s %s %s %s" % (inp, thr, cb(not ren), _cres(r["other"])))
    if "dense" in r:
        terms.append("impl_agrees %s %s %s Dense %s" % (thr, C, cb(ren), _cres(r["dense"])))
        terms.append("gen_impl_agrees (NdArray %s) %s %s %s" % (C, thr, cb(ren), _cres(r["dense"])))
    if "fit" in r:
        coo = _ccont("coo_matrix")
        terms.append("fit_agrees true %s %s %s" % (C, coo, _cres(r["fit"])))
        terms.append("fit_agrees false %s %s %s" % (C, coo, _cres(r["fit_notrim"])))
        finp = _cfit_inp(c["C"])
        terms.append("gen_fit_agrees true %s %s" % (finp, _cres(r["fit"])))
        terms.append("gen_fit_agrees false %s %s" % (finp, _cres(r["fit_notrim"])))
    return "(" + " && ".join("(%s)" % t for t in terms) + ")%bool"


def coq_show(c):
    if c.get("kind") == "tm":
        return "trim_mapping %s" % _cpairs(c["pairs"])
    return "(trim_disconnected %s %s %s %s, trim_disconnected %s %s %s %s)" % (
        cz(c["thr"]), _cmat(c["C"]), cb(c["renumber"]), _ccont(c["cont"]),
        cz(c["thr"]), _cmat(c["C"]), cb(not c["renumber"]), _ccont(c["cont"]))


# ----------------------------------------------------------------------------- accounting
def nontrivial(c, r):
    if c.get("kind") == "tm":
        return len(c["pairs"]) >= 2 and any(o != t for o, t in c["pairs"])
    C = c["C"]
    if not _wellformed(C) or "err" in r["main"]:
        return False
    return len(_sccs(C, c["thr"])) >= 2 and len(r["main"]["keep"]) < len(C)


def tags(c, r):
    if c.get("kind") == "tm":
        return ["trim-mapping-alone"] + (["trim-mapping-empty"] if not c["pairs"] else [])
    C, thr = c["C"], c["thr"]
    t = ["renumber" if c["renumber"] else "in-place", "dense" if c["cont"] == "dense" else "sparse"]
    if c.get("split"):
        t.append("coo-split-entries")
    if c["cont"] != "dense":
        t.append("sparse:" + c["cont"])
    t.append("thr=%d" % thr)
    if not _wellformed(C):
        t.append("err-empty" if len(C) == 0 else "err-non-square")
        return t
    if "fit" in r:
        t.append("msm-fit")
    n = len(C)
    comps = _sccs(C, thr)
    w = _weights(C, comps)
    best = [k for k in range(len(comps)) if w[k] == max(w)]
    t.append("tie-for-heaviest" if len(best) > 1 else "unique-heaviest")
    E = _edges(C, thr)
    lab = {i: k for k, comp in enumerate(comps) for i in comp}
    if any(E[i][j] and lab[i] != lab[j] for i in range(n) for j in range(n)):
        t.append("one-way-bridge")          # weakly but not strongly connected parts
    if any(len(comp) == 1 and not any(E[comp[0]][j] or E[j][comp[0]] for j in range(n) if j != comp[0]) for comp in comps):
        t.append("isolated-state")
    if len(best) == 1:
        b = best[0]
        if len(comps[b]) < max(map(len, comps)):
            t.append("heaviest-not-largest")
        if 0 not in comps[b]:
            t.append("heaviest-not-first")
        if comps[b] != list(range(len(comps[b]))):
            t.append("kept-ids-not-a-prefix")     # new id != old id: direction of the mapping matters
        if comps[b] != list(range(comps[b][0], comps[b][0] + len(comps[b]))):
            t.append("kept-ids-interleaved")
        # the decision depends on counts that are not edges (sub-threshold or leaving the component)
        inner = [sum(C[i][j] for i in comp for j in comp if E[i][j]) for comp in comps]
        if inner.index(max(inner)) != b or inner.count(max(inner)) > 1:
            t.append("weight-decided-by-non-edge-counts")
    if any(0 < C[i][j] < thr for i in range(n) for j in range(n)):
        t.append("sub-threshold-count")
    if len(comps) == 1:
        t.append("already-connected")
    if len(comps) == n and n > 1:
        t.append("all-singletons")
    return t


ESSENTIAL_TAGS = ["coo-split-entries", "renumber", "in-place", "dense", "sparse", "msm-fit", "tie-for-heaviest", "unique-heaviest",
                  "one-way-bridge", "isolated-state", "heaviest-not-largest", "heaviest-not-first",
                  "kept-ids-interleaved", "sub-threshold-count", "err-empty", "err-non-square", "already-connected", "trim-mapping-alone"]


def search(rng, tier):
    found = []
    for k in range(4000):
        thr = rng.choice([0, 1, 1, 2, 3])
        C = _planted(rng, rng.choice([2, 3, 4, 5, 6]), thr) if rng.random() < 0.7 else _random(rng, rng.choice([2, 3, 4]))
        c = _mk(C, thr, rng.random() < 0.5, rng.choice(["dense", "csr_matrix", "coo_matrix"]), True, fit=(thr == 1))
        r = run_impl(c)
        for key, msg in oracle(c, r):
            found.append((key, msg, c, r))
        if found:
            break
    found.sort(key=lambda f: len(str(f[2])))
    return found
