"""C11: ergodic trimming keeps exactly the heaviest strongly connected component."""
import itertools, os, sys
import numpy as np
from core import cz, cn, cb, clist, VERIF
sys.path.insert(0, os.path.join(VERIF, "translator"))
import tr_trim

PID = "C11"
PROPS_FILE = "Props/C11.v"
MODEL_TARGETS = ["Model/Trim.vo", "Gen/TrimGen.vo", "Model/TrimView.vo"]
GEN_FILES = ["Gen/TrimGen.v"]
CASE_HEADER = ("From Coq Require Import List ZArith.\nFrom EV Require Import Trim TrimBase TrimGen TrimView.\n"
               "Import ListNotations.\n")


def translate(repo):
    return tr_trim.translate(repo)


RULE = ("count matrices over 1..8 states (many-states stream: up to 200) built from planted strongly connected components (random cycle + chords "
        "at or above the threshold) joined by one-way bridges along a random component order, isolated states, "
        "sub-threshold counts anywhere (they carry weight but are no edges), state ids shuffled; plus fully random "
        "small-integer matrices, an equal-weight stream (any maximiser accepted), an empty / non-square stream; "
        "thresholds 0..3; each case runs trim_disconnected with both renumbering modes, the dense container and one "
        "of 9 sparse containers, and (threshold 1) MSM(trim=True/False).fit on trajectories realising the matrix; "
        "a layout stream (removed ids at the end / front / a block inside / both ends / every other id / scattered, x every "
        "container, in-place variant as the main run); a dead-end stream (threshold 1, MSM.fit: states entered but never left "
        "whose incoming counts decide which component is the heaviest, source-only states, padding components); "
        "a many-states stream (17..200 states, every container x every layout, several components, both renumbering modes, "
        "MSM.fit at threshold 1; compared inside Coq up to 40 states -- the model's closure is a list-based Warshall -- and "
        "judged by the exact Python oracle beyond); "
        "a narrow-dtype stream (count matrices held as uint8 / int8 / int16 / uint16 / int32, dense and every sparse container, every entry "
        "legal for the dtype, the heaviest component's total -- often a single row's total -- beyond the dtype's range and chosen so that "
        "the total reduced modulo the dtype's width falls below a lighter component's; thresholds 0..3 or a third of the dtype's maximum); "
        "a stored-zeros stream (COO / CSR / CSC matrices and arrays carrying explicit zero-valued entries for transitions never "
        "observed -- placed so that they would join components if a stored entry were taken for a transition -- and BSR "
        "matrices with explicit block sizes whose dense blocks cover unobserved transitions; mostly the default threshold); "
        "TrimMapping alone on injective (original, mapped) pair lists in arbitrary order; "
        "thorough adds every 0/1 digraph on <= 3 states with two weightings and every 0/1 digraph on 4 states; "
        "non-trivial := >= 2 components w.r.t. the threshold and at least one state removed. "
        "Every result is compared twice inside Coq: with the hand model (impl_agrees) and with the code GENERATED "
        "from the current source of trim_disconnected / TrimMapping / MSM.fit (gen_impl_agrees, gen_fit_agrees, "
        "gen_mapping_agrees), the latter run on the input as given: for sparse containers the stored entries, "
        "for the split-COO stream and for MSM.fit the unit entries themselves")
TRUSTED = ["translator/tr_trim.py (typed statement-by-statement translation of trim_disconnected, TrimMapping.__init__ / "
           "to_mapped and, through tr_msm.tr_fit, of MSM.fit's trimming step; rejects aliasing assignments and any "
           "statement outside its table) and the reading of the NumPy / SciPy / Python calls in coq/Base/TrimBase.v "
           "(sparse container = shape + stored entries summed by toarray; masked / np.ix_ / row / column assignment; "
           "sum(axis); boolean-mask indexing; np.where; np.argmax = first maximum; zip objects are truthy)",
           "modelled not verified: scipy.sparse.csgraph.connected_components(connection='strong') is specified as "
           "mutual reachability (its label numbering is not modelled: on equal maximum weights any maximiser is accepted)",
           "modelled not verified: NumPy boolean/fancy indexing (np.ix_, np.where), sparse container constructors / toarray, "
           "Python dict comprehension (insertion-ordered association list)",
           "MSM.fit is driven with an identity `method` callable; assigns_to_counts is C03's subject"]
ASSUMPTIONS = ["counts are non-negative integers in a square 2-D matrix with >= 1 state (0 states / non-square: the code raises, modelled as None)",
               "when several components tie for the largest total count the property does not say which is kept; any of them is accepted"]
EXHAUSTIVE = {"thorough": True}
SHARD = 250

LAYOUTS = ["end", "front", "middle", "ends", "alt", "scatter"]
COQ_CAP = 40     # the model's closure is a list-based Warshall (n^4 list steps): 40 states ~ 0.5 s per evaluation
SPARSE = ["csr_matrix", "csc_matrix", "coo_matrix", "lil_matrix", "dok_matrix", "bsr_matrix", "dia_matrix",
          "csr_array", "coo_array"]


# ----------------------------------------------------------------------------- generators
def _planted(rng, n, thr):
    hi = max(thr, 1)
    ids = list(range(n))
    rng.shuffle(ids)
    comps, k = [], 0
    while k < n:
        s = rng.choice([1, 1, 2, 2, 3, 4])
        comps.append(ids[k:k + s])
        k += s
    C = [[0] * n for _ in range(n)]
    for comp in comps:
        if len(comp) == 1:
            if rng.random() < 0.5:                       # isolated state, with or without a self count
                C[comp[0]][comp[0]] = rng.choice([0, hi, hi + 3, 9])
            continue
        for a, b in zip(comp, comp[1:] + comp[:1]):       # a directed cycle makes it strongly connected
            C[a][b] = hi + rng.randrange(3)
        for _ in range(rng.randrange(3)):
            a, b = rng.choice(comp), rng.choice(comp)
            C[a][b] = hi + rng.randrange(4)
    for x in range(len(comps)):                           # one-way bridges: earlier -> later only
        for y in range(x + 1, len(comps)):
            if rng.random() < 0.45:
                a, b = rng.choice(comps[x]), rng.choice(comps[y])
                C[a][b] = hi + rng.randrange(6)
    if thr >= 2:                                          # sub-threshold counts: weight, no edge
        for _ in range(rng.randrange(2 * n)):
            a, b = rng.randrange(n), rng.randrange(n)
            if C[a][b] == 0:
                C[a][b] = rng.randrange(1, thr)
    return C


def _random(rng, n):
    return [[rng.choice([0, 0, 0, 0, 1, 1, 2, 3]) for _ in range(n)] for _ in range(n)]


def _tie(rng, thr):
    """two or three components with the same total count"""
    hi = max(thr, 1)
    k = rng.choice([2, 2, 3])
    sizes = [rng.choice([1, 2, 3]) for _ in range(k)]
    n = sum(sizes)
    ids = list(range(n))
    rng.shuffle(ids)
    C = [[0] * n for _ in range(n)]
    tot = hi * 3 + rng.randrange(3)
    p = 0
    for s in sizes:
        comp = ids[p:p + s]
        p += s
        if s == 1:
            C[comp[0]][comp[0]] = tot
        else:
            for a, b in zip(comp, comp[1:] + comp[:1]):
                C[a][b] = hi
            C[comp[0]][comp[1]] += tot - hi * s
    return C


def _many(rng, n, thr, layout, tie=False):
    """>= 17 states: one heavy strongly connected component whose position among the ids is fixed by
    `layout` (which ids get removed), several other components, isolated states, one-way bridges"""
    hi = max(thr, 1)
    h = rng.randint(2, max(2, (2 * n) // 3))
    ids = list(range(n))
    if layout == "end":                 # removed states are the highest ids
        heavy = ids[:h]
    elif layout == "front":             # removed states are the lowest ids
        heavy = ids[n - h:]
    elif layout == "middle":            # removed states form a block strictly inside
        a = rng.randint(1, h - 1)
        heavy = ids[:a] + ids[n - (h - a):]
    elif layout == "ends":              # removed at both ends, kept block inside
        a = rng.randint(1, n - h - 1) if n - h >= 2 else 0
        heavy = ids[a:a + h]
    elif layout == "alt" and n >= 4:    # every other id
        h = min(h, n // 2)
        off = rng.randrange(2)
        heavy = [2 * k + off for k in range(n // 2)][:max(2, h)]
    else:                               # scattered
        heavy = sorted(rng.sample(ids, h))
    hs = set(heavy)
    rest = [i for i in ids if i not in hs]
    rng.shuffle(rest)
    comps, k = [list(heavy)], 0
    while k < len(rest):
        s = rng.choice([1, 1, 2, 3, 4, 5, max(1, n // 6), max(1, n // 4)])
        comps.append(rest[k:k + s])
        k += s
    C = [[0] * n for _ in range(n)]
    for comp in comps:
        if len(comp) == 1:
            if rng.random() < 0.5:
                C[comp[0]][comp[0]] = rng.choice([0, hi, hi + 3, 9])
            continue
        cyc = list(comp)
        rng.shuffle(cyc)
        for a, b in zip(cyc, cyc[1:] + cyc[:1]):
            C[a][b] = hi + rng.randrange(3)
        for _ in range(rng.randrange(1 + len(comp))):
            a, b = rng.choice(comp), rng.choice(comp)
            C[a][b] = hi + rng.randrange(4)
    order = list(range(len(comps)))
    rng.shuffle(order)
    for x in range(len(order)):          # one-way bridges along a random order of the components
        for y in range(x + 1, len(order)):
            if rng.random() < min(0.45, 3.0 / len(order)):
                a, b = rng.choice(comps[order[x]]), rng.choice(comps[order[y]])
                C[a][b] = hi + rng.randrange(6)
    if thr >= 2:
        for _ in range(rng.randrange(2 * n)):
            a, b = rng.randrange(n), rng.randrange(n)
            if C[a][b] == 0:
                C[a][b] = rng.randrange(1, thr)
    w = [sum(sum(C[i]) for i in comp) for comp in comps]
    top = max(w[1:]) if len(w) > 1 else 0
    if tie and len(w) > 1:
        need = top - w[0]
    else:
        need = top - w[0] + 1 + rng.randrange(3)
    if need > 0:
        cyc = heavy
        a = rng.choice(heavy)
        b = next(j for j in heavy if C[a][j] >= hi)
        C[a][b] += need
    return C


def _deadend(rng, decides=True, pad=0):
    """threshold 1.  Two competing components A, B, dead-end states (entered, never left) fed from A (and
    sometimes B), optional source-only states (left, never entered), `pad` further light components.
    With `decides` the counts INTO the dead ends are what makes A heavier than B: a caller that forgets
    them (drops the dead-end columns before weighing) keeps B instead."""
    sa, sb = rng.choice([1, 2, 2, 3, 4]), rng.choice([1, 2, 2, 3, 4])
    nd, ns = rng.choice([1, 1, 2, 3]), rng.choice([0, 0, 1, 2])
    extra = [rng.choice([1, 2, 3]) for _ in range(pad)]
    n = sa + sb + nd + ns + sum(extra)
    ids = list(range(n))
    rng.shuffle(ids)
    parts, k = [], 0
    for sz in [sa, sb, nd, ns] + extra:
        parts.append(ids[k:k + sz])
        k += sz
    A, B, D, S = parts[:4]
    C = [[0] * n for _ in range(n)]

    def cyc(comp, lo, span):
        if len(comp) == 1:
            C[comp[0]][comp[0]] = lo + rng.randrange(span)
            return
        order = list(comp)
        rng.shuffle(order)
        for a, b in zip(order, order[1:] + order[:1]):
            C[a][b] = lo + rng.randrange(span)
    cyc(A, 3, 3)
    cyc(B, 3, 3)
    for comp in parts[4:]:
        cyc(comp, 1, 1)
        if rng.random() < 0.4 and D:               # light components may feed the dead ends too
            C[rng.choice(comp)][rng.choice(D)] += 1
    if rng.random() < 0.3:                          # one-way bridge between the competitors
        C[rng.choice(A)][rng.choice(B)] += 1
    inner = lambda comp: sum(sum(C[i]) for i in comp)
    dB = rng.choice([0, 0, 0, 1, 2])
    for _ in range(dB):
        C[rng.choice(B)][rng.choice(D)] += 1
    if decides:
        g = rng.choice([0, 1, 1, 2, 3])             # B's lead over A without the dead-end counts (0: a tie)
        iA, iB = inner(A), inner(B) - dB
        if iB < iA + g:
            b = rng.choice(B)
            C[b][next(j for j in B if C[b][j] > 0)] += iA + g - iB
        else:
            a = rng.choice(A)
            C[a][next(j for j in A if C[a][j] > 0)] += iB - g - iA
        dA = g + dB + rng.choice([1, 1, 2])          # ... and A's lead with them
    else:
        dA = rng.choice([1, 2, 3])
    for d in D:                                      # every dead end is entered at least once
        src = rng.choice(A) if decides else rng.choice(A + B)
        C[src][d] += 1
        dA -= 1 if src in A else 0
    for _ in range(max(dA, 0)):
        C[rng.choice(A)][rng.choice(D)] += 1
    top = max(inner(A), inner(B))
    for s_ in S:                                     # source-only states: weight = what leaves them
        tgt = rng.choice(A + B + D)
        C[s_][tgt] = rng.choice([1, 1, 2, top + 1 if rng.random() < 0.3 else 1])
    return C


NARROW = {"uint8": (8, False), "int8": (8, True), "int16": (16, True), "uint16": (16, False), "int32": (32, True)}


def _wrap(v, dt):
    """v reduced to the range of the integer dtype dt (two's complement)"""
    b, sg = NARROW[dt]
    v %= 1 << b
    return v - (1 << b) if sg and v >= 1 << (b - 1) else v


def _narrow(rng, dt):
    """Counts legal for the narrow dtype dt (0 <= entry <= its maximum) with a heaviest component whose total count lies
    beyond the dtype's range, and a lighter competitor whose total is larger than the heavy total reduced to the dtype."""
    b, sg = NARROW[dt]
    L = (1 << (b - 1)) - 1 if sg else (1 << b) - 1
    thr = rng.choice([0, 1, 1, 2, 3, L // 3])
    lo = max(thr, 1)
    sh, sl = rng.choice([2, 2, 3, 4]), rng.choice([1, 2, 2, 3])
    pads = [rng.choice([1, 1, 2]) for _ in range(rng.choice([0, 0, 1, 2]))]
    n = sh + sl + sum(pads)
    ids = list(range(n))
    rng.shuffle(ids)
    parts, k = [], 0
    for sz in [sh, sl] + pads:
        parts.append(ids[k:k + sz])
        k += sz
    if rng.random() < 0.5:                                  # competitor before / after the heavy component among the ids
        parts[0], parts[1] = sorted(parts[0] + parts[1])[:sh], sorted(parts[0] + parts[1])[sh:]
    elif rng.random() < 0.5:
        parts[1], parts[0] = sorted(parts[0] + parts[1])[:sl], sorted(parts[0] + parts[1])[sl:]
    C = [[0] * n for _ in range(n)]

    def ring(comp):
        """a cycle through the component with entries lo (a self count for a single state); returns the cells to fill up"""
        cyc = list(comp)
        rng.shuffle(cyc)
        edges = [(a, b_) for a, b_ in zip(cyc, cyc[1:] + cyc[:1])] if len(comp) > 1 else [(comp[0], comp[0])]
        for a, b_ in edges:
            C[a][b_] = lo
        other = [(a, b_) for a in comp for b_ in comp if (a, b_) not in edges]
        rng.shuffle(other)
        return edges + other[:rng.randrange(len(other) + 1)]

    def fill(comp, where, total):
        """bring the component's weight (sum of its rows) to `total`; every entry stays <= L and is 0 or >= thr"""
        rest = total - sum(sum(C[i]) for i in comp)
        assert rest >= 0
        while rest > 0:
            free = [e for e in where if C[e[0]][e[1]] < L and (C[e[0]][e[1]] > 0 or rest >= thr)]
            if not free:
                free = [(a, b_) for a in comp for b_ in comp if C[a][b_] < L and (C[a][b_] > 0 or rest >= thr)]
            if not free:
                # every occupied cell is full and the rest is below the threshold: open an empty cell with `thr`
                # and take the difference out of a full one (L >= 2 thr)
                a, b_ = rng.choice([(a, b_) for a in comp for b_ in comp if C[a][b_] == 0])
                x, y = rng.choice([(x, y) for x in comp for y in comp if C[x][y] == L])
                C[a][b_], C[x][y], rest = thr, L - (thr - rest), 0
                break
            a, b_ = rng.choice(free)
            room = L - C[a][b_]
            add = min(rest, room, max(1, rng.choice([room, room, rest, rest // 2, L // 2])))
            if C[a][b_] == 0 and add < thr:
                add = thr
            C[a][b_] += add
            rest -= add

    heavy, light = parts[0], parts[1]
    for comp in parts[2:]:                                   # light padding components, isolated states
        if len(comp) == 1 and rng.random() < 0.5:
            continue
        fill(comp, ring(comp), lo * len(comp) + rng.randrange(3))
    wh, wl = ring(heavy), ring(light)
    if rng.random() < 0.4:                                   # a one-way bridge between the competitors
        a, b_ = (rng.choice(heavy), rng.choice(light)) if rng.random() < 0.5 else (rng.choice(light), rng.choice(heavy))
        C[a][b_] = lo + rng.randrange(3)
    floor_h, floor_l = sum(sum(C[i]) for i in heavy), sum(sum(C[i]) for i in light)
    cap_h, cap_l = len(heavy) ** 2 * L, len(light) ** 2 * L
    for _ in range(400):
        T = rng.randint(max(L + 1, floor_h), min(cap_h, 4 * L)) if rng.random() < 0.6 else \
            max(L + 1, floor_h) + rng.randrange(max(1, L // 4))
        lo_t, hi_t = max(_wrap(T, dt) + 1, floor_l), min(T - 1, cap_l)
        if lo_t <= hi_t:
            break
    assert lo_t <= hi_t, (dt, thr, heavy, light)
    t = rng.randint(lo_t, hi_t) if rng.random() < 0.7 else rng.choice([lo_t, hi_t])
    fill(light, wl, t)
    fill(heavy, wh, T)
    return C, thr


ZERO_CONTS = ["coo_matrix", "csr_matrix", "csc_matrix", "coo_array", "csr_array"]


def _stored_zeros(rng, C, thr):
    """positions (i, j) with count 0 that the sparse container stores all the same (`m[i, j] = 0`, an edited `.data`,
    a Matrix-Market file listing zeros): preferably cells that would join different components if a stored
    entry were taken for an observed transition"""
    n = len(C)
    free = [(i, j) for i in range(n) for j in range(n) if C[i][j] == 0]
    if not free:
        return []
    lab = {i: k for k, comp in enumerate(_sccs(C, thr)) for i in comp}
    cross = [(i, j) for i, j in free if lab[i] != lab[j]]
    u = rng.random()
    if u < 0.35 and cross:
        # a two-way connection between two components made of stored zeros only
        i, j = rng.choice(cross)
        zs = [(i, j)] + ([(j, i)] if C[j][i] == 0 else [])
        zs += rng.sample(free, rng.randrange(min(3, len(free)) + 1))
    elif u < 0.6:
        zs = list(free)                                   # every unobserved transition is stored
    elif u < 0.8 and cross:
        zs = rng.sample(cross, rng.randint(1, len(cross)))
    else:
        zs = rng.sample(free, rng.randint(1, len(free)))
    out = []
    for z in zs:
        if z not in out:
            out.append(z)
    rng.shuffle(out)
    return [list(z) for z in out]


def _block_cells(C, block):
    """cells a BSR container with the given block size stores: every cell of a block holding a count"""
    n, (br, bc) = len(C), block
    full = {(i // br, j // bc) for i in range(n) for j in range(n) if C[i][j] != 0}
    return [(i, j) for i in range(n) for j in range(n) if (i // br, j // bc) in full]


def _stored_extra(c):
    """the zero-count cells the case's container stores explicitly"""
    C = c["C"]
    if c.get("zeros"):
        return [tuple(z) for z in c["zeros"]]
    if c.get("block"):
        return [(i, j) for i, j in _block_cells(C, c["block"]) if C[i][j] == 0]
    return []


def _mk(C, thr, ren, cont, extras=True, fit=None):
    return {"C": C, "thr": thr, "renumber": ren, "cont": cont, "extras": extras,
            "fit": fit if fit is not None else False}


def generate(rng, tier):
    cases = []
    nrand = 420 if tier == "quick" else 3000
    for k in range(nrand):
        thr = rng.choice([0, 1, 1, 1, 2, 2, 3])
        u = rng.random()
        if u < 0.6:
            C = _planted(rng, rng.choice([2, 3, 4, 5, 5, 6, 6, 7, 8]), thr)
        elif u < 0.8:
            C = _random(rng, rng.choice([1, 2, 3, 4, 5, 6]))
        else:
            C = _tie(rng, thr)
        cont = rng.choice(["dense"] + SPARSE + ["dense"])
        cases.append(_mk(C, thr, rng.random() < 0.5, cont, True, fit=(thr == 1 and rng.random() < 0.6)))
        if rng.random() < 0.25:
            # non-canonical sparse input: COO whose counts are split over several stored unit entries
            cs = _mk(C, thr, rng.random() < 0.5, rng.choice(["coo_matrix", "coo_array"]), True, fit=False)
            cs["split"] = True
            cases.append(cs)
    conts = ["dense"] + SPARSE
    # layout stream (small): which ids are removed -- the highest ("end"), the lowest ("front"), a block inside
    # ("middle"), both ends, every other id, scattered -- x every container; the in-place variant is the main run,
    # the renumbered one its sibling
    for rep in range(1 if tier == "quick" else 6):
        for cont in conts:
            for layout in LAYOUTS:
                thr = rng.choice([0, 1, 1, 2, 3])
                C = _many(rng, rng.choice([3, 4, 5, 6, 7, 8, 9]), thr, layout, tie=rng.random() < 0.1)
                cases.append(_mk(C, thr, False, cont, True, fit=(thr == 1 and rng.random() < 0.5)))
    # dead-end stream (threshold 1, MSM.fit): states that are entered but never left; the counts into them belong to
    # the component they come from and decide which component is the heaviest
    for k in range(70 if tier == "quick" else 700):
        C = _deadend(rng, decides=rng.random() < 0.75, pad=rng.choice([0, 0, 1, 2]))
        cases.append(_mk(C, 1, rng.random() < 0.5, conts[k % len(conts)], True, fit=True))
    # many-states stream: 17..200 states (sorting / searching routines switch algorithm above 16 elements),
    # every container x every layout; compared inside Coq up to COQ_CAP states, by the exact oracle beyond
    heavy = []
    for rep in range(1 if tier == "quick" else 4):
        for ci, cont in enumerate(conts):
            for li, layout in enumerate(LAYOUTS):
                thr = rng.choice([0, 1, 1, 1, 2, 3])
                if (ci + li + rep) % 2 == 0:
                    n = rng.choice([17, 17, 18, 19, 20, 21, 22, 24, 25, 28, 31, 32, 33, 36, COQ_CAP])
                else:
                    n = rng.choice([41, 48, 50, 63, 64, 65, 75, 90, 100, 127, 128, 129, 150, 200])
                C = _many(rng, n, thr, layout, tie=rng.random() < 0.1)
                heavy.append(_mk(C, thr, rng.random() < 0.5, cont, True, fit=(thr == 1 and rng.random() < 0.6)))
    for k in range(6 if tier == "quick" else 40):        # dead ends among many states
        C = _deadend(rng, decides=True, pad=rng.choice([5, 6, 8, 12, 20]))
        heavy.append(_mk(C, 1, rng.random() < 0.5, conts[k % len(conts)], True, fit=True))
    # narrow-dtype stream: every entry fits the dtype, the heaviest component's total does not
    for rep in range(2 if tier == "quick" else 16):
        for cont in conts:
            for dt in sorted(NARROW):
                C, thr = _narrow(rng, dt)
                cs = _mk(C, thr, rng.random() < 0.5, cont, True, fit=False)
                cs["dtype"] = dt
                cases.append(cs)
    # stored-zeros stream: sparse containers that carry explicit entries for transitions never observed (COO / CSR / CSC
    # with zero-valued entries, BSR whose dense blocks cover unobserved transitions).  A stored zero is a count of 0:
    # no edge at any threshold, no weight.  Mostly the default threshold.
    for k in range(60 if tier == "quick" else 600):
        thr = rng.choice([1, 1, 1, 1, 0, 0, 2, 3])
        u = rng.random()
        if u < 0.5:
            C = _planted(rng, rng.choice([2, 3, 4, 4, 5, 6, 7, 8]), thr)
        elif u < 0.7:
            C = _many(rng, rng.choice([3, 4, 5, 6, 8, 9]), thr, LAYOUTS[k % len(LAYOUTS)])
        elif u < 0.85 and thr == 1:
            C = _deadend(rng, decides=rng.random() < 0.5, pad=rng.choice([0, 1]))
        else:
            C = _random(rng, rng.choice([2, 3, 4, 5, 6]))
        n = len(C)
        cs = _mk(C, thr, rng.random() < 0.5, ZERO_CONTS[k % len(ZERO_CONTS)], True, fit=False)
        divs = [d for d in range(1, n + 1) if n % d == 0]
        blocks = [(a, b) for a in divs for b in divs if a * b > 1]
        if k % 3 == 2 and blocks and any(any(row) for row in C):
            cs["cont"] = "bsr_matrix"
            cs["block"] = list(rng.choice(blocks))
        else:
            cs["zeros"] = _stored_zeros(rng, C, thr)
            if not cs["zeros"]:
                continue
        cases.append(cs)
    # TrimMapping on its own: injective (original, mapped) pairs in arbitrary order, and the empty list
    for k in range(40 if tier == "quick" else 400):
        m = rng.randrange(0, 7) if k else 0
        origs = rng.sample(range(10), m)
        mapped = rng.sample(range(10), m) if rng.random() < 0.5 else rng.sample(range(m), m)
        cases.append({"kind": "tm", "pairs": [[o, t] for o, t in zip(origs, mapped)]})
    # the code's error paths
    for C in ([], [[1, 2, 3], [0, 1, 1]], [[1, 2], [0, 1], [1, 1]], [[]]):
        for ren in (True, False):
            cases.append(_mk(C, 1, ren, "dense", False))
    cases.append(_mk([], 1, True, "csr_matrix", False))
    # exhaustive small scope
    top = 3
    for n in range(1, top + 1):
        for idx, bits in enumerate(itertools.product((0, 1), repeat=n * n)):
            A = [list(bits[i * n:(i + 1) * n]) for i in range(n)]
            if tier == "quick" and n == 3 and (idx % 5):
                continue
            cases.append(_mk(A, 1, sum(bits) % 2 == 0, "dense", False))
            if tier == "thorough":
                # second weighting: count (i,j) = 1 + ((2*i + j) mod 3), threshold 2 removes the ones
                W = [[A[i][j] * (1 + (2 * i + j) % 3) for j in range(n)] for i in range(n)]
                cases.append(_mk(W, 2, sum(bits) % 2 == 1, "dense", False))
    if tier == "thorough":
        n = 4
        for bits in itertools.product((0, 1), repeat=16):
            A = [list(bits[i * n:(i + 1) * n]) for i in range(n)]
            cases.append(_mk(A, 1, sum(bits) % 2 == 0, "dense", False))
            W = [[A[i][j] * (1 + (2 * i + j) % 3) for j in range(n)] for i in range(n)]
            cases.append(_mk(W, 2, sum(bits) % 2 == 1, "dense", False))
    # the many-states cases are spread evenly over the run so that the Coq case files stay balanced
    step = max(1, len(cases) // (len(heavy) + 1))
    out = []
    for i, c in enumerate(cases):
        out.append(c)
        if heavy and (i + 1) % step == 0:
            out.append(heavy.pop())
    return out + heavy


# ----------------------------------------------------------------------------- implementation
_DTYPE = ["int64"]  # element type the input container is built with (narrow-dtype stream)
_SPLIT = [False]   # build COO input with every count split into unit entries (as assigns_to_counts returns it)
_ZEROS = [None]    # zero-count cells stored explicitly (stored-zeros stream)
_BLOCK = [None]    # BSR block size (stored-zeros stream)


def _split_entries(C):
    """the unit entries (row, col) a split COO input is built from, in the order they are stored"""
    rows, cols = [], []
    for i in range(len(C)):
        for j in range(len(C[i])):
            rows += [i] * int(C[i][j])
            cols += [j] * int(C[i][j])
    order = np.random.RandomState(len(rows)).permutation(len(rows))
    return [rows[k] for k in order], [cols[k] for k in order]


def _is_split(name, C, split):
    return bool(split) and name in ("coo_matrix", "coo_array") and len(C) > 0 and all(len(r) == len(C) for r in C)


def _container(name, C):
    import scipy.sparse as sp
    a = np.array(C, dtype=np.int64)
    if _DTYPE[0] != "int64":
        assert a.size and int(a.min()) >= np.iinfo(_DTYPE[0]).min and int(a.max()) <= np.iinfo(_DTYPE[0]).max
        a = a.astype(_DTYPE[0])
    if a.ndim != 2:
        a = a.reshape((len(C), 0))
    if name == "dense":
        return a
    if _is_split(name, C, _SPLIT[0]):
        rows, cols = _split_entries(C)
        return getattr(sp, name)((np.ones(len(rows), dtype=np.int64), (np.array(rows, dtype=int), np.array(cols, dtype=int))),
                                 shape=a.shape)
    if _ZEROS[0] and name in ZERO_CONTS:
        st = _stored(name, C, _ZEROS[0], None)
        m = getattr(sp, name)((np.array([v for _, _, v in st], dtype=a.dtype),
                               (np.array([i for i, _, _ in st], dtype=int), np.array([j for _, j, _ in st], dtype=int))),
                              shape=a.shape)
        assert m.nnz == len(st) and (m.toarray() == a).all(), "the container does not hold the intended stored zeros"
        return m
    if _BLOCK[0] and name == "bsr_matrix":
        m = sp.bsr_matrix(a, blocksize=tuple(_BLOCK[0]))
        assert m.nnz == len(_stored(name, C, None, _BLOCK[0])) and (m.toarray() == a).all()
        return m
    return getattr(sp, name)(a)


def _stored(name, C, zeros, block):
    """the stored entries (row, col, value) of the input container, in storage order"""
    n = len(C)
    if block and name == "bsr_matrix":
        return [(i, j, C[i][j]) for i, j in _block_cells(C, block)]
    st = [(i, j, C[i][j]) for i in range(n) for j in range(len(C[i])) if C[i][j] != 0]
    if zeros and name in ZERO_CONTS:
        zs = [(int(i), int(j), 0) for i, j in zeros]
        assert all(C[i][j] == 0 for i, j, _ in zs)
        # zeros mixed into the observed entries (every other position), the remaining ones at the end
        out = []
        for k, e in enumerate(st):
            out.append(e)
            if k % 2 == 0 and zs:
                out.append(zs.pop(0))
        st = out + zs
    return st


def _canon(mapping, counts):
    import scipy.sparse as sp
    # dictionaries are compared as finite maps: items sorted by key (dict order is not part of the property)
    to_o = sorted([int(k), int(v)] for k, v in mapping.to_original.items())
    to_m = sorted([int(k), int(v)] for k, v in mapping.to_mapped.items())
    dense = counts.toarray() if sp.issparse(counts) else np.asarray(counts)
    return {"keep": [v for _, v in to_o], "counts": [[int(x) for x in row] for row in dense.tolist()],
            "to_original": to_o, "to_mapped": to_m,
            "type": "dense" if type(counts) is np.ndarray else type(counts).__name__}


def _trim(C, thr, ren, cont):
    from enspara.msm.transition_matrices import trim_disconnected
    try:
        m, t = trim_disconnected(_container(cont, C), threshold=thr, renumber_states=ren)
        return _canon(m, t)
    except Exception as ex:
        return {"err": type(ex).__name__}


def _fit(C, trim):
    from enspara.msm.msm import MSM
    n = len(C)
    trj = [[i, j] for i in range(n) for j in range(n) for _ in range(C[i][j])]
    try:
        m = MSM(lag_time=1, method=lambda c: (c, None, None), trim=trim, max_n_states=n)
        m.fit(np.array(trj, dtype=np.int64))
        return _canon(m.mapping_, m.tcounts_)
    except Exception as ex:
        return {"err": type(ex).__name__}


def _run_tm(c):
    from enspara.msm.transition_matrices import TrimMapping
    try:
        m = TrimMapping([(o, t) for o, t in c["pairs"]])
        return {"to_original": sorted([int(k), int(v)] for k, v in m.to_original.items()),
                "to_mapped": sorted([int(k), int(v)] for k, v in m.to_mapped.items())}
    except Exception as ex:
        return {"err": type(ex).__name__}


def run_impl(c):
    if c.get("kind") == "tm":
        return {"main": _run_tm(c)}
    C, thr, ren, cont = c["C"], c["thr"], c["renumber"], c["cont"]
    _SPLIT[0] = bool(c.get("split"))
    _DTYPE[0] = c.get("dtype", "int64")
    _ZEROS[0], _BLOCK[0] = c.get("zeros"), c.get("block")
    res = {"main": _trim(C, thr, ren, cont)}
    if c["extras"]:
        res["other"] = _trim(C, thr, not ren, cont)
        if cont != "dense":
            res["dense"] = _trim(C, thr, ren, "dense")
    if c["fit"] and sum(map(sum, C)) > 0:
        res["fit"] = _fit(C, True)
        res["fit_notrim"] = _fit(C, False)
    return res


# ----------------------------------------------------------------------------- oracle
def _edges(C, thr):
    n = len(C)
    return [[C[i][j] >= thr and C[i][j] != 0 for j in range(n)] for i in range(n)]


def _reach(E):
    """reflexive-transitive closure (Warshall; rows kept as bit sets so that 200 states stay cheap)"""
    n = len(E)
    rows = [sum(1 << j for j in range(n) if (i == j or E[i][j])) for i in range(n)]
    for k in range(n):
        rk, bit = rows[k], 1 << k
        for i in range(n):
            if rows[i] & bit:
                rows[i] |= rk
    return [[bool((rows[i] >> j) & 1) for j in range(n)] for i in range(n)]


def _sccs(C, thr):
    n = len(C)
    R = _reach(_edges(C, thr))
    seen, out = set(), []
    for i in range(n):
        if i not in seen:
            comp = [j for j in range(n) if R[i][j] and R[j][i]]
            seen.update(comp)
            out.append(comp)
    return out


def _wellformed(C):
    return len(C) > 0 and all(len(r) == len(C) for r in C)


def _weights(C, comps):
    return [sum(sum(C[i]) for i in comp) for comp in comps]


def _check_one(C, thr, ren, cont, r, pre):
    out = []
    if not _wellformed(C):
        if "err" not in r:
            out.append((pre + "reject", "malformed input accepted: %s" % r))
        return out
    if "err" in r:
        return [(pre + "raises", "valid input raised %s" % r["err"])]
    n = len(C)
    comps = _sccs(C, thr)
    w = _weights(C, comps)
    keep = r["keep"]
    if sorted(keep) not in comps:
        out.append((pre + "keep-is-scc", "kept %s is not a strongly connected component %s" % (keep, comps)))
    elif w[comps.index(sorted(keep))] != max(w):
        out.append((pre + "keep-heaviest", "kept %s weighs %d, heaviest weighs %d (%s %s)" % (
            keep, w[comps.index(sorted(keep))], max(w), comps, w)))
    if keep != sorted(set(keep)):
        out.append((pre + "mapping-order", "kept ids not strictly increasing: %s" % keep))
    m = len(keep)
    T = r["counts"]
    if ren:
        if T != [[C[i][j] for j in keep] for i in keep]:
            out.append((pre + "counts-preserved", "renumbered counts %s" % T))
        if r["to_original"] != [[k, keep[k]] for k in range(m)]:
            out.append((pre + "mapping", "to_original %s" % r["to_original"]))
        # the trimmed matrix is strongly connected w.r.t. the threshold
        if m and len(T) == m and all(len(row) == m for row in T):
            R = _reach(_edges(T, thr))
            if not all(all(row) for row in R):
                out.append((pre + "trimmed-connected", "trimmed matrix %s not strongly connected" % T))
    else:
        ks = set(keep)
        if T != [[C[i][j] if (i in ks and j in ks) else 0 for j in range(n)] for i in range(n)]:
            out.append((pre + "removed-zero", "in-place counts %s" % T))
        if r["to_original"] != [[k, k] for k in keep]:
            out.append((pre + "mapping", "to_original %s" % r["to_original"]))
        R = _reach(_edges(T, thr)) if len(T) == n else None
        if R is not None and not all(R[a][b] for a in keep for b in keep):
            out.append((pre + "trimmed-connected", "kept states not mutually reachable in %s" % T))
    if sorted(r["to_mapped"]) != sorted([v, k] for k, v in r["to_original"]) or \
            len({k for k, _ in r["to_mapped"]}) != len(r["to_mapped"]):
        out.append((pre + "mapping-inverse", "to_mapped %s vs to_original %s" % (r["to_mapped"], r["to_original"])))
    if r["type"] != cont:
        out.append((pre + "container", "container %s became %s" % (cont, r["type"])))
    return out


def oracle(c, r):
    if c.get("kind") == "tm":
        m = r["main"]
        if not c["pairs"]:
            return []          # nothing to map: the property is silent (the code leaves to_original unset)
        if "err" in m:
            return [("mapping-raises", "TrimMapping(%s) raised %s" % (c["pairs"], m["err"]))]
        out = []
        if m["to_original"] != sorted([t, o] for o, t in c["pairs"]):
            out.append(("mapping", "to_original %s for (original, mapped) pairs %s" % (m["to_original"], c["pairs"])))
        if m["to_mapped"] != sorted([o, t] for o, t in c["pairs"]):
            out.append(("mapping-inverse", "to_mapped %s for (original, mapped) pairs %s" % (m["to_mapped"], c["pairs"])))
        return out
    C, thr, ren, cont = c["C"], c["thr"], c["renumber"], c["cont"]
    out = _check_one(C, thr, ren, cont, r["main"], "")
    if "other" in r:
        out += _check_one(C, thr, not ren, cont, r["other"], "other-")
        a, b = (r["main"], r["other"]) if ren else (r["other"], r["main"])   # a renumbered, b in place
        if "err" not in a and "err" not in b:
            ka = a["keep"]
            if ka != b["keep"] or a["counts"] != [[b["counts"][i][j] for j in ka] for i in ka] or \
                    [[k, v] for k, v in a["to_original"]] != [[i, p[1]] for i, p in enumerate(b["to_original"])]:
                out.append(("variants-same-model", "renumbered %s vs in-place %s" % (a, b)))
        elif ("err" in a) != ("err" in b):
            out.append(("variants-same-model", "one variant raised: %s / %s" % (a, b)))
    if "dense" in r:
        d, s = r["dense"], r["main"]
        if ("err" in d) != ("err" in s) or ("err" not in d and any(d[k] != s[k] for k in ("keep", "counts", "to_original", "to_mapped"))):
            out.append(("dense-sparse-agree", "dense %s vs %s %s" % (d, cont, s)))
    if "fit" in r:
        ref = r["main"] if (ren and thr == 1) else r.get("other")
        f = r["fit"]
        if ref is not None and "err" not in ref:
            if "err" in f or any(f[k] != ref[k] for k in ("keep", "counts", "to_original", "to_mapped")):
                out.append(("msm-fit", "MSM(trim=True).fit reports %s, trim_disconnected %s" % (f, ref)))
        # ... and the fitted model meets every clause on its own (threshold 1, renumbered, COO counts)
        if _wellformed(C) and "err" not in f:
            out += _check_one(C, 1, True, "coo_matrix", f, "fit-")
        g = r["fit_notrim"]
        n = len(C)
        if "err" in g or g["to_original"] != [[k, k] for k in range(n)] or g["counts"] != C:
            out.append(("msm-fit-notrim", "MSM(trim=False).fit reports %s" % g))
    if "dtype" in c:
        out = [(k, "%s [count matrix %s held as %s %s, threshold %d]" % (m, C, c["dtype"], cont, thr)) for k, m in out]
    if c.get("zeros") or c.get("block"):
        how = "with explicit zero entries at %s" % c["zeros"] if c.get("zeros") else \
            "with block size %s (zero-count cells stored: %s)" % (c["block"], [list(z) for z in _stored_extra(c)])
        out = [(k, "%s [count matrix %s held as %s %s, threshold %d]" % (m, C, cont, how, thr)) for k, m in out]
    return out


# ----------------------------------------------------------------------------- Coq side
def _cmat(C):
    return clist(C, lambda row: clist(row, cz, "Z"), "(list Z)")


def _ccont(name):
    return "Dense" if name == "dense" else "(Sparse %d)" % SPARSE.index(name)


def _cpairs(ps):
    return clist(ps, lambda p: "(%s, %s)" % (cn(p[0]), cn(p[1])), "(nat * nat)")


def _cres(r):
    if "err" in r:
        return "(@None trim_result)"
    if r["type"] == "dense":
        cont = "Dense"
    elif r["type"] in SPARSE:
        cont = "(Sparse %d)" % SPARSE.index(r["type"])
    else:
        cont = "(Sparse 99)"
    return "(Some (Build_trim_result %s %s %s %s %s))" % (
        clist(r["keep"], cn, "nat"), _cmat(r["counts"]), _cpairs(r["to_original"]), _cpairs(r["to_mapped"]), cont)


def _cinp(name, C, split=False, zeros=None, block=None):
    """the input as the code receives it: NdArray cells | SparseM format rows cols stored-entries"""
    if name == "dense":
        return "(NdArray %s)" % _cmat(C)
    nr = len(C)
    nc = len(C[0]) if C else 0
    if _is_split(name, C, split):
        rows, cols = _split_entries(C)
        st = [(i, j, 1) for i, j in zip(rows, cols)]
    elif zeros or block:
        st = _stored(name, C, zeros, block)
    else:
        st = [(i, j, C[i][j]) for i in range(nr) for j in range(len(C[i])) if C[i][j] != 0]
    return "(SparseM %d %d %d %s)" % (SPARSE.index(name), nr, nc,
                                      clist(st, lambda e: "(%s, %s, %s)" % (cn(e[0]), cn(e[1]), cz(e[2])), "(nat * nat * Z)"))


def _cfit_inp(C):
    """assigns_to_counts returns a COO matrix with one stored unit entry per observed transition"""
    st = [(i, j, 1) for i in range(len(C)) for j in range(len(C)) for _ in range(C[i][j])]
    return "(SparseM %d %d %d %s)" % (SPARSE.index("coo_matrix"), len(C), len(C),
                                      clist(st, lambda e: "(%s, %s, %s)" % (cn(e[0]), cn(e[1]), cz(e[2])), "(nat * nat * Z)"))


def coq_check(c, r):
    if c.get("kind") == "tm":
        m = r["main"]
        if str(m.get("err", "")).startswith("Unexpected"):
            return "false"
        res = "(@None (dict * dict))" if "err" in m else "(Some (%s, %s))" % (_cpairs(m["to_original"]), _cpairs(m["to_mapped"]))
        return "((mapping_agrees %s %s) && (gen_mapping_agrees %s %s))%%bool" % (
            _cpairs(c["pairs"]), res, _cpairs(c["pairs"]), res)
    if any(isinstance(v, dict) and str(v.get("err", "")).startswith("Unexpected") for v in r.values()) or "main" not in r:
        return "false"
    if len(c["C"]) > COQ_CAP:
        return None        # beyond the size affordable inside Coq: judged by the exact oracle only
    C, thr, ren, cont = _cmat(c["C"]), cz(c["thr"]), c["renumber"], _ccont(c["cont"])
    inp = _cinp(c["cont"], c["C"], c.get("split"), c.get("zeros"), c.get("block"))
    terms = ["impl_agrees %s %s %s %s %s" % (thr, C, cb(ren), cont, _cres(r["main"])),
             "gen_impl_agrees %s %s %s %s" % (inp, thr, cb(ren), _cres(r["main"]))]
    if "other" in r:
        terms.append("impl_agrees %s %s %s %s %s" % (thr, C, cb(not ren), cont, _cres(r["other"])))
        terms.append("gen_impl_agrees %s %s %s %s" % (inp, thr, cb(not ren), _cres(r["other"])))
    if "dense" in r:
        terms.append("impl_agrees %s %s %s Dense %s" % (thr, C, cb(ren), _cres(r["dense"])))
        terms.append("gen_impl_agrees (NdArray %s) %s %s %s" % (C, thr, cb(ren), _cres(r["dense"])))
    if "fit" in r:
        coo = _ccont("coo_matrix")
        terms.append("fit_agrees true %s %s %s" % (C, coo, _cres(r["fit"])))
        terms.append("fit_agrees false %s %s %s" % (C, coo, _cres(r["fit_notrim"])))
        finp = _cfit_inp(c["C"])
        terms.append("gen_fit_agrees true %s %s" % (finp, _cres(r["fit"])))
        terms.append("gen_fit_agrees false %s %s" % (finp, _cres(r["fit_notrim"])))
    return "(" + " && ".join("(%s)" % t for t in terms) + ")%bool"


def coq_show(c):
    if c.get("kind") == "tm":
        return "trim_mapping %s" % _cpairs(c["pairs"])
    return "(trim_disconnected %s %s %s %s, trim_disconnected %s %s %s %s)" % (
        cz(c["thr"]), _cmat(c["C"]), cb(c["renumber"]), _ccont(c["cont"]),
        cz(c["thr"]), _cmat(c["C"]), cb(not c["renumber"]), _ccont(c["cont"]))


# ----------------------------------------------------------------------------- accounting
def nontrivial(c, r):
    if c.get("kind") == "tm":
        return len(c["pairs"]) >= 2 and any(o != t for o, t in c["pairs"])
    C = c["C"]
    if not _wellformed(C) or "err" in r["main"]:
        return False
    return len(_sccs(C, c["thr"])) >= 2 and len(r["main"]["keep"]) < len(C)


def tags(c, r):
    if c.get("kind") == "tm":
        return ["trim-mapping-alone"] + (["trim-mapping-empty"] if not c["pairs"] else [])
    C, thr = c["C"], c["thr"]
    t = ["renumber" if c["renumber"] else "in-place", "dense" if c["cont"] == "dense" else "sparse"]
    if c.get("split"):
        t.append("coo-split-entries")
    if (c.get("zeros") or c.get("block")) and _wellformed(C):
        extra = _stored_extra(c)
        t.append("bsr-blocks" if c.get("block") else "stored-zeros")
        if extra:
            t.append("stored-zeros:" + c["cont"])
            # would the answer change if a stored entry counted as an observed transition?
            n_ = len(C)
            C1 = [[C[i][j] if C[i][j] or (i, j) not in set(extra) else max(thr, 1) for j in range(n_)] for i in range(n_)]
            if sorted(_sccs(C1, thr)) != sorted(_sccs(C, thr)):
                t.append("stored-zeros-would-connect")
                t.append("stored-zeros-would-connect:" + c["cont"])
                if thr <= 1:
                    t.append("stored-zeros-would-connect-default-threshold" if thr == 1 else "stored-zeros-would-connect-threshold-0")
    if c["cont"] != "dense":
        t.append("sparse:" + c["cont"])
    t.append("thr=%d" % thr)
    if not _wellformed(C):
        t.append("err-empty" if len(C) == 0 else "err-non-square")
        return t
    if "fit" in r:
        t.append("msm-fit")
    n = len(C)
    comps = _sccs(C, thr)
    w = _weights(C, comps)
    best = [k for k in range(len(comps)) if w[k] == max(w)]
    t.append("tie-for-heaviest" if len(best) > 1 else "unique-heaviest")
    E = _edges(C, thr)
    lab = {i: k for k, comp in enumerate(comps) for i in comp}
    if any(E[i][j] and lab[i] != lab[j] for i in range(n) for j in range(n)):
        t.append("one-way-bridge")          # weakly but not strongly connected parts
    if any(len(comp) == 1 and not any(E[comp[0]][j] or E[j][comp[0]] for j in range(n) if j != comp[0]) for comp in comps):
        t.append("isolated-state")
    if len(best) == 1:
        b = best[0]
        if len(comps[b]) < max(map(len, comps)):
            t.append("heaviest-not-largest")
        if 0 not in comps[b]:
            t.append("heaviest-not-first")
        if comps[b] != list(range(len(comps[b]))):
            t.append("kept-ids-not-a-prefix")     # new id != old id: direction of the mapping matters
        if comps[b] != list(range(comps[b][0], comps[b][0] + len(comps[b]))):
            t.append("kept-ids-interleaved")
        # the decision depends on counts that are not edges (sub-threshold or leaving the component)
        inner = [sum(C[i][j] for i in comp for j in comp if E[i][j]) for comp in comps]
        if inner.index(max(inner)) != b or inner.count(max(inner)) > 1:
            t.append("weight-decided-by-non-edge-counts")
    if any(0 < C[i][j] < thr for i in range(n) for j in range(n)):
        t.append("sub-threshold-count")
    # which ids are removed (as the implementation reports them)
    if "err" not in r["main"]:
        ks = set(r["main"]["keep"])
        removed = [i for i in range(n) if i not in ks]
        both = (not c["renumber"]) or "other" in r          # the in-place variant was run
        if removed and ks:
            if n - 1 in removed:
                t.append("removed-at-end")
                if both and c["cont"] != "dense":
                    t.append("in-place-end-removed:" + c["cont"])
            if 0 in removed:
                t.append("removed-at-front")
            if any(min(ks) < i < max(ks) for i in removed):
                t.append("removed-in-middle")
    if "dtype" in c:
        dt = c["dtype"]
        b_, sg = NARROW[dt]
        L = (1 << (b_ - 1)) - 1 if sg else (1 << b_) - 1
        t += ["narrow-dtype", "narrow:" + dt]
        if max(w) > L:
            t.append("narrow-total-exceeds-dtype")
        if any(sum(row) > L for row in C):
            t.append("narrow-row-total-exceeds-dtype")
        ww = [_wrap(x, dt) for x in w]
        if len(best) == 1 and ww.index(max(ww)) != best[0]:
            # totals accumulated in the input's own dtype would elect another component
            t += ["narrow-wrap-decides", "narrow-wrap-decides:" + dt,
                  "narrow-wrap-decides-dense" if c["cont"] == "dense" else "narrow-wrap-decides:" + c["cont"]]
    if n > 16:
        t.append("many-states")
        t.append("many-states-in-coq" if n <= COQ_CAP else "many-states-oracle-only")
        t.append("many-states-dense" if c["cont"] == "dense" else "many-states-sparse")
        if "fit" in r:
            t.append("many-states-msm-fit")
        if len(comps) >= 3:
            t.append("many-states-several-components")
    # dead ends (entered, never left) and source-only states (left, never entered)
    sinks = [j for j in range(n) if not any(C[j]) and any(C[i][j] for i in range(n))]
    srcs = [i for i in range(n) if any(C[i]) and not any(C[k][i] for k in range(n))]
    if sinks:
        t.append("dead-end-state")
        if thr == 1:
            live = [i for i in range(n) if i not in sinks]
            C2 = [[C[i][j] for j in live] for i in live]
            comps2 = [[live[i] for i in comp] for comp in _sccs(C2, thr)]
            w2 = [sum(C[i][j] for i in comp for j in live) for comp in comps2]
            best2 = sorted(comps2[k] for k in range(len(comps2)) if w2[k] == max(w2))
            if best2 != sorted(comps[k] for k in best):
                t.append("dead-end-decides")            # forgetting the counts into dead ends changes the answer
                if "fit" in r:
                    t.append("dead-end-decides-msm-fit")
    if srcs:
        t.append("source-only-state")
        if len(best) == 1 and len(comps[best[0]]) == 1 and comps[best[0]][0] in srcs:
            t.append("heaviest-is-source-only-state")
    if len(comps) == 1:
        t.append("already-connected")
    if len(comps) == n and n > 1:
        t.append("all-singletons")
    return t


ESSENTIAL_TAGS = ["coo-split-entries", "renumber", "in-place", "dense", "sparse", "msm-fit", "tie-for-heaviest", "unique-heaviest",
                  "one-way-bridge", "isolated-state", "heaviest-not-largest", "heaviest-not-first",
                  "kept-ids-interleaved", "sub-threshold-count", "err-empty", "err-non-square", "already-connected", "trim-mapping-alone",
                  "removed-at-end", "removed-at-front", "removed-in-middle",
                  "many-states", "many-states-in-coq", "many-states-oracle-only", "many-states-dense", "many-states-sparse",
                  "many-states-msm-fit", "many-states-several-components",
                  "dead-end-state", "dead-end-decides-msm-fit", "source-only-state", "heaviest-is-source-only-state"] + \
                 ["in-place-end-removed:" + k for k in SPARSE] + \
                 ["narrow-wrap-decides:" + k for k in sorted(NARROW)] + ["narrow-wrap-decides-dense"] + \
                 ["narrow-wrap-decides:" + k for k in SPARSE] + ["narrow-row-total-exceeds-dtype"] + \
                 ["stored-zeros", "bsr-blocks", "stored-zeros-would-connect", "stored-zeros-would-connect-default-threshold",
                  "stored-zeros-would-connect-threshold-0"] + \
                 ["stored-zeros-would-connect:" + k for k in ZERO_CONTS + ["bsr_matrix"]]


def search(rng, tier):
    found = []
    for k in range(4000):
        thr = rng.choice([0, 1, 1, 2, 3])
        C = _planted(rng, rng.choice([2, 3, 4, 5, 6]), thr) if rng.random() < 0.7 else _random(rng, rng.choice([2, 3, 4]))
        c = _mk(C, thr, rng.random() < 0.5, rng.choice(["dense", "csr_matrix", "coo_matrix"]), True, fit=(thr == 1))
        r = run_impl(c)
        for key, msg in oracle(c, r):
            found.append((key, msg, c, r))
        if found:
            break
    if not found:
        conts = ["dense"] + SPARSE
        for k in range(240):
            if k % 3 == 0:
                C, thr = _deadend(rng, decides=True, pad=rng.choice([0, 1, 2])), 1
            elif k % 3 == 1:
                thr = rng.choice([0, 1, 1, 2])
                C = _many(rng, rng.choice([17, 18, 20, 24, 33, 50, 75, 130]), thr, LAYOUTS[(k // 3) % len(LAYOUTS)])
            else:
                thr = rng.choice([0, 1, 1, 2])
                C = _many(rng, rng.choice([3, 4, 5, 6, 8]), thr, LAYOUTS[(k // 3) % len(LAYOUTS)])
            c = _mk(C, thr, False, conts[k % len(conts)], True, fit=(thr == 1))
            r = run_impl(c)
            for key, msg in oracle(c, r):
                found.append((key, msg, c, r))
            if found:
                break
    if not found:
        for k in range(300):
            thr = rng.choice([1, 1, 0, 2])
            C = _planted(rng, rng.choice([2, 3, 4, 5, 6]), thr)
            c = _mk(C, thr, k % 2 == 0, ZERO_CONTS[k % len(ZERO_CONTS)], True, fit=False)
            if k % 3 == 2 and len(C) % 2 == 0 and any(any(row) for row in C):
                c["cont"], c["block"] = "bsr_matrix", [2, 2]
            else:
                c["zeros"] = _stored_zeros(rng, C, thr)
            r = run_impl(c)
            for key, msg in oracle(c, r):
                found.append((key, msg, c, r))
            if found:
                break
    found.sort(key=lambda f: len(str(f[2])))
    return found
