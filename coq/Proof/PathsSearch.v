(* C17 proofs, part 2: the search loop of top_path.  Invariants: every labelled state has a
   previous_node chain that is a simple path of positive edges whose bottleneck is its label
   (validity), and the Dijkstra invariant (a visited state's label dominates the bottleneck of every
   walk from a source to it). *)
From Coq Require Import List Arith QArith Qreduction Bool Lia Lqa.
From EV Require Import Paths PathsProofs.
Import ListNotations.
Close Scope Q_scope.

Lemma memb_In : forall x l, memb x l = true <-> In x l.
Proof.
  intros x l. unfold memb. rewrite existsb_exists. split.
  - intros [y [Hy E]]. apply Nat.eqb_eq in E. subst. exact Hy.
  - intro H. exists x. split; [exact H|apply Nat.eqb_refl].
Qed.

Lemma memb_false : forall x l, memb x l = false <-> ~ In x l.
Proof.
  intros x l. rewrite <- memb_In. destruct (memb x l); split; congruence.
Qed.

Lemma remove_nth_incl : forall {A} i (l : list A) x, In x (remove_nth i l) -> In x l.
Proof.
  intros A i l. revert i. induction l as [|y r IH]; intros [|i] x H; simpl in *; try contradiction.
  - right. exact H.
  - destruct H as [H|H]; [left; exact H|right; eapply IH; exact H].
Qed.

Lemma remove_nth_keeps : forall i (l : list nat) x d, In x l -> x <> nth i l d -> In x (remove_nth i l).
Proof.
  intros i l. revert i. induction l as [|y r IH]; intros [|i] x d H Hne; simpl in *; try contradiction.
  - destruct H as [H|H]; [congruence|exact H].
  - destruct H as [H|H]; [left; exact H|right; eapply IH; eassumption].
Qed.

Lemma nodup_lt_length : forall n l, NoDup l -> Forall (fun v => v < n) l -> length l <= n.
Proof.
  intros n l Hnd Hlt. rewrite <- (seq_length n 0). apply NoDup_incl_length; [exact Hnd|].
  intros x Hx. apply in_seq. rewrite Forall_forall in Hlt. specialize (Hlt x Hx). lia.
Qed.

Section Search.
Variable n : nat.
Variable f : fmat.
Variable srcs sinks : list nat.
Hypothesis srcs_lt : forall s, In s srcs -> s < n.

(* chain s v rp : rp = v :: previous_node v :: ... :: source is the reversed previous_node chain of v *)
Inductive chain (s : st) : nat -> list nat -> Prop :=
| ch_src : forall v, In v srcs -> v < n -> prev s v = None -> mf s v = PInf -> chain s v [v]
| ch_step : forall u v p, prev s v = Some u -> chain s u p -> vis s u = true -> ~ In v p ->
    v < n -> (0 < f u v)%Q -> mf s v = emin (Fin (f u v)) (mf s u) -> chain s v (v :: p).

Lemma chain_head : forall s v p, chain s v p -> exists t, p = v :: t.
Proof. intros s v p H. destruct H; eexists; reflexivity. Qed.

Lemma chain_tail_vis : forall s v p, chain s v p -> forall x, In x (tl p) -> vis s x = true.
Proof.
  intros s v p H. induction H as [v H1 H2 H3 H4|u v p Hp Hc IH Hv Hn Hlt Hpos Hm]; intros x Hx; simpl in Hx.
  - contradiction.
  - destruct (chain_head _ _ _ Hc) as [t Et]. subst p. destruct Hx as [Hx|Hx].
    + subst. exact Hv.
    + apply IH. exact Hx.
Qed.

Lemma chain_frame : forall s s' v p, chain s v p ->
  (forall x, In x p -> prev s' x = prev s x /\ mf s' x = mf s x) ->
  (forall x, vis s x = true -> vis s' x = true) ->
  chain s' v p.
Proof.
  intros s s' v p H. induction H as [v H1 H2 H3 H4|u v p Hp Hc IH Hv Hn Hlt Hpos Hm]; intros Hsame Hvis.
  - destruct (Hsame v (or_introl eq_refl)) as [E1 E2].
    apply ch_src; try assumption; congruence.
  - destruct (Hsame v (or_introl eq_refl)) as [E1 E2].
    destruct (chain_head _ _ _ Hc) as [t Et].
    assert (Hu : In u (v :: p)) by (right; subst p; left; reflexivity).
    destruct (Hsame u Hu) as [E3 E4].
    apply ch_step with (u := u); try assumption.
    + congruence.
    + apply IH; [|exact Hvis]. intros x Hx. apply Hsame. right. exact Hx.
    + apply Hvis. exact Hv.
    + congruence.
Qed.

Lemma last_rev_cons : forall (v : nat) t, last (rev (v :: t)) 0 = v.
Proof. intros. simpl. apply last_last. Qed.

Lemma chain_props : forall s v rp, chain s v rp ->
  NoDup rp /\ Forall (fun x => x < n) rp /\ rev rp <> [] /\ In (hd 0 (rev rp)) srcs /\
  last (rev rp) 0 = v /\
  Forall (fun e => (0 < f (fst e) (snd e))%Q) (edges (rev rp)) /\
  eeq (mf s v) (bottleneck f (rev rp)).
Proof.
  intros s v rp H. induction H as [v H1 H2 H3 H4|u v p Hp Hc IH Hv Hn Hlt Hpos Hm].
  - simpl. repeat split.
    + constructor; [simpl; tauto|constructor].
    + constructor; [exact H2|constructor].
    + congruence.
    + exact H1.
    + constructor.
    + rewrite H4. unfold ele. reflexivity.
    + rewrite H4. unfold ele. reflexivity.
  - destruct IH as [I1 [I2 [I3 [I4 [I5 [I6 I7]]]]]].
    assert (Hrev : rev (v :: p) = rev p ++ [v]) by reflexivity.
    rewrite Hrev. repeat split.
    + constructor; assumption.
    + constructor; assumption.
    + destruct (rev p); simpl; congruence.
    + destruct (rev p) as [|a t]; [congruence|]. simpl. simpl in I4. exact I4.
    + apply last_last.
    + rewrite edges_snoc by exact I3. rewrite Forall_app. split; [exact I6|].
      constructor; [|constructor]. rewrite I5. simpl. exact Hpos.
    + eapply ele_trans; [|apply (bottleneck_snoc f (rev p) v I3)].
      rewrite I5, Hm. apply emin_mono; [apply ele_refl|apply I7].
    + eapply ele_trans; [apply (bottleneck_snoc f (rev p) v I3)|].
      rewrite I5, Hm. apply emin_mono; [apply ele_refl|apply I7].
Qed.

Lemma backtrack_chain : forall s v rp, chain s v rp ->
  forall fuel acc, length rp <= S fuel -> backtrack fuel (prev s) v acc = Some (rev rp ++ acc).
Proof.
  intros s v rp H. induction H as [v H1 H2 H3 H4|u v p Hp Hc IH Hv Hn Hlt Hpos Hm]; intros fuel acc Hlen.
  - destruct fuel; simpl; rewrite H3; reflexivity.
  - destruct (chain_head _ _ _ Hc) as [t Et].
    destruct fuel as [|k].
    + subst p. simpl in Hlen. lia.
    + simpl. rewrite Hp. rewrite IH by (simpl in Hlen; lia).
      simpl. rewrite <- app_assoc. reflexivity.
Qed.

(* ---------------------------------------------------------------- loop invariant *)
Record inv (s : st) : Prop := {
  i_src : forall v, In v srcs -> mf s v = PInf;
  i_chain : forall v, mf s v <> NInf -> exists p, chain s v p;
  i_vis_mf : forall v, vis s v = true -> mf s v <> NInf;
  i_q_mf : forall x, In x (queue s) -> mf s x <> NInf;
  i_q_in : forall x, vis s x = false -> mf s x <> NInf -> In x (queue s);
  i_relax : forall u x, vis s u = true -> vis s x = false -> x < n -> (0 < f u x)%Q ->
                        ele (emin (Fin (f u x)) (mf s u)) (mf s x);
  i_opt : forall v b, vis s v = true -> reach n f srcs v b -> ele b (mf s v);
  i_prev : forall v, mf s v = NInf -> prev s v = None;
  i_q_lt : forall x, In x (queue s) -> x < n
}.

(* what is known when the loop has ended *)
Record post (s : st) : Prop := {
  p_chain : forall v, mf s v <> NInf -> exists p, chain s v p;
  p_opt : forall v b, vis s v = true -> reach n f srcs v b -> ele b (mf s v);
  p_sinks : forall t b, In t sinks -> reach n f srcs t b -> vis s t = true;
  p_prev : forall v, mf s v = NInf -> prev s v = None
}.

Lemma inv_init : inv (init srcs).
Proof.
  constructor; simpl.
  - intros v Hv. apply memb_In in Hv. rewrite Hv. reflexivity.
  - intros v Hv. destruct (memb v srcs) eqn:E; [|congruence]. apply memb_In in E.
    exists [v]. apply ch_src; simpl; auto. apply memb_In in E. rewrite E. reflexivity.
  - intros; discriminate.
  - intros x Hx. apply memb_In in Hx. rewrite Hx. discriminate.
  - intros x _ Hx. destruct (memb x srcs) eqn:E; [|congruence]. apply memb_In. exact E.
  - intros; discriminate.
  - intros; discriminate.
  - intros; reflexivity.
  - exact srcs_lt.
Qed.

(* the popped state's label dominates every walk to it *)
Lemma pop_opt : forall s u, inv s -> In u (queue s) ->
  (forall x, In x (queue s) -> ele (mf s x) (mf s u)) ->
  forall b, reach n f srcs u b -> ele b (mf s u).
Proof.
  intros s u I Hu Hmax.
  assert (Hun : forall x b, reach n f srcs x b -> vis s x = false -> ele b (mf s u)).
  { intros x b H. induction H as [s0 Hs0 Hlt|a x b Hr IH Hx Hpos]; intro Hv.
    - rewrite <- (i_src s I s0 Hs0). apply Hmax. apply (i_q_in s I); [exact Hv|].
      rewrite (i_src s I s0 Hs0). discriminate.
    - destruct (vis s a) eqn:Ea.
      + assert (H1 : ele b (mf s a)) by (apply (i_opt s I); assumption).
        assert (H2 : ele (emin (Fin (f a x)) b) (mf s x)).
        { eapply ele_trans; [|apply (i_relax s I a x); assumption].
          apply emin_mono; [apply ele_refl|exact H1]. }
        assert (H3 : mf s x <> NInf).
        { intro C. rewrite C in H2. apply ele_NInf_inv in H2.
          revert H2. apply emin_not_NInf; [discriminate|].
          eapply reach_not_NInf; eassumption. }
        eapply ele_trans; [exact H2|]. apply Hmax. apply (i_q_in s I); assumption.
      + eapply ele_trans; [apply emin_le_r|]. apply IH. reflexivity. }
  intros b Hb. destruct (vis s u) eqn:E.
  - apply (i_opt s I); assumption.
  - eapply Hun; eassumption.
Qed.

Lemma improved_In : forall s visf u x,
  In x (improved n f s visf u) <->
  x < n /\ (0 < f u x)%Q /\ visf x = false /\ elt (mf s x) (cand f s u x).
Proof.
  intros s visf u x. unfold improved, neighbors. rewrite !filter_In, in_seq, andb_true_iff,
    negb_true_iff, Qltb_true. unfold elt. split.
  - intros [[[_ H1] H2] [H3 H4]]. simpl in H1. tauto.
  - intros [H1 [H2 [H3 H4]]]. simpl. repeat split; auto with arith.
Qed.

Lemma upd_true_iff : forall (g : nat -> bool) u x, upd g u true x = true <-> x = u \/ g x = true.
Proof.
  intros g u x. unfold upd. destruct (Nat.eqb x u) eqn:E.
  - apply Nat.eqb_eq in E. tauto.
  - apply Nat.eqb_neq in E. split; [tauto|]. intros [H|H]; [contradiction|exact H].
Qed.

Lemma upd_false_iff : forall (g : nat -> bool) u x, upd g u true x = false <-> x <> u /\ g x = false.
Proof.
  intros g u x. unfold upd. destruct (Nat.eqb x u) eqn:E.
  - apply Nat.eqb_eq in E. split; [discriminate|]. intros [H _]. contradiction.
  - apply Nat.eqb_neq in E. tauto.
Qed.

Section Step.
Variable s : st.
Hypothesis I : inv s.
Hypothesis Hq : queue s <> [].

Let i := argmax (map (mf s) (queue s)).
Let u := nth i (queue s) 0.
Let q' := remove_nth i (queue s).
Let vis' := upd (vis s) u true.
Let ind := improved n f s vis' u.

Lemma pop_in : In u (queue s) /\ forall x, In x (queue s) -> ele (mf s x) (mf s u).
Proof. apply (argmax_nodes (mf s) (queue s) Hq). Qed.

Lemma pop_reach_opt : forall b, reach n f srcs u b -> ele b (mf s u).
Proof. destruct pop_in as [H1 H2]. apply pop_opt; assumption. Qed.

Lemma chain_stable : forall (pr' : nat -> option nat) (mf' : nat -> ext) qq v p,
  (forall x, ~ In x ind -> pr' x = prev s x /\ mf' x = mf s x) ->
  chain s v p -> ~ In v ind -> chain (mkst qq vis' pr' mf') v p.
Proof.
  intros pr' mf' qq v p Hsame Hc Hv.
  apply (chain_frame s _ v p Hc).
  - intros x Hx. simpl. apply Hsame.
    destruct (chain_head _ _ _ Hc) as [t Et]. subst p. destruct Hx as [Hx|Hx].
    + subst. exact Hv.
    + intro C. apply improved_In in C. destruct C as [_ [_ [C _]]].
      assert (V : vis s x = true) by (apply (chain_tail_vis s v (v :: t) Hc); exact Hx).
      unfold vis' in C. apply upd_false_iff in C. destruct C as [_ C]. congruence.
  - intros x Hx. simpl. apply upd_true_iff. right. exact Hx.
Qed.

Lemma u_not_ind : ~ In u ind.
Proof.
  intro C. apply improved_In in C. destruct C as [_ [_ [C _]]].
  unfold vis' in C. apply upd_false_iff in C. destruct C as [C _]. congruence.
Qed.

Lemma vis_not_ind : forall x, vis s x = true -> ~ In x ind.
Proof.
  intros x Hx C. apply improved_In in C. destruct C as [_ [_ [C _]]].
  unfold vis' in C. apply upd_false_iff in C. destruct C as [_ C]. congruence.
Qed.

Lemma step_stop_post :
  (forall t, In t sinks -> vis' t = true) -> post (mkst q' vis' (prev s) (mf s)).
Proof.
  intro Hall. constructor; simpl.
  - intros v Hv. destruct (i_chain s I v Hv) as [p Hp]. exists p.
    apply (chain_frame s _ v p Hp); simpl; auto.
    intros x Hx. apply upd_true_iff. right. exact Hx.
  - intros v b Hv Hr. apply upd_true_iff in Hv. destruct Hv as [Hv|Hv].
    + subst v. apply pop_reach_opt. exact Hr.
    + apply (i_opt s I); assumption.
  - intros t b Ht _. apply Hall. exact Ht.
  - apply (i_prev s I).
Qed.

Lemma step_continue_inv :
  inv (mkst (q' ++ ind) vis'
            (fun x => if memb x ind then Some u else prev s x)
            (fun x => if memb x ind then cand f s u x else mf s x)).
Proof.
  destruct pop_in as [Hu Hmax].
  assert (Hsame : forall x, ~ In x ind ->
            (if memb x ind then Some u else prev s x) = prev s x /\
            (if memb x ind then cand f s u x else mf s x) = mf s x).
  { intros x Hx. apply memb_false in Hx. rewrite Hx. split; reflexivity. }
  assert (Hmono : forall x, ele (mf s x) (if memb x ind then cand f s u x else mf s x)).
  { intro x. destruct (memb x ind) eqn:E; [|apply ele_refl].
    apply memb_In in E. apply improved_In in E. apply elt_le. tauto. }
  assert (Hu_mf : mf s u <> NInf) by (apply (i_q_mf s I); exact Hu).
  constructor; simpl.
  - (* sources keep +inf *)
    intros v Hv. pose proof (i_src s I v Hv) as E. destruct (memb v ind) eqn:M; [|exact E].
    apply memb_In in M. apply improved_In in M. destruct M as [_ [_ [_ M]]].
    rewrite E in M. unfold elt in M. destruct (cand f s u v); simpl in M; discriminate.
  - (* chains *)
    intros v Hv. destruct (memb v ind) eqn:M.
    + apply memb_In in M. pose proof M as M'. apply improved_In in M'.
      destruct M' as [Hlt [Hpos [Hvis Hel]]].
      destruct (i_chain s I u Hu_mf) as [pu Hpu]. exists (v :: pu).
      apply ch_step with (u := u); simpl.
      * apply memb_In in M. rewrite M. reflexivity.
      * apply chain_stable; [exact Hsame|exact Hpu|exact u_not_ind].
      * apply upd_true_iff. left. reflexivity.
      * intro C. destruct (chain_head _ _ _ Hpu) as [t Et]. subst pu.
        unfold vis' in Hvis. apply upd_false_iff in Hvis. destruct Hvis as [Hne Hvs].
        destruct C as [C|C]; [congruence|].
        assert (V : vis s v = true) by (apply (chain_tail_vis s u (u :: t) Hpu); exact C).
        congruence.
      * exact Hlt.
      * exact Hpos.
      * apply memb_In in M. rewrite M.
        pose proof u_not_ind as Hn. apply memb_false in Hn. rewrite Hn. reflexivity.
    + destruct (i_chain s I v Hv) as [p Hp]. exists p.
      apply chain_stable; [exact Hsame|exact Hp|]. apply memb_false. exact M.
  - (* visited => labelled *)
    intros v Hv. apply upd_true_iff in Hv.
    assert (Hn : ~ In v ind).
    { destruct Hv as [Hv|Hv]; [subst; exact u_not_ind|apply vis_not_ind; exact Hv]. }
    apply memb_false in Hn. rewrite Hn.
    destruct Hv as [Hv|Hv]; [subst; exact Hu_mf|apply (i_vis_mf s I); exact Hv].
  - (* queued => labelled *)
    intros x Hx. apply in_app_or in Hx. destruct Hx as [Hx|Hx].
    + apply remove_nth_incl in Hx. pose proof (i_q_mf s I x Hx) as Hm.
      intro C. specialize (Hmono x). rewrite C in Hmono. apply ele_NInf_inv in Hmono. congruence.
    + apply memb_In in Hx. rewrite Hx. rewrite cand_emin. apply emin_not_NInf; [discriminate|exact Hu_mf].
  - (* labelled and unvisited => queued *)
    intros x Hv Hm. apply in_or_app. destruct (memb x ind) eqn:M.
    + right. apply memb_In. exact M.
    + left. apply upd_false_iff in Hv. destruct Hv as [Hne Hvs].
      apply remove_nth_keeps with (d := 0); [|exact Hne]. apply (i_q_in s I); assumption.
  - (* relaxed edges *)
    intros a x Ha Hx Hlt Hpos. apply upd_true_iff in Ha.
    assert (Han : ~ In a ind).
    { destruct Ha as [Ha|Ha]; [subst; exact u_not_ind|apply vis_not_ind; exact Ha]. }
    apply memb_false in Han. rewrite Han.
    destruct Ha as [Ha|Ha].
    + subst a. destruct (memb x ind) eqn:M.
      * rewrite cand_emin. apply ele_refl.
      * apply memb_false in M. rewrite <- cand_emin.
        destruct (eltb (mf s x) (cand f s u x)) eqn:E; [|exact E].
        exfalso. apply M. apply improved_In. repeat split; assumption.
    + eapply ele_trans; [|apply Hmono]. apply upd_false_iff in Hx. destruct Hx as [_ Hx].
      apply (i_relax s I); assumption.
  - (* optimality of visited labels *)
    intros v b Hv Hr. apply upd_true_iff in Hv.
    assert (Hn : ~ In v ind).
    { destruct Hv as [Hv|Hv]; [subst; exact u_not_ind|apply vis_not_ind; exact Hv]. }
    apply memb_false in Hn. rewrite Hn.
    destruct Hv as [Hv|Hv]; [subst; apply pop_reach_opt; exact Hr|apply (i_opt s I); assumption].
  - (* unlabelled => no predecessor *)
    intros v. destruct (memb v ind) eqn:M.
    + intro C. exfalso. revert C. rewrite cand_emin. apply emin_not_NInf; [discriminate|exact Hu_mf].
    + apply (i_prev s I).
  - (* queued states are states *)
    intros x Hx. apply in_app_or in Hx. destruct Hx as [Hx|Hx].
    + apply (i_q_lt s I). eapply remove_nth_incl. exact Hx.
    + apply improved_In in Hx. tauto.
Qed.

End Step.

Lemma inv_empty_post : forall s, inv s -> queue s = [] -> post s.
Proof.
  intros s I Hq. constructor.
  - apply (i_chain s I).
  - apply (i_opt s I).
  - intros t b _ Hr.
    assert (Hall : forall x b, reach n f srcs x b -> vis s x = true).
    { clear t b Hr. intros x b H. induction H as [s0 Hs0 Hlt|a x b Hr IH Hx Hpos].
      - destruct (vis s s0) eqn:E; [reflexivity|]. exfalso.
        assert (Hin : In s0 (queue s)).
        { apply (i_q_in s I); [exact E|]. rewrite (i_src s I s0 Hs0). discriminate. }
        rewrite Hq in Hin. contradiction.
      - destruct (vis s x) eqn:E; [reflexivity|]. exfalso.
        pose proof (i_relax s I a x IH E Hx Hpos) as H1.
        assert (H2 : mf s x = NInf).
        { destruct (mf s x) eqn:Em; try reflexivity; exfalso;
            assert (Hin : In x (queue s)) by (apply (i_q_in s I); [exact E|rewrite Em; discriminate]);
            rewrite Hq in Hin; contradiction. }
        rewrite H2 in H1. apply ele_NInf_inv in H1. revert H1.
        apply emin_not_NInf; [discriminate|]. apply (i_vis_mf s I). exact IH. }
    eapply Hall. exact Hr.
  - apply (i_prev s I).
Qed.

Lemma search_post : forall fuel s s', inv s -> search fuel n f sinks s = Some s' -> post s'.
Proof.
  induction fuel as [|k IH]; intros s s' I H.
  - simpl in H. destruct (queue s) eqn:Eq; [|discriminate].
    inversion H; subst. apply inv_empty_post; assumption.
  - cbn [search] in H. destruct (queue s) eqn:Eq.
    + inversion H; subst. apply inv_empty_post; assumption.
    + assert (Hq : queue s <> []) by (rewrite Eq; discriminate).
      unfold step in H.
      destruct (forallb (upd (vis s) (nth (argmax (map (mf s) (queue s))) (queue s) 0) true) sinks) eqn:Ef.
      * inversion H; subst. apply step_stop_post; [exact I|exact Hq|].
        intros t Ht. rewrite forallb_forall in Ef. apply Ef. exact Ht.
      * apply IH in H; [exact H|]. apply step_continue_inv; assumption.
Qed.

End Search.
