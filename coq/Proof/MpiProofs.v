(* C14: reassembly, striped mean, and the k-centers loop refinement (uses MpiBase, MpiIndex, MpiKc). *)
From Coq Require Import List ZArith QArith Bool Arith Lia Permutation.
From EV Require Import Cluster Mpi MpiBase MpiIndex MpiKc.
Import ListNotations.
Local Open Scope nat_scope.

(* ------------------------------------------------------------------ put_every / every *)
Lemma put_every_length : forall {A} P (l news : list A) k, length (put_every P k news l) = length l.
Proof.
  intros A P l; induction l as [|x t IH]; intros news k; [reflexivity|].
  destruct k; [destruct news|]; cbn [put_every length]; rewrite IH; reflexivity.
Qed.

(* writing stripe k does not touch stripe k' *)
Lemma every_put_other : forall {A} P (l news : list A) k k', k < P -> k' < P -> k <> k' ->
  every P k' (put_every P k news l) = every P k' l.
Proof.
  intros A P l; induction l as [|x t IH]; intros news k k' Hk Hk' Hne; [reflexivity|].
  destruct k as [|k1].
  - destruct k' as [|k2]; [lia|].
    destruct news as [|y ns]; cbn [put_every every]; apply IH; lia.
  - cbn [put_every]. destruct k' as [|k2]; cbn [every].
    + f_equal. apply IH; lia.
    + apply IH; lia.
Qed.

(* writing the target's stripe k makes stripe k equal to the target's *)
Lemma every_put_same : forall {A} P (l target : list A) k, length l = length target ->
  every P k (put_every P k (every P k target) l) = every P k target.
Proof.
  intros A P l; induction l as [|x t IH]; intros target k Hl.
  - destruct target; [reflexivity|discriminate].
  - destruct target as [|y u]; [discriminate|]. injection Hl as Hl.
    destruct k as [|k1]; cbn [every put_every].
    + f_equal. apply IH. assumption.
    + apply IH. assumption.
Qed.

Lemma nth_error_ext_eq : forall {A} (a b : list A), (forall i, nth_error a i = nth_error b i) -> a = b.
Proof.
  intros A a; induction a as [|x a IH]; intros b H.
  - destruct b as [|y b]; [reflexivity|]. specialize (H 0). discriminate.
  - destruct b as [|y b]; [specialize (H 0); discriminate|].
    pose proof (H 0) as H0. cbn in H0. injection H0 as ->. f_equal. apply IH. intros i. exact (H (S i)).
Qed.

Lemma every_ext : forall {A} P (a b : list A), 1 <= P -> (forall k, k < P -> every P k a = every P k b) -> a = b.
Proof.
  intros A P a b HP H. apply nth_error_ext_eq. intros i.
  rewrite <- (stripe_pos P i HP).
  rewrite <- !every_nth by assumption. rewrite H; [reflexivity|].
  apply Nat.mod_upper_bound. lia.
Qed.

Lemma split_by_concat_rows : forall {A} (rs : list (list A)), split_by (map (@length A) rs) (concat rs) = rs.
Proof.
  intros A rs; induction rs as [|x r IH]; [reflexivity|].
  cbn [map concat split_by].
  rewrite firstn_app, Nat.sub_diag, firstn_all, firstn_O, app_nil_r.
  rewrite skipn_app, Nat.sub_diag, skipn_all, skipn_O. cbn [app]. rewrite IH. reflexivity.
Qed.

Lemma scatter_nth : forall {A} P lens (g : list A) r, r < P -> nth r (scatter P lens g) [] = local_of P r lens g.
Proof.
  intros A P lens g r Hr. unfold scatter.
  rewrite (nth_indep _ [] (local_of P P lens g)) by (rewrite map_length, seq_length; lia).
  rewrite (map_nth (fun r => local_of P r lens g) (seq 0 P) P r).
  rewrite seq_nth by lia. reflexivity.
Qed.

Lemma local_of_length : forall {A} P r lens (g : list A), length g = sum_nat lens ->
  length (local_of P r lens g) = sum_nat (every P r lens).
Proof.
  intros A P r lens g Hg. unfold local_of. rewrite length_concat_sum, lens_every by assumption. reflexivity.
Qed.

(* ------------------------------------------------------------------ assemble_split *)
Section AssembleSplit.
  Context {A : Type}.
  Variable fill : A.
  Variables (P : nat) (lens : list nat) (g : list A).
  Hypothesis HP : 1 <= P.
  Hypothesis HPn : P <= length lens.      (* every rank owns at least one trajectory *)
  Hypothesis Hg : length g = sum_nat lens.

  Let rows := split_by lens g.
  Let locals := scatter P lens g.

  Lemma assemble_step_ok : forall acc r, r < P -> length acc = length rows ->
    assemble_step P lens locals (Some acc) r = Some (put_every P r (every P r rows) acc).
  Proof.
    intros acc r Hr Hacc. unfold assemble_step.
    destruct (every P r lens) as [|L0 ll0] eqn:Ell.
    - apply every_nil_iff in Ell. lia.
    - rewrite <- Ell. unfold locals. rewrite scatter_nth by assumption.
      rewrite local_of_length by assumption. rewrite Nat.eqb_refl.
      unfold local_of. fold rows.
      rewrite <- (lens_every P r lens g Hg). fold rows.
      rewrite split_by_concat_rows. reflexivity.
  Qed.

  Lemma assemble_fold : forall r, r <= P ->
    exists acc, fold_left (assemble_step P lens locals) (seq 0 r) (Some (split_by lens (repeat fill (sum_nat lens)))) = Some acc /\
                length acc = length rows /\ forall k, k < r -> every P k acc = every P k rows.
  Proof.
    induction r as [|r IH]; intros Hr.
    - eexists. split; [reflexivity|]. split; [unfold rows; rewrite !split_by_length; reflexivity|]. intros k Hk. lia.
    - destruct IH as [acc [Hf [Hl Hk]]]; [lia|].
      rewrite seq_S, fold_left_app, Hf. cbn [plus fold_left].
      rewrite assemble_step_ok by (assumption || lia).
      eexists. split; [reflexivity|]. split; [rewrite put_every_length; assumption|].
      intros k Hk'. destruct (Nat.eq_dec k r) as [->|Hne].
      + apply every_put_same. assumption.
      + rewrite every_put_other by lia. apply Hk. lia.
  Qed.

  (* reassembling the local pieces of a global array gives back the global array *)
  Theorem assemble_split : assemble fill P lens (scatter P lens g) = Some g.
  Proof.
    unfold assemble, assemble_rows. rewrite scatter_length, Nat.eqb_refl. cbn [negb].
    destruct (assemble_fold P (le_n P)) as [acc [Hf [Hl Hk]]].
    fold locals. rewrite Hf. cbn [option_map]. f_equal.
    rewrite (every_ext P acc rows HP Hk). unfold rows. apply split_by_concat_full. assumption.
  Qed.
End AssembleSplit.

(* ------------------------------------------------------------------ striped mean *)
Lemma sumq_cons : forall x l, sumq (x :: l) = (x + sumq l)%Q.
Proof. reflexivity. Qed.

Lemma sumq_app : forall a b, (sumq (a ++ b) == sumq a + sumq b)%Q.
Proof.
  induction a as [|x a IH]; intros b.
  - change (sumq b == 0 + sumq b)%Q. ring.
  - cbn [app]. rewrite !sumq_cons, IH. ring.
Qed.

Lemma sumq_concat : forall ll, (sumq (map sumq ll) == sumq (concat ll))%Q.
Proof.
  induction ll as [|x r IH]; cbn [map concat]; [reflexivity|].
  rewrite sumq_app, sumq_cons, IH. reflexivity.
Qed.

Lemma sumq_perm : forall l l', Permutation l l' -> (sumq l == sumq l')%Q.
Proof.
  intros l l' H; induction H.
  - reflexivity.
  - rewrite !sumq_cons, IHPermutation. reflexivity.
  - rewrite !sumq_cons. ring.
  - etransitivity; eassumption.
Qed.

(* sum of the local sums over sum of the local lengths is the mean of the whole array, exactly *)
Theorem striped_mean_exact_gen : forall locals g, Permutation (concat locals) g ->
  (striped_mean locals == mean g)%Q.
Proof.
  intros locals g Hp. unfold striped_mean, mean.
  rewrite <- length_concat_sum. rewrite (Permutation_length Hp).
  rewrite sumq_concat, (sumq_perm _ _ Hp). reflexivity.
Qed.

Theorem striped_mean_exact : forall P lens g, 1 <= P -> length g = sum_nat lens ->
  (striped_mean (scatter P lens g) == mean g)%Q.
Proof. intros. apply striped_mean_exact_gen. apply scatter_perm; assumption. Qed.

(* ------------------------------------------------------------------ the k-centers loop *)
Section Loop.
  Variable D : nat -> nat -> Q.
  Variables (P : nat) (lens : list nat).
  Hypothesis HP : 1 <= P.

  (* tie-free data: whenever the serial run executes an iteration, its farthest frame is unique *)
  Fixpoint tie_free_run (fuel : nat) (nclu : option nat) (cutoff : Q) (ti : bool) (s : st) : Prop :=
    match fuel with
    | O => True
    | S f => if kc_guard nclu cutoff s
             then (exists m, umax m (snd s)) /\ tie_free_run f nclu cutoff ti (kc_iter D ti s)
             else True
    end.

  Definition ctrs_ok (cp : list (nat * nat)) (cids : list nat) : Prop :=
    map (convert_local P lens) cp = map Some cids.
  Definition fids_ok (g : list fr) : Prop := map fid g = seq 0 (sum_nat lens).

  Lemma fids_ok_length : forall g, fids_ok g -> length g = sum_nat lens.
  Proof. intros g H. unfold fids_ok in H. rewrite <- (map_length fid), H, seq_length. reflexivity. Qed.

  Lemma kc_update_fid : forall c k x, fid (kc_update D c k x) = fid x.
  Proof. intros. unfold kc_update. destruct (Qlt_b _ _); reflexivity. Qed.
  Lemma kc_update_ti_fid : forall cs c k x, fid (kc_update_ti D cs c k x) = fid x.
  Proof. intros. unfold kc_update_ti. destruct (Qlt_b _ _); [apply kc_update_fid|reflexivity]. Qed.

  Lemma ctrs_ok_length : forall cp cids, ctrs_ok cp cids -> length cp = length cids.
  Proof. intros cp cids H. unfold ctrs_ok in H. rewrite <- (map_length (convert_local P lens)), H, map_length. reflexivity. Qed.

  Theorem kc_loop_mpi_refines : forall fuel nclu cutoff ti s cp,
    fids_ok (snd s) -> nonempty_locals P lens (snd s) -> ctrs_ok cp (fst s) ->
    tie_free_run fuel nclu cutoff ti s ->
    exists cp',
      kc_loop_mpi D fuel nclu cutoff ti (mkds cp (fst s) (scatter P lens (snd s))) =
        Some (mkds cp' (fst (kc_loop D fuel nclu cutoff ti s)) (scatter P lens (snd (kc_loop D fuel nclu cutoff ti s)))) /\
      ctrs_ok cp' (fst (kc_loop D fuel nclu cutoff ti s)).
  Proof.
    induction fuel as [|fuel IH]; intros nclu cutoff ti s cp Hfid Hne Hc Htf.
    - exists cp. split; [reflexivity|assumption].
    - cbn [kc_loop_mpi kc_loop]. destruct s as [cids g]. cbn [fst snd] in *.
      pose proof (fids_ok_length g Hfid) as Hg.
      pose proof (ctrs_ok_length cp cids Hc) as Hlen.
      destruct (striped_max_scatter P lens g HP Hg Hne) as [v [Ev Hv]].
      assert (Hguard : kc_guard_mpi nclu cutoff (mkds cp cids (scatter P lens g)) = Some (kc_guard nclu cutoff (cids, g))).
      { unfold kc_guard_mpi, dists_of, kc_guard. cbn [dloc dctr fst snd]. rewrite Ev, Hlen.
        rewrite (Qlt_b_compat_r cutoff v (maxdist g) Hv). reflexivity. }
      rewrite Hguard. cbn [tie_free_run] in Htf.
      destruct (kc_guard nclu cutoff (cids, g)) eqn:Eg.
      + destruct Htf as [[m Hu] Htf].
        destruct (kc_iter_mpi_refines D P lens HP ti cp cids g m Hg Hne Hlen Hu) as [owner [index [Ho [Hnth Hit]]]].
        rewrite Hit.
        assert (Hs' : kc_iter D ti (cids, g) = (cids ++ [fid m], map (if ti then kc_update_ti D cids (fid m) (length cids) else kc_update D (fid m) (length cids)) g)).
        { unfold kc_iter. cbn [fst snd]. rewrite (argmax_umax m g Hu). reflexivity. }
        apply IH.
        * rewrite Hs'. cbn [snd]. unfold fids_ok. rewrite map_map. rewrite <- Hfid. apply map_ext.
          intros x. destruct ti; [apply kc_update_ti_fid|apply kc_update_fid].
        * rewrite Hs'. cbn [snd]. apply nonempty_locals_map. assumption.
        * rewrite Hs'. cbn [fst]. unfold ctrs_ok in *. rewrite !map_app, Hc. cbn [map]. f_equal. f_equal.
          unfold convert_local, local_ids. cbn [fst snd]. rewrite <- Hfid, local_of_map.
          apply map_nth_error. assumption.
        * assumption.
      + exists cp. split; [reflexivity|assumption].
  Qed.

  (* cold start, full run: centres (as global indices), labels, distances and stopping point agree *)
  Theorem kc_mpi_refines_serial : forall nclu cutoff ti L rest,
    lens = L :: rest -> 1 <= L ->
    nonempty_locals P lens (seq 0 (sum_nat lens)) ->
    tie_free_run (S (sum_nat lens)) nclu cutoff ti (kc_first D (sum_nat lens)) ->
    exists ds, kcenters_mpi D P lens nclu cutoff ti = Some ds /\
      let s' := kcenters_cold D nclu cutoff ti (sum_nat lens) in
      dcid ds = fst s' /\ dloc ds = scatter P lens (snd s') /\
      map (convert_local P lens) (dctr ds) = map Some (fst s').
  Proof.
    intros nclu cutoff ti L rest HL HL1 Hne Htf.
    set (n := sum_nat lens) in *.
    assert (H00 : nth_error (local_of P 0 lens (seq 0 n)) 0 = Some 0).
    { unfold local_of. subst n. rewrite HL. cbn [split_by every concat sum_nat fold_right].
      destruct L as [|L']; [lia|]. cbn [plus seq firstn app nth_error]. reflexivity. }
    unfold kcenters_mpi, kc_first_mpi. fold n. rewrite scatter_nth by lia. rewrite H00.
    assert (Hsc : map (map (fun f => mkfr f 0 (D 0 f))) (scatter P lens (seq 0 n)) = scatter P lens (snd (kc_first D n))).
    { unfold kc_first. cbn [snd]. rewrite scatter_map. reflexivity. }
    rewrite Hsc.
    assert (Hfid : fids_ok (snd (kc_first D n))).
    { unfold fids_ok, kc_first. cbn [snd]. rewrite map_map. cbn [fid]. apply map_id. }
    assert (Hne' : nonempty_locals P lens (snd (kc_first D n))).
    { unfold kc_first. cbn [snd]. apply nonempty_locals_map. assumption. }
    assert (Hc : ctrs_ok [(0, 0)] (fst (kc_first D n))).
    { unfold ctrs_ok, kc_first, convert_local, local_ids. cbn [map fst snd]. fold n. rewrite H00. reflexivity. }
    destruct (kc_loop_mpi_refines (S n) nclu cutoff ti (kc_first D n) [(0, 0)] Hfid Hne' Hc Htf) as [cp' [Hrun Hc']].
    change [0] with (fst (kc_first D n)). rewrite Hrun.
    eexists. split; [reflexivity|]. cbn [dcid dloc dctr]. unfold kcenters_cold. repeat split. exact Hc'.
  Qed.
End Loop.

(* ------------------------------------------------------------------ observable result after reassembly *)
Lemma kc_iter_length : forall D ti s, length (snd (kc_iter D ti s)) = length (snd s).
Proof.
  intros D ti s. unfold kc_iter. destruct (argmax (snd s)); [|reflexivity]. cbn [snd]. apply map_length.
Qed.

Lemma kc_loop_length : forall D fuel nclu cutoff ti s, length (snd (kc_loop D fuel nclu cutoff ti s)) = length (snd s).
Proof.
  intros D fuel; induction fuel as [|fuel IH]; intros nclu cutoff ti s; [reflexivity|].
  cbn [kc_loop]. destruct (kc_guard nclu cutoff s); [|reflexivity]. rewrite IH. apply kc_iter_length.
Qed.

(* what the users see: convert_local_indices on the centre pairs, assemble_striped_ragged_array on the
   per-rank labels and distances -- equal to the serial centres, labels, distances *)
Theorem kc_mpi_assembled_equals_serial : forall D P lens nclu cutoff ti L rest,
  1 <= P -> P <= length lens -> lens = L :: rest -> 1 <= L ->
  nonempty_locals P lens (seq 0 (sum_nat lens)) ->
  tie_free_run D (S (sum_nat lens)) nclu cutoff ti (kc_first D (sum_nat lens)) ->
  exists ds, kcenters_mpi D P lens nclu cutoff ti = Some ds /\
    let s' := kcenters_cold D nclu cutoff ti (sum_nat lens) in
    map (convert_local P lens) (dctr ds) = map Some (fst s') /\
    assemble 0 P lens (map (map lab) (dloc ds)) = Some (labels s') /\
    assemble 0%Q P lens (map (map dist) (dloc ds)) = Some (dists s').
Proof.
  intros D P lens nclu cutoff ti L rest HP HPn HL HL1 Hne Htf.
  destruct (kc_mpi_refines_serial D P lens HP nclu cutoff ti L rest HL HL1 Hne Htf) as [ds [Hrun [Hcid [Hloc Hctr]]]].
  exists ds. split; [assumption|]. cbn zeta. split; [assumption|].
  assert (Hlen : length (snd (kcenters_cold D nclu cutoff ti (sum_nat lens))) = sum_nat lens).
  { unfold kcenters_cold. rewrite kc_loop_length. unfold kc_first. cbn [snd]. rewrite map_length, seq_length. reflexivity. }
  rewrite Hloc, <- !scatter_map. unfold labels, dists.
  split; apply assemble_split; try assumption; rewrite map_length; assumption.
Qed.
