(* C14 round 2: MPI warm start of k-centers (init_centers = distinct frames of the data, mpi_mode=True).
   The centre pairs that the ranks agree on (_find_cluster_centers_mpi) name exactly the supplied frames,
   and the run refines the serial warm start on tie-free data. *)
From Coq Require Import List ZArith QArith Bool Arith Lia Lqa Permutation.
From EV Require Import Cluster ClusterBase ClusterInv ClusterTop Mpi MpiBase MpiIndex MpiKc MpiProofs MpiInv.
Import ListNotations.
Local Open Scope nat_scope.

(* ------------------------------------------------------------------ the two "first strict minimum" scans *)
Definition posbest {B} (best : option (Q * B)) : Prop :=
  match best with None => True | Some (d, _) => (0 < d)%Q end.

Section Scan.
  Variable j : nat.
  (* frames that do not compete for the centre of label j: another label, or a positive distance *)
  Definition off (y : fr) : Prop := lab y = j -> (0 < dist y)%Q.

  Lemma argmin_off : forall l i best, Forall off l -> posbest best -> posbest (argmin_label_idx j i best l).
  Proof.
    induction l as [|y l IH]; intros i best Hl Hb; cbn [argmin_label_idx]; [exact Hb|].
    inversion Hl as [|? ? Hy Hl']; subst.
    destruct (Nat.eqb_spec (lab y) j) as [E|E]; [|apply IH; assumption].
    destruct best as [[bd bi]|].
    - destruct (Qlt_b (dist y) bd); apply IH; try assumption. cbn. apply Hy, E.
    - apply IH; [assumption|]. cbn. apply Hy, E.
  Qed.

  Lemma argmin_keep : forall l i d k, (d == 0)%Q -> Forall off l ->
    argmin_label_idx j i (Some (d, k)) l = Some (d, k).
  Proof.
    induction l as [|y l IH]; intros i d k Hd Hl; cbn [argmin_label_idx]; [reflexivity|].
    inversion Hl as [|? ? Hy Hl']; subst.
    destruct (Nat.eqb_spec (lab y) j) as [E|E]; [|apply IH; assumption].
    assert (Hlt : Qlt_b (dist y) d = false) by (apply Qlt_b_false; specialize (Hy E); lra).
    rewrite Hlt. apply IH; assumption.
  Qed.

  Lemma argmin_hit : forall a x b i best, Forall off a -> Forall off b -> posbest best ->
    lab x = j -> (dist x == 0)%Q ->
    argmin_label_idx j i best (a ++ x :: b) = Some (dist x, i + length a).
  Proof.
    induction a as [|y a IH]; intros x b i best Ha Hb Hbest Hx H0.
    - cbn [app argmin_label_idx length]. rewrite Nat.add_0_r. rewrite (proj2 (Nat.eqb_eq _ _) Hx).
      destruct best as [[bd bi]|].
      + cbn in Hbest. assert (Hlt : Qlt_b (dist x) bd = true) by (apply Qlt_b_true; lra).
        rewrite Hlt. apply argmin_keep; assumption.
      + apply argmin_keep; assumption.
    - inversion Ha as [|? ? Hy Ha']; subst. cbn [app argmin_label_idx length].
      replace (i + S (length a)) with (S i + length a) by lia.
      destruct (Nat.eqb_spec (lab y) j) as [E|E]; [|apply IH; assumption].
      destruct best as [[bd bi]|].
      + destruct (Qlt_b (dist y) bd); apply IH; try assumption. cbn. apply Hy, E.
      + apply IH; try assumption. cbn. apply Hy, E.
  Qed.
End Scan.

Lemma fmr_keep : forall l r d p, (d == 0)%Q -> Forall posbest l -> first_min_rank r (Some (d, p)) l = Some p.
Proof.
  induction l as [|e l IH]; intros r d p Hd Hl; cbn [first_min_rank]; [reflexivity|].
  inversion Hl as [|? ? He Hl']; subst. destruct e as [[d' i']|]; [|apply IH; assumption].
  cbn in He. assert (Hlt : Qlt_b d' d = false) by (apply Qlt_b_false; lra).
  rewrite Hlt. apply IH; assumption.
Qed.

Lemma fmr_hit : forall a d i b r best, Forall posbest a -> Forall posbest b -> posbest best -> (d == 0)%Q ->
  first_min_rank r best (a ++ Some (d, i) :: b) = Some (r + length a, i).
Proof.
  induction a as [|e a IH]; intros d i b r best Ha Hb Hbest Hd.
  - cbn [app first_min_rank length]. rewrite Nat.add_0_r. destruct best as [[bd bp]|].
    + cbn in Hbest. assert (Hlt : Qlt_b d bd = true) by (apply Qlt_b_true; lra).
      rewrite Hlt. apply fmr_keep; assumption.
    + apply fmr_keep; assumption.
  - inversion Ha as [|? ? He Ha']; subst. cbn [app first_min_rank length].
    replace (r + S (length a)) with (S r + length a) by lia.
    destruct e as [[d' i']|]; [|apply IH; assumption].
    destruct best as [[bd bp]|].
    + destruct (Qlt_b d' bd); apply IH; assumption.
    + apply IH; assumption.
Qed.

(* ------------------------------------------------------------------ small list facts *)
Lemma split_perm : forall {A} (Q : A -> Prop) x l l', Permutation l l' ->
  (exists l1 l2, l = l1 ++ x :: l2 /\ Forall Q (l1 ++ l2)) ->
  exists a b, l' = a ++ x :: b /\ Forall Q (a ++ b).
Proof.
  intros A Q x l l' Hp [l1 [l2 [-> H]]].
  assert (Hin : In x l') by (eapply Permutation_in; [exact Hp|apply in_or_app; right; left; reflexivity]).
  apply in_split in Hin. destruct Hin as [a [b ->]]. exists a, b. split; [reflexivity|].
  apply Permutation_app_inv in Hp. eapply Permutation_Forall; eassumption.
Qed.

Lemma flat_map_single : forall {A B} (f : A -> option B) (h : A -> B) l,
  (forall a, In a l -> f a = Some (h a)) ->
  flat_map (fun a => match f a with Some p => [p] | None => [] end) l = map h l.
Proof.
  intros A B f h l; induction l as [|a l IH]; intros H; [reflexivity|]. cbn [flat_map map].
  rewrite (H a (or_introl eq_refl)). cbn [app]. f_equal. apply IH. intros b Hb. apply H. right. exact Hb.
Qed.

Lemma map_nth_seq : forall (cs : list nat), map (fun j => nth j cs 0) (seq 0 (length cs)) = cs.
Proof.
  intros cs. apply (nth_ext _ _ 0 0).
  - rewrite map_length, seq_length. reflexivity.
  - intros i Hi. rewrite map_length, seq_length in Hi.
    rewrite (nth_indep _ _ ((fun j => nth j cs 0) 0)) by (rewrite map_length, seq_length; exact Hi).
    rewrite (map_nth (fun j => nth j cs 0)), seq_nth by exact Hi. reflexivity.
Qed.

(* ------------------------------------------------------------------ the agreed centre pairs name the centres *)
Section Warm.
  Variable D : nat -> nat -> Q.
  Hypothesis D_self : forall f, (D f f == 0)%Q.
  Hypothesis D_pos : forall c f, c <> f -> (0 < D c f)%Q.
  Variables (P : nat) (lens : list nat).
  Hypothesis HP : 1 <= P.

  (* the frame of centre j sits at one place of one rank; no other frame anywhere competes with it *)
  Lemma center_split : forall cs g j, Inv D (sum_nat lens) (cs, g) -> j < length cs ->
    exists x L1 a b L2, scatter P lens g = L1 ++ (a ++ x :: b) :: L2 /\
      fid x = ctr cs j /\ lab x = j /\ (dist x == 0)%Q /\
      Forall (off j) (concat L1 ++ a) /\ Forall (off j) (b ++ concat L2).
  Proof.
    intros cs g j HI Hj. pose proof HI as [ND [Hlt [Hne [Hfid [Hfr Hce]]]]]. cbn [fst snd] in *.
    assert (Hg : length g = sum_nat lens) by (rewrite <- (map_length fid), Hfid, seq_length; reflexivity).
    assert (Hcj : In (ctr cs j) (map fid g)).
    { rewrite Hfid. apply in_seq. split; [lia|]. cbn. apply Hlt. apply ctr_in. exact Hj. }
    apply in_map_iff in Hcj. destruct Hcj as [x [Ex Hx]].
    rewrite Forall_forall in Hce, Hfr. destruct (Hce x Hx j Hj (eq_sym Ex)) as [Hl H0].
    apply in_split in Hx. destruct Hx as [l1 [l2 Eg]].
    assert (Hoff : Forall (off j) (l1 ++ l2)).
    { rewrite Forall_forall. intros y Hy Ely.
      assert (Hyg : In y g) by (rewrite Eg; apply in_app_or in Hy; apply in_or_app; destruct Hy; [left|right; right]; assumption).
      destruct (Hfr y Hyg) as [_ [Hd _]]. cbn [fst] in Hd. rewrite Hd, Ely. apply D_pos.
      rewrite <- Ex. intros E.
      assert (HND : NoDup (map fid g)) by (rewrite Hfid; apply seq_NoDup).
      rewrite Eg, map_app in HND. cbn [map] in HND. apply NoDup_remove_2 in HND. apply HND.
      rewrite <- map_app, E. apply in_map. exact Hy. }
    destruct (split_perm (off j) x g (concat (scatter P lens g))) as [c1 [c2 [Hc HF]]].
    - apply Permutation_sym. apply scatter_perm; assumption.
    - exists l1, l2. split; assumption.
    - destruct (umax_concat x _ _ _ Hc) as [L1 [a [b [L2 [E1 [E2 E3]]]]]].
      exists x, L1, a, b, L2. subst c1 c2. rewrite <- app_assoc in HF.
      apply Forall_app in HF. destruct HF as [F1 F2]. apply Forall_app in F2. destruct F2 as [F2 F3].
      split; [exact E1|]. split; [exact Ex|]. split; [exact Hl|]. split; [exact H0|].
      split; [apply Forall_app; split; assumption|exact F3].
  Qed.

  Lemma warm_pair_center : forall cs g j, Inv D (sum_nat lens) (cs, g) -> j < length cs ->
    exists p, warm_pair (scatter P lens g) j = Some p /\ convert_local P lens p = Some (ctr cs j).
  Proof.
    intros cs g j HI Hj.
    destruct (center_split cs g j HI Hj) as [x [L1 [a [b [L2 [Hs [Ex [Hl [H0 [HF1 HF2]]]]]]]]]].
    pose proof HI as [_ [_ [_ [Hfid _]]]]. cbn [snd] in Hfid.
    apply Forall_app in HF1. destruct HF1 as [HL1 Ha]. apply Forall_app in HF2. destruct HF2 as [Hb HL2].
    apply Forall_concat_elim in HL1. apply Forall_concat_elim in HL2.
    assert (Hent : forall L, Forall (Forall (off j)) L -> Forall posbest (map (argmin_label_idx j 0 None) L)).
    { intros L HL. apply Forall_map. eapply Forall_impl; [|exact HL]. intros loc Hloc.
      apply argmin_off; [exact Hloc|exact I]. }
    exists (length L1, length a). split.
    - unfold warm_pair. rewrite Hs, map_app. cbn [map].
      rewrite (argmin_hit j a x b 0 None Ha Hb I Hl H0). cbn [plus].
      rewrite (fmr_hit _ (dist x) (length a) _ 0 None); auto; [|exact I].
      rewrite map_length. reflexivity.
    - assert (HPl : length (scatter P lens g) = P) by apply scatter_length.
      assert (Hown : length L1 < P) by (rewrite <- HPl, Hs, app_length; cbn [length]; lia).
      assert (Hlo : local_of P (length L1) lens g = a ++ x :: b).
      { rewrite <- (scatter_nth P lens g (length L1) Hown), Hs.
        rewrite app_nth2 by lia. rewrite Nat.sub_diag. reflexivity. }
      unfold convert_local, local_ids. cbn [fst snd]. rewrite <- Hfid, local_of_map, Hlo, <- Ex.
      rewrite map_app. cbn [map]. rewrite nth_error_app2 by (rewrite map_length; lia).
      rewrite map_length, Nat.sub_diag. reflexivity.
  Qed.

  Theorem warm_pairs_ok : forall cs g, Inv D (sum_nat lens) (cs, g) ->
    ctrs_ok P lens (warm_ctr_pairs (length cs) (scatter P lens g)) cs.
  Proof.
    intros cs g HI. unfold ctrs_ok, warm_ctr_pairs.
    assert (Hex : forall j, In j (seq 0 (length cs)) -> exists p,
              warm_pair (scatter P lens g) j = Some p /\ convert_local P lens p = Some (nth j cs 0)).
    { intros j Hj. apply in_seq in Hj. apply (warm_pair_center cs g j HI). lia. }
    rewrite <- (map_nth_seq cs) at 2. rewrite map_map.
    revert Hex. generalize (seq 0 (length cs)) as js. induction js as [|j js IH]; intros Hex; [reflexivity|].
    cbn [flat_map map]. destruct (Hex j (or_introl eq_refl)) as [p [Ep Ec]]. rewrite Ep. cbn [app map].
    rewrite Ec. f_equal. apply IH. intros j' Hj'. apply Hex. right. exact Hj'.
  Qed.

  (* the whole warm-started run: same centres (as global ids), labels, distances, stopping point as serial *)
  Theorem warm_mpi_refines_serial : forall init nclu cutoff ti,
    init_ok (sum_nat lens) init ->
    nonempty_locals P lens (seq 0 (sum_nat lens)) ->
    tie_free_run D (S (sum_nat lens)) nclu cutoff ti (nearest_state D init (sum_nat lens)) ->
    exists ds, kcenters_warm_mpi D P lens init nclu cutoff ti = Some ds /\
      let s' := kcenters_warm D nclu cutoff ti init (sum_nat lens) in
      dcid ds = fst s' /\ dloc ds = scatter P lens (snd s') /\ ctrs_ok P lens (dctr ds) (fst s').
  Proof.
    intros init nclu cutoff ti [Hne [HND Hlt]] Hloc Htf.
    set (n := sum_nat lens) in *.
    pose proof (nearest_state_inv D D_self D_pos n init Hne HND Hlt) as HI.
    unfold kcenters_warm_mpi. destruct init as [|c0 init']; [congruence|].
    set (init := c0 :: init') in *. fold n.
    assert (Hsc : map (map (nearest_fr D init)) (scatter P lens (seq 0 n)) = scatter P lens (snd (nearest_state D init n))).
    { unfold nearest_state. cbn [snd]. rewrite scatter_map. reflexivity. }
    cbv zeta. rewrite Hsc.
    assert (Hfid : fids_ok lens (snd (nearest_state D init n))) by (destruct HI as [_ [_ [_ [H _]]]]; exact H).
    assert (Hne' : nonempty_locals P lens (snd (nearest_state D init n))).
    { unfold nearest_state. cbn [snd]. apply nonempty_locals_map. exact Hloc. }
    assert (Hc : ctrs_ok P lens (warm_ctr_pairs (length init) (scatter P lens (snd (nearest_state D init n)))) (fst (nearest_state D init n))).
    { unfold nearest_state at 2. cbn [fst]. apply warm_pairs_ok. exact HI. }
    destruct (kc_loop_mpi_refines D P lens HP (S n) nclu cutoff ti (nearest_state D init n) _ Hfid Hne' Hc Htf) as [cp' [Hrun Hc']].
    change init with (fst (nearest_state D init n)) at 3. rewrite Hrun.
    eexists. split; [reflexivity|]. cbn [dcid dloc dctr]. unfold kcenters_warm. repeat split. exact Hc'.
  Qed.
End Warm.

(* ------------------------------------------------------------------ statement for Props/C14.v *)
Theorem warm_mpi_assembled_equals_serial : forall D P lens init nclu cutoff ti, D_metric0 D ->
  1 <= P -> P <= length lens -> init_ok (sum_nat lens) init ->
  ti_ok D ti -> (0 <= cutoff)%Q ->
  nonempty_locals P lens (seq 0 (sum_nat lens)) ->
  tie_free_run D (S (sum_nat lens)) nclu cutoff ti (nearest_state D init (sum_nat lens)) ->
  exists ds, kcenters_warm_mpi D P lens init nclu cutoff ti = Some ds /\
    let s' := kcenters_warm D nclu cutoff ti init (sum_nat lens) in
    dcid ds = fst s' /\ assembled P lens ds (snd s') /\ Inv D (sum_nat lens) (dcid ds, snd s') /\
    (exists ext, dcid ds = init ++ ext).
Proof.
  intros D P lens init nclu cutoff ti [Ds Dp] HP HPn Hinit Hti Hcut Hloc Htf.
  destruct (warm_mpi_refines_serial D Ds Dp P lens HP init nclu cutoff ti Hinit Hloc Htf) as [ds [Hrun [Hcid [Hl Hc]]]].
  exists ds. split; [exact Hrun|]. cbn zeta.
  pose proof (kcenters_warm_inv D Ds Dp nclu cutoff ti init (sum_nat lens) Hti Hcut Hinit) as HI.
  assert (Hrep : rep D P lens ds (snd (kcenters_warm D nclu cutoff ti init (sum_nat lens)))).
  { unfold rep. split; [exact Hl|]. rewrite Hcid, <- surjective_pairing. split; [exact HI|exact Hc]. }
  split; [exact Hcid|]. split; [apply (rep_assembled D P lens HP HPn); exact Hrep|].
  split; [rewrite Hcid, <- surjective_pairing; exact HI|].
  rewrite Hcid. apply (warm_centers_kept D nclu cutoff ti init (sum_nat lens)).
Qed.
