(* C07: proofs about the code-shaped systems of enspara/tpt/core.py (model: Model/TPT.v). *)
From Coq Require Import List QArith Qreduction Bool Arith Lia Lqa Setoid Morphisms.
From EV Require Import TPT.
Import ListNotations.
Open Scope Q_scope.

(* ------------------------------------------------------------------ finite sums *)
Lemma sumq_ext : forall n f g, (forall i, (i < n)%nat -> f i == g i) -> sumq n f == sumq n g.
Proof.
  induction n as [|n IH]; intros f g H; simpl.
  - reflexivity.
  - rewrite (IH f g), (H n); [reflexivity | lia | intros; apply H; lia].
Qed.

Lemma sumq_zero : forall n f, (forall i, (i < n)%nat -> f i == 0) -> sumq n f == 0.
Proof.
  induction n as [|n IH]; intros f H; simpl.
  - reflexivity.
  - rewrite IH, (H n); [lra | lia | intros; apply H; lia].
Qed.

Lemma sumq_plus : forall n f g, sumq n (fun i => f i + g i) == sumq n f + sumq n g.
Proof. induction n as [|n IH]; intros; simpl; [lra | rewrite IH; lra]. Qed.

Lemma sumq_minus : forall n f g, sumq n (fun i => f i - g i) == sumq n f - sumq n g.
Proof. induction n as [|n IH]; intros; simpl; [lra | rewrite IH; lra]. Qed.

Lemma sumq_scal : forall n c f, sumq n (fun i => c * f i) == c * sumq n f.
Proof. induction n as [|n IH]; intros; simpl; [lra | rewrite IH; lra]. Qed.

Lemma sumq_scal_r : forall n c f, sumq n (fun i => f i * c) == sumq n f * c.
Proof. induction n as [|n IH]; intros; simpl; [lra | rewrite IH; lra]. Qed.

Lemma sumq_swap : forall n m (f : nat -> nat -> Q),
  sumq n (fun i => sumq m (fun j => f i j)) == sumq m (fun j => sumq n (fun i => f i j)).
Proof.
  induction n as [|n IH]; intros m f; simpl.
  - symmetry. apply sumq_zero. reflexivity.
  - rewrite IH. rewrite <- sumq_plus. reflexivity.
Qed.

Lemma sumq_nonneg : forall n f, (forall i, (i < n)%nat -> 0 <= f i) -> 0 <= sumq n f.
Proof.
  induction n as [|n IH]; intros f H; simpl.
  - lra.
  - assert (0 <= sumq n f) by (apply IH; intros; apply H; lia).
    assert (0 <= f n) by (apply H; lia). lra.
Qed.

Lemma sumq_nonneg_zero : forall n f, (forall i, (i < n)%nat -> 0 <= f i) -> sumq n f == 0 ->
  forall i, (i < n)%nat -> f i == 0.
Proof.
  induction n as [|n IH]; intros f Hpos Hsum i Hi.
  - lia.
  - simpl in Hsum.
    assert (H1 : 0 <= sumq n f) by (apply sumq_nonneg; intros; apply Hpos; lia).
    assert (H2 : 0 <= f n) by (apply Hpos; lia).
    destruct (Nat.eq_dec i n) as [->|Hne].
    + lra.
    + apply IH; [intros; apply Hpos; lia | lra | lia].
Qed.

Lemma sumq_delta : forall n j f, (j < n)%nat ->
  sumq n (fun i => if Nat.eqb i j then f i else 0) == f j.
Proof.
  induction n as [|n IH]; intros j f Hj.
  - lia.
  - simpl. destruct (Nat.eq_dec j n) as [->|Hne].
    + rewrite Nat.eqb_refl. rewrite sumq_zero; [lra|].
      intros i Hi. destruct (Nat.eqb_spec i n); [lia | reflexivity].
    + rewrite IH by lia. destruct (Nat.eqb_spec n j); [lia | lra].
Qed.

Lemma sumq_shift : forall n f, sumq (S n) f == f O + sumq n (fun i => f (S i)).
Proof.
  induction n as [|n IH]; intros f.
  - simpl. lra.
  - change (sumq (S (S n)) f) with (sumq (S n) f + f (S n)). rewrite IH. simpl. lra.
Qed.

(* ------------------------------------------------------------------ sets as lists *)
Lemma memb_In : forall i l, memb i l = true <-> In i l.
Proof.
  intros i l. unfold memb. rewrite existsb_exists. split.
  - intros [x [Hx He]]. apply Nat.eqb_eq in He. subst. exact Hx.
  - intros H. exists i. split; [exact H | apply Nat.eqb_refl].
Qed.

Lemma memb_false : forall i l, memb i l = false <-> ~ In i l.
Proof.
  intros i l. rewrite <- memb_In. destruct (memb i l); split; intro H.
  - discriminate.
  - exfalso. apply H. reflexivity.
  - discriminate.
  - reflexivity.
Qed.

Lemma memb_app : forall i a b, memb i (a ++ b) = memb i a || memb i b.
Proof. intros. unfold memb. apply existsb_app. Qed.

Lemma idxb_lt : forall n l, idxb n l = true -> forall i, In i l -> (i < n)%nat.
Proof.
  intros n l H i Hi. unfold idxb in H. rewrite forallb_forall in H.
  apply Nat.ltb_lt. apply H. exact Hi.
Qed.

(* sum over the positions of a duplicate-free list = sum over its members *)
Lemma sumq_over_list : forall n (f : nat -> Q) l,
  NoDup l -> (forall x, In x l -> (x < n)%nat) ->
  sumq (length l) (fun k => f (nth k l O)) == sumq n (fun j => if memb j l then f j else 0).
Proof.
  intros n f l. induction l as [|x r IH]; intros Hnd Hlt.
  - simpl. symmetry. apply sumq_zero. reflexivity.
  - change (length (x :: r)) with (S (length r)). rewrite sumq_shift.
    cbn [nth]. inversion Hnd as [|x' r' Hx Hr]; subst.
    rewrite IH; [| exact Hr | intros; apply Hlt; right; assumption].
    rewrite <- (sumq_delta n x f) by (apply Hlt; left; reflexivity).
    rewrite <- sumq_plus. apply sumq_ext. intros j Hj.
    unfold memb. cbn [existsb]. fold (memb j r).
    destruct (Nat.eqb_spec j x) as [->|Hne]; cbn [orb].
    + apply memb_false in Hx. rewrite Hx. lra.
    + destruct (memb j r); lra.
Qed.

(* ------------------------------------------------------------------ rows of the masked I - T *)
Section Rows.
Variables (n : nat) (T : nat -> nat -> Q) (A : list nat).

Lemma ImQ_row_abs : forall X i, (i < n)%nat -> memb i A = true ->
  sumq n (fun j => ImQ T A i j * X j) == X i.
Proof.
  intros X i Hi Hm. rewrite <- (sumq_delta n i X Hi). apply sumq_ext. intros j Hj.
  unfold ImQ, delta. rewrite Hm. cbn [orb]. rewrite (Nat.eqb_sym i j).
  destruct (Nat.eqb j i); lra.
Qed.

Lemma ImQ_row_free : forall X i, (i < n)%nat -> memb i A = false ->
  sumq n (fun j => ImQ T A i j * X j) ==
  X i - sumq n (fun j => if memb j A then 0 else T i j * X j).
Proof.
  intros X i Hi Hm. rewrite <- (sumq_delta n i X Hi). rewrite <- sumq_minus.
  apply sumq_ext. intros j Hj. unfold ImQ, delta. rewrite Hm. cbn [orb].
  rewrite (Nat.eqb_sym i j).
  destruct (memb j A) eqn:Hj'.
  - destruct (Nat.eqb_spec j i) as [->|Hne]; [congruence | lra].
  - destruct (Nat.eqb j i); lra.
Qed.
End Rows.

(* ------------------------------------------------------------------ committors *)
(* the first-step (Dirichlet) problem a committor has to solve *)
Definition committor_eqs (n : nat) (T : nat -> nat -> Q) (src snk : list nat) (q : nat -> Q) : Prop :=
  forall i, (i < n)%nat ->
    (In i src -> q i == 0) /\ (In i snk -> q i == 1) /\
    (~ In i src -> ~ In i snk -> q i == sumq n (fun j => T i j * q j)).

Section Committor.
Variables (n : nat) (T : nat -> nat -> Q) (src snk : list nat) (B : nat -> nat -> Q).
Hypothesis Hsol : forall i k, (i < n)%nat -> (k < length snk)%nat ->
  sumq n (fun j => ImQ T (src ++ snk) i j * B j k) == Rhs T src snk i k.
Hypothesis Hnd : NoDup snk.
Hypothesis Hdisj : forall i, In i src -> ~ In i snk.
Hypothesis Hidx : forall i, In i snk -> (i < n)%nat.

Lemma comm_source : forall i, (i < n)%nat -> In i src -> comm_of snk B i == 0.
Proof.
  intros i Hi Hs. unfold comm_of.
  assert (Hns : memb i snk = false) by (apply memb_false; auto).
  rewrite Hns. apply sumq_zero. intros k Hk.
  rewrite <- (ImQ_row_abs n T (src ++ snk) (fun j => B j k) i Hi).
  - rewrite Hsol by assumption. unfold Rhs.
    assert (Hm : memb i src = true) by (apply memb_In; exact Hs). rewrite Hm. reflexivity.
  - rewrite memb_app. apply orb_true_iff. left. apply memb_In. exact Hs.
Qed.

Lemma comm_sink : forall i, In i snk -> comm_of snk B i == 1.
Proof.
  intros i Hs. unfold comm_of. apply memb_In in Hs. rewrite Hs. reflexivity.
Qed.

Lemma comm_interior : forall i, (i < n)%nat -> ~ In i src -> ~ In i snk ->
  comm_of snk B i == sumq n (fun j => T i j * comm_of snk B j).
Proof.
  intros i Hi Hs Hk.
  assert (Hms : memb i src = false) by (apply memb_false; exact Hs).
  assert (Hmk : memb i snk = false) by (apply memb_false; exact Hk).
  assert (HmA : memb i (src ++ snk) = false) by (rewrite memb_app, Hms, Hmk; reflexivity).
  (* column-wise: B i k - sum_{j free} T i j B j k == T i (snk_k) *)
  assert (Hcol : forall k, (k < length snk)%nat ->
            B i k == T i (nth k snk O) +
                     sumq n (fun j => if memb j (src ++ snk) then 0 else T i j * B j k)).
  { intros k Hk'. pose proof (Hsol i k Hi Hk') as E.
    rewrite (ImQ_row_free n T (src ++ snk) (fun j => B j k) i Hi HmA) in E.
    unfold Rhs in E. rewrite Hms, Hmk in E. lra. }
  unfold comm_of at 1. rewrite Hmk.
  rewrite (sumq_ext _ _ _ Hcol). rewrite sumq_plus.
  rewrite (sumq_over_list n (T i) snk Hnd Hidx).
  rewrite sumq_swap. rewrite <- sumq_plus. apply sumq_ext. intros j Hj.
  pose proof (memb_app j src snk) as HA. revert HA.
  destruct (memb j (src ++ snk)); intro HA;
    destruct (memb j src) eqn:Hjs; destruct (memb j snk) eqn:Hjk; cbn [orb] in HA; try discriminate HA.
  - (* in both: excluded by disjointness *)
    exfalso. apply (Hdisj j); apply memb_In; assumption.
  - (* source: contributes nothing *)
    assert (In j src) as Hin by (apply memb_In; exact Hjs).
    rewrite (comm_source j Hj Hin). rewrite sumq_zero by reflexivity. lra.
  - (* sink: q = 1 *)
    unfold comm_of. rewrite Hjk. rewrite sumq_zero by reflexivity. lra.
  - unfold comm_of. rewrite Hjk. rewrite sumq_scal. rewrite Qplus_0_l. reflexivity.
Qed.

Lemma committor_system_sound_fn : committor_eqs n T src snk (comm_of snk B).
Proof.
  intros i Hi. split; [|split].
  - apply comm_source; assumption.
  - apply comm_sink.
  - apply comm_interior; assumption.
Qed.
End Committor.

(* ------------------------------------------------------------------ mean first-passage time to a sink set *)
Definition mfpt_eqs (n : nat) (T : nat -> nat -> Q) (snk : list nat) (lag : Q) (t : nat -> Q) : Prop :=
  forall i, (i < n)%nat ->
    (In i snk -> t i == 0) /\ (~ In i snk -> t i == lag + sumq n (fun j => T i j * t j)).

Section MfptSinks.
Variables (n : nat) (T : nat -> nat -> Q) (snk : list nat) (X : nat -> nat -> Q).
Hypothesis Hsol : forall i k, (i < n)%nat -> (k < 1)%nat ->
  sumq n (fun j => ImQ T snk i j * X j k) == mfpt_rhs snk i k.

Lemma mfpt_unit_sink : forall i, (i < n)%nat -> In i snk -> X i O == 0.
Proof.
  intros i Hi Hs. apply memb_In in Hs.
  rewrite <- (ImQ_row_abs n T snk (fun j => X j O) i Hi Hs).
  rewrite Hsol by lia. unfold mfpt_rhs. rewrite Hs. reflexivity.
Qed.

Lemma mfpt_unit_free : forall i, (i < n)%nat -> ~ In i snk ->
  X i O == 1 + sumq n (fun j => T i j * X j O).
Proof.
  intros i Hi Hs. assert (Hm : memb i snk = false) by (apply memb_false; exact Hs).
  pose proof (Hsol i O Hi (Nat.lt_0_1)) as E.
  rewrite (ImQ_row_free n T snk (fun j => X j O) i Hi Hm) in E.
  unfold mfpt_rhs in E. rewrite Hm in E.
  assert (E2 : sumq n (fun j => if memb j snk then 0 else T i j * X j O) ==
               sumq n (fun j => T i j * X j O)).
  { apply sumq_ext. intros j Hj. destruct (memb j snk) eqn:Hjs; [|reflexivity].
    rewrite (mfpt_unit_sink j Hj) by (apply memb_In; exact Hjs). lra. }
  rewrite E2 in E. lra.
Qed.

Lemma mfpt_sink_sound_fn : forall lag, mfpt_eqs n T snk lag (fun i => lag * X i O).
Proof.
  intros lag i Hi. split.
  - intros Hs. rewrite (mfpt_unit_sink i Hi Hs). lra.
  - intros Hs. rewrite (mfpt_unit_free i Hi Hs).
    rewrite (sumq_ext n (fun j => T i j * (lag * X j O)) (fun j => lag * (T i j * X j O)))
      by (intros; lra).
    rewrite sumq_scal. lra.
Qed.
End MfptSinks.

(* ------------------------------------------------------------------ discrete maximum principle *)
Lemma exists_max : forall n (h : nat -> Q), (0 < n)%nat ->
  exists i0, (i0 < n)%nat /\ forall j, (j < n)%nat -> h j <= h i0.
Proof.
  induction n as [|n IH]; intros h Hn.
  - lia.
  - destruct n as [|n'].
    + exists O. split; [lia|]. intros j Hj. assert (j = O) by lia. subst. lra.
    + destruct (IH h) as [i0 [Hi0 Hmax]]; [lia|].
      destruct (Qlt_le_dec (h i0) (h (S n'))) as [Hlt|Hle].
      * exists (S n'). split; [lia|]. intros j Hj.
        destruct (Nat.eq_dec j (S n')) as [->|Hne]; [lra|].
        assert (h j <= h i0) by (apply Hmax; lia). lra.
      * exists i0. split; [lia|]. intros j Hj.
        destruct (Nat.eq_dec j (S n')) as [->|Hne]; [lra|]. apply Hmax. lia.
Qed.

Section MaxPrinciple.
Variables (n : nat) (T : nat -> nat -> Q) (A : list nat).
Hypothesis Hst : stochastic n T.
Hypothesis Hreach : forall i, (i < n)%nat -> reaches n T A i.

(* a function that is harmonic off A and bounded by c on A is bounded by c everywhere *)
Lemma max_principle : forall (h : nat -> Q) (c : Q),
  (forall i, (i < n)%nat -> ~ In i A -> h i == sumq n (fun j => T i j * h j)) ->
  (forall i, (i < n)%nat -> In i A -> h i <= c) ->
  forall i, (i < n)%nat -> h i <= c.
Proof.
  intros h c Hharm Hbd i Hi.
  destruct (exists_max n h) as [i0 [Hi0 Hmax]]; [lia|].
  destruct (Qlt_le_dec c (h i0)) as [Hbig|Hok].
  2:{ assert (h i <= h i0) by (apply Hmax; exact Hi). lra. }
  exfalso.
  assert (Hprop : forall k, reaches n T A k -> (k < n)%nat -> h k == h i0 -> False).
  { intros k Hr. induction Hr as [k Hk | k j Hj Hpos Hr IH]; intros Hkn Hkeq.
    - assert (h k <= c) by (apply Hbd; assumption). lra.
    - destruct (in_dec Nat.eq_dec k A) as [HkA|HkA].
      + assert (h k <= c) by (apply Hbd; assumption). lra.
      + apply IH; [exact Hj|].
        destruct (Hst k Hkn) as [Hrow Hnn].
        (* sum_j T k j (M - h j) == 0 with non-negative terms *)
        assert (Hz : sumq n (fun j' => T k j' * (h i0 - h j')) == 0).
        { rewrite (sumq_ext n _ (fun j' => h i0 * T k j' - T k j' * h j')) by (intros; lra).
          rewrite sumq_minus, sumq_scal, Hrow, <- (Hharm k Hkn HkA). lra. }
        assert (Hterm : T k j * (h i0 - h j) == 0).
        { apply (sumq_nonneg_zero n (fun j' => T k j' * (h i0 - h j'))); [|exact Hz|exact Hj].
          intros j' Hj'. apply Qmult_le_0_compat; [apply Hnn; exact Hj'|].
          assert (h j' <= h i0) by (apply Hmax; exact Hj'). lra. }
        assert (Hd : h i0 - h j == 0).
        { destruct (Qmult_integral _ _ Hterm) as [E|E]; [lra | exact E]. }
        lra. }
  apply (Hprop i0 (Hreach i0 Hi0) Hi0). reflexivity.
Qed.

(* two solutions of the same first-step problem (same boundary values on A, same source term off A) agree *)
Lemma first_step_unique : forall (b x y : nat -> Q),
  (forall i, (i < n)%nat -> In i A -> x i == y i) ->
  (forall i, (i < n)%nat -> ~ In i A -> x i == b i + sumq n (fun j => T i j * x j)) ->
  (forall i, (i < n)%nat -> ~ In i A -> y i == b i + sumq n (fun j => T i j * y j)) ->
  forall i, (i < n)%nat -> x i == y i.
Proof.
  intros b x y Hbd Hx Hy i Hi.
  assert (H1 : x i - y i <= 0).
  { apply (max_principle (fun k => x k - y k) 0); [| |exact Hi].
    - intros k Hk HkA. rewrite (Hx k Hk HkA), (Hy k Hk HkA).
      rewrite (sumq_ext n (fun j => T k j * (x j - y j)) (fun j => T k j * x j - T k j * y j))
        by (intros; lra).
      rewrite sumq_minus. lra.
    - intros k Hk HkA. rewrite (Hbd k Hk HkA). lra. }
  assert (H2 : y i - x i <= 0).
  { apply (max_principle (fun k => y k - x k) 0); [| |exact Hi].
    - intros k Hk HkA. rewrite (Hx k Hk HkA), (Hy k Hk HkA).
      rewrite (sumq_ext n (fun j => T k j * (y j - x j)) (fun j => T k j * y j - T k j * x j))
        by (intros; lra).
      rewrite sumq_minus. lra.
    - intros k Hk HkA. rewrite (Hbd k Hk HkA). lra. }
  lra.
Qed.
End MaxPrinciple.

Lemma committor_bounds_fn : forall n T src snk q,
  stochastic n T -> (forall i, (i < n)%nat -> reaches n T (src ++ snk) i) ->
  committor_eqs n T src snk q ->
  forall i, (i < n)%nat -> 0 <= q i /\ q i <= 1.
Proof.
  intros n T src snk q Hst Hreach Heq i Hi.
  assert (HA : forall k, ~ In k (src ++ snk) -> ~ In k src /\ ~ In k snk).
  { intros k Hk. split; intro; apply Hk; apply in_or_app; auto. }
  split.
  - assert (H : - q i <= 0).
    { apply (max_principle n T (src ++ snk) Hst Hreach (fun k => - q k) 0); [| |exact Hi].
      - intros k Hk HkA. destruct (HA k HkA) as [H1 H2].
        destruct (Heq k Hk) as [_ [_ E]]. rewrite (E H1 H2) at 1.
        rewrite (sumq_ext n (fun j => T k j * - q j) (fun j => (-1#1) * (T k j * q j)))
          by (intros; lra).
        rewrite sumq_scal. lra.
      - intros k Hk HkA. destruct (Heq k Hk) as [E0 [E1 _]].
        apply in_app_or in HkA. destruct HkA as [Hs|Hs]; [rewrite (E0 Hs) | rewrite (E1 Hs)]; lra. }
    lra.
  - apply (max_principle n T (src ++ snk) Hst Hreach q 1); [| |exact Hi].
    + intros k Hk HkA. destruct (HA k HkA) as [H1 H2].
      destruct (Heq k Hk) as [_ [_ E]]. exact (E H1 H2).
    + intros k Hk HkA. destruct (Heq k Hk) as [E0 [E1 _]].
      apply in_app_or in HkA. destruct HkA as [Hs|Hs]; [rewrite (E0 Hs) | rewrite (E1 Hs)]; lra.
Qed.

Lemma committor_unique_fn : forall n T src snk q q',
  stochastic n T -> (forall i, (i < n)%nat -> reaches n T (src ++ snk) i) ->
  (forall i, In i src -> ~ In i snk) ->
  committor_eqs n T src snk q -> committor_eqs n T src snk q' ->
  forall i, (i < n)%nat -> q i == q' i.
Proof.
  intros n T src snk q q' Hst Hreach Hdisj Hq Hq' i Hi.
  assert (HA : forall k, ~ In k (src ++ snk) -> ~ In k src /\ ~ In k snk).
  { intros k Hk. split; intro; apply Hk; apply in_or_app; auto. }
  apply (first_step_unique n T (src ++ snk) Hst Hreach (fun _ => 0) q q'); [| | |exact Hi].
  - intros k Hk HkA. destruct (Hq k Hk) as [E0 [E1 _]]. destruct (Hq' k Hk) as [F0 [F1 _]].
    apply in_app_or in HkA. destruct HkA as [Hs|Hs].
    + rewrite (E0 Hs), (F0 Hs). reflexivity.
    + rewrite (E1 Hs), (F1 Hs). reflexivity.
  - intros k Hk HkA. destruct (HA k HkA) as [H1 H2]. destruct (Hq k Hk) as [_ [_ E]].
    rewrite <- (E H1 H2). lra.
  - intros k Hk HkA. destruct (HA k HkA) as [H1 H2]. destruct (Hq' k Hk) as [_ [_ E]].
    rewrite <- (E H1 H2). lra.
Qed.

Lemma mfpt_unique_fn : forall n T snk lag t t',
  stochastic n T -> (forall i, (i < n)%nat -> reaches n T snk i) ->
  mfpt_eqs n T snk lag t -> mfpt_eqs n T snk lag t' ->
  forall i, (i < n)%nat -> t i == t' i.
Proof.
  intros n T snk lag t t' Hst Hreach Ht Ht' i Hi.
  apply (first_step_unique n T snk Hst Hreach (fun _ => lag) t t'); [| | |exact Hi].
  - intros k Hk HkA. destruct (Ht k Hk) as [E _]. destruct (Ht' k Hk) as [F _].
    rewrite (E HkA), (F HkA). reflexivity.
  - intros k Hk HkA. destruct (Ht k Hk) as [_ E]. exact (E HkA).
  - intros k Hk HkA. destruct (Ht' k Hk) as [_ E]. exact (E HkA).
Qed.

(* ------------------------------------------------------------------ all-pairs table (Kemeny-Snell) *)
Lemma sumq_delta_r : forall n k (f : nat -> Q), (k < n)%nat -> sumq n (fun i => f i * delta i k) == f k.
Proof.
  intros n k f Hk. rewrite <- (sumq_delta n k f Hk). apply sumq_ext. intros i Hi.
  unfold delta. destruct (Nat.eqb i k); lra.
Qed.

Lemma sumq_delta_l : forall n i (f : nat -> Q), (i < n)%nat -> sumq n (fun j => delta i j * f j) == f i.
Proof.
  intros n i f Hi. rewrite <- (sumq_delta n i f Hi). apply sumq_ext. intros j Hj.
  unfold delta. rewrite (Nat.eqb_sym i j). destruct (Nat.eqb j i); lra.
Qed.

Section KemenySnell.
Variables (n : nat) (T : nat -> nat -> Q) (pi : nat -> Q) (Z : nat -> nat -> Q).
Hypothesis HAZ : forall i k, (i < n)%nat -> (k < n)%nat ->
  sumq n (fun j => fund T pi i j * Z j k) == delta i k.
Hypothesis Hrow : forall i, (i < n)%nat -> sumq n (T i) == 1.
Hypothesis Hstat : stationary_dist n T pi.

Lemma pi_fund : forall j, (j < n)%nat -> sumq n (fun i => pi i * fund T pi i j) == pi j.
Proof.
  intros j Hj. destruct Hstat as [HpT Hsum]. unfold fund.
  rewrite (sumq_ext n _ (fun i => pi i * delta i j - pi i * T i j + pi i * pi j)) by (intros; lra).
  rewrite sumq_plus, sumq_minus, (sumq_delta_r n j pi Hj), (HpT j Hj), sumq_scal_r, Hsum. lra.
Qed.

Lemma pi_Z : forall k, (k < n)%nat -> sumq n (fun j => pi j * Z j k) == pi k.
Proof.
  intros k Hk.
  transitivity (sumq n (fun i => pi i * delta i k)); [| apply sumq_delta_r; exact Hk].
  symmetry.
  rewrite (sumq_ext n (fun i => pi i * delta i k)
                      (fun i => sumq n (fun j => pi i * fund T pi i j * Z j k))).
  2:{ intros i Hi. rewrite <- (HAZ i k Hi Hk). rewrite <- sumq_scal.
      apply sumq_ext. intros; lra. }
  rewrite sumq_swap. apply sumq_ext. intros j Hj.
  rewrite sumq_scal_r. rewrite (pi_fund j Hj). reflexivity.
Qed.

Lemma ImT_Z : forall i k, (i < n)%nat -> (k < n)%nat ->
  sumq n (fun j => T i j * Z j k) == Z i k - delta i k + pi k.
Proof.
  intros i k Hi Hk. pose proof (HAZ i k Hi Hk) as E. unfold fund in E.
  rewrite (sumq_ext n _ (fun j => delta i j * Z j k - T i j * Z j k + pi j * Z j k)) in E
    by (intros; lra).
  rewrite sumq_plus, sumq_minus in E.
  rewrite (sumq_delta_l n i (fun j => Z j k) Hi), (pi_Z k Hk) in E. lra.
Qed.

Lemma mfpt_all_sound_fn : forall lag j, (j < n)%nat -> ~ pi j == 0 ->
  mfpt_eqs n T [j] lag (fun i => mfpt_entry Z pi lag i j).
Proof.
  intros lag j Hj Hpj i Hi. unfold mfpt_entry. split.
  - intros [<-|[]]. unfold Qdiv. setoid_replace (Z j j - Z j j) with 0 by lra. lra.
  - intros Hne. assert (Hij : i <> j) by (intro; apply Hne; left; auto).
    set (c := lag / pi j).
    assert (Hc : c * pi j == lag) by (unfold c; field; exact Hpj).
    rewrite (sumq_ext n _ (fun k => c * Z j j * T i k - c * (T i k * Z k j))).
    2:{ intros k Hk. unfold c, Qdiv. ring. }
    rewrite sumq_minus, !sumq_scal, (Hrow i Hi), (ImT_Z i j Hi Hj).
    unfold delta. destruct (Nat.eqb_spec i j) as [E|_]; [contradiction|].
    setoid_replace (lag * (Z j j - Z i j) / pi j) with (c * (Z j j - Z i j))
      by (unfold c, Qdiv; ring).
    rewrite <- Hc. ring.
Qed.
End KemenySnell.

(* ------------------------------------------------------------------ from the executable model to the equations *)
Lemma nth_map_seq : forall (f : nat -> Q) n i, (i < n)%nat -> nth i (map f (seq 0 n)) 0 = f i.
Proof.
  intros f n i Hi. rewrite (nth_indep _ 0 (f O)) by (rewrite map_length, seq_length; exact Hi).
  rewrite (map_nth f (seq 0 n) O i). rewrite seq_nth by exact Hi. reflexivity.
Qed.

Lemma mget_tab : forall n m f i j, (i < n)%nat -> (j < m)%nat -> mget (tab n m f) i j = f i j.
Proof.
  intros n m f i j Hi Hj. unfold mget, tab.
  rewrite (nth_indep _ [] ((fun i0 => map (f i0) (seq 0 m)) O))
    by (rewrite map_length, seq_length; exact Hi).
  rewrite (map_nth (fun i0 => map (f i0) (seq 0 m)) (seq 0 n) O i).
  rewrite seq_nth by exact Hi. cbn [Nat.add]. apply nth_map_seq. exact Hj.
Qed.

Lemma is_solution_sound : forall n m A X R, is_solution n m A X R = true ->
  forall i k, (i < n)%nat -> (k < m)%nat -> sumq n (fun j => A i j * X j k) == R i k.
Proof.
  intros n m A X R H i k Hi Hk. unfold is_solution in H.
  rewrite forallb_forall in H. specialize (H i). rewrite forallb_forall in H.
  apply Qeq_bool_iff. apply H; apply in_seq; lia.
Qed.

Lemma solve_checked_sound : forall n m A R X, solve_checked n m A R = Some X ->
  forall i k, (i < n)%nat -> (k < m)%nat -> sumq n (fun j => A i j * mget X j k) == R i k.
Proof.
  intros n m A R X H. unfold solve_checked in H.
  destruct (solve n m A R) as [X'|]; [|discriminate].
  destruct (is_solution n m A (mget X') R) eqn:E; [|discriminate].
  inversion H; subst. apply is_solution_sound. exact E.
Qed.

Lemma committor_eqs_ext : forall n T src snk q q',
  (forall i, (i < n)%nat -> q i == q' i) -> committor_eqs n T src snk q -> committor_eqs n T src snk q'.
Proof.
  intros n T src snk q q' Hqq H i Hi. destruct (H i Hi) as [H0 [H1 H2]].
  split; [|split].
  - intros Hs. rewrite <- (Hqq i Hi). auto.
  - intros Hs. rewrite <- (Hqq i Hi). auto.
  - intros Hs Hk. rewrite <- (Hqq i Hi), (H2 Hs Hk). apply sumq_ext. intros j Hj.
    rewrite (Hqq j Hj). reflexivity.
Qed.

Lemma mfpt_eqs_ext : forall n T snk lag t t',
  (forall i, (i < n)%nat -> t i == t' i) -> mfpt_eqs n T snk lag t -> mfpt_eqs n T snk lag t'.
Proof.
  intros n T snk lag t t' Htt H i Hi. destruct (H i Hi) as [H0 H1]. split.
  - intros Hs. rewrite <- (Htt i Hi). auto.
  - intros Hs. rewrite <- (Htt i Hi), (H1 Hs). apply Qplus_comp; [reflexivity|].
    apply sumq_ext. intros j Hj. rewrite (Htt j Hj). reflexivity.
Qed.

(* what a successful run of the model's committors tells us *)
Lemma committors_inv : forall n T src snk q, committors n T src snk = Some q ->
  idxb n src = true /\ idxb n snk = true /\
  exists B, q = map (comm_of snk (mget B)) (seq 0 n) /\
    forall i k, (i < n)%nat -> (k < length snk)%nat ->
      sumq n (fun j => ImQ (mget T) (src ++ snk) i j * mget B j k) == Rhs (mget T) src snk i k.
Proof.
  intros n T src snk q H. unfold committors in H.
  destruct (wfb n T); [|discriminate]. cbn [andb] in H.
  destruct (idxb n src); [|discriminate]. destruct (idxb n snk); [|discriminate]. cbn [andb] in H.
  destruct (solve_checked n (length snk) (ImQ (mget T) (src ++ snk)) (Rhs (mget T) src snk)) as [B|] eqn:E;
    [|discriminate].
  inversion H; subst. split; [reflexivity|]. split; [reflexivity|].
  exists B. split; [reflexivity|]. apply solve_checked_sound. exact E.
Qed.

Theorem committor_system_sound : forall n T src snk q,
  committors n T src snk = Some q ->
  NoDup snk -> (forall i, In i src -> ~ In i snk) ->
  length q = n /\ committor_eqs n (mget T) src snk (vget q).
Proof.
  intros n T src snk q H Hnd Hdisj.
  destruct (committors_inv n T src snk q H) as [_ [Hk [B [Hq Hsol]]]].
  split.
  - subst q. rewrite map_length, seq_length. reflexivity.
  - apply (committor_eqs_ext n (mget T) src snk (comm_of snk (mget B))).
    + intros i Hi. subst q. unfold vget. rewrite nth_map_seq by exact Hi. reflexivity.
    + apply committor_system_sound_fn; [exact Hsol | exact Hnd | exact Hdisj | apply idxb_lt; exact Hk].
Qed.

Theorem committor_bounds : forall n T src snk q,
  committors n T src snk = Some q ->
  NoDup snk -> (forall i, In i src -> ~ In i snk) ->
  stochastic n (mget T) -> (forall i, (i < n)%nat -> reaches n (mget T) (src ++ snk) i) ->
  forall i, (i < n)%nat -> 0 <= vget q i /\ vget q i <= 1.
Proof.
  intros n T src snk q H Hnd Hdisj Hst Hreach.
  destruct (committor_system_sound n T src snk q H Hnd Hdisj) as [_ Heq].
  apply (committor_bounds_fn n (mget T) src snk (vget q) Hst Hreach Heq).
Qed.

Theorem committor_unique : forall n T src snk q q',
  committors n T src snk = Some q ->
  NoDup snk -> (forall i, In i src -> ~ In i snk) ->
  stochastic n (mget T) -> (forall i, (i < n)%nat -> reaches n (mget T) (src ++ snk) i) ->
  committor_eqs n (mget T) src snk q' ->
  forall i, (i < n)%nat -> vget q i == q' i.
Proof.
  intros n T src snk q q' H Hnd Hdisj Hst Hreach Hq'.
  destruct (committor_system_sound n T src snk q H Hnd Hdisj) as [_ Heq].
  apply (committor_unique_fn n (mget T) src snk (vget q) q' Hst Hreach Hdisj Heq Hq').
Qed.

Lemma idxb_false : forall n l i, In i l -> (n <= i)%nat -> idxb n l = false.
Proof.
  intros n l i Hi Hn. destruct (idxb n l) eqn:E; [|reflexivity].
  pose proof (idxb_lt n l E i Hi). lia.
Qed.

(* the error clause: a state index outside the matrix is rejected (the code: IndexError) *)
Theorem committors_index_error : forall n T src snk i,
  In i (src ++ snk) -> (n <= i)%nat -> committors n T src snk = None.
Proof.
  intros n T src snk i Hi Hn. unfold committors. apply in_app_or in Hi. destruct Hi as [Hi|Hi].
  - rewrite (idxb_false n src i Hi Hn). rewrite andb_false_r. reflexivity.
  - rewrite (idxb_false n snk i Hi Hn). rewrite andb_false_r. reflexivity.
Qed.

(* ---- single-sink-set mean first-passage times *)
Lemma mfpts_sinks_inv : forall n T snk lag t, mfpts_sinks n T snk lag = Some t ->
  exists X, t = map (fun i => lag * mget X i O) (seq 0 n) /\
    solve_checked n 1 (ImQ (mget T) snk) (mfpt_rhs snk) = Some X.
Proof.
  intros n T snk lag t H. unfold mfpts_sinks in H.
  destruct (wfb n T && idxb n snk); [|discriminate].
  destruct (solve_checked n 1 (ImQ (mget T) snk) (mfpt_rhs snk)) as [X|]; [|discriminate].
  inversion H; subst. exists X. split; reflexivity.
Qed.

Theorem mfpt_sink_sound : forall n T snk lag t,
  mfpts_sinks n T snk lag = Some t ->
  length t = n /\ mfpt_eqs n (mget T) snk lag (vget t).
Proof.
  intros n T snk lag t H. destruct (mfpts_sinks_inv n T snk lag t H) as [X [Ht HX]].
  split.
  - subst t. rewrite map_length, seq_length. reflexivity.
  - apply (mfpt_eqs_ext n (mget T) snk lag (fun i => lag * mget X i O)).
    + intros i Hi. subst t. unfold vget. rewrite (nth_map_seq (fun i0 => lag * mget X i0 O)) by exact Hi.
      reflexivity.
    + apply mfpt_sink_sound_fn. apply solve_checked_sound. exact HX.
Qed.

Theorem mfpt_sink_index_error : forall n T snk lag i,
  In i snk -> (n <= i)%nat -> mfpts_sinks n T snk lag = None.
Proof.
  intros n T snk lag i Hi Hn. unfold mfpts_sinks.
  rewrite (idxb_false n snk i Hi Hn). rewrite andb_false_r. reflexivity.
Qed.

Theorem mfpt_sink_lag_linear : forall n T snk lag t,
  mfpts_sinks n T snk lag = Some t ->
  exists t1, mfpts_sinks n T snk 1 = Some t1 /\
             forall i, (i < n)%nat -> vget t i == lag * vget t1 i.
Proof.
  intros n T snk lag t H. unfold mfpts_sinks in *.
  destruct (wfb n T && idxb n snk); [|discriminate].
  destruct (solve_checked n 1 (ImQ (mget T) snk) (mfpt_rhs snk)) as [X|]; [|discriminate].
  inversion H; subst. eexists. split; [reflexivity|].
  intros i Hi. unfold vget.
  rewrite (nth_map_seq (fun i0 => lag * mget X i0 O)) by exact Hi.
  rewrite (nth_map_seq (fun i0 => 1 * mget X i0 O)) by exact Hi. lra.
Qed.

(* ---- all-pairs table *)
Lemma mfpts_all_inv : forall n T pi lag M, mfpts_all n T pi lag = Some M ->
  (forall j, (j < n)%nat -> ~ vget pi j == 0) /\
  exists Z, M = tab n n (mfpt_entry (mget Z) (vget pi) lag) /\
    solve_checked n n (fund (mget T) (vget pi)) delta = Some Z.
Proof.
  intros n T pi lag M H. unfold mfpts_all in H.
  destruct (wfb n T); [|discriminate]. destruct (Nat.eqb (length pi) n); [|discriminate].
  cbn [andb] in H.
  destruct (forallb (fun j => negb (Qeq_bool (vget pi j) 0)) (seq 0 n)) eqn:Hp; [|discriminate].
  destruct (solve_checked n n (fund (mget T) (vget pi)) delta) as [Z|]; [|discriminate].
  inversion H; subst. split.
  - intros j Hj Hz. rewrite forallb_forall in Hp.
    assert (Hin : In j (seq 0 n)) by (apply in_seq; lia). specialize (Hp j Hin).
    apply Qeq_bool_iff in Hz. rewrite Hz in Hp. discriminate.
  - exists Z. split; reflexivity.
Qed.

Theorem mfpt_all_sound : forall n T pi lag M,
  mfpts_all n T pi lag = Some M ->
  (forall i, (i < n)%nat -> sumq n (mget T i) == 1) ->
  stationary_dist n (mget T) (vget pi) ->
  forall j, (j < n)%nat -> mfpt_eqs n (mget T) [j] lag (fun i => mget M i j).
Proof.
  intros n T pi lag M H Hrow Hstat j Hj.
  destruct (mfpts_all_inv n T pi lag M H) as [Hpi [Z [HM HZ]]].
  apply (mfpt_eqs_ext n (mget T) [j] lag (fun i => mfpt_entry (mget Z) (vget pi) lag i j)).
  - intros i Hi. subst M. rewrite mget_tab by assumption. reflexivity.
  - apply (mfpt_all_sound_fn n (mget T) (vget pi) (mget Z)); try assumption.
    + apply solve_checked_sound. exact HZ.
    + apply Hpi. exact Hj.
Qed.

Theorem mfpt_all_lag_linear : forall n T pi lag M,
  mfpts_all n T pi lag = Some M ->
  exists M1, mfpts_all n T pi 1 = Some M1 /\
             forall i j, (i < n)%nat -> (j < n)%nat -> mget M i j == lag * mget M1 i j.
Proof.
  intros n T pi lag M H. unfold mfpts_all in *.
  destruct (wfb n T && Nat.eqb (length pi) n &&
            forallb (fun j => negb (Qeq_bool (vget pi j) 0)) (seq 0 n)); [|discriminate].
  destruct (solve_checked n n (fund (mget T) (vget pi)) delta) as [Z|]; [|discriminate].
  inversion H; subst. eexists. split; [reflexivity|].
  intros i j Hi Hj. rewrite !mget_tab by assumption. unfold mfpt_entry, Qdiv. ring.
Qed.

(* column j of the all-pairs table = the single-sink computation with sinks = [j] *)
Theorem mfpt_all_column_agrees : forall n T pi lag M j t,
  mfpts_all n T pi lag = Some M -> mfpts_sinks n T [j] lag = Some t ->
  stochastic n (mget T) -> stationary_dist n (mget T) (vget pi) ->
  (j < n)%nat -> (forall i, (i < n)%nat -> reaches n (mget T) [j] i) ->
  forall i, (i < n)%nat -> mget M i j == vget t i.
Proof.
  intros n T pi lag M j t HM Ht Hst Hstat Hj Hreach.
  assert (Hrow : forall i, (i < n)%nat -> sumq n (mget T i) == 1) by (intros i Hi; apply (Hst i Hi)).
  pose proof (mfpt_all_sound n T pi lag M HM Hrow Hstat j Hj) as E1.
  destruct (mfpt_sink_sound n T [j] lag t Ht) as [_ E2].
  apply (mfpt_unique_fn n (mget T) [j] lag _ _ Hst Hreach E1 E2).
Qed.

(* ---- the model's stand-in for eq_probs returns a stationary distribution *)
Lemma is_stationary_sound : forall n T pi, is_stationary n T pi = true -> stationary_dist n T pi.
Proof.
  intros n T pi H. unfold is_stationary in H. apply andb_true_iff in H. destruct H as [H1 H2].
  split.
  - intros j Hj. rewrite forallb_forall in H1. apply Qeq_bool_iff. apply H1. apply in_seq. lia.
  - apply Qeq_bool_iff. exact H2.
Qed.

Theorem stationary_sound : forall n T pi, stationary n T = Some pi ->
  stationary_dist n (mget T) (vget pi).
Proof.
  intros n T pi H. unfold stationary in H.
  destruct (wfb n T); [|discriminate].
  destruct (solve_checked n 1 (stat_lhs n (mget T)) (stat_rhs n)) as [p|]; [|discriminate].
  destruct (is_stationary n (mget T) (vget (map (fun i => mget p i O) (seq 0 n)))) eqn:E; [|discriminate].
  inversion H; subst. apply is_stationary_sound. exact E.
Qed.

Theorem mfpt_all_default_sound : forall n T lag M,
  mfpts_all_default n T lag = Some M ->
  (forall i, (i < n)%nat -> sumq n (mget T i) == 1) ->
  forall j, (j < n)%nat -> mfpt_eqs n (mget T) [j] lag (fun i => mget M i j).
Proof.
  intros n T lag M H Hrow. unfold mfpts_all_default in H.
  destruct (stationary n T) as [pi|] eqn:E; [|discriminate].
  apply (mfpt_all_sound n T pi lag M H Hrow). apply stationary_sound. exact E.
Qed.

(* ---- executable forms of the hypotheses are sound (used by the Examples) *)
Lemma stochasticb_sound : forall n T, stochasticb n T = true -> stochastic n T.
Proof.
  intros n T H i Hi. unfold stochasticb in H. rewrite forallb_forall in H.
  assert (Hin : In i (seq 0 n)) by (apply in_seq; lia). specialize (H i Hin).
  apply andb_true_iff in H. destruct H as [H1 H2]. split.
  - apply Qeq_bool_iff. exact H1.
  - intros j Hj. rewrite forallb_forall in H2. apply Qle_bool_iff. apply H2. apply in_seq. lia.
Qed.

Lemma reach_set_sound : forall fuel n T A i,
  In i (reach_set fuel n T A) -> reaches n T A i.
Proof.
  induction fuel as [|f IH]; intros n T A i Hi.
  - apply reach_here. exact Hi.
  - cbn [reach_set] in Hi. apply in_app_or in Hi. destruct Hi as [Hi|Hi].
    + apply IH. exact Hi.
    + apply filter_In in Hi. destruct Hi as [_ Hc]. apply andb_true_iff in Hc.
      destruct Hc as [_ Hex]. apply existsb_exists in Hex. destruct Hex as [j [Hj Hc]].
      apply andb_true_iff in Hc. destruct Hc as [Hpos Hmem].
      apply in_seq in Hj. apply (reach_step n T A i j); [lia | | apply IH; apply memb_In; exact Hmem].
      apply Qnot_le_lt. intro Hle. apply Qle_bool_iff in Hle. rewrite Hle in Hpos. discriminate.
Qed.

Lemma all_reachb_sound : forall n T A, all_reachb n T A = true ->
  forall i, (i < n)%nat -> reaches n T A i.
Proof.
  intros n T A H i Hi. unfold all_reachb in H. rewrite forallb_forall in H.
  apply (reach_set_sound n n T A). apply memb_In. apply H. apply in_seq. lia.
Qed.

Lemma nodupb_sound : forall l, nodupb l = true -> NoDup l.
Proof.
  induction l as [|x r IH]; intros H.
  - constructor.
  - cbn [nodupb] in H. apply andb_true_iff in H. destruct H as [H1 H2]. constructor.
    + apply memb_false. destruct (memb x r); [discriminate | reflexivity].
    + apply IH. exact H2.
Qed.

Lemma disjointb_sound : forall a b, disjointb a b = true -> forall i, In i a -> ~ In i b.
Proof.
  intros a b H i Hi. unfold disjointb in H. rewrite forallb_forall in H. specialize (H i Hi).
  apply memb_false. destruct (memb i b); [discriminate | reflexivity].
Qed.

(* ---- irreducible chains meet the reachability hypothesis for every non-empty set *)
Lemma reaches_mono : forall n T A A' i, (forall a, In a A -> In a A') ->
  reaches n T A i -> reaches n T A' i.
Proof.
  intros n T A A' i Hsub Hr. induction Hr as [k Hk | k j Hj Hpos Hr IH].
  - apply reach_here. apply Hsub. exact Hk.
  - apply (reach_step n T A' k j Hj Hpos IH).
Qed.

Lemma irreducible_reaches : forall n T,
  (forall i j, (i < n)%nat -> (j < n)%nat -> reaches n T [j] i) ->
  forall A a, In a A -> (a < n)%nat -> forall i, (i < n)%nat -> reaches n T A i.
Proof.
  intros n T Hirr A a Ha Han i Hi. apply (reaches_mono n T [a] A i).
  - intros x [<-|[]]. exact Ha.
  - apply Hirr; assumption.
Qed.
