(* C18: proofs about the joint-count kernel (Model/JointCounts.v). *)
From Coq Require Import List ZArith Bool Arith Lia Permutation.
From EV Require Import JointCounts.
Import ListNotations.

(* ------------------------------------------------------------------ upd *)
Lemma length_upd {A} i (f : A -> A) l : length (upd i f l) = length l.
Proof. revert i; induction l as [|x r IH]; intros [|i]; simpl; auto. Qed.

Lemma nth_upd {A} i k (f : A -> A) l d :
  k < length l -> nth k (upd i f l) d = if i =? k then f (nth k l d) else nth k l d.
Proof.
  revert i k; induction l as [|x r IH]; intros i k Hk; simpl in Hk; [lia|].
  destruct i as [|i], k as [|k]; simpl; auto.
  apply IH; lia.
Qed.

(* ------------------------------------------------------------------ cnt *)
Lemma cnt_app {A} (p : A -> bool) l1 l2 : cnt p (l1 ++ l2) = cnt p l1 + cnt p l2.
Proof. induction l1 as [|x r IH]; simpl; auto. rewrite IH; lia. Qed.

Lemma cnt_ext {A} (p q : A -> bool) l : (forall x, In x l -> p x = q x) -> cnt p l = cnt q l.
Proof.
  induction l as [|x r IH]; intros H; simpl; auto.
  rewrite (H x (or_introl eq_refl)), IH; auto. intros y Hy; apply H; right; exact Hy.
Qed.

Lemma cnt_map {A B} (g : A -> B) (p : B -> bool) l : cnt p (map g l) = cnt (fun x => p (g x)) l.
Proof. induction l as [|x r IH]; simpl; auto. Qed.

Lemma cnt_perm {A} (p : A -> bool) l1 l2 : Permutation l1 l2 -> cnt p l1 = cnt p l2.
Proof. induction 1; simpl; lia. Qed.

Lemma cnt_zero {A} (p : A -> bool) l : (forall x, In x l -> p x = false) -> cnt p l = 0.
Proof.
  induction l as [|x r IH]; intros H; simpl; auto.
  rewrite (H x (or_introl eq_refl)), IH; auto. intros y Hy; apply H; right; exact Hy.
Qed.

Lemma cnt_zero_inv {A} (p : A -> bool) l y : cnt p l = 0 -> In y l -> p y = false.
Proof.
  induction l as [|z s IHs]; intros Hc Hy; [contradiction|].
  simpl in Hc. destruct Hy as [->|Hy].
  - destruct (p y); [lia|reflexivity].
  - apply IHs; [|exact Hy]. destruct (p z); lia.
Qed.

Lemma cnt_flat_map_single {A B} (p : B -> bool) (f : A -> list B) (a : A) l :
  NoDup l -> In a l -> (forall x, In x l -> x <> a -> cnt p (f x) = 0) ->
  cnt p (flat_map f l) = cnt p (f a).
Proof.
  induction l as [|x r IH]; intros Hnd Hin Hz; [contradiction|].
  simpl. rewrite cnt_app. inversion Hnd as [|? ? Hnotin Hnd']; subst.
  destruct Hin as [Heq|Hin].
  - subst x. rewrite (cnt_zero p (flat_map f r)); [lia|].
    intros y Hy. apply in_flat_map in Hy. destruct Hy as (x & Hx & Hy).
    assert (Hc : cnt p (f x) = 0).
    { apply Hz; [right; exact Hx|]. intros ->. contradiction. }
    apply (cnt_zero_inv p (f x)); assumption.
  - rewrite (Hz x (or_introl eq_refl)).
    + simpl. apply IH; auto. intros y Hy; apply Hz; right; exact Hy.
    + intros ->. contradiction.
Qed.

Lemma cnt_seq_nth {A} (P : A -> bool) (L : list A) d :
  cnt (fun t => P (nth t L d)) (seq 0 (length L)) = cnt P L.
Proof.
  induction L as [|x r IH]; simpl; auto.
  rewrite <- seq_shift, cnt_map. simpl. rewrite IH. reflexivity.
Qed.

(* ------------------------------------------------------------------ one increment *)
Definition inside (jc : tbl4) (a b i j : nat) : Prop :=
  a < length jc /\ b < length (nth a jc []) /\ i < length (nth b (nth a jc []) []) /\
  j < length (nth i (nth b (nth a jc []) []) []).

Lemma get4_incr4 jc a' b' i' j' a b i j :
  inside jc a b i j ->
  get4 (incr4 jc a' b' i' j') a b i j =
  get4 jc a b i j + (if (a' =? a) && (b' =? b) && (i' =? i) && (j' =? j) then 1 else 0).
Proof.
  intros (Ha & Hb & Hi & Hj). unfold get4, incr4.
  rewrite (nth_upd a' a) by exact Ha. destruct (a' =? a); cbn [andb]; [|lia].
  rewrite (nth_upd b' b) by exact Hb. destruct (b' =? b); cbn [andb]; [|lia].
  rewrite (nth_upd i' i) by exact Hi. destruct (i' =? i); cbn [andb]; [|lia].
  rewrite (nth_upd j' j) by exact Hj. destruct (j' =? j); lia.
Qed.

Lemma inside_incr4 jc a' b' i' j' a b i j :
  inside jc a b i j -> inside (incr4 jc a' b' i' j') a b i j.
Proof.
  intros (Ha & Hb & Hi & Hj). unfold inside, incr4.
  rewrite length_upd. split; [exact Ha|].
  rewrite (nth_upd a' a) by exact Ha. destruct (a' =? a); [|auto].
  rewrite length_upd. split; [exact Hb|].
  rewrite (nth_upd b' b) by exact Hb. destruct (b' =? b); [|auto].
  rewrite length_upd. split; [exact Hi|].
  rewrite (nth_upd i' i) by exact Hi. destruct (i' =? i); [|auto].
  rewrite length_upd. exact Hj.
Qed.

(* which elementary steps write to cell (a, b, i, j) *)
Definition hits (X Y : list (list Z)) (a b i j : nat) (e : event) : bool :=
  let '(a', b', t) := e in
  (a' =? a) && (b' =? b) && (Z.to_nat (cell X t a') =? i) && (Z.to_nat (cell Y t b') =? j).

Lemma inside_run X Y sched : forall jc0 a b i j,
  inside jc0 a b i j -> inside (run X Y sched jc0) a b i j.
Proof.
  unfold run. induction sched as [|e s IH]; intros jc0 a b i j Hin; simpl; auto.
  apply IH. destruct e as [[a' b'] t]. apply inside_incr4; exact Hin.
Qed.

(* The table after any sequence of elementary steps: every cell holds its initial value plus the
   number of steps that address it. *)
Lemma get4_run X Y sched : forall jc0 a b i j,
  inside jc0 a b i j ->
  get4 (run X Y sched jc0) a b i j = get4 jc0 a b i j + cnt (hits X Y a b i j) sched.
Proof.
  unfold run. induction sched as [|e s IH]; intros jc0 a b i j Hin; simpl; [lia|].
  rewrite IH.
  - destruct e as [[a' b'] t]. unfold step. rewrite get4_incr4 by exact Hin. simpl. lia.
  - destruct e as [[a' b'] t]. apply inside_incr4; exact Hin.
Qed.

(* ------------------------------------------------------------------ zeros *)
Lemma nth_repeat {A} (x d : A) n k : k < n -> nth k (repeat x n) d = x.
Proof. revert k; induction n as [|n IH]; intros [|k] Hk; simpl; try lia; auto. apply IH; lia. Qed.

Lemma inside_zeros4 fa fb n m a b i j :
  a < fa -> b < fb -> i < n -> j < m -> inside (zeros4 fa fb n m) a b i j.
Proof.
  intros Ha Hb Hi Hj. unfold inside, zeros4, zeros2.
  rewrite repeat_length, (nth_repeat _ _ fa a Ha), repeat_length, (nth_repeat _ _ fb b Hb),
    repeat_length, (nth_repeat _ _ n i Hi), repeat_length. auto.
Qed.

Lemma get4_zeros4 fa fb n m a b i j :
  a < fa -> b < fb -> i < n -> j < m -> get4 (zeros4 fa fb n m) a b i j = 0.
Proof.
  intros Ha Hb Hi Hj. unfold get4, zeros4, zeros2.
  rewrite (nth_repeat _ _ fa a Ha), (nth_repeat _ _ fb b Hb), (nth_repeat _ _ n i Hi),
    (nth_repeat _ _ m j Hj). reflexivity.
Qed.

(* ------------------------------------------------------------------ the sequential order *)
Lemma hits_serial X Y fa fb T a b i j :
  a < fa -> b < fb ->
  cnt (hits X Y a b i j) (serial_events fa fb T) =
  cnt (fun t => (Z.to_nat (cell X t a) =? i) && (Z.to_nat (cell Y t b) =? j)) (seq 0 T).
Proof.
  intros Ha Hb. unfold serial_events.
  rewrite (cnt_flat_map_single _ _ a).
  - rewrite (cnt_flat_map_single _ _ b).
    + rewrite cnt_map. apply cnt_ext. intros t _. simpl. rewrite !Nat.eqb_refl. reflexivity.
    + apply seq_NoDup.
    + apply in_seq; lia.
    + intros b' _ Hne. apply cnt_zero. intros e He. apply in_map_iff in He.
      destruct He as (t & <- & _). simpl.
      replace (b' =? b) with false by (symmetry; apply Nat.eqb_neq; exact Hne).
      rewrite andb_false_r. reflexivity.
  - apply seq_NoDup.
  - apply in_seq; lia.
  - intros a' _ Hne. apply cnt_zero. intros e He. apply in_flat_map in He.
    destruct He as (b' & _ & He). apply in_map_iff in He. destruct He as (t & <- & _). simpl.
    replace (a' =? a) with false by (symmetry; apply Nat.eqb_neq; exact Hne). reflexivity.
Qed.

(* ------------------------------------------------------------------ validity *)
Lemma valid_side_spec X n :
  valid_side X n = true <->
  rect X = true /\ concat X <> [] /\ (forall v, In v (concat X) -> (0 <= v < n)%Z).
Proof.
  unfold valid_side. rewrite !andb_true_iff, negb_true_iff, forallb_forall. split.
  - intros ((Hr & Hne) & Hall). split; [exact Hr|]. split.
    + destruct (concat X); [discriminate|discriminate].
    + intros v Hv. specialize (Hall v Hv). apply andb_true_iff in Hall. lia.
  - intros (Hr & Hne & Hall). split; [split; [exact Hr|]|].
    + destruct (concat X); [congruence|reflexivity].
    + intros v Hv. specialize (Hall v Hv). apply andb_true_iff. lia.
Qed.

Lemma cell_in_concat X t a :
  rect X = true -> t < length X -> a < width X -> In (cell X t a) (concat X).
Proof.
  intros Hr Ht Ha. unfold cell.
  assert (Hrow : In (nth t X []) X) by (apply nth_In; exact Ht).
  unfold rect in Hr. rewrite forallb_forall in Hr. specialize (Hr _ Hrow).
  apply Nat.eqb_eq in Hr.
  apply in_concat. exists (nth t X []). split; [exact Hrow|].
  apply nth_In. lia.
Qed.

Lemma cell_valid X n t a :
  valid_side X n = true -> t < length X -> a < width X -> (0 <= cell X t a < n)%Z.
Proof.
  intros Hv Ht Ha. apply valid_side_spec in Hv. destruct Hv as (Hr & _ & Hall).
  apply Hall. apply cell_in_concat; assumption.
Qed.

(* ------------------------------------------------------------------ exactness *)
Definition schedule_ok (sched : nat -> nat -> nat -> list event) : Prop :=
  forall fa fb T, Permutation (sched fa fb T) (serial_events fa fb T).

Lemma serial_schedule_ok : schedule_ok serial_events.
Proof. intros fa fb T. apply Permutation_refl. Qed.

Lemma bincount_some sched X Y na nb jc :
  matrix_bincount2d_sched sched X Y na nb = Some jc ->
  length X = length Y /\ valid_side X na = true /\ valid_side Y nb = true /\
  jc = run X Y (sched (width X) (width Y) (length X))
           (zeros4 (width X) (width Y) (Z.to_nat na) (Z.to_nat nb)).
Proof.
  unfold matrix_bincount2d_sched.
  destruct ((length X =? length Y) && valid_side X na && valid_side Y nb) eqn:E; [|discriminate].
  intros H. inversion H. apply andb_true_iff in E. destruct E as (E & Hy).
  apply andb_true_iff in E. destruct E as (Hl & Hx). apply Nat.eqb_eq in Hl. auto.
Qed.

Theorem jc_exact_sched sched X Y na nb jc a b i j :
  schedule_ok sched ->
  matrix_bincount2d_sched sched X Y na nb = Some jc ->
  a < width X -> b < width Y -> (0 <= i < na)%Z -> (0 <= j < nb)%Z ->
  get4 jc a b (Z.to_nat i) (Z.to_nat j) = count_frames X Y a b i j.
Proof.
  intros Hs Hsome Ha Hb Hi Hj.
  apply bincount_some in Hsome. destruct Hsome as (Hlen & Hvx & Hvy & ->).
  rewrite get4_run by (apply inside_zeros4; lia).
  rewrite get4_zeros4 by lia.
  rewrite (cnt_perm _ _ _ (Hs _ _ _)).
  rewrite hits_serial by assumption.
  unfold count_frames. simpl. apply cnt_ext. intros t Ht. apply in_seq in Ht.
  pose proof (cell_valid X na t a Hvx ltac:(lia) Ha) as Hcx.
  pose proof (cell_valid Y nb t b Hvy ltac:(lia) Hb) as Hcy.
  f_equal.
  - destruct (Z.eqb_spec (cell X t a) i) as [->|Hne]; [apply Nat.eqb_refl|].
    apply Nat.eqb_neq. lia.
  - destruct (Z.eqb_spec (cell Y t b) j) as [->|Hne]; [apply Nat.eqb_refl|].
    apply Nat.eqb_neq. lia.
Qed.

Theorem jc_exact X Y na nb jc a b i j :
  matrix_bincount2d X Y na nb = Some jc ->
  a < width X -> b < width Y -> (0 <= i < na)%Z -> (0 <= j < nb)%Z ->
  get4 jc a b (Z.to_nat i) (Z.to_nat j) = count_frames X Y a b i j.
Proof. apply jc_exact_sched. apply serial_schedule_ok. Qed.

(* acceptance does not depend on the schedule, and any two schedules give the same cell values *)
Theorem jc_schedule_independent s1 s2 X Y na nb jc1 :
  schedule_ok s1 -> schedule_ok s2 ->
  matrix_bincount2d_sched s1 X Y na nb = Some jc1 ->
  exists jc2, matrix_bincount2d_sched s2 X Y na nb = Some jc2 /\
    forall a b i j, a < width X -> b < width Y -> (0 <= i < na)%Z -> (0 <= j < nb)%Z ->
      get4 jc2 a b (Z.to_nat i) (Z.to_nat j) = get4 jc1 a b (Z.to_nat i) (Z.to_nat j).
Proof.
  intros H1 H2 Hsome.
  pose proof (bincount_some _ _ _ _ _ _ Hsome) as (Hlen & Hvx & Hvy & _).
  assert (E : exists jc2, matrix_bincount2d_sched s2 X Y na nb = Some jc2).
  { unfold matrix_bincount2d_sched. rewrite Hlen, Nat.eqb_refl, Hvx, Hvy. simpl. eauto. }
  destruct E as (jc2 & E). exists jc2. split; [exact E|].
  intros a b i j Ha Hb Hi Hj.
  rewrite (jc_exact_sched s2 X Y na nb jc2 a b i j H2 E Ha Hb Hi Hj).
  rewrite (jc_exact_sched s1 X Y na nb jc1 a b i j H1 Hsome Ha Hb Hi Hj). reflexivity.
Qed.

(* two different iterations of the parallel loop never address the same cell *)
Theorem jc_iterations_disjoint X Y a1 b1 t1 a2 b2 t2 a b i j :
  a1 <> a2 -> hits X Y a b i j (a1, b1, t1) && hits X Y a b i j (a2, b2, t2) = false.
Proof.
  intros Hne. simpl.
  destruct (Nat.eqb_spec a1 a) as [->|_]; simpl; [|reflexivity].
  destruct (Nat.eqb_spec a2 a) as [->|_]; simpl; [congruence|].
  apply andb_false_r.
Qed.

(* ------------------------------------------------------------------ rejection *)
Theorem jc_rejects sched X Y na nb :
  (length X <> length Y
   \/ (exists v, In v (concat X) /\ (v < 0 \/ na <= v)%Z)
   \/ (exists v, In v (concat Y) /\ (v < 0 \/ nb <= v)%Z)) ->
  matrix_bincount2d_sched sched X Y na nb = None.
Proof.
  intros H. destruct (matrix_bincount2d_sched sched X Y na nb) as [jc|] eqn:E; [|reflexivity].
  exfalso. apply bincount_some in E. destruct E as (Hlen & Hvx & Hvy & _).
  apply valid_side_spec in Hvx. apply valid_side_spec in Hvy.
  destruct H as [H|[(v & Hin & Hv)|(v & Hin & Hv)]].
  - contradiction.
  - destruct Hvx as (_ & _ & Hall). specialize (Hall v Hin). lia.
  - destruct Hvy as (_ & _ & Hall). specialize (Hall v Hin). lia.
Qed.

Theorem jc_accepts_iff sched X Y na nb :
  (exists jc, matrix_bincount2d_sched sched X Y na nb = Some jc) <->
  length X = length Y /\
  (rect X = true /\ concat X <> [] /\ forall v, In v (concat X) -> (0 <= v < na)%Z) /\
  (rect Y = true /\ concat Y <> [] /\ forall v, In v (concat Y) -> (0 <= v < nb)%Z).
Proof.
  split.
  - intros (jc & E). apply bincount_some in E. destruct E as (Hl & Hx & Hy & _).
    rewrite <- !valid_side_spec. auto.
  - intros (Hl & Hx & Hy). apply valid_side_spec in Hx. apply valid_side_spec in Hy.
    unfold matrix_bincount2d_sched. rewrite Hl, Nat.eqb_refl, Hx, Hy. simpl. eauto.
Qed.

(* ------------------------------------------------------------------ frames as a list of pairs *)
Lemma count_frames_pairs X Y a b i j :
  length X = length Y -> count_frames X Y a b i j = count_pairs (combine X Y) a b i j.
Proof.
  intros Hlen. unfold count_frames, count_pairs.
  rewrite <- (cnt_seq_nth _ (combine X Y) ([], [])).
  rewrite combine_length, <- Hlen, Nat.min_id.
  apply cnt_ext. intros t _. rewrite combine_nth by exact Hlen. reflexivity.
Qed.

Lemma combine_app' {A B} (l1 l1' : list A) (l2 l2' : list B) :
  length l1 = length l2 -> combine (l1 ++ l1') (l2 ++ l2') = combine l1 l2 ++ combine l1' l2'.
Proof.
  revert l2; induction l1 as [|x r IH]; intros [|y s] H; simpl in *; try lia; auto.
  f_equal. apply IH. lia.
Qed.

(* frame reordering: the same permutation applied to both sides *)
Theorem jc_perm X Y X' Y' a b i j :
  length X = length Y -> length X' = length Y' ->
  Permutation (combine X Y) (combine X' Y') ->
  count_frames X Y a b i j = count_frames X' Y' a b i j.
Proof.
  intros H1 H2 Hp. rewrite !count_frames_pairs by assumption. apply cnt_perm. exact Hp.
Qed.

(* pooling: frames of concatenated trajectories *)
Theorem jc_concat X1 Y1 X2 Y2 a b i j :
  length X1 = length Y1 -> length X2 = length Y2 ->
  count_frames (X1 ++ X2) (Y1 ++ Y2) a b i j = count_frames X1 Y1 a b i j + count_frames X2 Y2 a b i j.
Proof.
  intros H1 H2. rewrite !count_frames_pairs; try assumption.
  - unfold count_pairs. rewrite combine_app' by exact H1. apply cnt_app.
  - rewrite !app_length. lia.
Qed.

(* relabelling the states of one side by an injective map permutes the table *)
Theorem jc_relabel_x (s : Z -> Z) X Y a b i j :
  (forall u v, s u = s v -> u = v) -> rect X = true -> a < width X ->
  count_frames (map (map s) X) Y a b (s i) j = count_frames X Y a b i j.
Proof.
  intros Hinj Hr Ha. unfold count_frames. rewrite map_length. apply cnt_ext.
  intros t Ht. apply in_seq in Ht. f_equal.
  unfold cell.
  assert (Hrow : length (nth t X []) = width X).
  { unfold rect in Hr. rewrite forallb_forall in Hr. apply Nat.eqb_eq. apply Hr. apply nth_In. lia. }
  replace (nth t (map (map s) X) []) with (map s (nth t X [])).
  - rewrite (nth_indep _ 0%Z (s 0%Z)) by (rewrite map_length; lia). rewrite map_nth.
    destruct (Z.eqb_spec (nth a (nth t X []) 0%Z) i) as [->|Hne].
    + apply Z.eqb_refl.
    + apply Z.eqb_neq. intros Heq. apply Hne. apply Hinj. exact Heq.
  - change (@nil Z) with (map s []) at 2. rewrite map_nth. reflexivity.
Qed.

Theorem jc_relabel_y (s : Z -> Z) X Y a b i j :
  (forall u v, s u = s v -> u = v) -> rect Y = true -> b < width Y -> length X = length Y ->
  count_frames X (map (map s) Y) a b i (s j) = count_frames X Y a b i j.
Proof.
  intros Hinj Hr Hb Hlen. unfold count_frames. apply cnt_ext.
  intros t Ht. apply in_seq in Ht. f_equal.
  unfold cell.
  assert (Hrow : length (nth t Y []) = width Y).
  { unfold rect in Hr. rewrite forallb_forall in Hr. apply Nat.eqb_eq. apply Hr. apply nth_In. lia. }
  replace (nth t (map (map s) Y) []) with (map s (nth t Y [])).
  - rewrite (nth_indep _ 0%Z (s 0%Z)) by (rewrite map_length; lia). rewrite map_nth.
    destruct (Z.eqb_spec (nth b (nth t Y []) 0%Z) j) as [->|Hne].
    + apply Z.eqb_refl.
    + apply Z.eqb_neq. intros Heq. apply Hne. apply Hinj. exact Heq.
  - change (@nil Z) with (map s []) at 2. rewrite map_nth. reflexivity.
Qed.

(* a data set against itself: the table of (b, a) is the transpose of the table of (a, b),
   and the table of (a, a) is diagonal *)
Theorem jc_self_symmetric X a b i j : count_frames X X b a j i = count_frames X X a b i j.
Proof. unfold count_frames. apply cnt_ext. intros t _. apply andb_comm. Qed.

Theorem jc_self_diagonal X a i j : i <> j -> count_frames X X a a i j = 0.
Proof.
  intros Hne. unfold count_frames. apply cnt_zero. intros t _.
  destruct (Z.eqb_spec (cell X t a) i) as [->|_]; simpl; [|reflexivity].
  apply Z.eqb_neq. exact Hne.
Qed.

(* ------------------------------------------------------------------ pooled tables (mi_matrix) *)
Lemma length_zipw {A} (f : A -> A -> A) l1 l2 : length (zipw f l1 l2) = Nat.min (length l1) (length l2).
Proof. revert l2; induction l1 as [|x r IH]; intros [|y s]; simpl; auto. Qed.

Lemma nth_zipw {A} (f : A -> A -> A) l1 l2 k d d1 d2 :
  k < length l1 -> k < length l2 -> nth k (zipw f l1 l2) d = f (nth k l1 d1) (nth k l2 d2).
Proof.
  revert l2 k; induction l1 as [|x r IH]; intros [|y s] [|k] H1 H2; simpl in *; try lia; auto.
  apply IH; lia.
Qed.

Lemma get4_add4 J1 J2 a b i j :
  inside J1 a b i j -> inside J2 a b i j ->
  get4 (add4 J1 J2) a b i j = get4 J1 a b i j + get4 J2 a b i j /\ inside (add4 J1 J2) a b i j.
Proof.
  intros (Ha1 & Hb1 & Hi1 & Hj1) (Ha2 & Hb2 & Hi2 & Hj2). unfold get4, add4, inside.
  rewrite length_zipw.
  rewrite (nth_zipw _ J1 J2 a [] [] []) by assumption.
  rewrite length_zipw.
  rewrite (nth_zipw _ (nth a J1 []) (nth a J2 []) b [] [] []) by assumption.
  rewrite length_zipw.
  rewrite (nth_zipw _ (nth b (nth a J1 []) []) (nth b (nth a J2 []) []) i [] [] []) by assumption.
  rewrite length_zipw.
  rewrite (nth_zipw _ _ _ j 0 0 0) by assumption.
  repeat split; lia.
Qed.

Definition pooled_spec (XYs : list (list (list Z) * list (list Z))) (a b : nat) (i j : Z) : nat :=
  fold_right (fun XY acc => count_frames (fst XY) (snd XY) a b i j + acc) 0 XYs.

Lemma bincount_inside X Y na nb jc a b i j :
  matrix_bincount2d X Y na nb = Some jc ->
  a < width X -> b < width Y -> (0 <= i < na)%Z -> (0 <= j < nb)%Z ->
  inside jc a b (Z.to_nat i) (Z.to_nat j).
Proof.
  intros E Ha Hb Hi Hj. apply bincount_some in E. destruct E as (_ & _ & _ & ->).
  apply inside_run. apply inside_zeros4; lia.
Qed.

Lemma pool_from_spec X0 Y0 nx ny a b i j :
  a < width X0 -> b < width Y0 -> (0 <= i < nx)%Z -> (0 <= j < ny)%Z ->
  forall rest acc J,
  inside acc a b (Z.to_nat i) (Z.to_nat j) ->
  pool_from X0 Y0 acc rest nx ny = Some J ->
  get4 J a b (Z.to_nat i) (Z.to_nat j) =
  get4 acc a b (Z.to_nat i) (Z.to_nat j) + pooled_spec rest a b i j.
Proof.
  intros Ha Hb Hi Hj. induction rest as [|[X Y] rest IH]; intros acc J Hin E; simpl in *.
  - inversion E. lia.
  - destruct (matrix_bincount2d X Y nx ny) as [jc|] eqn:Ejc; [|discriminate].
    destruct (same_shape X0 Y0 X Y) eqn:Es; [|discriminate].
    unfold same_shape in Es. apply andb_true_iff in Es. destruct Es as (Ex & Ey).
    apply Nat.eqb_eq in Ex. apply Nat.eqb_eq in Ey.
    assert (Hin2 : inside jc a b (Z.to_nat i) (Z.to_nat j)).
    { apply (bincount_inside X Y nx ny); auto; lia. }
    destruct (get4_add4 acc jc a b _ _ Hin Hin2) as (Hget & Hin3).
    rewrite (IH _ _ Hin3 E), Hget.
    rewrite (jc_exact X Y nx ny jc a b i j Ejc) by (auto; lia). lia.
Qed.

(* mi_matrix: the table handed to mutual_information holds, for every cell, the sum over the
   trajectories of the exact per-trajectory counts *)
Theorem jc_pooled X0 Y0 rest nx ny J a b i j :
  pooled_counts ((X0, Y0) :: rest) nx ny = Some J ->
  a < width X0 -> b < width Y0 -> (0 <= i < nx)%Z -> (0 <= j < ny)%Z ->
  get4 J a b (Z.to_nat i) (Z.to_nat j) = pooled_spec ((X0, Y0) :: rest) a b i j.
Proof.
  intros E Ha Hb Hi Hj. simpl in E.
  destruct (matrix_bincount2d X0 Y0 nx ny) as [jc|] eqn:Ejc; [|discriminate].
  rewrite (pool_from_spec X0 Y0 nx ny a b i j Ha Hb Hi Hj rest jc J); auto.
  - rewrite (jc_exact X0 Y0 nx ny jc a b i j Ejc) by auto. reflexivity.
  - apply (bincount_inside X0 Y0 nx ny); auto.
Qed.

(* ... which is the count over the concatenation of all trajectories *)
Theorem pooled_spec_concat XYs a b i j :
  Forall (fun XY => length (fst XY) = length (snd XY)) XYs ->
  pooled_spec XYs a b i j =
  count_frames (concat (map fst XYs)) (concat (map snd XYs)) a b i j.
Proof.
  induction 1 as [|[X Y] rest Hl Hrest IH]; simpl.
  - reflexivity.
  - simpl in Hl. rewrite jc_concat; [rewrite IH; reflexivity|exact Hl|].
    clear - Hrest. induction Hrest as [|[X' Y'] r Hl' _ IHr]; simpl; auto.
    simpl in Hl'. rewrite !app_length. lia.
Qed.

(* every accepted trajectory has equally long sides, differing feature counts are rejected *)
Theorem pooled_rejects_shape X0 Y0 X Y pre post nx ny :
  width X <> width X0 \/ width Y <> width Y0 ->
  pooled_counts ((X0, Y0) :: pre ++ (X, Y) :: post) nx ny = None.
Proof.
  intros Hne. simpl. destruct (matrix_bincount2d X0 Y0 nx ny) as [jc|]; [|reflexivity].
  generalize jc. clear jc. induction pre as [|[X' Y'] pre IH]; intros acc; simpl.
  - destruct (matrix_bincount2d X Y nx ny); [|reflexivity].
    unfold same_shape.
    destruct Hne as [Hne|Hne]; apply Nat.eqb_neq in Hne; rewrite Hne; simpl;
      [reflexivity|apply andb_false_r || (rewrite andb_false_r; reflexivity)].
  - destruct (matrix_bincount2d X' Y' nx ny); [|reflexivity].
    destruct (same_shape X0 Y0 X' Y'); [apply IH|reflexivity].
Qed.

(* ------------------------------------------------------------------ joint_counts wrapper *)
Lemma fold_max_ge l : forall x,
  (x <= fold_left Z.max l x)%Z /\ forall v, In v l -> (v <= fold_left Z.max l x)%Z.
Proof.
  induction l as [|y r IH]; intros x; simpl.
  - split; [lia|intros v []].
  - destruct (IH (Z.max x y)) as (H1 & H2). split; [lia|].
    intros v [->|Hv]; [lia|auto].
Qed.

(* default state counts: every id is below max+1, so only negative ids can be rejected *)
Theorem default_n_covers X n : default_n None X = Some n -> forall v, In v (concat X) -> (v < n)%Z.
Proof.
  unfold default_n, zmax_list. destruct (concat X) as [|x r] eqn:E; [discriminate|].
  simpl. intros H v Hv. inversion H; subst. clear H.
  assert (v <= fold_left Z.max r x)%Z; [|lia].
  destruct (fold_max_ge r x) as (H1 & H2). destruct Hv as [->|Hv]; auto.
Qed.

Theorem joint_counts_exact X Y nx ny n_x n_y jc a b i j :
  joint_counts X (Some Y) nx ny = Some jc ->
  default_n nx X = Some n_x -> default_n ny Y = Some n_y ->
  a < width X -> b < width Y -> (0 <= i < n_x)%Z -> (0 <= j < n_y)%Z ->
  get4 jc a b (Z.to_nat i) (Z.to_nat j) = count_frames X Y a b i j.
Proof.
  unfold joint_counts. intros E Hx Hy. rewrite Hx, Hy in E. apply jc_exact. exact E.
Qed.

Theorem joint_counts_self_exact X nx ny n_x jc a b i j :
  joint_counts X None nx ny = Some jc -> default_n nx X = Some n_x ->
  a < width X -> b < width X -> (0 <= i < n_x)%Z -> (0 <= j < n_x)%Z ->
  get4 jc a b (Z.to_nat i) (Z.to_nat j) = count_frames X X a b i j.
Proof.
  unfold joint_counts. intros E Hx. rewrite Hx in E. apply jc_exact. exact E.
Qed.
