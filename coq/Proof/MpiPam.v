(* C14: the distributed PAM (k-medoids) step is the serial step on the proposal's global frame. *)
From Coq Require Import List ZArith QArith Bool Arith Lia Permutation.
From EV Require Import Cluster Mpi MpiBase MpiIndex MpiKc MpiProofs.
Import ListNotations.
Local Open Scope nat_scope.

Lemma Qlt_b_iff_eq : forall a b c d : Q, ((a < b)%Q <-> (c < d)%Q) -> Qlt_b a b = Qlt_b c d.
Proof. intros a b c d H. apply eq_true_iff_eq. rewrite !Qlt_b_true. assumption. Qed.

Lemma div_lt_iff : forall (a b : Q) n, 0 < n ->
  ((a / inject_Z (Z.of_nat n) < b / inject_Z (Z.of_nat n))%Q <-> (a < b)%Q).
Proof.
  intros a b n Hn. unfold Qdiv. apply Qmult_lt_r. apply Qinv_lt_0_compat.
  change 0%Q with (inject_Z 0). rewrite <- Zlt_Qlt. lia.
Qed.

Definition sq (x : fr) : Q := (dist x * dist x)%Q.

Lemma sumsq_sumq : forall l, sumsq l = sumq (map sq l).
Proof.
  induction l as [|x r IH]; [reflexivity|].
  unfold sumsq in *. cbn [fold_right map]. rewrite sumq_cons, <- IH. reflexivity.
Qed.

Lemma sq_cost_scatter : forall P lens (h : list fr), 1 <= P -> length h = sum_nat lens ->
  (sq_cost (scatter P lens h) == sumsq h / inject_Z (Z.of_nat (length h)))%Q.
Proof.
  intros P lens h HP Hh. unfold sq_cost. fold sq. rewrite <- scatter_map.
  rewrite striped_mean_exact by (assumption || (rewrite map_length; assumption)).
  unfold mean. rewrite map_length, sumsq_sumq. reflexivity.
Qed.

Lemma map_replace_nth : forall {A B} (f : A -> B) l i x, map f (replace_nth i x l) = replace_nth i (f x) (map f l).
Proof.
  intros A B f l; induction l as [|y r IH]; intros i x; [destruct i; reflexivity|].
  destruct i; cbn [replace_nth map]; [reflexivity|]. rewrite IH. reflexivity.
Qed.

Section Pam.
  Variable D : nat -> nat -> Q.
  Variables (P : nat) (lens : list nat).
  Hypothesis HP : 1 <= P.

  (* one proposal (r, i) for cluster cid: the frame is m, whose global id is fid m *)
  Theorem pam_update_mpi_refines : forall cp cids g cid r i m,
    length g = sum_nat lens -> 0 < length g -> r < P ->
    nth_error (local_of P r lens g) i = Some m ->
    let s' := pam_update D (cids, g) cid (fid m) in
    let accept := Qlt_b (sumsq (map (pam_frame D cid (fid m) (replace_nth cid (fid m) cids)) g)) (sumsq g) in
    pam_update_mpi D (mkds cp cids (scatter P lens g)) cid (r, i) =
      Some (mkds (if accept then replace_nth cid (r, i) cp else cp) (fst s') (scatter P lens (snd s'))).
  Proof.
    intros cp cids g cid r i m Hg Hpos Hr Hnth. cbn zeta.
    unfold pam_update_mpi, pam_update. cbn [dloc dctr dcid fst snd].
    rewrite scatter_nth by assumption. rewrite Hnth.
    set (cs' := replace_nth cid (fid m) cids).
    set (fs' := map (pam_frame D cid (fid m) cs') g).
    assert (Hfs : map (map (pam_frame D cid (fid m) cs')) (scatter P lens g) = scatter P lens fs').
    { unfold fs'. rewrite scatter_map. reflexivity. }
    rewrite Hfs.
    assert (Hl' : length fs' = sum_nat lens) by (unfold fs'; rewrite map_length; assumption).
    assert (Hcmp : Qlt_b (sq_cost (scatter P lens fs')) (sq_cost (scatter P lens g)) = Qlt_b (sumsq fs') (sumsq g)).
    { apply Qlt_b_iff_eq. rewrite !sq_cost_scatter by assumption.
      replace (length fs') with (length g) by congruence. apply div_lt_iff. assumption. }
    rewrite Hcmp. destruct (Qlt_b (sumsq fs') (sumsq g)); reflexivity.
  Qed.

  (* the centre pairs keep naming the serial centres *)
  Theorem pam_update_mpi_ctrs_ok : forall cp cids g cid r i m,
    fids_ok lens g -> ctrs_ok P lens cp cids ->
    nth_error (local_of P r lens g) i = Some m ->
    ctrs_ok P lens (replace_nth cid (r, i) cp) (replace_nth cid (fid m) cids).
  Proof.
    intros cp cids g cid r i m Hfid Hc Hnth. unfold ctrs_ok in *.
    rewrite !map_replace_nth, Hc. f_equal.
    unfold convert_local, local_ids. cbn [fst snd]. rewrite <- Hfid, local_of_map.
    apply map_nth_error. assumption.
  Qed.
End Pam.
