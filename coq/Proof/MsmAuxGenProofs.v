(* C16 round 3: Gen/MsmAuxGen.v (regenerated from timescales.calc_imp_times and MSM.save / MSM.load)
   equals the hand-written model: the formula of Proof/MsmReal.v and the tables of Model/MsmIO.v. *)
From Coq Require Import String.
From Coq Require Import List ZArith Reals Lra Bool Lia.
From EV Require Import MsmAuxBase MsmAuxGen MsmIO MsmReal.
Import ListNotations.

(* ------------------------------------------------------------------ -lag_time / np.log(e_vals[1:]) *)
Lemma r_slice_from_1 (v : list R) : r_slice_from v 1 = tl v.
Proof. unfold r_slice_from. cbn [Z.ltb Z.compare]. destruct v; reflexivity. Qed.

Theorem gen_imp_formula_model : forall (lag : Z) (e_vals : list R),
  gen_imp_formula lag e_vals = imp_times (IZR lag) e_vals.
Proof.
  intros lag ev. unfold gen_imp_formula, imp_times, r_sdiv, r_log.
  rewrite r_slice_from_1, map_map. apply map_ext. intro lam.
  unfold imp_time. rewrite opp_IZR. reflexivity.
Qed.

(* entry k of the code's result is -lag / ln(lambda_{k+1}): the stationary eigenvalue is dropped *)
Theorem gen_imp_formula_nth : forall (lag : Z) ev k, (S k < List.length ev)%nat ->
  nth k (gen_imp_formula lag ev) 0%R = (- IZR lag / ln (nth (S k) ev 1))%R.
Proof. intros lag ev k H. rewrite gen_imp_formula_model. apply imp_times_nth. exact H. Qed.

Theorem gen_imp_formula_length : forall (lag : Z) ev,
  List.length (gen_imp_formula lag ev) = pred (List.length ev).
Proof. intros. rewrite gen_imp_formula_model. apply imp_times_length. Qed.

Theorem gen_imp_formula_positive : forall (lag : Z) ev, (0 < lag)%Z ->
  Forall (fun lam => (0 < lam < 1)%R) (tl ev) -> Forall (fun t => (0 < t)%R) (gen_imp_formula lag ev).
Proof.
  intros lag ev Hl H. rewrite gen_imp_formula_model. apply imp_times_all_positive; [|exact H].
  apply IZR_lt. exact Hl.
Qed.

(* ------------------------------------------------------------------ save / load tables *)
Theorem gen_tables_model :
  gen_default_fnames = default_fnames /\ gen_save_table = save_table /\ gen_load_table = load_table /\
  gen_manifest_save = manifest_name /\ gen_manifest_load = manifest_name.
Proof. repeat split; reflexivity. Qed.

Theorem gen_tables_ok :
  tables_ok gen_default_fnames gen_manifest_save gen_manifest_load gen_save_table gen_load_table = true.
Proof. vm_compute. reflexivity. Qed.

Lemma attr_eqb_eq a b : attr_eqb a b = true <-> a = b.
Proof. destruct a, b; cbn; split; intro H; try reflexivity; try discriminate. Qed.

Lemma filter_single {A} (f : A -> bool) l x : filter f l = [x] -> In x l /\ f x = true /\
  forall y, In y l -> f y = true -> y = x.
Proof.
  intro H. assert (Hin : In x (filter f l)) by (rewrite H; left; reflexivity).
  apply filter_In in Hin. destruct Hin as [Hi Hf]. repeat split; [exact Hi|exact Hf|].
  intros y Hy Hfy. assert (Hy' : In y (filter f l)) by (apply filter_In; split; assumption).
  rewrite H in Hy'. destruct Hy' as [E|[]]. symmetry. exact E.
Qed.

Lemma all_attrs_complete a : In a all_attrs.
Proof. destruct a; cbn; tauto. Qed.

(* What tables_ok means, for ANY tables (so also for whatever the translator produces next time):
   every attribute is written by exactly one row and read by exactly one row, both go through the
   same manifest key, that key has a file name, the reader parses the writer's format and the writer
   keeps every float64 exactly (>= 17 significant digits). *)
Theorem tables_ok_sound : forall names ms ml sv ld,
  tables_ok names ms ml sv ld = true ->
  ms = ml /\
  forall a, exists s l,
    In s sv /\ In l ld /\ sv_attr s = a /\ ld_attr l = a /\
    (forall s', In s' sv -> sv_attr s' = a -> s' = s) /\
    (forall l', In l' ld -> ld_attr l' = a -> l' = l) /\
    sv_key s = ld_key l /\ compatible (sv_writer s) (ld_reader l) = true /\
    exact_writer (sv_writer s) = true /\ mode_ok (sv_writer s) (sv_mode s) = true /\
    exists f, lookup (sv_key s) names = Some f.
Proof.
  intros names ms ml sv ld H. unfold tables_ok in H.
  apply andb_prop in H. destruct H as [H Hm]. apply andb_prop in H. destruct H as [Hall _].
  split; [apply String.eqb_eq; exact Hm|].
  intro a. rewrite forallb_forall in Hall. specialize (Hall a (all_attrs_complete a)).
  unfold attr_roundtrips in Hall.
  destruct (save_rows_of a sv) as [|s [|? ?]] eqn:Es; try discriminate.
  destruct (load_rows_of a ld) as [|l [|? ?]] eqn:El; try discriminate.
  apply filter_single in Es. destruct Es as [Hs [Has Hus]].
  apply filter_single in El. destruct El as [Hl [Hal Hul]].
  apply attr_eqb_eq in Has. apply attr_eqb_eq in Hal.
  repeat (apply andb_prop in Hall; destruct Hall as [Hall ?]).
  exists s, l. repeat split; try assumption.
  - intros s' Hi Ha. apply Hus; [exact Hi|]. apply attr_eqb_eq. exact Ha.
  - intros l' Hi Ha. apply Hul; [exact Hi|]. apply attr_eqb_eq. exact Ha.
  - apply String.eqb_eq. exact Hall.
  - destruct (lookup (sv_key s) names) as [f|]; [exists f; reflexivity|discriminate].
Qed.

(* the transition probabilities keep at least 17 significant digits; a writer with fewer is refused *)
Theorem tprobs_precision : forall s, In s gen_save_table -> sv_attr s = A_tprobs_ ->
  exists p, sv_writer s = W_mmwrite (Some p) /\ (17 <= p)%Z.
Proof.
  intros s Hin Ha. cbn in Hin.
  repeat (destruct Hin as [E|Hin]; [subst s; cbn in Ha; try discriminate|]); try contradiction.
  exists 20%Z. split; [reflexivity|lia].
Qed.

Theorem low_precision_refused : forall p, (p < 17)%Z -> exact_writer (W_mmwrite (Some p)) = false.
Proof. intros p H. cbn. apply Z.leb_gt. exact H. Qed.
