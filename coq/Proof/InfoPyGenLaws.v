(* Proof/InfoPyGenLaws.v -- the information-theoretic laws, stated about the definitions regenerated
   from the Python source (Gen/MutualInfoGen.v, Gen/EntropyGen.v).

   The laws themselves are proved about the hand-written model (InfoProofs.v, InfoEndToEnd.v); the
   regenerated definitions are proved equal to that model (InfoPyGenCounts.v, InfoPyGenMI.v,
   InfoPyGenTop.v, EntropyGenProofs.v, InfoPyGenWeighted.v).  This file composes the two. *)
From Coq Require Import List ZArith QArith Qabs Qreals Bool Arith Reals Lia Lra.
From EV Require Import JointCounts Info InfoPyBase MutualInfoGen EntropyGen JointCountsProofs JointShape JointPooled
  InfoProofs InfoEndToEnd InfoPyGenCounts InfoPyGenMI InfoPyGenTop EntropyGenProofs InfoPyGenWeighted.
Import ListNotations.
Local Open Scope nat_scope.

(* entry (a, b) of the matrix the regenerated mutual_information returns *)
Definition gen_mi_entry (jc : tbl4) (a b : nat) : R := nth b (nth a (gen_mutual_information jc) []) 0%R.

(* ------------------------------------------------------------------ shapes *)
Lemma dim1_width : forall X : list (list Z), dim1 X = width X.
Proof. intros X. destruct X as [|r X']; reflexivity. Qed.

(* dimensions of an accepted table: jc.shape[0] = features of X, jc.shape[1] = features of Y *)
Lemma bincount_dims : forall X Y nx ny jc, matrix_bincount2d X Y nx ny = Some jc ->
  regular4 jc /\ length jc = width X /\ dim1 jc = width Y.
Proof.
  intros X Y nx ny jc Hjc.
  pose proof (bincount_regular X Y nx ny jc Hjc) as Hreg.
  pose proof (shape4t_bincount X Y nx ny jc Hjc) as Hsh.
  unfold shape4t in Hsh. injection Hsh as H0 H1 H2 H3.
  split; [exact Hreg|]. split; [exact H0|]. unfold dim1. exact H1.
Qed.

(* on an accepted table the regenerated entry is the model's entry *)
Lemma gen_mi_entry_is_model : forall X Y nx ny jc a b,
  matrix_bincount2d X Y nx ny = Some jc ->
  a < width X -> b < width Y ->
  gen_mi_entry jc a b = mutual_information jc a b.
Proof.
  intros X Y nx ny jc a b Hjc Ha Hb.
  destruct (bincount_dims X Y nx ny jc Hjc) as [Hreg [Hlen Hdim]].
  unfold gen_mi_entry. apply gen_mutual_information_entry.
  - exact Hreg.
  - rewrite Hlen. exact Ha.
  - rewrite Hdim. exact Hb.
Qed.

(* the regenerated joint_counts of a data set against itself, read as the model *)
Lemma gen_joint_counts_self_model : forall X nx ny jc,
  in_range X -> gen_joint_counts X None nx ny = Some jc ->
  joint_counts (vals X) None nx ny = Some jc.
Proof.
  intros X nx ny jc HX Hjc.
  rewrite (gen_joint_counts_is_model X None nx ny HX) in Hjc.
  - exact Hjc.
  - intros Y' HY'. discriminate HY'.
Qed.

(* ------------------------------------------------------------------ mutual information *)
(* non-negative and bounded by both marginal entropies (as the regenerated shannon_entropy computes them) *)
Theorem gen_mi_bounds_on_data : forall X Y na nb jc a b,
  in_range X -> in_range Y ->
  gen_joint_counts X (Some Y) (Some na) (Some nb) = Some jc ->
  (a < width (vals X))%nat -> (b < width (vals Y))%nat ->
  (0 <= gen_mi_entry jc a b)%R /\
  (gen_mi_entry jc a b <= gen_shannon_entropy (empirical_dist (vals X) a na) false)%R /\
  (gen_mi_entry jc a b <= gen_shannon_entropy (empirical_dist (vals Y) b nb) false)%R.
Proof.
  intros X Y na nb jc a b HX HY Hjc Ha Hb.
  rewrite (gen_joint_counts_is_model X (Some Y) (Some na) (Some nb) HX) in Hjc.
  - simpl in Hjc.
    assert (Hbc : matrix_bincount2d (vals X) (vals Y) na nb = Some jc) by exact Hjc.
    rewrite (gen_mi_entry_is_model (vals X) (vals Y) na nb jc a b Hbc Ha Hb).
    rewrite !gen_shannon_entropy_is_model.
    apply (mi_data_bounds serial_events (vals X) (vals Y) na nb jc a b serial_schedule_ok).
    + exact Hbc.
    + exact Ha.
    + exact Hb.
  - intros Y' HY'. injection HY' as HY'. subst Y'. exact HY.
Qed.

(* a data set against itself: symmetric, diagonal = entropy *)
Theorem gen_mi_self_symmetric : forall X nx ny jc a b,
  in_range X -> gen_joint_counts X None nx ny = Some jc ->
  (a < width (vals X))%nat -> (b < width (vals X))%nat ->
  gen_mi_entry jc b a = gen_mi_entry jc a b.
Proof.
  intros X nx ny jc a b HX Hjc Ha Hb.
  pose proof (gen_joint_counts_self_model X nx ny jc HX Hjc) as Hm.
  destruct (joint_counts_self_inv (vals X) nx ny jc Hm) as [n [_ Hbc]].
  rewrite (gen_mi_entry_is_model (vals X) (vals X) n n jc b a Hbc Hb Ha).
  rewrite (gen_mi_entry_is_model (vals X) (vals X) n n jc a b Hbc Ha Hb).
  exact (mi_self_symmetric (vals X) nx ny jc a b Hm Ha Hb).
Qed.

Theorem gen_mi_self_diagonal_is_entropy : forall X nx ny n jc a,
  in_range X -> gen_joint_counts X None nx ny = Some jc -> default_n nx (vals X) = Some n ->
  (a < width (vals X))%nat ->
  gen_mi_entry jc a a = gen_shannon_entropy (empirical_dist (vals X) a n) false.
Proof.
  intros X nx ny n jc a HX Hjc Hn Ha.
  pose proof (gen_joint_counts_self_model X nx ny jc HX Hjc) as Hm.
  destruct (joint_counts_self_inv (vals X) nx ny jc Hm) as [n' [_ Hbc]].
  rewrite (gen_mi_entry_is_model (vals X) (vals X) n' n' jc a a Hbc Ha Ha).
  rewrite gen_shannon_entropy_is_model.
  exact (mi_self_diagonal_entropy (vals X) nx ny n jc a Hm Hn Ha).
Qed.

(* ------------------------------------------------------------------ relative entropy *)
(* relative entropy as regenerated (IEEE values): never nan or -inf, non-negative, zero exactly for equal
   distributions *)
Theorem gen_kl_nonneg_zero_iff_equal : forall P Qd base d,
  length P = length Qd -> distribution P -> distribution Qd -> (1 < base)%R ->
  gen_kl_divergence P Qd base = Some d ->
  (d = XPInf /\ P <> Qd) \/ (exists r, d = XFin r /\ (0 <= r)%R /\ (r = 0%R <-> P = Qd)).
Proof.
  intros P Qd base d Hlen HP HQ Hbase Hd.
  assert (HPn : Forall nonneg P) by (destruct HP as [HP0 _]; exact HP0).
  assert (HQn : Forall nonneg Qd) by (destruct HQ as [HQ0 _]; exact HQ0).
  destruct (kl_sum_cells P Qd HPn HQn) as [[Hinf _] | [Hfin _]].
  - left. split.
    + exact (gen_kl_divergence_infinite P Qd base d Hbase Hd Hinf).
    + exact (kl_infinite_not_equal P Qd Hinf).
  - right. exists (kl_R P Qd base). split; [|split].
    + exact (gen_kl_divergence_finite P Qd base d Hbase Hd Hfin).
    + exact (kl_nonneg P Qd base Hlen HP HQ Hfin Hbase).
    + exact (kl_zero_iff_equal P Qd base Hlen HP HQ Hfin Hbase).
Qed.

(* ------------------------------------------------------------------ uniform weights *)
Lemma qsum_repeat : forall (x : Q) (k : nat), qsum (repeat x k) == inject_Z (Z.of_nat k) * x.
Proof.
  intros x k. induction k as [|k IH].
  - simpl. ring.
  - change (repeat x (S k)) with (x :: repeat x k).
    change (qsum (x :: repeat x k)) with (x + qsum (repeat x k))%Q.
    rewrite IH. rewrite Nat2Z.inj_succ. unfold Z.succ. rewrite inject_Z_plus. ring.
Qed.

Lemma qsum_uniform_one : forall T : nat, 0 < T ->
  Qeq_bool (qsum (repeat (1 # Pos.of_nat T) T)) 1 = true.
Proof.
  intros T HT. apply Qeq_bool_iff. rewrite qsum_repeat.
  assert (Hpos : Z.pos (Pos.of_nat T) = Z.of_nat T).
  { rewrite <- positive_nat_Z. rewrite Nat2Pos.id by lia. reflexivity. }
  unfold Qeq, Qmult, inject_Z. cbn [Qnum Qden].
  rewrite Pos.mul_1_l. rewrite Hpos. ring.
Qed.

(* uniform weights: the regenerated weighted_mi returns what the regenerated mutual_information returns on
   the regenerated joint_counts of the same data *)
Theorem gen_weighted_uniform_equals_plain : forall X nfs n ny jc out a b,
  in_range X -> rect_features (vals X) -> (0 < length (vals X))%nat ->
  zmax_list nfs = Some n ->
  gen_weighted_mi (vals X) (repeat (1 # Pos.of_nat (length (vals X))) (length (vals X))) (Some nfs) false = Some out ->
  gen_joint_counts X None (Some n) ny = Some jc ->
  (a < dim1 (vals X))%nat -> (b < dim1 (vals X))%nat ->
  nth b (nth a out []) 0%R = gen_mi_entry jc a b.
Proof.
  intros X nfs n ny jc out a b HX Hrect HT Hn Hout Hjc Ha Hb.
  pose proof (gen_joint_counts_self_model X (Some n) ny jc HX Hjc) as Hm.
  destruct (joint_counts_self_inv (vals X) (Some n) ny jc Hm) as [n' [_ Hbc]].
  assert (Ha' : a < width (vals X)) by (rewrite <- dim1_width; exact Ha).
  assert (Hb' : b < width (vals X)) by (rewrite <- dim1_width; exact Hb).
  rewrite (gen_mi_entry_is_model (vals X) (vals X) n' n' jc a b Hbc Ha' Hb').
  rewrite (gen_weighted_mi_is_model (vals X) _ nfs n out a b Hrect Hn
             (qsum_uniform_one (length (vals X)) HT) Hout Ha Hb).
  exact (weighted_uniform_mi (vals X) n ny jc a b Hm Ha' Hb').
Qed.

Print Assumptions bincount_dims.
Print Assumptions gen_mi_bounds_on_data.
Print Assumptions gen_mi_self_symmetric.
Print Assumptions gen_mi_self_diagonal_is_entropy.
Print Assumptions gen_kl_nonneg_zero_iff_equal.
Print Assumptions gen_weighted_uniform_equals_plain.
