(* C05 -- proofs: the flat-offset reads of Model/Ragged.v refine list-of-rows reads. *)
From Coq Require Import List ZArith Bool Lia.
From EV Require Import PySlice PySliceLemmas Ragged.
Import ListNotations.

(* ---------------------------------------------------------------- map_opt *)
Lemma map_opt_app {A B} (f : A -> option B) (l1 l2 : list A) :
  map_opt f (l1 ++ l2) =
  match map_opt f l1, map_opt f l2 with
  | Some a, Some b => Some (a ++ b)
  | _, _ => None
  end.
Proof.
  induction l1 as [|x l1 IH]; cbn [app map_opt].
  - destruct (map_opt f l2); reflexivity.
  - rewrite IH. destruct (f x); [|reflexivity].
    destruct (map_opt f l1); [|reflexivity].
    destruct (map_opt f l2); reflexivity.
Qed.

Lemma map_opt_map {A B C} (g : A -> B) (f : B -> option C) (l : list A) :
  map_opt f (map g l) = map_opt (fun x => f (g x)) l.
Proof.
  induction l as [|x l IH]; cbn [map map_opt]; [reflexivity|]. rewrite IH. reflexivity.
Qed.

Lemma map_opt_ext {A B} (f g : A -> option B) (l : list A) :
  (forall x, In x l -> f x = g x) -> map_opt f l = map_opt g l.
Proof.
  induction l as [|x l IH]; intros H; cbn [map_opt]; [reflexivity|].
  rewrite (H x) by (left; reflexivity). rewrite IH; [reflexivity|].
  intros y Hy. apply H. right. exact Hy.
Qed.

Lemma map_opt_length {A B} (f : A -> option B) (l : list A) (r : list B) :
  map_opt f l = Some r -> length r = length l.
Proof.
  revert r. induction l as [|x l IH]; intros r H; cbn [map_opt] in H.
  - inversion H. reflexivity.
  - destruct (f x); [|discriminate]. destruct (map_opt f l) eqn:E; [|discriminate].
    inversion H. cbn [length]. f_equal. apply IH. reflexivity.
Qed.

Lemma map_opt_total {A B} (g : A -> B) (l : list A) :
  map_opt (fun x => Some (g x)) l = Some (map g l).
Proof. induction l as [|x l IH]; cbn [map map_opt]; [reflexivity|]. rewrite IH. reflexivity. Qed.

(* two-phase (convert all, then fetch all) = one phase *)
Lemma map_opt_compose {A B C} (f : A -> option B) (g : B -> option C) (l : list A) :
  match map_opt f l with None => None | Some m => map_opt g m end =
  map_opt (fun x => match f x with None => None | Some y => g y end) l.
Proof.
  induction l as [|x l IH]; cbn [map_opt]; [reflexivity|].
  destruct (f x) as [y|].
  - destruct (map_opt f l) as [m|].
    + cbn [map_opt]. rewrite IH. reflexivity.
    + rewrite <- IH. destruct (g y); reflexivity.
  - reflexivity.
Qed.

Lemma map_opt_concat {A B} (f : A -> option B) (groups : list (list A)) :
  map_opt f (concat groups) =
  match map_opt (map_opt f) groups with None => None | Some xss => Some (concat xss) end.
Proof.
  induction groups as [|g groups IH]; cbn [concat map_opt]; [reflexivity|].
  rewrite map_opt_app, IH. destruct (map_opt f g); [|reflexivity].
  destruct (map_opt (map_opt f) groups); reflexivity.
Qed.

Lemma map_opt_lengths {A B} (f : A -> option B) (groups : list (list A)) xss :
  map_opt (map_opt f) groups = Some xss -> map (@length B) xss = map (@length A) groups.
Proof.
  revert xss. induction groups as [|g groups IH]; intros xss H; cbn [map_opt] in H.
  - inversion H. reflexivity.
  - destruct (map_opt f g) eqn:E; [|discriminate].
    destruct (map_opt (map_opt f) groups) eqn:E2; [|discriminate].
    inversion H. cbn [map]. f_equal.
    + eapply map_opt_length; exact E.
    + apply IH. reflexivity.
Qed.

(* ---------------------------------------------------------------- partition / starts *)
Lemma partition_length {A} (d : list A) ls : length (partition d ls) = length ls.
Proof. revert d. induction ls as [|l ls IH]; intros d; cbn [partition length]; [reflexivity|]. rewrite IH. reflexivity. Qed.

Lemma partition_concat {A} (rows : list (list A)) :
  partition (concat rows) (map (@length A) rows) = rows.
Proof.
  induction rows as [|r rows IH]; cbn [concat map partition]; [reflexivity|].
  rewrite firstn_app, Nat.sub_diag, firstn_all, firstn_O, app_nil_r.
  rewrite skipn_app, Nat.sub_diag, skipn_all, skipn_O. cbn [app]. rewrite IH. reflexivity.
Qed.

Lemma sum_lengths_concat {A} (rows : list (list A)) :
  sum_nat (map (@length A) rows) = length (concat rows).
Proof.
  induction rows as [|r rows IH]; cbn [concat map sum_nat fold_right]; [reflexivity|].
  rewrite app_length. unfold sum_nat in IH. rewrite IH. reflexivity.
Qed.

Lemma concat_partition {A} (d : list A) ls :
  sum_nat ls = length d -> concat (partition d ls) = d.
Proof.
  revert d. induction ls as [|l ls IH]; intros d H; cbn [partition concat].
  - cbn in H. destruct d; [reflexivity|discriminate].
  - cbn [sum_nat fold_right] in H. rewrite IH.
    + apply firstn_skipn.
    + rewrite skipn_length. unfold sum_nat. lia.
Qed.

Lemma lengths_partition {A} (d : list A) ls :
  sum_nat ls = length d -> map (@length A) (partition d ls) = ls.
Proof.
  revert d. induction ls as [|l ls IH]; intros d H; cbn [partition map]; [reflexivity|].
  cbn [sum_nat fold_right] in H. f_equal.
  - rewrite firstn_length. lia.
  - apply IH. rewrite skipn_length. unfold sum_nat. lia.
Qed.

Lemma starts_from_shift s ls j :
  (j < length ls)%nat -> nth j (starts_from s ls) 0%nat = (s + nth j (starts_from 0 ls) 0)%nat.
Proof.
  revert s j. induction ls as [|l ls IH]; intros s j Hj; cbn [length] in Hj; [lia|].
  cbn [starts_from]. destruct j as [|j]; cbn [nth]; [lia|].
  rewrite (IH (s + l)%nat) by lia. rewrite (IH (0 + l)%nat) by lia. lia.
Qed.

Lemma skipn_add {A} (d : list A) a b : skipn a (skipn b d) = skipn (b + a) d.
Proof.
  revert d. induction b as [|b IH]; intros d; [reflexivity|].
  destruct d as [|x d]; cbn [skipn Nat.add]; [destruct a; reflexivity|]. apply IH.
Qed.

(* row j of the row view is the window [starts j, starts j + lens j) of the flat data *)
Lemma partition_row {A} (d : list A) ls j l :
  nth_error ls j = Some l ->
  nth_error (partition d ls) j = Some (firstn l (skipn (nth j (starts_of ls) 0%nat) d)).
Proof.
  unfold starts_of. revert d j. induction ls as [|l0 ls IH]; intros d j H.
  - destruct j; discriminate.
  - destruct j as [|j]; cbn [nth_error partition starts_from nth] in *.
    + inversion H. reflexivity.
    + rewrite (IH _ _ H). rewrite (starts_from_shift (0 + l0)).
      * rewrite skipn_add. reflexivity.
      * apply nth_error_Some. congruence.
Qed.

Lemma window_bound ls j l :
  nth_error ls j = Some l -> (nth j (starts_of ls) 0 + l <= sum_nat ls)%nat.
Proof.
  unfold starts_of. revert j. induction ls as [|l0 ls IH]; intros j H.
  - destruct j; discriminate.
  - destruct j as [|j]; cbn [nth_error starts_from nth sum_nat fold_right] in *.
    + inversion H. lia.
    + rewrite (starts_from_shift (0 + l0)) by (apply nth_error_Some; congruence).
      specialize (IH _ H). unfold sum_nat in IH. lia.
Qed.

Lemma nth_error_skipn_add {A} (d : list A) st k : nth_error (skipn st d) k = nth_error d (st + k).
Proof.
  revert d. induction st as [|st IH]; intros d; [reflexivity|].
  destruct d as [|x d]; cbn [skipn Nat.add nth_error]; [destruct k; reflexivity|]. apply IH.
Qed.

Lemma nth_error_firstn_lt {A} (d : list A) l k : (k < l)%nat -> nth_error (firstn l d) k = nth_error d k.
Proof.
  revert d k. induction l as [|l IH]; intros d k H; [lia|].
  destruct d as [|x d]; cbn [firstn]; [reflexivity|].
  destruct k as [|k]; cbn [nth_error]; [reflexivity|]. apply IH. lia.
Qed.

Lemma window_nth {A} (d : list A) st l k :
  (k < l)%nat -> nth_error (firstn l (skipn st d)) k = nth_error d (st + k).
Proof.
  intros Hk. rewrite nth_error_firstn_lt by exact Hk. apply nth_error_skipn_add.
Qed.

(* ---------------------------------------------------------------- integer indices *)
Lemma norm_index_spec n i :
  (0 <= i < Z.of_nat n /\ norm_index n i = Some (Z.to_nat i))%Z \/
  (- Z.of_nat n <= i < 0 /\ norm_index n i = Some (Z.to_nat (i + Z.of_nat n)))%Z \/
  ((Z.of_nat n <= i \/ i < - Z.of_nat n) /\ norm_index n i = None)%Z.
Proof.
  unfold norm_index.
  destruct (Z.leb_spec 0 i), (Z.ltb_spec i (Z.of_nat n)), (Z.leb_spec (- Z.of_nat n) i), (Z.ltb_spec i 0);
    cbn [andb]; try lia; auto.
Qed.

Lemma norm_index_lt n i j : norm_index n i = Some j -> (j < n)%nat.
Proof.
  destruct (norm_index_spec n i) as [[H E]|[[H E]|[H E]]]; rewrite E; intros X; inversion X; lia.
Qed.

Lemma get_item_in_range {A} (l : list A) (i : Z) :
  (0 <= i < Z.of_nat (length l))%Z -> get_item l i = nth_error l (Z.to_nat i).
Proof.
  intros H. unfold get_item. destruct (norm_index_spec (length l) i) as [[H1 E]|[[H1 E]|[H1 E]]]; try lia.
  rewrite E. reflexivity.
Qed.

Lemma get_item_none_iff_len {A B} (l1 : list A) (l2 : list B) i :
  length l1 = length l2 -> (get_item l1 i = None <-> get_item l2 i = None).
Proof.
  intros HL. unfold get_item. rewrite HL.
  destruct (norm_index (length l2) i) as [j|] eqn:E; [|tauto].
  apply norm_index_lt in E.
  split; intros H; apply nth_error_None in H; lia.
Qed.

(* ---------------------------------------------------------------- the flat-offset arithmetic *)
(* _convert_from_2d + _data[...] on one (row, col) pair = element col of row `row` of the list of rows,
   including error <-> error *)
Lemma conv2d_spec {A} (d : list A) ls r c :
  sum_nat ls = length d ->
  match conv2d ls r c with None => None | Some f => nth_error d f end = elem_s (partition d ls) r c.
Proof.
  intros Hwf. unfold conv2d, elem_s, get_item. rewrite partition_length.
  assert (Hrow : forall j, (j < length ls)%nat ->
     match nth_error ls j with
     | None => None
     | Some l =>
       let c1 := if (c <? 0)%Z then (c + Z.of_nat l)%Z else c in
       if (c1 <? 0)%Z then None else if (Z.of_nat l <=? c1)%Z then None
       else match Some (nth j (starts_of ls) 0 + Z.to_nat c1)%nat with None => None | Some f => nth_error d f end
     end =
     match nth_error (partition d ls) j with
     | None => None
     | Some row => match norm_index (length row) c with Some k => nth_error row k | None => None end
     end).
  { intros j Hj. destruct (nth_error ls j) as [l|] eqn:El; [|apply nth_error_None in El; lia].
    rewrite (partition_row d _ _ _ El).
    pose proof (window_bound _ _ _ El) as Hb. rewrite Hwf in Hb.
    set (st := nth j (starts_of ls) 0%nat) in *.
    assert (Hlen : length (firstn l (skipn st d)) = l) by (rewrite firstn_length, skipn_length; lia).
    rewrite Hlen. cbv zeta.
    destruct (norm_index_spec l c) as [[H E]|[[H E]|[H E]]]; rewrite E.
    - destruct (Z.ltb_spec c 0); [lia|]. destruct (Z.ltb_spec c 0); [lia|].
      destruct (Z.leb_spec (Z.of_nat l) c); [lia|].
      symmetry. apply window_nth. lia.
    - destruct (Z.ltb_spec c 0); [|lia]. destruct (Z.ltb_spec (c + Z.of_nat l) 0); [lia|].
      destruct (Z.leb_spec (Z.of_nat l) (c + Z.of_nat l)); [lia|].
      symmetry. apply window_nth. lia.
    - destruct (Z.ltb_spec c 0).
      + destruct (Z.ltb_spec (c + Z.of_nat l) 0); [reflexivity|]. lia.
      + destruct (Z.ltb_spec c 0); [lia|]. destruct (Z.leb_spec (Z.of_nat l) c); [reflexivity|lia]. }
  destruct (norm_index_spec (length ls) r) as [[H E]|[[H E]|[H E]]]; rewrite E.
  - destruct (Z.ltb_spec r 0); [lia|]. destruct (Z.ltb_spec r 0); [lia|].
    specialize (Hrow (Z.to_nat r)).
    destruct (nth_error ls (Z.to_nat r)) as [l|] eqn:El.
    + rewrite <- Hrow by lia. cbv zeta.
      repeat match goal with |- context [if ?b then _ else _] => destruct b end; reflexivity.
    + apply Hrow. lia.
  - destruct (Z.ltb_spec r 0); [|lia]. destruct (Z.ltb_spec (r + Z.of_nat (length ls)) 0); [lia|].
    specialize (Hrow (Z.to_nat (r + Z.of_nat (length ls)))).
    destruct (nth_error ls (Z.to_nat (r + Z.of_nat (length ls)))) as [l|] eqn:El.
    + rewrite <- Hrow by lia. cbv zeta.
      repeat match goal with |- context [if ?b then _ else _] => destruct b end; reflexivity.
    + apply Hrow. lia.
  - destruct (Z.ltb_spec r 0).
    + destruct (Z.ltb_spec (r + Z.of_nat (length ls)) 0); [reflexivity|]. lia.
    + destruct (Z.ltb_spec r 0); [lia|].
      destruct (nth_error ls (Z.to_nat r)) eqn:El; [|reflexivity].
      assert (nth_error ls (Z.to_nat r) <> None) by congruence.
      apply nth_error_Some in H2. lia.
Qed.

Lemma gather_spec {A} (s : conc A) pairs :
  wf s -> gather s pairs = map_opt (fun p => elem_s (rows_c s) (fst p) (snd p)) pairs.
Proof.
  intros Hwf. unfold gather. rewrite map_opt_compose. apply map_opt_ext. intros p _.
  apply conv2d_spec. exact Hwf.
Qed.

(* ---------------------------------------------------------------- constructors *)
Lemma ctor_nested_abs {A} (rows : list (list A)) : abs (ctor_nested rows) = rows.
Proof. apply partition_concat. Qed.

Lemma ctor_nested_wf {A} (rows : list (list A)) : wf (ctor_nested rows).
Proof. apply sum_lengths_concat. Qed.

Lemma ctor_flat_wf {A} (d : list A) ls s : ctor_flat d ls = Some s -> wf s /\ data s = d /\ lens s = ls.
Proof.
  unfold ctor_flat. destruct (Nat.eqb_spec (sum_nat ls) (length d)); [|discriminate].
  intros H. inversion H. unfold wf. cbn. auto.
Qed.

Lemma ctor_flat_rejects {A} (d : list A) ls : sum_nat ls <> length d -> ctor_flat d ls = None.
Proof. intros H. unfold ctor_flat. destruct (Nat.eqb_spec (sum_nat ls) (length d)); [contradiction|reflexivity]. Qed.

(* nested-list construction and flat+lengths construction give the same array *)
Lemma ctor_paths_agree {A} (rows : list (list A)) :
  ctor_flat (concat rows) (map (@length A) rows) = Some (ctor_nested rows).
Proof.
  unfold ctor_flat. rewrite sum_lengths_concat, Nat.eqb_refl. reflexivity.
Qed.

Lemma abs_ctor_flat {A} (s : conc A) : wf s -> ctor_nested (abs s) = s.
Proof.
  intros H. unfold ctor_nested, abs, rows_c. rewrite (concat_partition _ _ H), (lengths_partition _ _ H).
  destruct s; reflexivity.
Qed.

(* ---------------------------------------------------------------- reads without offset arithmetic *)
Lemma get_row_refines {A} (s : conc A) r : get_c s (Row r) = get_s (abs s) (Row r).
Proof. reflexivity. Qed.

Lemma get_rows_refines {A} (s : conc A) sl : get_c s (Rows sl) = get_s (abs s) (Rows sl).
Proof. cbn [get_c get_s]. destruct (sl_ok sl); [|reflexivity]. fold (abs (ctor_nested (sl_list (rows_c s) sl))).
  rewrite ctor_nested_abs. reflexivity. Qed.

Lemma get_rowlist_refines {A} (s : conc A) rs : get_c s (RowList rs) = get_s (abs s) (RowList rs).
Proof.
  cbn [get_c get_s]. unfold abs. destruct (map_opt (get_item (rows_c s)) rs) as [rows|]; [|reflexivity].
  cbn [val_result]. fold (abs (ctor_nested rows)). rewrite ctor_nested_abs. reflexivity.
Qed.

Lemma get_rowsl_refines {A} (s : conc A) r sl : get_c s (RowSl r sl) = get_s (abs s) (RowSl r sl).
Proof. reflexivity. Qed.

(* ---------------------------------------------------------------- element reads *)
Lemma get_elem_refines {A} (s : conc A) r c : wf s -> get_c s (Elem r c) = get_s (abs s) (Elem r c).
Proof. intros H. cbn [get_c get_s]. rewrite (gather_spec _ _ H). reflexivity. Qed.

Lemma get_pairs_refines {A} (s : conc A) rs cs : wf s -> get_c s (Pairs rs cs) = get_s (abs s) (Pairs rs cs).
Proof.
  intros H. cbn [get_c get_s]. destruct (bpairs rs cs) as [ps|]; [|reflexivity].
  rewrite (gather_spec _ _ H). reflexivity.
Qed.

(* broadcasting of the two index vectors: a one-entry column vector reads what the scalar column reads, a
   one-entry row vector what the scalar row reads (for index vectors of any length, also on the list of rows) *)
Lemma bpairs_col (rs : list Z) (c : Z) : bpairs rs [c] = Some (map (fun r => (r, c)) rs).
Proof.
  unfold bpairs. destruct rs as [|r [|r' t]]; cbn [length Nat.eqb]; reflexivity.
Qed.

Lemma bpairs_row (r : Z) (cs : list Z) : bpairs [r] cs = Some (map (fun c => (r, c)) cs).
Proof.
  unfold bpairs. destruct cs as [|c [|c' t]]; cbn [length Nat.eqb]; reflexivity.
Qed.

Lemma bpairs_same (rs cs : list Z) : length rs = length cs -> bpairs rs cs = Some (combine rs cs).
Proof. intros H. unfold bpairs. rewrite H, Nat.eqb_refl. reflexivity. Qed.

Lemma bpairs_none (rs cs : list Z) :
  length rs <> length cs -> length rs <> 1%nat -> length cs <> 1%nat -> bpairs rs cs = None.
Proof.
  intros H Hr Hc. unfold bpairs. destruct (Nat.eqb_spec (length rs) (length cs)) as [E|_]; [contradiction|].
  destruct rs as [|r [|r' t]], cs as [|c [|c' u]]; cbn [length] in *; try reflexivity; contradiction.
Qed.

Lemma get_pairs_broadcast_col {A} (s : conc A) rs c : get_c s (Pairs rs [c]) = get_c s (PairsScalar rs c).
Proof. cbn [get_c]. rewrite bpairs_col. reflexivity. Qed.

Lemma get_pairs_broadcast_row {A} (s : conc A) r cs : get_c s (Pairs [r] cs) = get_c s (ElemList r cs).
Proof. cbn [get_c]. rewrite bpairs_row. reflexivity. Qed.

Lemma get_s_pairs_broadcast_col {A} (rows : list (list A)) rs c :
  get_s rows (Pairs rs [c]) = get_s rows (PairsScalar rs c).
Proof. cbn [get_s]. rewrite bpairs_col, map_opt_map. reflexivity. Qed.

Lemma get_s_pairs_broadcast_row {A} (rows : list (list A)) r cs :
  get_s rows (Pairs [r] cs) = get_s rows (ElemList r cs).
Proof. cbn [get_s]. rewrite bpairs_row, map_opt_map. reflexivity. Qed.

Lemma get_pairs_unequal_raise {A} (s : conc A) (rs cs : list Z) :
  length rs <> length cs -> length rs <> 1%nat -> length cs <> 1%nat ->
  get_c s (Pairs rs cs) = Err /\ get_s (abs s) (Pairs rs cs) = Err.
Proof.
  intros H Hr Hc. cbn [get_c get_s]. rewrite (bpairs_none _ _ H Hr Hc). split; reflexivity.
Qed.

(* how many elements a broadcast pair reads: one per entry of the longer vector (non-empty index vectors) *)
Lemma bpairs_length (rs cs : list Z) ps :
  rs <> [] -> cs <> [] -> bpairs rs cs = Some ps -> length ps = Nat.max (length rs) (length cs).
Proof.
  intros Hr Hc. unfold bpairs. destruct (Nat.eqb_spec (length rs) (length cs)) as [E|_].
  - intros H. injection H as <-. rewrite combine_length, E. lia.
  - destruct rs as [|r [|r' t]], cs as [|c [|c' u]]; intros H; try discriminate; try contradiction;
      injection H as <-; cbn [length map]; rewrite ?map_length; cbn [length]; lia.
Qed.

Lemma get_pairs_scalar_refines {A} (s : conc A) rs c :
  wf s -> get_c s (PairsScalar rs c) = get_s (abs s) (PairsScalar rs c).
Proof. intros H. cbn [get_c get_s]. rewrite (gather_spec _ _ H), map_opt_map. reflexivity. Qed.

Lemma get_elem_list_refines {A} (s : conc A) r cs :
  wf s -> get_c s (ElemList r cs) = get_s (abs s) (ElemList r cs).
Proof. intros H. cbn [get_c get_s]. rewrite (gather_spec _ _ H), map_opt_map. reflexivity. Qed.

(* an element access outside its row raises: it never returns a neighbour's datum (no wf needed) *)
Lemma elem_oob_is_error {A} (s : conc A) r c :
  (forall l, get_item (lens s) r = Some l -> (Z.of_nat l <= c \/ c < - Z.of_nat l)%Z) ->
  get_c s (Elem r c) = Err.
Proof.
  intros H. cbn [get_c]. unfold gather. cbn [map_opt fst snd].
  assert (E : conv2d (lens s) r c = None); [|rewrite E; reflexivity].
  unfold conv2d. unfold get_item in H.
  destruct (norm_index_spec (length (lens s)) r) as [[Hr E]|[[Hr E]|[Hr E]]]; rewrite E in H.
  - destruct (Z.ltb_spec r 0); [lia|]. destruct (Z.ltb_spec r 0); [lia|].
    destruct (nth_error (lens s) (Z.to_nat r)) as [l|]; [|reflexivity].
    specialize (H l eq_refl). cbv zeta.
    destruct (Z.ltb_spec c 0).
    + destruct (Z.ltb_spec (c + Z.of_nat l) 0); [reflexivity|lia].
    + destruct (Z.ltb_spec c 0); [lia|]. destruct (Z.leb_spec (Z.of_nat l) c); [reflexivity|lia].
  - destruct (Z.ltb_spec r 0); [|lia]. destruct (Z.ltb_spec (r + Z.of_nat (length (lens s))) 0); [lia|].
    destruct (nth_error (lens s) (Z.to_nat (r + Z.of_nat (length (lens s))))) as [l|]; [|reflexivity].
    specialize (H l eq_refl). cbv zeta.
    destruct (Z.ltb_spec c 0).
    + destruct (Z.ltb_spec (c + Z.of_nat l) 0); [reflexivity|lia].
    + destruct (Z.ltb_spec c 0); [lia|]. destruct (Z.leb_spec (Z.of_nat l) c); [reflexivity|lia].
  - destruct (Z.ltb_spec r 0).
    + destruct (Z.ltb_spec (r + Z.of_nat (length (lens s))) 0); [reflexivity|lia].
    + destruct (Z.ltb_spec r 0); [lia|].
      destruct (nth_error (lens s) (Z.to_nat r)) eqn:El; [|reflexivity].
      assert (X : nth_error (lens s) (Z.to_nat r) <> None) by congruence.
      apply nth_error_Some in X. lia.
Qed.

(* what a successful element read returns: the c-th entry of the r-th row (after Python wrap-around) *)
Lemma elem_value {A} (s : conc A) r c x :
  wf s -> get_c s (Elem r c) = Flat [x] ->
  exists row, get_item (abs s) r = Some row /\ get_item row c = Some x.
Proof.
  intros Hwf H. rewrite (get_elem_refines _ _ _ Hwf) in H. cbn [get_s map_opt fst snd] in H.
  unfold elem_s in H. destruct (get_item (abs s) r) as [row|]; [|discriminate].
  exists row. split; [reflexivity|]. destruct (get_item row c); [|discriminate].
  cbn in H. inversion H. reflexivity.
Qed.

(* ---------------------------------------------------------------- two-dimensional slices *)
Lemma map_opt_get_item_pick {A} (row : list A) idxs :
  (forall i, In i idxs -> (0 <= i < Z.of_nat (length row))%Z) ->
  map_opt (get_item row) idxs = Some (flat_map (pick row) idxs).
Proof.
  induction idxs as [|i idxs IH]; intros H; cbn [map_opt flat_map]; [reflexivity|].
  assert (Hi : (0 <= i < Z.of_nat (length row))%Z) by (apply H; left; reflexivity).
  rewrite (get_item_in_range _ _ Hi). unfold pick at 1.
  destruct (Z.ltb_spec i 0); [lia|].
  destruct (nth_error row (Z.to_nat i)) as [x|] eqn:E.
  - rewrite IH by (intros j Hj; apply H; right; exact Hj). reflexivity.
  - apply nth_error_None in E. lia.
Qed.

Lemma sl_list_via_get_item {A} (row : list A) sl :
  map_opt (get_item row) (sl_indices (length row) sl) = Some (sl_list row sl).
Proof.
  destruct sl as [[st e] k]. unfold sl_indices, sl_list, slice_list.
  apply map_opt_get_item_pick. intros i Hi. apply slice_indices_in_range in Hi. exact Hi.
Qed.

Lemma map_opt_rows_pick {A B} (rows : list A) (K : Z -> option B) (G : A -> option B) idxs :
  (forall i, In i idxs -> (0 <= i < Z.of_nat (length rows))%Z) ->
  (forall i row, In i idxs -> get_item rows i = Some row -> K i = G row) ->
  map_opt K idxs = map_opt G (flat_map (pick rows) idxs).
Proof.
  induction idxs as [|i idxs IH]; intros H HK; cbn [map_opt flat_map]; [reflexivity|].
  assert (Hi : (0 <= i < Z.of_nat (length rows))%Z) by (apply H; left; reflexivity).
  pose proof (get_item_in_range _ _ Hi) as Eg. unfold pick.
  destruct (Z.ltb_spec i 0); [lia|].
  destruct (nth_error rows (Z.to_nat i)) as [x|] eqn:E.
  - cbn [app map_opt]. rewrite (HK i x) by (try (left; reflexivity); exact Eg).
    rewrite IH; [reflexivity| |].
    + intros j Hj. apply H. right. exact Hj.
    + intros j row Hj. apply HK. right. exact Hj.
  - apply nth_error_None in E. lia.
Qed.

(* lengths[r] and row r of the row view: same validity, and the row has that length *)
Lemma get_item_rows_lens {A} (s : conc A) r :
  wf s ->
  match get_item (lens s) r with
  | None => get_item (rows_c s) r = None
  | Some l => exists row, get_item (rows_c s) r = Some row /\ length row = l
  end.
Proof.
  intros Hwf. unfold get_item, rows_c. rewrite partition_length.
  destruct (norm_index (length (lens s)) r) as [j|] eqn:E; [|reflexivity].
  destruct (nth_error (lens s) j) as [l|] eqn:El.
  - rewrite (partition_row (data s) _ _ _ El). eexists. split; [reflexivity|].
    pose proof (window_bound _ _ _ El) as Hb. rewrite Hwf in Hb.
    rewrite firstn_length, skipn_length. lia.
  - apply nth_error_None. rewrite partition_length. apply nth_error_None. exact El.
Qed.

Lemma rebuild_groups {A} (s : conc A) (groups : list (list (Z * Z))) :
  wf s ->
  rebuild (gather s (concat groups)) (map (@length (Z * Z)) groups) =
  val_result (map_opt (map_opt (fun p => elem_s (rows_c s) (fst p) (snd p))) groups).
Proof.
  intros Hwf. rewrite (gather_spec _ _ Hwf), map_opt_concat.
  destruct (map_opt (map_opt (fun p => elem_s (rows_c s) (fst p) (snd p))) groups) as [xss|] eqn:E0.
  - unfold rebuild, ctor_flat. rewrite <- (map_opt_lengths _ _ _ E0), sum_lengths_concat, Nat.eqb_refl.
    unfold rows_c. cbn [data lens]. rewrite partition_concat. reflexivity.
  - reflexivity.
Qed.

(* one selected row: the (row, col) pairs produced for it fetch exactly row[sl] *)
Lemma group_slice {A} (s : conc A) r csl :
  wf s ->
  match get_item (lens s) r with
  | None => None
  | Some l => map_opt (fun p => elem_s (rows_c s) (fst p) (snd p)) (map (fun c => (r, c)) (sl_indices l csl))
  end =
  match get_item (rows_c s) r with
  | None => None
  | Some row => Some (sl_list row csl)
  end.
Proof.
  intros Hwf. pose proof (get_item_rows_lens s r Hwf) as H.
  destruct (get_item (lens s) r) as [l|].
  - destruct H as [row [Er El]]. rewrite Er, map_opt_map. cbn [fst snd]. unfold elem_s. rewrite Er.
    rewrite <- El. apply sl_list_via_get_item.
  - rewrite H. reflexivity.
Qed.

Lemma slices_core {A} (s : conc A) rs csl :
  wf s ->
  match iis_from_slices (lens s) rs csl with
  | None => Err
  | Some (iis, nl) => rebuild (gather s iis) nl
  end =
  val_result (map_opt (fun r => match get_item (rows_c s) r with
                                | None => None
                                | Some row => Some (sl_list row csl)
                                end) rs).
Proof.
  intros Hwf. unfold iis_from_slices.
  pose proof (map_opt_compose
    (fun r => match get_item (lens s) r with
              | None => None
              | Some l => Some (map (fun c => (r, c)) (sl_indices l csl))
              end)
    (map_opt (fun p => elem_s (rows_c s) (fst p) (snd p))) rs) as HC.
  rewrite (map_opt_ext _ (fun r => match get_item (rows_c s) r with
                                   | None => None
                                   | Some row => Some (sl_list row csl)
                                   end) rs) in HC.
  - rewrite <- HC. destruct (map_opt _ rs) as [groups|]; [|reflexivity]. apply rebuild_groups. exact Hwf.
  - intros r _. pose proof (group_slice s r csl Hwf) as G. destruct (get_item (lens s) r); exact G.
Qed.

Lemma get_sl2ls_refines {A} (s : conc A) rs csl :
  wf s -> get_c s (Sl2LS rs csl) = get_s (abs s) (Sl2LS rs csl).
Proof.
  intros Hwf. cbn [get_c get_s]. destruct (sl_ok csl); [|reflexivity]. apply slices_core. exact Hwf.
Qed.

Lemma sl_indices_in_range n sl i : In i (sl_indices n sl) -> (0 <= i < Z.of_nat n)%Z.
Proof. destruct sl as [[st e] k]. apply slice_indices_in_range. Qed.

Lemma sl_list_pick {A} (rows : list A) sl : sl_list rows sl = flat_map (pick rows) (sl_indices (length rows) sl).
Proof. destruct sl as [[st e] k]. reflexivity. Qed.

Lemma get_sl2ss_refines {A} (s : conc A) rsl csl :
  wf s -> get_c s (Sl2SS rsl csl) = get_s (abs s) (Sl2SS rsl csl).
Proof.
  intros Hwf. cbn [get_c get_s]. destruct (sl_ok rsl && sl_ok csl); [|reflexivity].
  rewrite (slices_core _ _ _ Hwf). unfold abs. rewrite sl_list_pick.
  assert (HL : length (rows_c s) = length (lens s)) by apply partition_length. rewrite HL.
  rewrite (map_opt_rows_pick (rows_c s) _ (fun row => Some (sl_list row csl))).
  - rewrite map_opt_total. reflexivity.
  - intros i Hi. rewrite HL. apply (sl_indices_in_range _ _ _ Hi).
  - intros i row _ E. rewrite E. reflexivity.
Qed.

(* a[rows, c] and a[rows, [c0, c1, ..]] *)
Lemma list_prod_groups (rs cs : list Z) :
  list_prod rs cs = concat (map (fun r => map (fun c => (r, c)) cs) rs) /\
  repeat (length cs) (length rs) = map (@length (Z * Z)) (map (fun r => map (fun c => (r, c)) cs) rs).
Proof.
  induction rs as [|r rs [IH1 IH2]]; cbn [list_prod map concat length repeat]; [split; reflexivity|].
  rewrite IH1, <- IH2, map_length. split; reflexivity.
Qed.

Lemma product_core {A} (s : conc A) rsl cs :
  wf s ->
  (let '(iis, nl) := iis_from_list (sl_indices (length (lens s)) rsl) cs in rebuild (gather s iis) nl) =
  val_result (map_opt (fun row => map_opt (get_item row) cs) (sl_list (rows_c s) rsl)).
Proof.
  intros Hwf. unfold iis_from_list.
  destruct (list_prod_groups (sl_indices (length (lens s)) rsl) cs) as [E1 E2]. rewrite E1, E2.
  rewrite (rebuild_groups _ _ Hwf), map_opt_map. rewrite sl_list_pick.
  assert (HL : length (rows_c s) = length (lens s)) by apply partition_length. rewrite HL.
  f_equal. apply map_opt_rows_pick.
  - intros i Hi. rewrite HL. apply (sl_indices_in_range _ _ _ Hi).
  - intros i row _ E. rewrite map_opt_map. cbn [fst snd]. unfold elem_s. rewrite E. reflexivity.
Qed.

Lemma get_sl2sl_refines {A} (s : conc A) rsl cs :
  wf s -> get_c s (Sl2SL rsl cs) = get_s (abs s) (Sl2SL rsl cs).
Proof.
  intros Hwf. cbn [get_c get_s]. destruct (sl_ok rsl); [|reflexivity]. apply product_core. exact Hwf.
Qed.

Lemma get_sl2si_refines {A} (s : conc A) rsl c :
  wf s -> get_c s (Sl2SI rsl c) = get_s (abs s) (Sl2SI rsl c).
Proof.
  intros Hwf. cbn [get_c get_s]. destruct (sl_ok rsl); [|reflexivity].
  rewrite (product_core _ _ _ Hwf). reflexivity.
Qed.

(* ---------------------------------------------------------------- attributes *)
Lemma attr_lengths_refines {A} (s : conc A) : wf s -> attr_lengths s = map (@length A) (abs s).
Proof. intros H. symmetry. apply lengths_partition. exact H. Qed.

Lemma attr_flatten_refines {A} (s : conc A) : wf s -> attr_flatten s = concat (abs s).
Proof. intros H. symmetry. apply concat_partition. exact H. Qed.

Lemma attr_size_refines {A} (s : conc A) : wf s -> attr_size s = sum_nat (map (@length A) (abs s)).
Proof. intros H. unfold attr_size. rewrite sum_lengths_concat, <- (attr_flatten_refines _ H). reflexivity. Qed.

Lemma attr_len_refines {A} (s : conc A) : attr_len s = length (abs s) /\ attr_len s = length (lens s).
Proof. split; [reflexivity|apply partition_length]. Qed.

Lemma attr_iter_refines {A} (s : conc A) : attr_iter s = abs s.
Proof. reflexivity. Qed.

Lemma starts_from_length s ls : length (starts_from s ls) = length ls.
Proof. revert s. induction ls as [|l ls IH]; intros s; cbn [starts_from length]; [reflexivity|]. rewrite IH. reflexivity. Qed.

(* starts[j] = total length of the rows before row j *)
Lemma starts_prefix_sum ls j :
  (j < length ls)%nat -> nth j (starts_of ls) 0%nat = sum_nat (firstn j ls).
Proof.
  unfold starts_of. revert j. induction ls as [|l ls IH]; intros j Hj; cbn [length] in Hj; [lia|].
  destruct j as [|j]; cbn [starts_from nth firstn sum_nat fold_right]; [reflexivity|].
  rewrite (starts_from_shift (0 + l)) by lia. rewrite IH by lia. unfold sum_nat. lia.
Qed.

Lemma attr_starts_refines {A} (s : conc A) :
  wf s -> length (attr_starts s) = length (abs s) /\
  forall j, (j < length (abs s))%nat ->
            nth j (attr_starts s) 0%nat = length (concat (firstn j (abs s))).
Proof.
  intros H. unfold attr_starts, starts_of. rewrite starts_from_length. unfold abs, rows_c. rewrite partition_length.
  split; [reflexivity|]. intros j Hj. fold (starts_of (lens s)). rewrite starts_prefix_sum by exact Hj.
  rewrite <- sum_lengths_concat, <- firstn_map, (lengths_partition _ _ H). reflexivity.
Qed.

Lemma all_equal_some ls l : all_equal ls = Some l <-> (ls <> [] /\ forall x, In x ls -> x = l).
Proof.
  destruct ls as [|x ls]; cbn [all_equal].
  - split; [discriminate|]. intros [H _]. contradiction.
  - destruct (forallb (Nat.eqb x) ls) eqn:E.
    + rewrite forallb_forall in E. split.
      * intros H. inversion H. subst. split; [discriminate|]. intros y [Hy|Hy]; [auto|].
        symmetry. apply Nat.eqb_eq. apply E. exact Hy.
      * intros [_ H]. f_equal. apply H. left. reflexivity.
    + split; [discriminate|]. intros [_ H]. exfalso.
      assert (X : forallb (Nat.eqb x) ls = true); [|congruence].
      apply forallb_forall. intros y Hy. apply Nat.eqb_eq.
      rewrite (H x) by (left; reflexivity). rewrite (H y) by (right; exact Hy). reflexivity.
Qed.

(* shape[1] is the common row length when all rows are equally long, None otherwise *)
Lemma attr_shape_refines {A} (s : conc A) l :
  wf s -> (attr_shape2 s = Some l <-> (abs s <> [] /\ forall row, In row (abs s) -> length row = l)).
Proof.
  intros H. unfold attr_shape2. rewrite all_equal_some. rewrite <- (lengths_partition _ _ H). fold (rows_c s). fold (abs s).
  split; intros [H1 H2]; split.
  - intros E. apply H1. rewrite E. reflexivity.
  - intros row Hr. apply H2. apply in_map. exact Hr.
  - intros E. apply H1. destruct (abs s); [reflexivity|discriminate].
  - intros x Hx. apply in_map_iff in Hx. destruct Hx as [row [E Hr]]. rewrite <- E. apply H2. exact Hr.
Qed.

(* ---------------------------------------------------------------- boolean mask *)
(* a[mask]: given that ra.where(mask) lists the True positions row-major (where_c = where_s, checked per case
   by the correspondence run; not yet proved for all masks), the read equals the list-of-rows read *)
Lemma get_mask_refines_partial {A} (s : conc A) m :
  wf s -> where_c m = Some (where_s m) -> get_c s (Mask m) = get_s (abs s) (Mask m).
Proof.
  intros Hwf Hw. cbn [get_c get_s]. rewrite Hw, (gather_spec _ _ Hwf), map_opt_map. reflexivity.
Qed.

(* all forms at once *)
Lemma get_refines {A} (s : conc A) i :
  wf s -> (forall m, i = Mask m -> where_c m = Some (where_s m)) -> get_c s i = get_s (abs s) i.
Proof.
  intros Hwf Hm. destruct i.
  - apply get_row_refines.
  - apply get_rows_refines.
  - apply get_rowlist_refines.
  - apply get_elem_refines; exact Hwf.
  - apply get_pairs_refines; exact Hwf.
  - apply get_pairs_scalar_refines; exact Hwf.
  - apply get_elem_list_refines; exact Hwf.
  - apply get_sl2ss_refines; exact Hwf.
  - apply get_sl2ls_refines; exact Hwf.
  - apply get_sl2si_refines; exact Hwf.
  - apply get_sl2sl_refines; exact Hwf.
  - apply get_rowsl_refines.
  - apply get_mask_refines_partial; [exact Hwf|]. apply Hm. reflexivity.
Qed.
