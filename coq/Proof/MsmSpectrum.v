(* C16, part 2: eigenspectrum post-processing (sort by descending real part, normalise the first
   vector, take real parts) and ensemble propagation (n steps = multiplication by T^n). *)
From Coq Require Import List ZArith QArith Qabs Bool Arith Lia Lqa Permutation Sorted.
From EV Require Import MsmBase MsmCfgGen Msm.
From EV Require Builders BuildersProofs.
Import ListNotations.
Open Scope Q_scope.

Notation qsum := Builders.qsum.
Notation ent := Builders.ent.
Notation vecmat := Builders.vecmat.

(* ------------------------------------------------------------------ sorting *)
Definition key_ge (x y : Q * nat) : Prop := fst y <= fst x.

Lemma ins_perm x l : Permutation (x :: l) (ins x l).
Proof.
  induction l as [|y r IH]; cbn [ins].
  - apply Permutation_refl.
  - destruct (Qle_bool (fst y) (fst x)).
    + apply Permutation_refl.
    + eapply perm_trans; [apply perm_swap|]. apply perm_skip. exact IH.
Qed.

Lemma ins_sorted x l : StronglySorted key_ge l -> StronglySorted key_ge (ins x l).
Proof.
  induction l as [|y r IH]; intros Hs; cbn [ins].
  - constructor; constructor.
  - destruct (Qle_bool (fst y) (fst x)) eqn:E.
    + apply Qle_bool_iff in E. constructor; [exact Hs|].
      constructor; [exact E|].
      apply StronglySorted_inv in Hs. destruct Hs as [_ Hf].
      eapply Forall_impl; [|exact Hf]. intros z Hz. unfold key_ge in *. lra.
    + assert (Hlt : fst x < fst y).
      { apply Qnot_le_lt. intro H. apply Qle_bool_iff in H. congruence. }
      apply StronglySorted_inv in Hs. destruct Hs as [Hr Hf].
      constructor; [apply IH; exact Hr|].
      eapply Permutation_Forall; [apply ins_perm|].
      constructor; [unfold key_ge; lra|exact Hf].
Qed.

Lemma sort_desc_perm l : Permutation l (sort_desc l).
Proof.
  induction l as [|x l IH]; cbn [sort_desc fold_right]; [constructor|].
  eapply perm_trans; [apply perm_skip; exact IH|]. apply ins_perm.
Qed.

Lemma sort_desc_sorted l : StronglySorted key_ge (sort_desc l).
Proof.
  induction l as [|x l IH]; cbn [sort_desc fold_right]; [constructor|].
  apply ins_sorted. exact IH.
Qed.

Definition c0 : cplx := (0, 0).
Definition keyed (vals : list cplx) : list (Q * nat) := combine (map re vals) (seq 0 (length vals)).
Definition key_ok (vals : list cplx) (p : Q * nat) : Prop :=
  (snd p < length vals)%nat /\ fst p = re (nth (snd p) vals c0).

Lemma keyed_ok_gen (vals : list cplx) : forall (l : list cplx) (a : nat),
  (forall i, (i < length l)%nat -> nth i l c0 = nth (a + i) vals c0) ->
  (a + length l <= length vals)%nat ->
  Forall (key_ok vals) (combine (map re l) (seq a (length l))).
Proof.
  induction l as [|z l IH]; intros a Hn Hlen; cbn [map length seq combine]; [constructor|].
  constructor.
  - split; cbn [fst snd]; [cbn [length] in Hlen; lia|].
    specialize (Hn 0%nat). cbn [nth length] in Hn. rewrite Nat.add_0_r in Hn. rewrite <- Hn; [reflexivity|lia].
  - apply IH.
    + intros i Hi. specialize (Hn (S i)). cbn [nth length] in Hn.
      rewrite Nat.add_succ_l, <- Nat.add_succ_r. apply Hn. lia.
    + cbn [length] in Hlen. lia.
Qed.

Lemma keyed_ok vals : Forall (key_ok vals) (keyed vals).
Proof. unfold keyed. apply keyed_ok_gen; [intros; reflexivity|lia]. Qed.

Lemma sorted_ok vals : Forall (key_ok vals) (sort_desc (keyed vals)).
Proof. eapply Permutation_Forall; [apply sort_desc_perm|apply keyed_ok]. Qed.

Lemma map_snd_combine : forall (a : list Q) (b : list nat), length a = length b -> map snd (combine a b) = b.
Proof.
  induction a as [|x a IH]; intros [|y b] H; cbn in *; try discriminate; try reflexivity.
  f_equal. apply IH. lia.
Qed.
Lemma map_fst_combine : forall (a : list Q) (b : list nat), length a = length b -> map fst (combine a b) = a.
Proof.
  induction a as [|x a IH]; intros [|y b] H; cbn in *; try discriminate; try reflexivity.
  f_equal. apply IH. lia.
Qed.

Lemma order_perm vals : Permutation (order vals) (seq 0 (length vals)).
Proof.
  unfold order. eapply perm_trans; [apply Permutation_map, Permutation_sym, sort_desc_perm|].
  rewrite map_snd_combine; [apply Permutation_refl|]. rewrite map_length, seq_length. reflexivity.
Qed.

Lemma reorder_vals_keys vals :
  map re (reorder c0 vals (order vals)) = map fst (sort_desc (keyed vals)).
Proof.
  unfold reorder, order. fold (keyed vals). rewrite !map_map.
  pose proof (sorted_ok vals) as H. induction H as [|p l [_ Hp] _ IH]; cbn [map]; [reflexivity|].
  rewrite Hp, IH. reflexivity.
Qed.

Definition desc (a b : Q) : Prop := b <= a.

Lemma sorted_keys l : StronglySorted key_ge l -> StronglySorted desc (map fst l).
Proof.
  induction 1 as [|p l Hs IH Hf]; cbn [map]; constructor; [exact IH|].
  apply Forall_forall. intros k Hk. apply in_map_iff in Hk. destruct Hk as [q [<- Hq]].
  rewrite Forall_forall in Hf. apply (Hf q Hq).
Qed.

Lemma in_firstn {A} (x : A) : forall n l, In x (firstn n l) -> In x l.
Proof.
  induction n as [|n IH]; intros [|y l] H; cbn [firstn] in H; try contradiction.
  destruct H as [->|H]; [left; reflexivity|right; apply IH; exact H].
Qed.

Lemma firstn_sorted {A} (R : A -> A -> Prop) n l : StronglySorted R l -> StronglySorted R (firstn n l).
Proof.
  intros H. revert n. induction H as [|x l Hs IH Hf]; intros [|n]; cbn [firstn]; try constructor.
  - apply IH.
  - apply Forall_forall. intros y Hy. rewrite Forall_forall in Hf. apply Hf.
    eapply in_firstn. exact Hy.
Qed.

Definition sorted_reals (vals : list cplx) : list Q := map fst (sort_desc (keyed vals)).

Lemma sorted_reals_perm vals : Permutation (sorted_reals vals) (map re vals).
Proof.
  unfold sorted_reals. eapply perm_trans; [apply Permutation_map, Permutation_sym, sort_desc_perm|].
  unfold keyed. rewrite map_fst_combine; [apply Permutation_refl|]. rewrite map_length, seq_length. reflexivity.
Qed.

Lemma sorted_reals_sorted vals : StronglySorted desc (sorted_reals vals).
Proof. apply sorted_keys, sort_desc_sorted. Qed.

(* ------------------------------------------------------------------ inversion of eig_post *)
Definition n_take (n_eigs : option Z) (vals : list cplx) : nat :=
  Z.to_nat (match n_eigs with None => Z.of_nat (length vals) | Some k => k end).

Lemma eig_post_inv ne vals vecs ev V :
  eig_post ne vals vecs = Some (ev, V) ->
  (match ne with Some k => (2 <= k)%Z | None => True end) /\
  ev = firstn (n_take ne vals) (sorted_reals vals) /\
  exists k0 ord' ,
    order vals = k0 :: ord' /\
    czero (csum (nth k0 vecs [])) = false /\
    V = map (map re) (firstn (n_take ne vals)
                        (normalize_vec (nth k0 vecs []) :: reorder [] vecs ord')).
Proof.
  unfold eig_post. intros H.
  destruct (match ne with Some k => (k <? 2)%Z | None => false end) eqn:Hg; [discriminate|].
  split.
  { destruct ne as [k|]; [|exact I]. apply Z.ltb_ge in Hg. exact Hg. }
  destruct (order vals) as [|k0 ord'] eqn:Ho; cbn [reorder map] in H; [discriminate|].
  destruct (czero (csum (nth k0 vecs []))) eqn:Hz; [discriminate|].
  injection H as <- <-. split.
  - rewrite <- firstn_map. unfold sorted_reals. rewrite <- reorder_vals_keys, Ho. reflexivity.
  - exists k0, ord'. repeat split; try reflexivity. exact Hz.
Qed.

(* "returns real eigenvalues in descending order": the values are the real parts of the spectrum,
   largest first, cut to the number asked for *)
Theorem eig_post_sorted : forall ne vals vecs ev V,
  eig_post ne vals vecs = Some (ev, V) ->
  StronglySorted desc ev /\
  exists full, Permutation full (map re vals) /\ StronglySorted desc full /\
               ev = firstn (n_take ne vals) full.
Proof.
  intros ne vals vecs ev V H. apply eig_post_inv in H. destruct H as [_ [-> _]]. split.
  - apply firstn_sorted, sorted_reals_sorted.
  - exists (sorted_reals vals). repeat split; [apply sorted_reals_perm|apply sorted_reals_sorted].
Qed.

Theorem eig_post_rejects_small_n_eigs : forall k vals vecs, (k < 2)%Z -> eig_post (Some k) vals vecs = None.
Proof. intros k vals vecs H. unfold eig_post. apply Z.ltb_lt in H. rewrite H. reflexivity. Qed.

Lemma n_take_pos ne vals k0 ord' :
  (match ne with Some k => (2 <= k)%Z | None => True end) -> order vals = k0 :: ord' -> (1 <= n_take ne vals)%nat.
Proof.
  intros Hne Ho. unfold n_take. destruct ne as [k|]; [lia|].
  pose proof (Permutation_length (order_perm vals)) as HL. rewrite Ho, seq_length in HL. cbn [length] in HL. lia.
Qed.

(* the pair that ends up first: an index of maximal real part, its value and its vector *)
Lemma eig_post_first ne vals vecs ev V :
  eig_post ne vals vecs = Some (ev, V) ->
  exists k0 ev' V',
    (k0 < length vals)%nat /\
    (forall z, In z vals -> re z <= re (nth k0 vals c0)) /\
    ev = re (nth k0 vals c0) :: ev' /\
    czero (csum (nth k0 vecs [])) = false /\
    V = map re (normalize_vec (nth k0 vecs [])) :: V'.
Proof.
  intros H. apply eig_post_inv in H. destruct H as [Hne [Hev [k0 [ord' [Ho [Hz HV]]]]]].
  pose proof (n_take_pos ne vals k0 ord' Hne Ho) as Hpos.
  destruct (n_take ne vals) as [|m] eqn:Hm; [lia|].
  pose proof (reorder_vals_keys vals) as Hk. rewrite Ho in Hk. cbn [reorder map] in Hk.
  fold (sorted_reals vals) in Hk.
  exists k0. eexists. eexists. split; [|split; [|split; [|split]]].
  - pose proof (order_perm vals) as Hp. rewrite Ho in Hp.
    assert (Hin : In k0 (seq 0 (length vals))) by (eapply Permutation_in; [exact Hp|left; reflexivity]).
    apply in_seq in Hin. lia.
  - intros z Hz'. pose proof (sorted_reals_sorted vals) as Hs. rewrite <- Hk in Hs.
    apply StronglySorted_inv in Hs. destruct Hs as [_ Hf]. rewrite Forall_forall in Hf.
    assert (Hin : In (re z) (sorted_reals vals)).
    { eapply Permutation_in; [apply Permutation_sym, sorted_reals_perm|]. apply in_map. exact Hz'. }
    rewrite <- Hk in Hin. destruct Hin as [<-|Hin]; [apply Qle_refl|]. apply (Hf _ Hin).
  - rewrite Hev, <- Hk. cbn [firstn]. reflexivity.
  - exact Hz.
  - rewrite HV. cbn [firstn map]. reflexivity.
Qed.

(* "with leading value one": given what is known of a stochastic matrix' spectrum (1 is an
   eigenvalue, no real part exceeds 1) *)
Theorem eig_post_leading_one : forall ne vals vecs ev V,
  eig_post ne vals vecs = Some (ev, V) ->
  (exists z, In z vals /\ re z == 1) -> (forall z, In z vals -> re z <= 1) ->
  exists ev', ev = hd 0 ev :: ev' /\ hd 0 ev == 1.
Proof.
  intros ne vals vecs ev V H [z [Hz Hz1]] Hle.
  destruct (eig_post_first _ _ _ _ _ H) as [k0 [ev' [V' [Hk [Hmax [-> _]]]]]].
  exists ev'. cbn [hd]. split; [reflexivity|].
  apply Qle_antisym.
  - apply Hle. apply nth_In. exact Hk.
  - rewrite <- Hz1. apply Hmax. exact Hz.
Qed.

(* ------------------------------------------------------------------ the first vector *)
Lemma re_csum w : re (csum w) = qsum (map re w).
Proof. induction w as [|x w IH]; [reflexivity|]. cbn [csum fold_right map]. unfold cadd at 1. cbn [re fst].
  rewrite BuildersProofs.qsum_cons. fold (csum w). rewrite IH. reflexivity. Qed.
Lemma im_csum w : im (csum w) = qsum (map im w).
Proof. induction w as [|x w IH]; [reflexivity|]. cbn [csum fold_right map]. unfold cadd at 1. cbn [im snd].
  rewrite BuildersProofs.qsum_cons. fold (csum w). rewrite IH. reflexivity. Qed.

Lemma re_cdiv x s : re (cdiv x s) = (re x * re s + im x * im s) / cnorm2 s.
Proof. reflexivity. Qed.

Lemma qsum_lin {A} (f g : A -> Q) (a b d : Q) (l : list A) :
  qsum (map (fun x => (f x * a + g x * b) / d) l) == (qsum (map f l) * a + qsum (map g l) * b) / d.
Proof.
  induction l as [|x l IH]; cbn [map].
  - rewrite !BuildersProofs.qsum_nil. unfold Qdiv. ring.
  - rewrite !BuildersProofs.qsum_cons, IH. unfold Qdiv. ring.
Qed.

Lemma czero_false s : czero s = false -> ~ cnorm2 s == 0.
Proof.
  unfold czero, cnorm2. intros H Hn.
  assert (Hr : re s == 0) by nra. assert (Hi : im s == 0) by nra.
  apply Qeq_bool_iff in Hr. apply Qeq_bool_iff in Hi. rewrite Hr, Hi in H. discriminate.
Qed.

Lemma map_re_normalize w :
  map re (normalize_vec w) = map (fun x => (re x * re (csum w) + im x * im (csum w)) / cnorm2 (csum w)) w.
Proof. unfold normalize_vec. rewrite map_map. reflexivity. Qed.

(* "normalise first vector to sum one" *)
Theorem normalized_sums_to_one : forall w, czero (csum w) = false -> qsum (map re (normalize_vec w)) == 1.
Proof.
  intros w Hz. rewrite map_re_normalize, qsum_lin, <- re_csum, <- im_csum.
  apply czero_false in Hz. unfold cnorm2 in *. field. exact Hz.
Qed.

Theorem eig_post_first_sums_to_one : forall ne vals vecs ev V,
  eig_post ne vals vecs = Some (ev, V) -> exists v0 V', V = v0 :: V' /\ qsum v0 == 1.
Proof.
  intros ne vals vecs ev V H.
  destruct (eig_post_first _ _ _ _ _ H) as [k0 [ev' [V' [_ [_ [_ [Hz ->]]]]]]].
  eexists. eexists. split; [reflexivity|]. apply normalized_sums_to_one. exact Hz.
Qed.

(* left eigenpair of a real matrix T: w T = lam w, componentwise over Q x Q *)
Definition left_eig (T : Builders.mat) (lam : cplx) (w : list cplx) : Prop :=
  length w = length T /\
  forall j, (j < length T)%nat ->
    vecmat (map re w) T j == re (cmul lam (nth j w c0)) /\
    vecmat (map im w) T j == im (cmul lam (nth j w c0)).

Lemma nth_map_re w j : nth j (map re w) 0 = re (nth j w c0).
Proof. change 0 with (re c0). apply map_nth. Qed.
Lemma nth_map_im w j : nth j (map im w) 0 = im (nth j w c0).
Proof. change 0 with (im c0). apply map_nth. Qed.

Lemma nth_map_default {A B} (f : A -> B) l d d' j :
  (j < length l)%nat -> nth j (map f l) d' = f (nth j l d).
Proof. intros H. rewrite (nth_indep _ d' (f d)) by (rewrite map_length; exact H). apply map_nth. Qed.

Lemma nth_lin w a b d j :
  nth j (map (fun x : cplx => (re x * a + im x * b) / d) w) 0 == (re (nth j w c0) * a + im (nth j w c0) * b) / d.
Proof.
  destruct (Nat.lt_ge_cases j (length w)) as [H|H].
  - rewrite (nth_map_default _ w c0 0 j H). reflexivity.
  - rewrite !nth_overflow by (try rewrite map_length; exact H). cbn. unfold Qdiv. ring.
Qed.

(* the real part of the normalised vector of a left eigenpair for eigenvalue 1 is stationary *)
Theorem normalized_fixed_is_stationary : forall T lam w,
  left_eig T lam w -> re lam == 1 -> im lam == 0 -> czero (csum w) = false ->
  let pi := map re (normalize_vec w) in
  length pi = length T /\ qsum pi == 1 /\
  forall j, (j < length T)%nat -> vecmat pi T j == nth j pi 0.
Proof.
  intros T lam w [HL He] Hre Him Hz pi. subst pi. split; [|split].
  - unfold normalize_vec. rewrite !map_length. exact HL.
  - apply normalized_sums_to_one. exact Hz.
  - intros j Hj. rewrite map_re_normalize.
    set (a := re (csum w)). set (b := im (csum w)). set (d := cnorm2 (csum w)).
    rewrite nth_lin. unfold Builders.vecmat at 1.
    transitivity (qsum (map (fun i => (re (nth i w c0) * ent T i j * a + im (nth i w c0) * ent T i j * b) / d)
                            (seq 0 (length T)))).
    { apply BuildersProofs.qsum_map_ext. intros i _. rewrite nth_lin. unfold Qdiv. ring. }
    rewrite qsum_lin. destruct (He j Hj) as [E1 E2].
    unfold Builders.vecmat in E1, E2.
    assert (F1 : qsum (map (fun i => re (nth i w c0) * ent T i j) (seq 0 (length T))) == re (nth j w c0)).
    { rewrite <- (BuildersProofs.qsum_map_ext (fun i => nth i (map re w) 0 * ent T i j)) by
        (intros i _; rewrite nth_map_re; reflexivity).
      rewrite E1. unfold cmul. cbn [re fst]. rewrite Hre, Him. ring. }
    assert (F2 : qsum (map (fun i => im (nth i w c0) * ent T i j) (seq 0 (length T))) == im (nth j w c0)).
    { rewrite <- (BuildersProofs.qsum_map_ext (fun i => nth i (map im w) 0 * ent T i j)) by
        (intros i _; rewrite nth_map_im; reflexivity).
      rewrite E2. unfold cmul. cbn [im snd]. rewrite Hre, Him. ring. }
    rewrite F1, F2. reflexivity.
Qed.

(* "leading value one whose left eigenvector is the stationary distribution": if the solver's
   output consists of left eigenpairs of T, 1 is in the spectrum, no real part exceeds 1 and an
   eigenvalue with real part 1 is 1 (all true of a stochastic matrix), then the first returned
   value is 1 and the first returned vector is a stationary distribution summing to one. *)
Theorem eig_post_stationary : forall T ne vals vecs ev V,
  eig_post ne vals vecs = Some (ev, V) ->
  (forall k, (k < length vals)%nat -> left_eig T (nth k vals c0) (nth k vecs [])) ->
  (exists z, In z vals /\ re z == 1) ->
  (forall z, In z vals -> re z <= 1) ->
  (forall z, In z vals -> re z == 1 -> im z == 0) ->
  exists pi V' ev',
    V = pi :: V' /\ ev = hd 0 ev :: ev' /\ hd 0 ev == 1 /\
    length pi = length T /\ qsum pi == 1 /\
    forall j, (j < length T)%nat -> vecmat pi T j == nth j pi 0.
Proof.
  intros T ne vals vecs ev V H Hpairs [z [Hz Hz1]] Hle Hreal.
  destruct (eig_post_first _ _ _ _ _ H) as [k0 [ev' [V' [Hk [Hmax [-> [Hcz ->]]]]]]].
  assert (H1 : re (nth k0 vals c0) == 1).
  { apply Qle_antisym; [apply Hle, nth_In, Hk|]. rewrite <- Hz1. apply Hmax, Hz. }
  destruct (normalized_fixed_is_stationary T (nth k0 vals c0) (nth k0 vecs []) (Hpairs k0 Hk) H1
              (Hreal _ (nth_In _ _ Hk) H1) Hcz) as [A [B C]].
  eexists. exists V', ev'. cbn [hd]. repeat split; try reflexivity; assumption.
Qed.

(* ------------------------------------------------------------------ propagation *)
Lemma step_length T p : length (step T p) = length T.
Proof. unfold step. rewrite map_length, seq_length. reflexivity. Qed.

Lemma iterate_length T p n : length p = length T -> length (iterate T p n) = length T.
Proof. destruct n; intros H; cbn [iterate]; [exact H|apply step_length]. Qed.

Lemma nth_step T p j : (j < length T)%nat -> nth j (step T p) 0 == vecmat p T j.
Proof. intros H. unfold step. rewrite BuildersProofs.nth_map_seq by exact H. apply Qred_correct. Qed.

Lemma vecmat_ext p q T j :
  (forall i, (i < length T)%nat -> nth i p 0 == nth i q 0) -> vecmat p T j == vecmat q T j.
Proof.
  intros H. unfold Builders.vecmat. apply BuildersProofs.qsum_map_ext. intros i Hi.
  apply in_seq in Hi. rewrite H by lia. reflexivity.
Qed.

Lemma length_mmul A B : length (mmul A B) = length A.
Proof. unfold mmul. apply BuildersProofs.length_mk. Qed.

Lemma length_mpow T n : length (mpow T n) = length T.
Proof.
  induction n as [|n IH]; cbn [mpow].
  - unfold mident. apply BuildersProofs.length_mk.
  - rewrite length_mmul. exact IH.
Qed.

(* (p A) T = p (A T) *)
Lemma vecmat_assoc p A T j :
  length A = length T -> (j < length T)%nat ->
  vecmat (step A p) T j == vecmat p (mmul A T) j.
Proof.
  intros HL Hj. unfold Builders.vecmat. rewrite length_mmul, <- HL.
  transitivity (qsum (map (fun k => qsum (map (fun i => nth i p 0 * ent A i k * ent T k j) (seq 0 (length A))))
                          (seq 0 (length A)))).
  { apply BuildersProofs.qsum_map_ext. intros k Hk. apply in_seq in Hk.
    rewrite nth_step by lia. unfold Builders.vecmat.
    rewrite <- BuildersProofs.qsum_map_scale_r. reflexivity. }
  rewrite BuildersProofs.qsum_swap.
  apply BuildersProofs.qsum_map_ext. intros i Hi. apply in_seq in Hi.
  unfold mmul. rewrite BuildersProofs.ent_mk by lia.
  rewrite <- BuildersProofs.qsum_map_scale_l.
  apply BuildersProofs.qsum_map_ext. intros k _. ring.
Qed.

Lemma qsum_delta (f : nat -> Q) j : forall len a,
  qsum (map (fun i => f i * (if Nat.eqb i j then 1 else 0)) (seq a len)) ==
  if (a <=? j)%nat && (j <? a + len)%nat then f j else 0.
Proof.
  induction len as [|len IH]; intros a; cbn [seq map].
  - rewrite BuildersProofs.qsum_nil.
    destruct (a <=? j)%nat eqn:E1; destruct (j <? a + 0)%nat eqn:E2; cbn [andb]; try reflexivity.
    apply Nat.leb_le in E1. apply Nat.ltb_lt in E2. lia.
  - rewrite BuildersProofs.qsum_cons, IH.
    destruct (Nat.eqb a j) eqn:E.
    + apply Nat.eqb_eq in E. subst a.
      replace (S j <=? j)%nat with false by (symmetry; apply Nat.leb_gt; lia).
      replace (j <=? j)%nat with true by (symmetry; apply Nat.leb_le; lia).
      replace (j <? j + S len)%nat with true by (symmetry; apply Nat.ltb_lt; lia).
      cbn [andb]. ring.
    + apply Nat.eqb_neq in E.
      destruct (a <=? j)%nat eqn:E1; destruct (S a <=? j)%nat eqn:E2;
        destruct (j <? a + S len)%nat eqn:E3; destruct (j <? S a + len)%nat eqn:E4; cbn [andb]; try ring;
        repeat match goal with
               | H : (_ <=? _)%nat = true |- _ => apply Nat.leb_le in H
               | H : (_ <=? _)%nat = false |- _ => apply Nat.leb_gt in H
               | H : (_ <? _)%nat = true |- _ => apply Nat.ltb_lt in H
               | H : (_ <? _)%nat = false |- _ => apply Nat.ltb_ge in H
               end; lia.
Qed.

Lemma vecmat_ident p n j : (j < n)%nat -> vecmat p (mident n) j == nth j p 0.
Proof.
  intros Hj. unfold Builders.vecmat, mident. rewrite BuildersProofs.length_mk.
  rewrite (BuildersProofs.qsum_map_ext _ (fun i => nth i p 0 * (if Nat.eqb i j then 1 else 0))).
  - rewrite qsum_delta. replace (0 <=? j)%nat with true by (symmetry; apply Nat.leb_le; lia).
    replace (j <? 0 + n)%nat with true by (symmetry; apply Nat.ltb_lt; lia). reflexivity.
  - intros i Hi. apply in_seq in Hi. rewrite BuildersProofs.ent_mk by lia. reflexivity.
Qed.

(* "propagating an ensemble n steps equals n multiplications by the transition matrix" *)
Theorem propagate_power : forall T p n j,
  length p = length T -> (j < length T)%nat ->
  nth j (iterate T p n) 0 == vecmat p (mpow T n) j.
Proof.
  intros T p n. induction n as [|n IH]; intros j HL Hj; cbn [iterate mpow].
  - rewrite vecmat_ident by exact Hj. reflexivity.
  - rewrite nth_step by exact Hj.
    rewrite (vecmat_ext _ (step (mpow T n) p)).
    + apply vecmat_assoc; [apply length_mpow|exact Hj].
    + intros i Hi. rewrite IH by assumption. rewrite nth_step by (rewrite length_mpow; exact Hi). reflexivity.
Qed.

Lemma trajectory_nth T p n k : (k <= n)%nat -> nth k (trajectory T p n) [] = iterate T p k.
Proof.
  intros H. unfold trajectory.
  rewrite (nth_indep _ [] (iterate T p 0)) by (rewrite map_length, seq_length; lia).
  rewrite map_nth. rewrite seq_nth by lia. reflexivity.
Qed.

Theorem ensemble_is_power : forall T p0 n_steps p obs,
  ensemble T p0 n_steps = Some (p, obs) -> sq_ok T p0 = true ->
  let n := n_iter n_steps in
  length obs = S n /\
  (forall j, (j < length T)%nat -> nth j p 0 == vecmat p0 (mpow T n) j) /\
  (forall k j, (k <= n)%nat -> (j < length T)%nat -> nth j (nth k obs []) 0 == vecmat p0 (mpow T k) j).
Proof.
  intros T p0 n_steps p obs H Hsq n. unfold ensemble in H. rewrite Hsq in H. cbn [orb] in H.
  injection H as <- <-. fold n.
  unfold sq_ok in Hsq. apply andb_true_iff in Hsq. destruct Hsq as [_ HL]. apply Nat.eqb_eq in HL.
  split; [|split].
  - unfold trajectory. rewrite map_length, seq_length. reflexivity.
  - intros j Hj. apply propagate_power; assumption.
  - intros k j Hk Hj. rewrite trajectory_nth by exact Hk. apply propagate_power; assumption.
Qed.

Theorem ensemble_steps : forall n_steps, (1 <= n_steps)%Z -> Z.of_nat (n_iter n_steps) = (n_steps - 1)%Z.
Proof. intros. unfold n_iter. lia. Qed.

Theorem ensemble_obs_is_dot : forall T p0 n_steps ob p series,
  ensemble_obs T p0 n_steps ob = Some (p, series) ->
  p = iterate T p0 (n_iter n_steps) /\
  length series = S (n_iter n_steps) /\
  forall k, (k <= n_iter n_steps)%nat -> nth k series 0 = dot (iterate T p0 k) ob.
Proof.
  intros T p0 n_steps ob p series H. unfold ensemble_obs in H.
  destruct ((sq_ok T p0 || Nat.eqb (n_iter n_steps) 0) && Nat.eqb (length ob) (length p0)); [|discriminate].
  assert (Hp : iterate T p0 (n_iter n_steps) = p) by congruence.
  assert (Hs : map (fun q => dot q ob) (trajectory T p0 (n_iter n_steps)) = series) by congruence.
  clear H. subst p series. split; [reflexivity|]. split.
  - unfold trajectory. rewrite !map_length, seq_length. reflexivity.
  - intros k Hk. unfold trajectory. rewrite map_map.
    rewrite (nth_map_default _ _ 0%nat 0 k) by (rewrite seq_length; lia).
    rewrite seq_nth by lia. reflexivity.
Qed.

Theorem ensemble_rejects_misshaped : forall T p0 n_steps,
  sq_ok T p0 = false -> (2 <= n_steps)%Z -> ensemble T p0 n_steps = None.
Proof.
  intros T p0 n_steps H Hn. unfold ensemble. rewrite H. cbn [orb].
  replace (Nat.eqb (n_iter n_steps) 0) with false; [reflexivity|].
  symmetry. apply Nat.eqb_neq. unfold n_iter. lia.
Qed.

(* a row-stochastic T conserves total probability *)
Theorem step_conserves_total : forall T p,
  Builders.is_square T = true -> length p = length T ->
  (forall i, (i < length T)%nat -> qsum (Builders.row T i) == 1) ->
  qsum (step T p) == qsum p.
Proof.
  intros T p Hsq HL Hrow. unfold step.
  transitivity (qsum (map (fun j => qsum (map (fun i => nth i p 0 * ent T i j) (seq 0 (length T)))) (seq 0 (length T)))).
  { apply BuildersProofs.qsum_map_ext. intros j _. apply Qred_correct. }
  rewrite BuildersProofs.qsum_swap.
  assert (Hp : qsum p == qsum (map (fun i => nth i p 0) (seq 0 (length T)))).
  { rewrite <- HL, <- BuildersProofs.list_as_map_nth. reflexivity. }
  rewrite Hp.
  apply BuildersProofs.qsum_map_ext. intros i Hi. apply in_seq in Hi.
  pose proof (BuildersProofs.qsum_row_as_ents T i) as Hr.
  rewrite (BuildersProofs.is_square_row T i Hsq) in Hr by lia.
  assert (Hone : qsum (map (fun j => ent T i j) (seq 0 (length T))) == 1).
  { rewrite <- Hr. apply Hrow. lia. }
  rewrite BuildersProofs.qsum_map_scale_l.
  transitivity (nth i p 0 * 1); [|ring].
  apply Qmult_comp; [reflexivity|exact Hone].
Qed.

(* ------------------------------------------------------------------ the hypotheses are satisfiable *)
(* the 4-cycle: eigenvalues i, -1, 1, -i (as a solver might list them) with left eigenvectors
   w_j = lambda^(-j) *)
Definition cycle4 : Builders.mat := [[0; 1; 0; 0]; [0; 0; 1; 0]; [0; 0; 0; 1]; [1; 0; 0; 0]].
Definition cycle4_vals : list cplx := [(0, 1); (-1, 0); (1, 0); (0, -1)].
Definition cycle4_vecs : list (list cplx) :=
  [[(1, 0); (0, -1); (-1, 0); (0, 1)]; [(2, 0); (-2, 0); (2, 0); (-2, 0)];
   [(0, 3); (0, 3); (0, 3); (0, 3)]; [(1, 0); (0, 1); (-1, 0); (0, -1)]].

Lemma cycle4_pairs : forall k, (k < length cycle4_vals)%nat ->
  left_eig cycle4 (nth k cycle4_vals c0) (nth k cycle4_vecs []).
Proof.
  intros k Hk. cbn [length cycle4_vals] in Hk.
  do 4 (destruct k as [|k]; [split; [reflexivity|]; intros j Hj; cbn [length cycle4] in Hj;
        do 4 (destruct j as [|j]; [split; vm_compute; reflexivity|]); lia|]).
  lia.
Qed.

Lemma cycle4_spectrum_facts :
  (exists z, In z cycle4_vals /\ re z == 1) /\ (forall z, In z cycle4_vals -> re z <= 1) /\
  (forall z, In z cycle4_vals -> re z == 1 -> im z == 0).
Proof.
  split; [exists (1, 0); split; [cbn; tauto|reflexivity]|]. split.
  - intros z Hz. cbn in Hz. repeat destruct Hz as [<-|Hz]; try contradiction; cbn; lra.
  - intros z Hz H1. cbn in Hz. repeat destruct Hz as [<-|Hz]; try contradiction; cbn in *; lra.
Qed.
