(* C14 round 2: the state assembled from the ranks after any number of distributed PAM steps / sweeps, and
   after distributed k-centers, satisfies C01's invariant, keeps k and never raises the cost.
   Refinement (MpiPam, MpiProofs) composed with the serial invariant lemmas (ClusterPam, ClusterTop). *)
From Coq Require Import List ZArith QArith Bool Arith Lia Lqa Permutation.
From EV Require Import Cluster ClusterBase ClusterInv ClusterPam ClusterKC ClusterTop.
From EV Require Import Mpi MpiBase MpiIndex MpiKc MpiProofs MpiPam.
Import ListNotations.
Local Open Scope nat_scope.

Lemma nth_error_nil_none : forall {A} i, nth_error (@nil A) i = None.
Proof. intros A i; destruct i; reflexivity. Qed.

Lemma members_from_in : forall cid l s i, In i (members_from cid s l) -> s <= i < s + length l.
Proof.
  intros cid l; induction l as [|x r IH]; intros s i H; cbn [members_from] in H; [contradiction|].
  cbn [length]. destruct (lab x =? cid).
  - destruct H as [<-|H]; [lia|]. apply IH in H. lia.
  - apply IH in H. lia.
Qed.

Lemma Qdiv_le_compat_r : forall (a b : Q) k, (a <= b)%Q -> (a / inject_Z (Z.of_nat k) <= b / inject_Z (Z.of_nat k))%Q.
Proof.
  intros a b k H. unfold Qdiv. apply Qmult_le_compat_r; [exact H|].
  apply Qinv_le_0_compat. change 0%Q with (inject_Z 0). rewrite <- Zle_Qle. lia.
Qed.

Section MpiInv.
  Variable D : nat -> nat -> Q.
  Hypothesis D_self : forall f, (D f f == 0)%Q.
  Hypothesis D_pos : forall c f, c <> f -> (0 < D c f)%Q.
  Variables (P : nat) (lens : list nat).
  Hypothesis HP : 1 <= P.

  (* ds represents the serial state (dcid ds, g): the local arrays are the scatter of g, the state is
     consistent in the sense of C01, the centre pairs convert to the centre ids *)
  Definition rep (ds : dstate) (g : list fr) : Prop :=
    dloc ds = scatter P lens g /\ Inv D (sum_nat lens) (dcid ds, g) /\ ctrs_ok P lens (dctr ds) (dcid ds).

  Lemma rep_fids : forall ds g, rep ds g -> fids_ok lens g.
  Proof. intros ds g [_ [[_ [_ [_ [H _]]]] _]]. exact H. Qed.

  Lemma rep_len : forall ds g, rep ds g -> length g = sum_nat lens.
  Proof. intros ds g H. apply fids_ok_length. eapply rep_fids; eassumption. Qed.

  Lemma local_in : forall {A} (g : list A) r i m, length g = sum_nat lens -> r < P ->
    nth_error (local_of P r lens g) i = Some m -> In m g.
  Proof.
    intros A g r i m Hg Hr Hn. apply nth_error_In in Hn.
    eapply Permutation_in; [apply (scatter_perm P lens g HP Hg)|].
    apply in_concat. exists (local_of P r lens g). split; [|exact Hn].
    rewrite <- (scatter_nth P lens g r Hr). apply nth_In. rewrite scatter_length. exact Hr.
  Qed.

  Lemma nth_scatter_some : forall {A} (g : list A) r i m, nth_error (nth r (scatter P lens g) []) i = Some m ->
    r < P /\ nth_error (local_of P r lens g) i = Some m.
  Proof.
    intros A g r i m H. destruct (lt_dec r P) as [Hr|Hr].
    - split; [exact Hr|]. rewrite scatter_nth in H by exact Hr. exact H.
    - rewrite nth_overflow in H by (rewrite scatter_length; lia). rewrite nth_error_nil_none in H. discriminate.
  Qed.

  (* one distributed PAM step on a represented state: defined, and represents the serial step's state *)
  Lemma rep_pam_step : forall ds g cid r i m,
    rep ds g -> cid < length (dcid ds) -> nth_error (nth r (dloc ds) []) i = Some m ->
    exists ds', pam_update_mpi D ds cid (r, i) = Some ds' /\
      rep ds' (snd (pam_update D (dcid ds, g) cid (fid m))) /\
      dcid ds' = fst (pam_update D (dcid ds, g) cid (fid m)) /\
      length (dctr ds') = length (dctr ds).
  Proof.
    intros [cp cids locs] g cid r i m Hrep Hcid Hn.
    pose proof (rep_len _ _ Hrep) as Hg. pose proof (rep_fids _ _ Hrep) as Hfid.
    destruct Hrep as [Hloc [HI Hc]]. cbn [dloc dcid dctr] in *. subst locs.
    destruct (nth_scatter_some g r i m Hn) as [Hr Hnth].
    pose proof (local_in g r i m Hg Hr Hnth) as Hin.
    assert (Hpos : 0 < length g) by (destruct g; [contradiction|cbn; lia]).
    rewrite (pam_update_mpi_refines D P lens HP cp cids g cid r i m Hg Hpos Hr Hnth).
    eexists. split; [reflexivity|]. cbn [dloc dcid dctr].
    split; [|split; [reflexivity|]].
    - unfold rep. cbn [dloc dcid dctr]. split; [reflexivity|]. split.
      + rewrite <- surjective_pairing. apply (pam_update_inv D D_self D_pos); [exact HI|exact Hcid|].
        apply (fid_lt D (sum_nat lens) (cids, g)); [exact HI|exact Hin].
      + unfold pam_update. cbn [fst snd].
        destruct (Qlt_b _ _); cbn [fst]; [|exact Hc].
        apply (pam_update_mpi_ctrs_ok P lens cp cids g cid r i m); assumption.
    - destruct (Qlt_b _ _); [apply replace_nth_length|reflexivity].
  Qed.

  (* ---- explicit proposals: (cluster id, (owner rank, local index)), each in range *)
  Definition step_in_range (k : nat) (st : nat * (nat * nat)) : Prop :=
    fst st < k /\ fst (snd st) < P /\ snd (snd st) < sum_nat (every P (fst (snd st)) lens).

  Lemma rep_pam_steps : forall steps ds g,
    rep ds g -> Forall (step_in_range (length (dcid ds))) steps ->
    exists ds' g', pam_steps_mpi D steps ds = Some ds' /\ rep ds' g' /\
      length (dcid ds') = length (dcid ds) /\ length (dctr ds') = length (dctr ds) /\
      (sumsq g' <= sumsq g)%Q.
  Proof.
    induction steps as [|[cid [r i]] steps IH]; intros ds g Hrep Hok.
    - exists ds, g. split; [reflexivity|]. split; [exact Hrep|]. split; [reflexivity|]. split; [reflexivity|]. lra.
    - inversion Hok as [|? ? [Hcid [Hr Hi]] Hrest]; subst. cbn [fst snd] in *.
      pose proof (rep_len _ _ Hrep) as Hg.
      assert (Hex : exists m, nth_error (local_of P r lens g) i = Some m).
      { destruct (nth_error (local_of P r lens g) i) as [m|] eqn:E; [exists m; reflexivity|].
        apply nth_error_None in E. rewrite (local_of_length P r lens g Hg) in E. lia. }
      destruct Hex as [m Hm].
      assert (Hn : nth_error (nth r (dloc ds) []) i = Some m).
      { destruct Hrep as [Hloc _]. rewrite Hloc, scatter_nth by exact Hr. exact Hm. }
      destruct (rep_pam_step ds g cid r i m Hrep Hcid Hn) as [ds1 [Hrun [Hrep1 [Hcid1 Hlen1]]]].
      assert (Hk : length (dcid ds1) = length (dcid ds)).
      { rewrite Hcid1. apply (pam_update_k D (dcid ds, g)). }
      destruct (IH ds1 _ Hrep1) as [ds' [g' [Hrun' [Hrep' [Hk' [Hl' Hcost]]]]]].
      + rewrite Hk. exact Hrest.
      + exists ds', g'. cbn [pam_steps_mpi]. rewrite Hrun. split; [exact Hrun'|]. split; [exact Hrep'|].
        split; [congruence|]. split; [congruence|].
        pose proof (pam_update_cost_le D (dcid ds, g) cid (fid m)) as Hc. cbn [snd] in Hc. lra.
  Qed.

  (* ---- proposals drawn through randind (rank 0's draws), as the code does *)
  Lemma propose_mpi_sound : forall ds cid g0 r i, propose_mpi ds cid g0 = Some (r, i) ->
    exists m, nth_error (nth r (dloc ds) []) i = Some m.
  Proof.
    intros ds cid g0 r i H. unfold propose_mpi in H.
    destruct (randind _ g0) as [[r0 idx]|]; [|discriminate].
    destruct (nth_error (nth r0 (map (members_from cid 0) (dloc ds)) []) idx) as [i0|] eqn:E; [|discriminate].
    injection H as -> ->. apply nth_error_In in E.
    change (@nil nat) with (members_from cid 0 []) in E. rewrite map_nth in E.
    apply members_from_in in E.
    destruct (nth_error (nth r (dloc ds) []) i) as [m|] eqn:E2; [exists m; reflexivity|].
    apply nth_error_None in E2. lia.
  Qed.

  Lemma rep_sweep : forall draws cid ds g ds',
    rep ds g -> cid + length draws <= length (dcid ds) -> pam_sweep_mpi_from D cid draws ds = Some ds' ->
    exists g', rep ds' g' /\ length (dcid ds') = length (dcid ds) /\ length (dctr ds') = length (dctr ds) /\
      (sumsq g' <= sumsq g)%Q.
  Proof.
    induction draws as [|g0 draws IH]; intros cid ds g ds' Hrep Hk Hrun; cbn [pam_sweep_mpi_from] in Hrun.
    - injection Hrun as <-. exists g. split; [exact Hrep|]. split; [reflexivity|]. split; [reflexivity|]. lra.
    - cbn [length] in Hk.
      destruct (propose_mpi ds cid g0) as [[r i]|] eqn:Ep; [|discriminate].
      destruct (propose_mpi_sound ds cid g0 r i Ep) as [m Hm].
      destruct (rep_pam_step ds g cid r i m Hrep ltac:(lia) Hm) as [ds1 [Hrun1 [Hrep1 [Hcid1 Hlen1]]]].
      rewrite Hrun1 in Hrun.
      assert (Hk1 : length (dcid ds1) = length (dcid ds)).
      { rewrite Hcid1. apply (pam_update_k D (dcid ds, g)). }
      destruct (IH (S cid) ds1 _ ds' Hrep1 ltac:(lia) Hrun) as [g' [Hrep' [Hk' [Hl' Hcost]]]].
      exists g'. split; [exact Hrep'|]. split; [congruence|]. split; [congruence|].
      pose proof (pam_update_cost_le D (dcid ds, g) cid (fid m)) as Hc. cbn [snd] in Hc. lra.
  Qed.

  Lemma rep_kmedoids : forall sweeps ds g ds',
    rep ds g -> Forall (fun s => length s <= length (dcid ds)) sweeps -> kmedoids_mpi D sweeps ds = Some ds' ->
    exists g', rep ds' g' /\ length (dcid ds') = length (dcid ds) /\ length (dctr ds') = length (dctr ds) /\
      (sumsq g' <= sumsq g)%Q.
  Proof.
    induction sweeps as [|s sweeps IH]; intros ds g ds' Hrep Hok Hrun; cbn [kmedoids_mpi] in Hrun.
    - injection Hrun as <-. exists g. split; [exact Hrep|]. split; [reflexivity|]. split; [reflexivity|]. lra.
    - inversion Hok as [|? ? Hs Hrest]; subst.
      destruct (pam_sweep_mpi_from D 0 s ds) as [ds1|] eqn:E1; [|discriminate].
      destruct (rep_sweep s 0 ds g ds1 Hrep ltac:(cbn; lia) E1) as [g1 [Hrep1 [Hk1 [Hl1 Hc1]]]].
      destruct (IH ds1 g1 ds' Hrep1) as [g' [Hrep' [Hk' [Hl' Hc']]]]; [rewrite Hk1; exact Hrest|exact Hrun|].
      exists g'. split; [exact Hrep'|]. split; [congruence|]. split; [congruence|]. lra.
  Qed.

  (* ---- what the user sees of a represented state after the reassembly routines *)
  Hypothesis HPn : P <= length lens.

  Definition assembled (ds : dstate) (g : list fr) : Prop :=
    map (convert_local P lens) (dctr ds) = map Some (dcid ds) /\
    assemble 0 P lens (map (map lab) (dloc ds)) = Some (map lab g) /\
    assemble 0%Q P lens (map (map dist) (dloc ds)) = Some (map dist g) /\
    assemble 0 P lens (map (map fid) (dloc ds)) = Some (seq 0 (sum_nat lens)).

  Lemma rep_assembled : forall ds g, rep ds g -> assembled ds g.
  Proof.
    intros ds g Hrep. pose proof (rep_len _ _ Hrep) as Hg. pose proof (rep_fids _ _ Hrep) as Hfid.
    destruct Hrep as [Hloc [_ Hc]]. unfold assembled. rewrite Hloc, <- !scatter_map.
    split; [exact Hc|].
    split; [apply assemble_split; try assumption; rewrite map_length; exact Hg|].
    split; [apply assemble_split; try assumption; rewrite map_length; exact Hg|].
    rewrite <- Hfid. apply assemble_split; try assumption. rewrite map_length; exact Hg.
  Qed.

  Lemma rep_cost_le : forall ds g ds' g', rep ds g -> rep ds' g' -> (sumsq g' <= sumsq g)%Q ->
    (sq_cost (dloc ds') <= sq_cost (dloc ds))%Q.
  Proof.
    intros ds g ds' g' H H' Hc. pose proof (rep_len _ _ H) as Hg. pose proof (rep_len _ _ H') as Hg'.
    destruct H as [Hl _]. destruct H' as [Hl' _]. rewrite Hl, Hl'.
    rewrite !sq_cost_scatter by assumption. rewrite Hg, Hg'. apply Qdiv_le_compat_r. exact Hc.
  Qed.
End MpiInv.

(* ------------------------------------------------------------------ statements for Props/C14.v *)
Definition D_metric0 (D : nat -> nat -> Q) : Prop :=
  (forall f, (D f f == 0)%Q) /\ (forall c f, c <> f -> (0 < D c f)%Q).

(* any number of distributed PAM steps with any in-range proposals, from any consistent distributed state *)
Theorem pam_steps_mpi_inv : forall D P lens, D_metric0 D -> 1 <= P -> P <= length lens ->
  forall cp cids g steps,
  Inv D (sum_nat lens) (cids, g) -> ctrs_ok P lens cp cids ->
  Forall (step_in_range P lens (length cids)) steps ->
  exists ds' g', pam_steps_mpi D steps (mkds cp cids (scatter P lens g)) = Some ds' /\
    assembled P lens ds' g' /\ Inv D (sum_nat lens) (dcid ds', g') /\
    length (dcid ds') = length cids /\ length (dctr ds') = length cp /\
    (sumsq g' <= sumsq g)%Q /\ (sq_cost (dloc ds') <= sq_cost (scatter P lens g))%Q.
Proof.
  intros D P lens [Ds Dp] HP HPn cp cids g steps HI Hc Hok.
  assert (Hrep : rep D P lens (mkds cp cids (scatter P lens g)) g) by (unfold rep; cbn [dloc dcid dctr]; split; [reflexivity|split; assumption]).
  destruct (rep_pam_steps D Ds Dp P lens HP steps _ g Hrep Hok) as [ds' [g' [Hrun [Hrep' [Hk [Hl Hcost]]]]]].
  exists ds', g'. split; [exact Hrun|]. split; [apply (rep_assembled D P lens HP HPn); exact Hrep'|].
  split; [apply Hrep'|]. split; [exact Hk|]. split; [exact Hl|]. split; [exact Hcost|].
  apply (rep_cost_le D P lens HP _ g ds' g' Hrep Hrep' Hcost).
Qed.

(* any number of sweeps whose proposals come from rank 0's draws through randind, as in the code *)
Theorem kmedoids_mpi_inv : forall D P lens, D_metric0 D -> 1 <= P -> P <= length lens ->
  forall cp cids g sweeps ds',
  Inv D (sum_nat lens) (cids, g) -> ctrs_ok P lens cp cids ->
  Forall (fun s => length s <= length cids) sweeps ->
  kmedoids_mpi D sweeps (mkds cp cids (scatter P lens g)) = Some ds' ->
  exists g', assembled P lens ds' g' /\ Inv D (sum_nat lens) (dcid ds', g') /\
    length (dcid ds') = length cids /\ length (dctr ds') = length cp /\
    (sumsq g' <= sumsq g)%Q /\ (sq_cost (dloc ds') <= sq_cost (scatter P lens g))%Q.
Proof.
  intros D P lens [Ds Dp] HP HPn cp cids g sweeps ds' HI Hc Hok Hrun.
  assert (Hrep : rep D P lens (mkds cp cids (scatter P lens g)) g) by (unfold rep; cbn [dloc dcid dctr]; split; [reflexivity|split; assumption]).
  destruct (rep_kmedoids D Ds Dp P lens HP sweeps _ g ds' Hrep Hok Hrun) as [g' [Hrep' [Hk [Hl Hcost]]]].
  exists g'. split; [apply (rep_assembled D P lens HP HPn); exact Hrep'|].
  split; [apply Hrep'|]. split; [exact Hk|]. split; [exact Hl|]. split; [exact Hcost|].
  apply (rep_cost_le D P lens HP _ g ds' g' Hrep Hrep' Hcost).
Qed.

(* distributed k-centers (cold start), tie-free data: the assembled result is the serial result and satisfies Inv *)
Theorem kc_mpi_inv : forall D P lens nclu cutoff ti L rest, D_metric0 D ->
  1 <= P -> P <= length lens -> lens = L :: rest -> 1 <= L ->
  ti_ok D ti -> (0 <= cutoff)%Q ->
  nonempty_locals P lens (seq 0 (sum_nat lens)) ->
  tie_free_run D (S (sum_nat lens)) nclu cutoff ti (kc_first D (sum_nat lens)) ->
  exists ds, kcenters_mpi D P lens nclu cutoff ti = Some ds /\
    let s' := kcenters_cold D nclu cutoff ti (sum_nat lens) in
    dcid ds = fst s' /\ rep D P lens ds (snd s') /\ assembled P lens ds (snd s') /\
    Inv D (sum_nat lens) (dcid ds, snd s').
Proof.
  intros D P lens nclu cutoff ti L rest [Ds Dp] HP HPn HL HL1 Hti Hcut Hne Htf.
  destruct (kc_mpi_refines_serial D P lens HP nclu cutoff ti L rest HL HL1 Hne Htf) as [ds [Hrun [Hcid [Hloc Hctr]]]].
  exists ds. split; [exact Hrun|]. cbn zeta.
  assert (Hn : 0 < sum_nat lens) by (rewrite HL; cbn [sum_nat fold_right]; lia).
  pose proof (kcenters_cold_inv D Ds Dp nclu cutoff ti (sum_nat lens) Hti Hcut Hn) as HI.
  assert (Hrep : rep D P lens ds (snd (kcenters_cold D nclu cutoff ti (sum_nat lens)))).
  { unfold rep. split; [exact Hloc|]. rewrite Hcid, <- surjective_pairing. split; [exact HI|exact Hctr]. }
  split; [exact Hcid|]. split; [exact Hrep|]. split; [apply (rep_assembled D P lens HP HPn); exact Hrep|].
  rewrite Hcid, <- surjective_pairing. exact HI.
Qed.

(* k-hybrid under MPI: distributed k-centers, then any sweeps of the distributed k-medoids stage *)
Theorem hybrid_mpi_inv : forall D P lens nclu cutoff L rest sweeps ds', D_metric0 D ->
  1 <= P -> P <= length lens -> lens = L :: rest -> 1 <= L -> (0 <= cutoff)%Q ->
  nonempty_locals P lens (seq 0 (sum_nat lens)) ->
  tie_free_run D (S (sum_nat lens)) nclu cutoff false (kc_first D (sum_nat lens)) ->
  let s0 := kcenters_cold D nclu cutoff false (sum_nat lens) in
  Forall (fun s => length s <= length (fst s0)) sweeps ->
  hybrid_mpi D P lens nclu cutoff sweeps = Some ds' ->
  exists g', assembled P lens ds' g' /\ Inv D (sum_nat lens) (dcid ds', g') /\
    length (dcid ds') = length (fst s0) /\ (sumsq g' <= sumsq (snd s0))%Q.
Proof.
  intros D P lens nclu cutoff L rest sweeps ds' HD HP HPn HL HL1 Hcut Hne Htf s0 Hok Hrun.
  assert (Hti : ti_ok D false) by (intros E; discriminate).
  destruct (kc_mpi_inv D P lens nclu cutoff false L rest HD HP HPn HL HL1 Hti Hcut Hne Htf) as [ds [Hkc [Hcid [Hrep _]]]].
  fold s0 in Hcid, Hrep. unfold hybrid_mpi in Hrun. rewrite Hkc in Hrun. destruct HD as [Ds Dp].
  destruct (rep_kmedoids D Ds Dp P lens HP sweeps ds (snd s0) ds' Hrep) as [g' [Hrep' [Hk [_ Hcost]]]].
  - rewrite Hcid. exact Hok.
  - exact Hrun.
  - exists g'. split; [apply (rep_assembled D P lens HP HPn); exact Hrep'|].
    split; [apply Hrep'|]. split; [congruence|exact Hcost].
Qed.

(* ------------------------------------------------------------------ the predicates spelt out *)
Lemma assembled_meaning : forall P lens ds g, assembled P lens ds g <->
  (map (convert_local P lens) (dctr ds) = map Some (dcid ds) /\
   assemble 0 P lens (map (map lab) (dloc ds)) = Some (map lab g) /\
   assemble 0%Q P lens (map (map dist) (dloc ds)) = Some (map dist g) /\
   assemble 0 P lens (map (map fid) (dloc ds)) = Some (seq 0 (sum_nat lens))).
Proof. intros. unfold assembled. tauto. Qed.

Lemma step_in_range_meaning : forall P lens k cid r i, step_in_range P lens k (cid, (r, i)) <->
  (cid < k /\ r < P /\ i < length (local_ids P r lens)).
Proof.
  intros. unfold step_in_range, local_ids. cbn [fst snd].
  rewrite (local_of_length P r lens (seq 0 (sum_nat lens))) by apply seq_length. tauto.
Qed.

(* ------------------------------------------------------------------ non-vacuity: four collinear points at
   0, 10, 3, 4 in two trajectories of two frames on two ranks *)
From EV Require Import ClusterExample.
Definition pos4 (n : nat) : Z :=
  match n with 0 => 0%Z | 1 => 10%Z | 2 => 3%Z | 3 => 4%Z | _ => (8 + Z.of_nat n)%Z end.
Lemma pos4_inj : forall a b, pos4 a = pos4 b -> a = b.
Proof. intros a b. unfold pos4. destruct a as [|[|[|[|a]]]]; destruct b as [|[|[|[|b]]]]; lia. Qed.
Lemma pos4_metric : D_metric0 (Dline pos4).
Proof. split; [apply Dline_self|apply Dline_pos, pos4_inj]. Qed.
