(* C04 proofs: row normalisation, transpose symmetrisation, the post-iteration step of mle,
   prior counts, stationarity from detailed balance.  Exact arithmetic over Q. *)
From Coq Require Import List QArith Qabs Qreduction Bool Arith Lia Lqa Setoid.
From EV Require Import Builders.
Import ListNotations.
Open Scope Q_scope.

(* ------------------------------------------------------------------ sums *)
Lemma qsum_cons a l : qsum (a :: l) = a + qsum l.
Proof. reflexivity. Qed.

Lemma qsum_nil : qsum [] = 0.
Proof. reflexivity. Qed.

Lemma qsum_app l1 l2 : qsum (l1 ++ l2) == qsum l1 + qsum l2.
Proof.
  induction l1 as [|a l1 IH].
  - rewrite qsum_nil. cbn [app]. lra.
  - cbn [app]. rewrite !qsum_cons, IH. lra.
Qed.

Lemma qsum_map_ext {A} (f g : A -> Q) l :
  (forall a, In a l -> f a == g a) -> qsum (map f l) == qsum (map g l).
Proof.
  induction l as [|a l IH]; intros H; cbn [map].
  - reflexivity.
  - rewrite !qsum_cons. rewrite (H a (or_introl eq_refl)). rewrite IH.
    + reflexivity.
    + intros b Hb. apply H. right. exact Hb.
Qed.

Lemma qsum_map_scale_r {A} (f : A -> Q) k l :
  qsum (map (fun a => f a * k) l) == qsum (map f l) * k.
Proof.
  induction l as [|a l IH]; cbn [map].
  - cbn [map]. rewrite !qsum_nil. lra.
  - rewrite !qsum_cons, IH. lra.
Qed.

Lemma qsum_map_scale_l {A} (f : A -> Q) k l :
  qsum (map (fun a => k * f a) l) == k * qsum (map f l).
Proof.
  induction l as [|a l IH]; cbn [map].
  - cbn [map]. rewrite !qsum_nil. lra.
  - rewrite !qsum_cons, IH. lra.
Qed.

Lemma qsum_scale_r k l : qsum (map (fun x => x * k) l) == qsum l * k.
Proof.
  rewrite (qsum_map_scale_r (fun x => x) k l). rewrite map_id. reflexivity.
Qed.

Lemma qsum_map_plus {A} (f g : A -> Q) l :
  qsum (map (fun a => f a + g a) l) == qsum (map f l) + qsum (map g l).
Proof.
  induction l as [|a l IH]; cbn [map].
  - cbn [map]. rewrite !qsum_nil. lra.
  - rewrite !qsum_cons, IH. lra.
Qed.

Lemma qsum_map_zero {A} (f : A -> Q) l :
  (forall a, In a l -> f a == 0) -> qsum (map f l) == 0.
Proof.
  induction l as [|a l IH]; intros H; cbn [map].
  - reflexivity.
  - rewrite qsum_cons, (H a (or_introl eq_refl)), IH.
    + lra.
    + intros b Hb. apply H. right. exact Hb.
Qed.

Lemma qsum_swap {A B} (f : A -> B -> Q) la lb :
  qsum (map (fun a => qsum (map (fun b => f a b) lb)) la) ==
  qsum (map (fun b => qsum (map (fun a => f a b) la)) lb).
Proof.
  induction la as [|a la IH]; cbn [map].
  - rewrite qsum_nil. symmetry. apply qsum_map_zero. intros. reflexivity.
  - rewrite qsum_cons, IH.
    rewrite <- qsum_map_plus. apply qsum_map_ext. intros b _. rewrite qsum_cons. reflexivity.
Qed.

Definition nonneg_row (r : list Q) : Prop := forall x, In x r -> 0 <= x.
Definition nonneg_mat (M : mat) : Prop := forall r, In r M -> nonneg_row r.

Lemma qsum_nonneg r : nonneg_row r -> 0 <= qsum r.
Proof.
  induction r as [|a r IH]; intros H.
  - rewrite qsum_nil. lra.
  - rewrite qsum_cons.
    assert (0 <= a) by (apply H; left; reflexivity).
    assert (0 <= qsum r) by (apply IH; intros x Hx; apply H; right; exact Hx).
    lra.
Qed.

Lemma qsum_zero_all r : nonneg_row r -> qsum r <= 0 -> forall x, In x r -> x == 0.
Proof.
  induction r as [|a r IH]; intros Hn Hs x Hx.
  - destruct Hx.
  - rewrite qsum_cons in Hs.
    assert (Ha : 0 <= a) by (apply Hn; left; reflexivity).
    assert (Hr : nonneg_row r) by (intros y Hy; apply Hn; right; exact Hy).
    pose proof (qsum_nonneg r Hr) as Hq.
    destruct Hx as [<-|Hx].
    + lra.
    + apply IH; [exact Hr | lra | exact Hx].
Qed.

Lemma qpos_iff x : qpos x = true <-> 0 < x.
Proof.
  unfold qpos. rewrite negb_true_iff. split.
  - intros H. apply Qnot_le_lt. intros Hle. apply Qle_bool_iff in Hle. congruence.
  - intros H. destruct (Qle_bool x 0) eqn:E; [|reflexivity].
    apply Qle_bool_iff in E. lra.
Qed.

Lemma qpos_false x : qpos x = false -> x <= 0.
Proof.
  unfold qpos. rewrite negb_false_iff. apply Qle_bool_iff.
Qed.

(* ------------------------------------------------------------------ lists as index maps *)
Lemma nth_map_seq {A} (g : nat -> A) n i d : (i < n)%nat -> nth i (map g (seq 0 n)) d = g i.
Proof.
  intros H. rewrite (nth_indep _ d (g 0%nat)) by (rewrite map_length, seq_length; exact H).
  rewrite map_nth. rewrite seq_nth by exact H. reflexivity.
Qed.

Lemma list_as_map_nth {A} (l : list A) d : l = map (fun k => nth k l d) (seq 0 (length l)).
Proof.
  induction l as [|a l IH]; cbn [length seq map].
  - reflexivity.
  - cbn [nth]. f_equal. rewrite <- seq_shift, map_map. exact IH.
Qed.

Lemma row_mk n f i : (i < n)%nat -> row (mk n f) i = map (f i) (seq 0 n).
Proof. intros H. unfold row, mk. apply (nth_map_seq (fun i => map (f i) (seq 0 n))). exact H. Qed.

Lemma ent_mk n f i j : (i < n)%nat -> (j < n)%nat -> ent (mk n f) i j = f i j.
Proof.
  intros Hi Hj. unfold ent. fold (row (mk n f) i). rewrite row_mk by exact Hi.
  apply nth_map_seq. exact Hj.
Qed.

Lemma length_mk n f : length (mk n f) = n.
Proof. unfold mk. rewrite map_length, seq_length. reflexivity. Qed.

Lemma is_square_mk n f : is_square (mk n f) = true.
Proof.
  unfold is_square. apply forallb_forall. intros r Hr. rewrite length_mk.
  unfold mk in Hr. apply in_map_iff in Hr. destruct Hr as [i [<- _]].
  rewrite map_length, seq_length. apply Nat.eqb_refl.
Qed.

Lemma is_square_row M i : is_square M = true -> (i < length M)%nat -> length (row M i) = length M.
Proof.
  intros H Hi. unfold is_square in H. rewrite forallb_forall in H.
  apply Nat.eqb_eq. apply H. unfold row. apply nth_In. exact Hi.
Qed.

Lemma qsum_row_as_ents M i :
  qsum (row M i) = qsum (map (fun j => ent M i j) (seq 0 (length (row M i)))).
Proof.
  unfold ent. fold (row M i). rewrite <- (list_as_map_nth (row M i) 0). reflexivity.
Qed.

Lemma nth_map_q (f : Q -> Q) r j : f 0 == 0 -> nth j (map f r) 0 == f (nth j r 0).
Proof.
  intros H0. destruct (Nat.lt_ge_cases j (length r)) as [Hj|Hj].
  - rewrite (nth_indep _ 0 (f 0)) by (rewrite map_length; exact Hj). rewrite map_nth. reflexivity.
  - rewrite !nth_overflow by (try rewrite map_length; exact Hj). symmetry. exact H0.
Qed.

(* ------------------------------------------------------------------ _row_normalize *)
Lemma inv_weight_pos w : 0 < w -> inv_weight w = / w.
Proof. intros H. unfold inv_weight. apply qpos_iff in H. rewrite H. reflexivity. Qed.

Lemma inv_weight_nonpos w : ~ 0 < w -> inv_weight w = 0.
Proof.
  intros H. unfold inv_weight. destruct (qpos w) eqn:E; [|reflexivity].
  apply qpos_iff in E. contradiction.
Qed.

Lemma inv_weight_nonneg w : 0 <= inv_weight w.
Proof.
  unfold inv_weight. destruct (qpos w) eqn:E.
  - apply qpos_iff in E. apply Qlt_le_weak. apply Qinv_lt_0_compat. exact E.
  - lra.
Qed.

Lemma normalize_row_length r : length (normalize_row r) = length r.
Proof. unfold normalize_row. apply map_length. Qed.

(* rows with positive total become probability distributions *)
Lemma normalize_row_sum r : 0 < qsum r -> qsum (normalize_row r) == 1.
Proof.
  intros H. unfold normalize_row. rewrite qsum_scale_r, inv_weight_pos by exact H.
  field. lra.
Qed.

Lemma normalize_row_nonneg r : nonneg_row r -> nonneg_row (normalize_row r).
Proof.
  intros Hn x Hx. unfold normalize_row in Hx. apply in_map_iff in Hx.
  destruct Hx as [y [<- Hy]]. apply Qmult_le_0_compat; [apply Hn; exact Hy | apply inv_weight_nonneg].
Qed.

(* rows without outgoing counts stay zero (the zero-row guard) *)
Lemma normalize_row_zero r : ~ 0 < qsum r -> forall x, In x (normalize_row r) -> x == 0.
Proof.
  intros H x Hx. unfold normalize_row in Hx. apply in_map_iff in Hx.
  destruct Hx as [y [<- Hy]]. rewrite inv_weight_nonpos by exact H. lra.
Qed.

Lemma normalize_row_nth r j : nth j (normalize_row r) 0 == nth j r 0 * inv_weight (qsum r).
Proof.
  unfold normalize_row. apply (nth_map_q (fun x => x * inv_weight (qsum r))). lra.
Qed.

(* T_ij * rowsum_i = C_ij *)
Lemma normalize_row_def r j : 0 < qsum r -> nth j (normalize_row r) 0 * qsum r == nth j r 0.
Proof.
  intros H. rewrite normalize_row_nth, inv_weight_pos by exact H. field. lra.
Qed.

Lemma row_row_normalize C i : row (row_normalize C) i = normalize_row (row C i).
Proof.
  unfold row, row_normalize. change (@nil Q) with (normalize_row []) at 1. apply map_nth.
Qed.

Lemma ent_row_normalize C i j :
  ent (row_normalize C) i j == ent C i j * inv_weight (qsum (row C i)).
Proof.
  unfold ent. fold (row (row_normalize C) i). fold (row C i).
  rewrite row_row_normalize. apply normalize_row_nth.
Qed.

Lemma length_row_normalize C : length (row_normalize C) = length C.
Proof. apply map_length. Qed.

Lemma is_square_row_normalize C : is_square C = true -> is_square (row_normalize C) = true.
Proof.
  unfold is_square. rewrite !forallb_forall. intros H r Hr.
  unfold row_normalize in Hr. apply in_map_iff in Hr. destruct Hr as [r0 [<- Hr0]].
  rewrite normalize_row_length, length_row_normalize. apply H. exact Hr0.
Qed.

Theorem rownorm_stochastic : forall C i,
  nonneg_row (row C i) ->
  let r' := row (row_normalize C) i in
  length r' = length (row C i) /\
  nonneg_row r' /\
  (0 < qsum (row C i) -> qsum r' == 1) /\
  (~ 0 < qsum (row C i) -> forall x, In x r' -> x == 0).
Proof.
  intros C i Hn r'. subst r'. rewrite row_row_normalize. repeat split.
  - apply normalize_row_length.
  - apply normalize_row_nonneg. exact Hn.
  - apply normalize_row_sum.
  - apply normalize_row_zero.
Qed.

Theorem rownorm_def : forall C i j,
  0 < qsum (row C i) -> ent (row_normalize C) i j * qsum (row C i) == ent C i j.
Proof.
  intros C i j H. unfold ent. fold (row (row_normalize C) i). fold (row C i).
  rewrite row_row_normalize. apply normalize_row_def. exact H.
Qed.

(* ------------------------------------------------------------------ prior counts *)
Definition nonneg_prior (p : prior) : Prop :=
  match p with
  | NoPrior => True
  | PScalar q => 0 <= q
  | PMat P => nonneg_mat P
  end.

(* the (i,j) entry that prior p adds *)
Definition prior_ent (p : prior) (i j : nat) : Q :=
  match p with
  | NoPrior => 0
  | PScalar q => q
  | PMat P => ent P i j
  end.

Lemma nonneg_ent M i j : nonneg_mat M -> 0 <= ent M i j.
Proof.
  intros H. unfold ent.
  destruct (Nat.lt_ge_cases i (length M)) as [Hi|Hi].
  - destruct (Nat.lt_ge_cases j (length (nth i M []))) as [Hj|Hj].
    + apply (H (nth i M [])); apply nth_In; assumption.
    + rewrite (nth_overflow (nth i M [])) by exact Hj. lra.
  - rewrite (nth_overflow M) by exact Hi. destruct j; cbn; lra.
Qed.

Lemma nonneg_mk n f : (forall i j, (i < n)%nat -> (j < n)%nat -> 0 <= f i j) -> nonneg_mat (mk n f).
Proof.
  intros H r Hr x Hx. unfold mk in Hr. apply in_map_iff in Hr. destruct Hr as [i [<- Hi]].
  apply in_map_iff in Hx. destruct Hx as [j [<- Hj]]. apply in_seq in Hi. apply in_seq in Hj.
  apply H; lia.
Qed.

Lemma apply_prior_square C p C1 : apply_prior C p = Some C1 -> is_square C = true.
Proof. unfold apply_prior. destruct (is_square C); [reflexivity|discriminate]. Qed.

Lemma apply_prior_length C p C1 : apply_prior C p = Some C1 -> length C1 = length C.
Proof.
  unfold apply_prior. destruct (is_square C); [|discriminate].
  destruct p as [|q|P].
  - intros [= <-]. reflexivity.
  - intros [= <-]. apply map_length.
  - destruct (is_square P && Nat.eqb (length P) (length C)); [|discriminate].
    intros [= <-]. apply length_mk.
Qed.

Lemma apply_prior_result_square C p C1 : apply_prior C p = Some C1 -> is_square C1 = true.
Proof.
  unfold apply_prior. destruct (is_square C) eqn:Sq; [|discriminate].
  destruct p as [|q|P].
  - intros [= <-]. exact Sq.
  - intros [= <-]. unfold is_square in *. rewrite forallb_forall in *.
    intros r Hr. apply in_map_iff in Hr. destruct Hr as [r0 [<- Hr0]].
    rewrite !map_length. apply Sq. exact Hr0.
  - destruct (is_square P && Nat.eqb (length P) (length C)); [|discriminate].
    intros [= <-]. apply is_square_mk.
Qed.

(* prior counts are added entry-wise: the matrix handed to the estimator is C + prior *)
Lemma apply_prior_ent C p C1 i j :
  apply_prior C p = Some C1 -> (i < length C)%nat -> (j < length C)%nat ->
  ent C1 i j == ent C i j + prior_ent p i j.
Proof.
  intros H Hi Hj. pose proof (apply_prior_square _ _ _ H) as Sq.
  unfold apply_prior in H. rewrite Sq in H. destruct p as [|q|P]; cbn [prior_ent].
  - injection H as <-. lra.
  - injection H as <-. unfold ent.
    change (@nil Q) with (map (fun x => x + q) []) at 1. rewrite map_nth.
    assert (Hl : (j < length (nth i C []))%nat).
    { fold (row C i). rewrite is_square_row; assumption. }
    rewrite (nth_indep _ 0 (0 + q)) by (rewrite map_length; exact Hl).
    rewrite (map_nth (fun x => x + q)). reflexivity.
  - destruct (is_square P && Nat.eqb (length P) (length C)); [|discriminate].
    injection H as <-. unfold madd. rewrite ent_mk by assumption. reflexivity.
Qed.

Lemma apply_prior_nonneg C p C1 :
  apply_prior C p = Some C1 -> nonneg_mat C -> nonneg_prior p -> nonneg_mat C1.
Proof.
  intros H HC Hp. unfold apply_prior in H. destruct (is_square C); [|discriminate].
  destruct p as [|q|P]; cbn [nonneg_prior] in Hp.
  - injection H as <-. exact HC.
  - injection H as <-. intros r Hr x Hx.
    apply in_map_iff in Hr. destruct Hr as [r0 [<- Hr0]].
    apply in_map_iff in Hx. destruct Hx as [y [<- Hy]].
    pose proof (HC r0 Hr0 y Hy). lra.
  - destruct (is_square P && Nat.eqb (length P) (length C)); [|discriminate].
    injection H as <-. unfold madd. apply nonneg_mk. intros i j _ _.
    pose proof (nonneg_ent C i j HC). pose proof (nonneg_ent P i j Hp). lra.
Qed.

Lemma apply_prior_idem C p C1 : apply_prior C p = Some C1 -> apply_prior C1 NoPrior = Some C1.
Proof.
  intros H. unfold apply_prior at 1. rewrite (apply_prior_result_square _ _ _ H). reflexivity.
Qed.

(* "prior counts are added before estimation": each builder applied to (C, prior) is the builder
   applied to the pre-added counts C + prior without prior *)
Theorem prior_before_estimation_normalize : forall C p eq C1,
  apply_prior C p = Some C1 -> normalize_builder C p eq = normalize_builder C1 NoPrior eq.
Proof.
  intros C p eq C1 H. unfold normalize_builder. rewrite H, (apply_prior_idem _ _ _ H). reflexivity.
Qed.

Theorem prior_before_estimation_transpose : forall C p eq C1,
  apply_prior C p = Some C1 -> transpose_builder C p eq = transpose_builder C1 NoPrior eq.
Proof.
  intros C p eq C1 H. unfold transpose_builder. rewrite H, (apply_prior_idem _ _ _ H). reflexivity.
Qed.

Theorem prior_before_estimation_mle : forall C p eq X C1,
  apply_prior C p = Some C1 -> mle_builder C p eq X = mle_builder C1 NoPrior eq X.
Proof.
  intros C p eq X C1 H. unfold mle_builder. rewrite H, (apply_prior_idem _ _ _ H). reflexivity.
Qed.

(* ------------------------------------------------------------------ detailed balance => stationary *)
(* (pi T)_j = pi_j whenever pi, T satisfy detailed balance and row j sums to one (or pi_j = 0) *)
Lemma db_stationary : forall (T : mat) (pi : list Q) j,
  let n := length T in
  (forall i, (i < n)%nat -> nth i pi 0 * ent T i j == nth j pi 0 * ent T j i) ->
  (qsum (map (fun k => ent T j k) (seq 0 n)) == 1 \/ nth j pi 0 == 0) ->
  vecmat pi T j == nth j pi 0.
Proof.
  intros T pi j n Hdb Hrow. unfold vecmat. fold n.
  rewrite (qsum_map_ext _ (fun i => nth j pi 0 * ent T j i)).
  - rewrite qsum_map_scale_l. destruct Hrow as [H1|H0].
    + rewrite H1. lra.
    + rewrite H0. lra.
  - intros i Hi. apply in_seq in Hi. apply Hdb. lia.
Qed.

(* ------------------------------------------------------------------ symmetric X: X/rowsum X, rowsum X/sum X *)
Lemma nth_rowsums M i : nth i (rowsums M) 0 = qsum (row M i).
Proof. unfold rowsums, row. change 0 with (qsum []). apply map_nth. Qed.

Lemma length_rowsums M : length (rowsums M) = length M.
Proof. apply map_length. Qed.

Definition pops (X : mat) : list Q := map (fun s => s / total X) (rowsums X).

Lemma nth_pops X i : nth i (pops X) 0 == qsum (row X i) / total X.
Proof.
  unfold pops. rewrite (nth_map_q (fun s => s / total X)).
  - rewrite nth_rowsums. reflexivity.
  - unfold Qdiv. lra.
Qed.

Lemma length_pops X : length (pops X) = length X.
Proof. unfold pops. rewrite map_length. apply length_rowsums. Qed.

Lemma nonneg_row_of M i : nonneg_mat M -> nonneg_row (row M i).
Proof.
  intros H. unfold row. destruct (Nat.lt_ge_cases i (length M)) as [Hi|Hi].
  - apply H. apply nth_In. exact Hi.
  - rewrite nth_overflow by exact Hi. intros x [].
Qed.

Lemma nth_nonneg_zero r j : nonneg_row r -> ~ 0 < qsum r -> nth j r 0 == 0.
Proof.
  intros Hn Hs. destruct (Nat.lt_ge_cases j (length r)) as [Hj|Hj].
  - apply (qsum_zero_all r Hn); [lra | apply nth_In; exact Hj].
  - rewrite nth_overflow by exact Hj. reflexivity.
Qed.

(* pi_i T_ij = X_ij / sum X *)
Lemma weight_entry r j S :
  nonneg_row r -> (qsum r / S) * (nth j r 0 * inv_weight (qsum r)) == nth j r 0 / S.
Proof.
  intros Hn. destruct (Qlt_le_dec 0 (qsum r)) as [Hp|Hz].
  - rewrite inv_weight_pos by exact Hp. unfold Qdiv. set (k := / S). field. lra.
  - assert (Hnp : ~ 0 < qsum r) by lra.
    rewrite (nth_nonneg_zero r j Hn Hnp). unfold Qdiv. ring.
Qed.

Lemma sym_normalized_db X i j :
  nonneg_mat X -> ent X i j == ent X j i ->
  nth i (pops X) 0 * ent (row_normalize X) i j == nth j (pops X) 0 * ent (row_normalize X) j i.
Proof.
  intros Hn Hsym. rewrite !nth_pops, !ent_row_normalize. unfold ent. fold (row X i). fold (row X j).
  rewrite !weight_entry by (apply nonneg_row_of; exact Hn).
  unfold ent in Hsym. fold (row X i) in Hsym. fold (row X j) in Hsym. rewrite Hsym. reflexivity.
Qed.

Lemma total_nonneg X : nonneg_mat X -> 0 <= total X.
Proof.
  intros H. unfold total. apply qsum_nonneg. intros s Hs. unfold rowsums in Hs.
  apply in_map_iff in Hs. destruct Hs as [r [<- Hr]]. apply qsum_nonneg. apply H. exact Hr.
Qed.

Lemma pops_nonneg X i : nonneg_mat X -> 0 <= nth i (pops X) 0.
Proof.
  intros H. rewrite nth_pops. pose proof (total_nonneg X H) as Ht.
  pose proof (qsum_nonneg (row X i) (nonneg_row_of X i H)) as Hr.
  unfold Qdiv. destruct (Qlt_le_dec 0 (total X)) as [Hp|Hz].
  - apply Qmult_le_0_compat; [exact Hr|]. apply Qlt_le_weak, Qinv_lt_0_compat. exact Hp.
  - assert (E : total X == 0) by lra. rewrite E. cbn. lra.
Qed.

Lemma pops_sum X : 0 < total X -> qsum (pops X) == 1.
Proof.
  intros H. unfold pops. rewrite (qsum_map_scale_r (fun s => s) (/ total X) (rowsums X)).
  rewrite map_id. fold (total X). field. lra.
Qed.

Lemma row_sum_as_ents M i :
  is_square M = true -> (i < length M)%nat ->
  qsum (map (fun k => ent M i k) (seq 0 (length M))) = qsum (row M i).
Proof.
  intros Sq Hi. rewrite (qsum_row_as_ents M i). rewrite is_square_row by assumption. reflexivity.
Qed.

(* stationarity of rowsum X / sum X under X / rowsum X, for symmetric non-negative X *)
Lemma sym_normalized_stationary X j :
  is_square X = true -> nonneg_mat X -> (j < length X)%nat ->
  (forall i, (i < length X)%nat -> ent X i j == ent X j i) ->
  vecmat (pops X) (row_normalize X) j == nth j (pops X) 0.
Proof.
  intros Sq Hn Hj Hsym. apply db_stationary.
  - rewrite length_row_normalize. intros i Hi. apply sym_normalized_db; [exact Hn | apply Hsym; exact Hi].
  - rewrite length_row_normalize.
    rewrite <- (length_row_normalize X) at 1.
    rewrite row_sum_as_ents.
    2: apply is_square_row_normalize; exact Sq.
    2: rewrite length_row_normalize; exact Hj.
    rewrite row_row_normalize.
    destruct (Qlt_le_dec 0 (qsum (row X j))) as [Hp|Hz].
    + left. apply normalize_row_sum. exact Hp.
    + right. rewrite nth_pops.
      pose proof (qsum_nonneg (row X j) (nonneg_row_of X j Hn)) as Hr.
      assert (E : qsum (row X j) == 0) by lra. rewrite E. unfold Qdiv. ring.
Qed.

(* ------------------------------------------------------------------ transpose *)
Definition csym (C1 : mat) : mat := madd C1 (mtrans C1).

Lemma length_csym C1 : length (csym C1) = length C1.
Proof. unfold csym, madd. apply length_mk. Qed.

Lemma ent_csym C1 i j : (i < length C1)%nat -> (j < length C1)%nat ->
  ent (csym C1) i j = ent C1 i j + ent C1 j i.
Proof.
  intros Hi Hj. unfold csym, madd. rewrite ent_mk by assumption.
  unfold mtrans. rewrite ent_mk by assumption. reflexivity.
Qed.

Lemma csym_symmetric C1 i j : (i < length C1)%nat -> (j < length C1)%nat ->
  ent (csym C1) i j == ent (csym C1) j i.
Proof. intros Hi Hj. rewrite !ent_csym by assumption. lra. Qed.

Lemma csym_nonneg C1 : nonneg_mat C1 -> nonneg_mat (csym C1).
Proof.
  intros H. unfold csym, madd. apply nonneg_mk. intros i j _ _.
  pose proof (nonneg_ent C1 i j H). pose proof (nonneg_ent (mtrans C1) i j).
  assert (0 <= ent (mtrans C1) i j).
  { apply nonneg_ent. unfold mtrans. apply nonneg_mk. intros a b _ _. apply nonneg_ent. exact H. }
  lra.
Qed.

Lemma is_square_csym C1 : is_square (csym C1) = true.
Proof. unfold csym, madd. apply is_square_mk. Qed.

Lemma transpose_builder_inv C p eq C' T opi :
  transpose_builder C p eq = Some (C', T, opi) ->
  exists C1, apply_prior C p = Some C1 /\
             C' = map (map (fun x => x / 2)) (csym C1) /\
             T = row_normalize (csym C1) /\
             opi = if eq then Some (pops (csym C1)) else None.
Proof.
  unfold transpose_builder. destruct (apply_prior C p) as [C1|]; [|discriminate].
  intros [= <- <- <-]. exists C1. repeat split.
Qed.

Lemma ent_map_map (f : Q -> Q) M i j : f 0 == 0 -> ent (map (map f) M) i j == f (ent M i j).
Proof.
  intros H0. unfold ent. change (@nil Q) with (map f []) at 1. rewrite map_nth.
  apply nth_map_q. exact H0.
Qed.

(* returned counts are the symmetrisation of C + prior *)
Theorem transpose_counts : forall C p eq C' T opi,
  transpose_builder C p eq = Some (C', T, opi) ->
  forall i j, (i < length C)%nat -> (j < length C)%nat ->
  ent C' i j == ((ent C i j + prior_ent p i j) + (ent C j i + prior_ent p j i)) / 2.
Proof.
  intros C p eq C' T opi H i j Hi Hj.
  destruct (transpose_builder_inv _ _ _ _ _ _ H) as [C1 [HP [-> [_ _]]]].
  pose proof (apply_prior_length _ _ _ HP) as HL.
  rewrite (ent_map_map (fun x => x / 2)) by (unfold Qdiv; lra).
  rewrite ent_csym by (rewrite HL; assumption).
  rewrite (apply_prior_ent _ _ _ i j HP Hi Hj), (apply_prior_ent _ _ _ j i HP Hj Hi). reflexivity.
Qed.

Theorem transpose_stochastic : forall C p eq C' T opi,
  transpose_builder C p eq = Some (C', T, opi) -> nonneg_mat C -> nonneg_prior p ->
  length T = length C /\
  forall i, (i < length C)%nat ->
    length (row T i) = length C /\ nonneg_row (row T i) /\
    (0 < qsum (row C' i) -> qsum (row T i) == 1) /\
    (forall j, (j < length C)%nat -> 0 < qsum (row C' i) -> ent T i j * qsum (row C' i) == ent C' i j).
Proof.
  intros C p eq C' T opi H HC Hp.
  destruct (transpose_builder_inv _ _ _ _ _ _ H) as [C1 [HP [-> [-> _]]]].
  pose proof (apply_prior_length _ _ _ HP) as HL.
  pose proof (csym_nonneg C1 (apply_prior_nonneg _ _ _ HP HC Hp)) as Hnn.
  assert (Hhalf : forall i, qsum (row (map (map (fun x => x / 2)) (csym C1)) i) == qsum (row (csym C1) i) * (1#2)).
  { intros i. unfold row. change (@nil Q) with (map (fun x : Q => x / 2) []) at 1. rewrite map_nth.
    unfold Qdiv. change (/ 2) with (1#2). apply qsum_scale_r. }
  split.
  - rewrite length_row_normalize, length_csym. exact HL.
  - intros i Hi. rewrite row_row_normalize. repeat split.
    + rewrite normalize_row_length, is_square_row.
      * rewrite length_csym. exact HL.
      * apply is_square_csym.
      * rewrite length_csym, HL. exact Hi.
    + apply normalize_row_nonneg. apply nonneg_row_of. exact Hnn.
    + intros Hpos. rewrite Hhalf in Hpos. apply normalize_row_sum. lra.
    + intros j Hj Hpos. rewrite Hhalf in Hpos.
      assert (Hs : 0 < qsum (row (csym C1) i)) by lra.
      rewrite Hhalf. rewrite (ent_map_map (fun x => x / 2)) by (unfold Qdiv; lra).
      pose proof (rownorm_def (csym C1) i j Hs) as Hd.
      rewrite <- Hd. unfold Qdiv. change (/ 2) with (1#2). ring.
Qed.

Theorem transpose_pi_prob : forall C p C' T pi,
  transpose_builder C p true = Some (C', T, Some pi) -> nonneg_mat C -> nonneg_prior p ->
  length pi = length C /\ (forall i, 0 <= nth i pi 0) /\ (0 < total C' -> qsum pi == 1).
Proof.
  intros C p C' T pi H HC Hp.
  destruct (transpose_builder_inv _ _ _ _ _ _ H) as [C1 [HP [-> [-> Hpi]]]].
  injection Hpi as ->.
  pose proof (apply_prior_length _ _ _ HP) as HL.
  pose proof (csym_nonneg C1 (apply_prior_nonneg _ _ _ HP HC Hp)) as Hnn.
  repeat split.
  - rewrite length_pops, length_csym. exact HL.
  - intros i. apply pops_nonneg. exact Hnn.
  - intros Hpos. apply pops_sum.
    assert (E : total (map (map (fun x => x / 2)) (csym C1)) == total (csym C1) * (1#2)).
    { unfold total, rowsums. rewrite map_map.
      rewrite (qsum_map_ext _ (fun r => qsum r * (1#2))).
      - rewrite qsum_map_scale_r. reflexivity.
      - intros r _. unfold Qdiv. change (/ 2) with (1#2). apply qsum_scale_r. }
    rewrite E in Hpos. lra.
Qed.

Theorem transpose_detailed_balance : forall C p C' T pi,
  transpose_builder C p true = Some (C', T, Some pi) -> nonneg_mat C -> nonneg_prior p ->
  forall i j, (i < length C)%nat -> (j < length C)%nat ->
  nth i pi 0 * ent T i j == nth j pi 0 * ent T j i.
Proof.
  intros C p C' T pi H HC Hp i j Hi Hj.
  destruct (transpose_builder_inv _ _ _ _ _ _ H) as [C1 [HP [_ [-> Hpi]]]].
  injection Hpi as ->.
  pose proof (apply_prior_length _ _ _ HP) as HL.
  apply sym_normalized_db.
  - apply csym_nonneg. exact (apply_prior_nonneg _ _ _ HP HC Hp).
  - apply csym_symmetric; rewrite HL; assumption.
Qed.

Theorem transpose_stationary : forall C p C' T pi,
  transpose_builder C p true = Some (C', T, Some pi) -> nonneg_mat C -> nonneg_prior p ->
  forall j, (j < length C)%nat -> vecmat pi T j == nth j pi 0.
Proof.
  intros C p C' T pi H HC Hp j Hj.
  destruct (transpose_builder_inv _ _ _ _ _ _ H) as [C1 [HP [_ [-> Hpi]]]].
  injection Hpi as ->.
  pose proof (apply_prior_length _ _ _ HP) as HL.
  apply sym_normalized_stationary.
  - apply is_square_csym.
  - apply csym_nonneg. exact (apply_prior_nonneg _ _ _ HP HC Hp).
  - rewrite length_csym, HL. exact Hj.
  - intros i Hi. rewrite length_csym in Hi. apply csym_symmetric; [exact Hi | rewrite HL; exact Hj].
Qed.

(* ------------------------------------------------------------------ normalize *)
Lemma normalize_builder_inv C p eq C' T opi :
  normalize_builder C p eq = Some (C', T, opi) ->
  apply_prior C p = Some C' /\ T = row_normalize C' /\
  (if eq then exists pi, opi = Some pi /\ is_stationary_b T pi = true else opi = None).
Proof.
  unfold normalize_builder. destruct (apply_prior C p) as [C1|]; [|discriminate].
  destruct eq.
  - unfold stationary. destruct (stationary_system (row_normalize C1)) as [A b].
    destruct (solve A b) as [pi|]; [|discriminate].
    destruct (is_stationary_b (row_normalize C1) pi) eqn:E; [|discriminate].
    intros [= <- <- <-]. repeat split. exists pi. split; [reflexivity|exact E].
  - intros [= <- <- <-]. repeat split.
Qed.

(* returned counts are C + prior *)
Theorem normalize_counts : forall C p eq C' T opi,
  normalize_builder C p eq = Some (C', T, opi) ->
  forall i j, (i < length C)%nat -> (j < length C)%nat -> ent C' i j == ent C i j + prior_ent p i j.
Proof.
  intros C p eq C' T opi H i j Hi Hj.
  destruct (normalize_builder_inv _ _ _ _ _ _ H) as [HP _].
  exact (apply_prior_ent _ _ _ i j HP Hi Hj).
Qed.

Theorem normalize_stochastic : forall C p eq C' T opi,
  normalize_builder C p eq = Some (C', T, opi) -> nonneg_mat C -> nonneg_prior p ->
  length T = length C /\
  forall i, (i < length C)%nat ->
    length (row T i) = length C /\ nonneg_row (row T i) /\
    (0 < qsum (row C' i) -> qsum (row T i) == 1) /\
    (~ 0 < qsum (row C' i) -> forall x, In x (row T i) -> x == 0) /\
    (forall j, 0 < qsum (row C' i) -> ent T i j * qsum (row C' i) == ent C' i j).
Proof.
  intros C p eq C' T opi H HC Hp.
  destruct (normalize_builder_inv _ _ _ _ _ _ H) as [HP [-> _]].
  pose proof (apply_prior_length _ _ _ HP) as HL.
  pose proof (apply_prior_nonneg _ _ _ HP HC Hp) as Hnn.
  pose proof (apply_prior_result_square _ _ _ HP) as Sq.
  split.
  - rewrite length_row_normalize. exact HL.
  - intros i Hi.
    destruct (rownorm_stochastic C' i (nonneg_row_of C' i Hnn)) as [H1 [H2 [H3 H4]]].
    repeat split.
    + rewrite H1, is_square_row; [exact HL | exact Sq | rewrite HL; exact Hi].
    + exact H2.
    + exact H3.
    + exact H4.
    + intros j Hpos. apply rownorm_def. exact Hpos.
Qed.

Lemma is_stationary_b_spec T pi :
  is_stationary_b T pi = true ->
  length pi = length T /\
  (forall j, (j < length T)%nat -> vecmat pi T j == nth j pi 0) /\
  qsum pi == 1 /\ (forall x, In x pi -> 0 <= x).
Proof.
  unfold is_stationary_b. rewrite !andb_true_iff. intros [[[H1 H2] H3] H4]. repeat split.
  - apply Nat.eqb_eq. exact H1.
  - intros j Hj. rewrite forallb_forall in H2. apply Qeq_bool_iff. apply H2. apply in_seq. lia.
  - apply Qeq_bool_iff. exact H3.
  - intros x Hx. rewrite forallb_forall in H4. apply Qle_bool_iff. apply H4. exact Hx.
Qed.

(* whatever vector the model returns as populations of normalize is a stationary distribution *)
Theorem normalize_pi_stationary : forall C p C' T pi,
  normalize_builder C p true = Some (C', T, Some pi) ->
  length pi = length C /\
  (forall j, (j < length C)%nat -> vecmat pi T j == nth j pi 0) /\
  qsum pi == 1 /\ (forall x, In x pi -> 0 <= x).
Proof.
  intros C p C' T pi H.
  destruct (normalize_builder_inv _ _ _ _ _ _ H) as [HP [HT [pi' [Hpi Hst]]]].
  injection Hpi as <-.
  pose proof (apply_prior_length _ _ _ HP) as HL.
  destruct (is_stationary_b_spec _ _ Hst) as [H1 [H2 [H3 H4]]].
  assert (HTL : length T = length C) by (rewrite HT, length_row_normalize; exact HL).
  rewrite HTL in *. repeat split; assumption.
Qed.

Theorem normalize_no_pi_when_off : forall C p C' T opi,
  normalize_builder C p false = Some (C', T, opi) -> opi = None.
Proof.
  intros C p C' T opi H. destruct (normalize_builder_inv _ _ _ _ _ _ H) as [_ [_ E]]. exact E.
Qed.

(* ------------------------------------------------------------------ mle: guard and post-iteration step *)
Lemma rows_positive_spec M : rows_positive M = true <-> forall r, In r M -> 0 < qsum r.
Proof.
  unfold rows_positive. rewrite forallb_forall. split; intros H r Hr.
  - apply qpos_iff. apply H. exact Hr.
  - apply qpos_iff. apply H. exact Hr.
Qed.

Lemma rows_positive_row M i : rows_positive M = true -> (i < length M)%nat -> 0 < qsum (row M i).
Proof.
  intros H Hi. apply (proj1 (rows_positive_spec M) H). unfold row. apply nth_In. exact Hi.
Qed.

Lemma mle_post_T_eq X :
  rows_positive X = true -> map (fun r => map (fun x => x / qsum r) r) X = row_normalize X.
Proof.
  intros H. unfold row_normalize. apply map_ext_in. intros r Hr.
  unfold normalize_row. rewrite inv_weight_pos by (apply (proj1 (rows_positive_spec X) H); exact Hr).
  reflexivity.
Qed.

Lemma mle_post_inv X T pi :
  mle_post X = Some (T, pi) ->
  is_square X = true /\ rows_positive X = true /\ T = row_normalize X /\ pi = pops X.
Proof.
  unfold mle_post. destruct (is_square X) eqn:Sq; [|discriminate].
  destruct (rows_positive X) eqn:Rp; [|discriminate]. cbn [andb].
  intros [= <- <-]. repeat split. apply mle_post_T_eq. exact Rp.
Qed.

Lemma total_pos X : rows_positive X = true -> (0 < length X)%nat -> 0 < total X.
Proof.
  intros H Hl. unfold total, rowsums. destruct X as [|r X]; [cbn in Hl; lia|].
  cbn [map]. rewrite qsum_cons.
  pose proof (proj1 (rows_positive_spec (r :: X)) H) as Hs.
  assert (0 < qsum r) by (apply Hs; left; reflexivity).
  assert (0 <= qsum (map qsum X)).
  { apply qsum_nonneg. intros s Hin. apply in_map_iff in Hin. destruct Hin as [r0 [<- Hr0]].
    apply Qlt_le_weak. apply Hs. right. exact Hr0. }
  lra.
Qed.

(* any symmetric non-negative X with positive row sums gives a reversible stochastic pair *)
Theorem sym_X_reversible : forall X T pi,
  mle_post X = Some (T, pi) -> nonneg_mat X ->
  (forall i j, (i < length X)%nat -> (j < length X)%nat -> ent X i j == ent X j i) ->
  let n := length X in
  length T = n /\ length pi = n /\
  (forall i, (i < n)%nat -> length (row T i) = n /\ nonneg_row (row T i) /\ qsum (row T i) == 1) /\
  (forall i, 0 <= nth i pi 0) /\
  ((0 < n)%nat -> qsum pi == 1) /\
  (forall i j, (i < n)%nat -> (j < n)%nat -> nth i pi 0 * ent T i j == nth j pi 0 * ent T j i) /\
  (forall j, (j < n)%nat -> vecmat pi T j == nth j pi 0).
Proof.
  intros X T pi H Hnn Hsym n.
  destruct (mle_post_inv _ _ _ H) as [Sq [Rp [-> ->]]]. subst n.
  split; [apply length_row_normalize|].
  split; [apply length_pops|].
  split.
  { intros i Hi. rewrite row_row_normalize. repeat split.
    - rewrite normalize_row_length. apply is_square_row; assumption.
    - apply normalize_row_nonneg, nonneg_row_of. exact Hnn.
    - apply normalize_row_sum. apply rows_positive_row; assumption. }
  split; [intros i; apply pops_nonneg; exact Hnn|].
  split; [intros Hl; apply pops_sum, total_pos; assumption|].
  split.
  { intros i j Hi Hj. apply sym_normalized_db; [exact Hnn | apply Hsym; assumption]. }
  intros j Hj. apply sym_normalized_stationary; try assumption.
  intros i Hi. apply Hsym; assumption.
Qed.

Lemma mle_builder_inv C p eq X C' T opi :
  mle_builder C p eq X = Some (C', T, opi) ->
  apply_prior C p = Some C' /\ rows_positive C' = true /\
  exists pi, mle_post X = Some (T, pi) /\ opi = if eq then Some pi else None.
Proof.
  unfold mle_builder. destruct (apply_prior C p) as [C1|]; [|discriminate].
  destruct (rows_positive C1) eqn:R1; [|discriminate].
  destruct (rows_positive (madd C1 (mtrans C1))); [|discriminate]. cbn [andb].
  destruct (mle_post X) as [[T0 pi0]|]; [|discriminate].
  intros [= <- <- <-]. repeat split. exact R1. exists pi0. split; reflexivity.
Qed.

(* mle: the returned counts are C + prior, every state has outgoing counts, and (T, pi) is the
   reversible stochastic pair of the symmetric X produced by the iteration *)
Theorem mle_builder_sound : forall C p eq X C' T opi,
  mle_builder C p eq X = Some (C', T, opi) -> nonneg_mat X ->
  (forall i j, (i < length X)%nat -> (j < length X)%nat -> ent X i j == ent X j i) ->
  let n := length X in
  (forall i j, (i < length C)%nat -> (j < length C)%nat -> ent C' i j == ent C i j + prior_ent p i j) /\
  (forall i, (i < length C)%nat -> 0 < qsum (row C' i)) /\
  length T = n /\
  (forall i, (i < n)%nat -> length (row T i) = n /\ nonneg_row (row T i) /\ qsum (row T i) == 1) /\
  exists pi, (opi = if eq then Some pi else None) /\ length pi = n /\
    (forall i, 0 <= nth i pi 0) /\ ((0 < n)%nat -> qsum pi == 1) /\
    (forall i j, (i < n)%nat -> (j < n)%nat -> nth i pi 0 * ent T i j == nth j pi 0 * ent T j i) /\
    (forall j, (j < n)%nat -> vecmat pi T j == nth j pi 0).
Proof.
  intros C p eq X C' T opi H Hnn Hsym n.
  destruct (mle_builder_inv _ _ _ _ _ _ _ H) as [HP [R1 [pi [HM Hopi]]]].
  destruct (sym_X_reversible X T pi HM Hnn Hsym) as [A1 [A2 [A3 [A4 [A5 [A6 A7]]]]]].
  pose proof (apply_prior_length _ _ _ HP) as HL.
  split; [intros i j Hi Hj; exact (apply_prior_ent _ _ _ i j HP Hi Hj)|].
  split; [intros i Hi; apply rows_positive_row; [exact R1 | rewrite HL; exact Hi]|].
  split; [exact A1|]. split; [exact A3|].
  exists pi. repeat split; assumption.
Qed.

(* error clause: a state without outgoing counts makes mle reject (the code's assert) *)
Theorem mle_builder_rejects_no_outgoing : forall C p eq X C1,
  apply_prior C p = Some C1 -> rows_positive C1 = false -> mle_builder C p eq X = None.
Proof.
  intros C p eq X C1 HP R. unfold mle_builder. rewrite HP, R. reflexivity.
Qed.

(* error clause: non-square counts, or a prior matrix of another shape, are rejected by every builder *)
Theorem builders_reject_bad_shape : forall C p eq X,
  apply_prior C p = None ->
  normalize_builder C p eq = None /\ transpose_builder C p eq = None /\ mle_builder C p eq X = None.
Proof.
  intros C p eq X H. unfold normalize_builder, transpose_builder, mle_builder. rewrite H. repeat split.
Qed.

Lemma apply_prior_none_iff C p :
  apply_prior C p = None <->
  is_square C = false \/
  exists P, p = PMat P /\ (is_square P = false \/ length P <> length C).
Proof.
  unfold apply_prior. destruct (is_square C) eqn:Sq.
  - destruct p as [|q|P].
    + split; [discriminate|]. intros [E|[P [E _]]]; discriminate.
    + split; [discriminate|]. intros [E|[P [E _]]]; discriminate.
    + destruct (is_square P) eqn:SqP; cbn [andb].
      * destruct (Nat.eqb (length P) (length C)) eqn:E.
        -- split; [discriminate|]. apply Nat.eqb_eq in E.
           intros [E0|[P0 [[= <-] [E1|E1]]]]; [discriminate|congruence|contradiction].
        -- split; [|reflexivity]. intros _. right. exists P. split; [reflexivity|].
           right. apply Nat.eqb_neq. exact E.
      * split; [|reflexivity]. intros _. right. exists P. split; [reflexivity|]. left. exact SqP.
  - split; [|reflexivity]. intros _. left. reflexivity.
Qed.
