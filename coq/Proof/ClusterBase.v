(* Basic lemmas for the clustering model: boolean comparisons, argmax, nearest-centre sweep. *)
From Coq Require Import List ZArith QArith Bool Arith Lia Lqa.
From EV Require Import Cluster.
Import ListNotations.

Lemma Qlt_b_true a b : Qlt_b a b = true <-> a < b.
Proof.
  unfold Qlt_b. rewrite negb_true_iff. split; intros H.
  - apply Qnot_le_lt. intros C. apply Qle_bool_iff in C. congruence.
  - destruct (Qle_bool b a) eqn:E; [|reflexivity]. apply Qle_bool_iff in E. exfalso. lra.
Qed.
Lemma Qlt_b_false a b : Qlt_b a b = false <-> b <= a.
Proof.
  unfold Qlt_b. rewrite negb_false_iff. apply Qle_bool_iff.
Qed.

Ltac qlt_cases a b H :=
  destruct (Qlt_b a b) eqn:H; [apply Qlt_b_true in H | apply Qlt_b_false in H].

(* ------------------------------------------------------------------ argmax *)
Lemma argmax_from_spec l : forall best,
  let m := argmax_from best l in
  (m = best \/ In m l) /\ dist best <= dist m /\ (forall x, In x l -> dist x <= dist m).
Proof.
  induction l as [|y l IH]; intros best; cbn [argmax_from].
  - split; [left; reflexivity|]. split; [lra|]. intros x [].
  - qlt_cases (dist best) (dist y) E.
    + destruct (IH y) as [H1 [H2 H3]]. split; [|split].
      * right. destruct H1 as [->|H1]; [left; reflexivity|right; exact H1].
      * lra.
      * intros x [<-|Hx]; [exact H2|apply H3; exact Hx].
    + destruct (IH best) as [H1 [H2 H3]]. split; [|split].
      * destruct H1 as [->|H1]; [left; reflexivity|right; right; exact H1].
      * exact H2.
      * intros x [<-|Hx]; [lra|apply H3; exact Hx].
Qed.

Lemma argmax_spec l m : argmax l = Some m -> In m l /\ forall x, In x l -> dist x <= dist m.
Proof.
  destruct l as [|y l]; [discriminate|]. cbn [argmax]. intros E. injection E as <-.
  destruct (argmax_from_spec l y) as [H1 [H2 H3]]. split.
  - destruct H1 as [->|H1]; [left; reflexivity|right; exact H1].
  - intros x [<-|Hx]; [exact H2|apply H3; exact Hx].
Qed.

Lemma argmax_none l : argmax l = None -> l = [].
Proof. destruct l; [reflexivity|discriminate]. Qed.

(* first maximum: everything before the chosen element is strictly smaller (np.argmax) *)
Lemma argmax_from_first l : forall best,
  argmax_from best l = best \/
  exists l1 l2, l = l1 ++ argmax_from best l :: l2 /\ dist best < dist (argmax_from best l) /\
                forall x, In x l1 -> dist x < dist (argmax_from best l).
Proof.
  induction l as [|y l IH]; intros best; cbn [argmax_from]; [left; reflexivity|].
  qlt_cases (dist best) (dist y) E.
  - right. destruct (IH y) as [Heq|[l1 [l2 [H1 [H2 H3]]]]].
    + rewrite Heq. exists [], l. split; [reflexivity|]. split; [exact E|]. intros x [].
    + exists (y :: l1), l2. split; [cbn; f_equal; exact H1|]. split; [lra|].
      intros x [<-|Hx]; [exact H2|apply H3; exact Hx].
  - destruct (IH best) as [Heq|[l1 [l2 [H1 [H2 H3]]]]]; [left; exact Heq|].
    right. exists (y :: l1), l2. split; [cbn; f_equal; exact H1|]. split; [exact H2|].
    intros x [<-|Hx]; [lra|apply H3; exact Hx].
Qed.

(* ------------------------------------------------------------------ nearest *)
Section Nearest.
  Variable D : nat -> nat -> Q.

  Definition ctr (cs : list nat) (j : nat) : nat := nth j cs 0%nat.

  (* invariant of the running minimum after the first i centres of `pre ++ cs` *)
  Lemma nearest_from_spec f : forall cs pre bi bd,
    (bi < length pre)%nat -> bd = D (ctr pre bi) f ->
    (forall t, (t < length pre)%nat -> bd <= D (ctr pre t) f) ->
    (forall t, (t < bi)%nat -> bd < D (ctr pre t) f) ->
    let r := nearest_from D f (length pre) bi bd cs in
    (fst r < length (pre ++ cs))%nat /\ snd r = D (ctr (pre ++ cs) (fst r)) f /\
    (forall t, (t < length (pre ++ cs))%nat -> snd r <= D (ctr (pre ++ cs) t) f) /\
    (forall t, (t < fst r)%nat -> snd r < D (ctr (pre ++ cs) t) f).
  Proof.
    induction cs as [|c cs IH]; intros pre bi bd Hbi Hbd Hmin Hfirst; cbn [nearest_from].
    - rewrite app_nil_r. cbn [fst snd]. repeat split; assumption.
    - assert (Hlen : length (pre ++ [c]) = S (length pre)) by (rewrite app_length; cbn; lia).
      assert (Hc : ctr (pre ++ [c]) (length pre) = c).
      { unfold ctr. rewrite app_nth2 by lia. rewrite Nat.sub_diag. reflexivity. }
      assert (Hold : forall t, (t < length pre)%nat -> ctr (pre ++ [c]) t = ctr pre t).
      { intros t Ht. unfold ctr. apply app_nth1. exact Ht. }
      replace (pre ++ c :: cs) with ((pre ++ [c]) ++ cs) by (rewrite <- app_assoc; reflexivity).
      qlt_cases (D c f) bd E.
      + specialize (IH (pre ++ [c]) (length pre) (D c f)).
        rewrite Hlen in IH. apply IH.
        * lia.
        * rewrite Hc. reflexivity.
        * intros t Ht. destruct (Nat.eq_dec t (length pre)) as [->|Hne].
          -- rewrite Hc. lra.
          -- rewrite Hold by lia. specialize (Hmin t ltac:(lia)). lra.
        * intros t Ht. rewrite Hold by lia. specialize (Hmin t Ht). lra.
      + specialize (IH (pre ++ [c]) bi bd).
        rewrite Hlen in IH. apply IH.
        * lia.
        * rewrite Hold by lia. exact Hbd.
        * intros t Ht. destruct (Nat.eq_dec t (length pre)) as [->|Hne].
          -- rewrite Hc. exact E.
          -- rewrite Hold by lia. apply Hmin. lia.
        * intros t Ht. rewrite Hold by lia. apply Hfirst. exact Ht.
  Qed.

  (* assign_to_nearest_center on a non-empty centre list: minimal distance, first index attaining it *)
  Lemma nearest_spec f cs j d :
    nearest D f cs = Some (j, d) ->
    (j < length cs)%nat /\ d = D (ctr cs j) f /\
    (forall t, (t < length cs)%nat -> d <= D (ctr cs t) f) /\
    (forall t, (t < j)%nat -> d < D (ctr cs t) f).
  Proof.
    destruct cs as [|c cs]; [discriminate|]. cbn [nearest]. intros E. injection E as E.
    pose proof (nearest_from_spec f cs [c] 0%nat (D c f)) as H. cbn [length] in H.
    rewrite E in H. cbn [fst snd app] in H. apply H.
    - lia.
    - reflexivity.
    - intros t Ht. assert (t = 0)%nat by lia. subst t. unfold ctr. cbn. lra.
    - intros t Ht. lia.
  Qed.

  Lemma nearest_some f cs : cs <> [] -> exists j d, nearest D f cs = Some (j, d).
  Proof.
    destruct cs as [|c cs]; [congruence|]. intros _. cbn [nearest].
    destruct (nearest_from D f 1 0 (D c f) cs) as [j d]. exists j, d. reflexivity.
  Qed.
End Nearest.
