(* C05 -- defect D3 as a refutation: a faithful copy of the column-slice arithmetic of _get_iis_from_slices as
   it stood BEFORE fix 1d25777 (one start for all rows, never wrapped; stops = lengths (+ stop if stop < 0),
   clipped to the row length; np.arange(start, stops[row], step)), fed to the unchanged _convert_from_2d.
   With a negative start the old read is not the list-of-rows read. *)
From Coq Require Import List ZArith Bool Lia.
From EV Require Import PySlice Ragged.
Import ListNotations.

Definition old_iis_from_slices (ls : list nat) (rows : list Z) (sl : pslice)
  : option (list (Z * Z) * list nat) :=
  let '(s, e, k) := sl in
  let start := match s with None => 0%Z | Some x => x end in            (* if start is None: start = 0 *)
  let step := match k with None => 1%Z | Some x => x end in             (* if step is None: step = 1 *)
  match map_opt (fun r => match get_item ls r with
                          | None => None
                          | Some l =>
                            let l := Z.of_nat l in
                            let stop0 := match e with
                                         | None => l                                  (* stops = lengths *)
                                         | Some x => if (x <? 0)%Z then (l + x)%Z     (* lengths + stop *)
                                                     else x
                                         end in
                            let stop := if (l <? stop0)%Z then l else stop0 in        (* stops > lengths: clip *)
                            Some (map (fun c => (r, c)) (zrange start stop step))     (* np.arange *)
                          end) rows with
  | None => None
  | Some groups => Some (concat groups, map (@length (Z * Z)) groups)
  end.

Definition old_get_sl2ss {A} (s : conc A) (rsl csl : pslice) : result A :=
  match old_iis_from_slices (lens s) (sl_indices (length (lens s)) rsl) csl with
  | None => Err
  | Some (iis, nl) => rebuild (gather s iis) nl
  end.

Definition d3_witness : conc Z := mkRA [0; 1; 2; 3; 4; 5; 6; 7; 8]%Z [3; 2; 4]%nat.

(* a[:, -2:] on [[0,1,2],[3,4],[5,6,7,8]]: the old arithmetic returns [1,2,0,1,2],[3,4,3,4],[7,8,5,6,7,8]
   (what the unrepaired code printed), the list of rows gives [1,2],[3,4],[7,8] *)
Lemma old_negstart_value :
  old_get_sl2ss d3_witness (None, None, None) (Some (-2)%Z, None, None)
  = Val [[1; 2; 0; 1; 2]; [3; 4; 3; 4]; [7; 8; 5; 6; 7; 8]]%Z.
Proof. vm_compute. reflexivity. Qed.

Lemma old_negstart_refuted :
  exists (s : conc Z) (rsl csl : pslice),
    wf s /\ sl_ok rsl = true /\ sl_ok csl = true /\
    old_get_sl2ss s rsl csl <> get_s (abs s) (Sl2SS rsl csl).
Proof.
  exists d3_witness, (None, None, None), (Some (-2)%Z, None, None).
  repeat split. rewrite old_negstart_value. vm_compute. discriminate.
Qed.
