(* C03: closed form of the number of pairs, and of the matrix total, with the sliding window off. *)
From Coq Require Import List ZArith Lia Bool Arith.
From EV Require Import PySlice PySliceLemmas CountsGen Counts CountsProofs.
Import ListNotations.
Open Scope Z_scope.

(* only every lag-th pair: positions 0, lag, 2 lag, ... whose partner is still inside: floor((n-1)/lag) *)
Theorem npairs_strided_closed lag n : 1 <= lag -> npairs false lag n = Z.to_nat ((Z.of_nat n - 1) / lag).
Proof.
  intros Hl. set (m := npairs false lag n).
  assert (Hup : ~ (Z.of_nat m * lag + lag < Z.of_nat n)).
  { intros H. apply (npairs_strided_iff lag n m Hl) in H. unfold m in H. lia. }
  assert (Hlo : (0 < m)%nat -> Z.of_nat (m - 1) * lag + lag < Z.of_nat n).
  { intros Hm. apply (npairs_strided_iff lag n (m - 1) Hl). unfold m in *. lia. }
  destruct (Nat.eq_dec m 0) as [E|NE].
  - rewrite E in *. cbn in Hup. assert (Hq : (Z.of_nat n - 1) / lag <= 0).
    { destruct (Z.eq_dec (Z.of_nat n) 0) as [Z0|NZ].
      - rewrite Z0. cbn. apply Z.lt_le_incl. apply Z.div_lt_upper_bound; lia.
      - rewrite Z.div_small; lia. }
    lia.
  - specialize (Hlo ltac:(lia)). replace (Z.of_nat (m - 1)) with (Z.of_nat m - 1) in Hlo by lia.
    assert (Hq : (Z.of_nat n - 1) / lag = Z.of_nat m).
    { symmetry. apply Z.div_unique with (r := Z.of_nat n - 1 - lag * Z.of_nat m); lia. }
    rewrite Hq. lia.
Qed.

Theorem total_pairs_strided lag trjs :
  1 <= lag ->
  length (all_pairs false lag trjs) =
  fold_right (fun t acc => (Z.to_nat ((Z.of_nat (length (strip t)) - 1) / lag) + acc)%nat) 0%nat trjs.
Proof.
  intros H. rewrite all_pairs_spec by exact H. rewrite flat_map_length.
  induction trjs as [|t r IH]; cbn [fold_right]; [reflexivity|].
  rewrite spec_pairs_length, npairs_strided_closed, IH by exact H. reflexivity.
Qed.

(* with lag 1 the two window modes coincide *)
Theorem npairs_lag1 sliding n : npairs sliding 1 n = Z.to_nat (Z.of_nat n - 1).
Proof.
  destruct sliding; [apply npairs_sliding; lia|].
  rewrite npairs_strided_closed by lia. rewrite Z.div_1_r. reflexivity.
Qed.

(* the strided window never yields more pairs than the sliding one *)
Theorem npairs_strided_le_sliding lag n : 1 <= lag -> (npairs false lag n <= npairs true lag n)%nat.
Proof.
  intros Hl. rewrite npairs_sliding, npairs_strided_closed by exact Hl.
  destruct (Z_lt_le_dec (Z.of_nat n - 1) lag) as [Hs|Hs].
  - assert ((Z.of_nat n - 1) / lag <= 0); [|lia].
    destruct (Z_lt_le_dec (Z.of_nat n - 1) 0); [apply Z.lt_le_incl, Z.div_lt_upper_bound; lia|rewrite Z.div_small; lia].
  - assert ((Z.of_nat n - 1) / lag * lag <= Z.of_nat n - 1) by (pose proof (Z.mul_div_le (Z.of_nat n - 1) lag ltac:(lia)); lia).
    assert (lag * ((Z.of_nat n - 1) / lag - 1) <= Z.of_nat n - 1 - lag) by lia.
    assert (0 <= (Z.of_nat n - 1) / lag) by (apply Z.div_pos; lia).
    nia.
Qed.
