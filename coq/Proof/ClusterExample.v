(* Concrete metric spaces (points on a line) meeting the hypotheses of the clustering theorems;
   used for non-vacuity examples and for the refutation witness of finding F1. *)
From Coq Require Import List ZArith QArith Bool Arith Lia Lqa.
From EV Require Import Cluster ClusterCase ClusterBase ClusterInv ClusterPam ClusterKC ClusterTop.
Import ListNotations.

Section Line.
  Variable pos : nat -> Z.
  Hypothesis pos_inj : forall a b, pos a = pos b -> a = b.
  Definition Dline (c f : nat) : Q := inject_Z (Z.abs (pos c - pos f)).

  Lemma Dline_self f : Dline f f == 0.
  Proof. unfold Dline. rewrite Z.sub_diag. reflexivity. Qed.
  Lemma Dline_pos c f : c <> f -> 0 < Dline c f.
  Proof.
    intros H. unfold Dline. change 0 with (inject_Z 0). rewrite <- Zlt_Qlt.
    assert (pos c <> pos f) by (intros E; apply H, pos_inj, E). lia.
  Qed.
  Lemma Dline_sym : metric_sym Dline.
  Proof. intros a b. unfold Dline. replace (pos b - pos a)%Z with (- (pos a - pos b))%Z by lia. rewrite Z.abs_opp. reflexivity. Qed.
  Lemma Dline_tri : metric_tri Dline.
  Proof. intros a b c. unfold Dline. rewrite <- inject_Z_plus, <- Zle_Qle. lia. Qed.
End Line.

Definition pos_id (n : nat) : Z := Z.of_nat n.
Lemma pos_id_inj a b : pos_id a = pos_id b -> a = b.
Proof. unfold pos_id. lia. Qed.

(* points at 0, 1, 100, 101, 102, ... *)
Definition pos_far (n : nat) : Z := match n with 0%nat => 0 | 1%nat => 1 | _ => 98 + Z.of_nat n end.
Lemma pos_far_inj a b : pos_far a = pos_far b -> a = b.
Proof. unfold pos_far. destruct a as [|[|a]]; destruct b as [|[|b]]; lia. Qed.

(* F1: with two supplied initial centres the 2-approximation clause fails *)
Theorem two_approx_warm_refuted :
  exists (D : nat -> nat -> Q) (init Sc : list nat) (n : nat) (rho : Q),
    (forall f, D f f == 0) /\ (forall c f, c <> f -> 0 < D c f) /\ metric_sym D /\ metric_tri D /\
    init_ok n init /\ covers D Sc rho n /\
    let r := kcenters_warm D (Some 2%nat) 0 false init n in
    (length Sc <= length (fst r))%nat /\ ~ maxdist (snd r) <= (2#1) * rho.
Proof.
  exists (Dline pos_far), [0;1]%nat, [0;2]%nat, 3%nat, 1.
  split; [apply Dline_self|]. split; [apply Dline_pos, pos_far_inj|].
  split; [apply Dline_sym|]. split; [apply Dline_tri|].
  split.
  - split; [discriminate|]. split.
    + constructor; [intros [H|[]]; discriminate|]. constructor; [intros []|constructor].
    + intros c [<-|[<-|[]]]; lia.
  - split.
    + intros f Hf. destruct f as [|[|[|f]]]; try lia.
      * exists 0%nat. split; [left; reflexivity|]. vm_compute. discriminate.
      * exists 0%nat. split; [left; reflexivity|]. vm_compute. discriminate.
      * exists 2%nat. split; [right; left; reflexivity|]. vm_compute. discriminate.
    + vm_compute. split; [lia|]. intros H. apply H. reflexivity.
Qed.

(* non-vacuity: six collinear points, every hypothesis of the C01/C02/C09 theorems holds *)
Example line_run_consistent :
  Inv (Dline pos_id) 6 (kcenters_cold (Dline pos_id) (Some 3%nat) 0 true 6) /\
  st_show (kcenters_cold (Dline pos_id) (Some 3%nat) 0 true 6) = ([0; 5; 2]%nat, [0; 0; 2; 2; 1; 1]%nat, [0; 1; 0; 1; 1; 0]) /\
  st_show (hybrid_cold (Dline pos_id) (Some 2%nat) 0 6 [[1; 4]; [0; 3]]%nat) = ([1; 4]%nat, [0; 0; 0; 1; 1; 1]%nat, [1; 0; 1; 1; 0; 1]).
Proof.
  split; [|split].
  - apply kcenters_cold_inv.
    + apply Dline_self.
    + apply Dline_pos, pos_id_inj.
    + intros _. split; [apply Dline_sym|apply Dline_tri].
    + lra.
    + lia.
  - vm_compute. reflexivity.
  - vm_compute. reflexivity.
Qed.
