(* C15: the definitions regenerated from the current sources (Gen/StoreGen.v, translator/tr_store.py)
   equal the hand model's (Model/Store.v), so that the theorems about the model are theorems about
   what the code says now. *)
From Coq Require Import List ZArith QArith Qround Lia Bool Permutation.
From EV Require Import PySlice Store StoreProofs StoreLoadProofs StoreRaProofs StoreBase StoreGen.
Import ListNotations.
Open Scope Z_scope.

(* ------------------------------------------------------------------ builtins *)
Lemma py_str_nat : forall i, py_str (Z.of_nat i) = str_of_nat i.
Proof.
  intros i. unfold py_str. destruct (Z.of_nat i <? 0) eqn:E.
  - apply Z.ltb_lt in E. lia.
  - rewrite Nat2Z.id. reflexivity.
Qed.

Lemma zsum_of_nat : forall l, zsum (map Z.of_nat l) = Z.of_nat (sum_nat l).
Proof.
  induction l as [|x l IH]; [reflexivity|].
  cbn [map zsum sum_nat fold_right]. fold (zsum (map Z.of_nat l)) (sum_nat l). rewrite IH. lia.
Qed.

(* ------------------------------------------------------------------ ra.save: node names *)
Lemma gen_n_zeros_eq : forall n, gen_n_zeros (Z.of_nat n) = Z.of_nat (n_zeros n).
Proof. intros n. unfold gen_n_zeros, n_zeros, zlen. rewrite py_str_nat. lia. Qed.

Lemma gen_key_eq_width : forall tag w i, gen_key tag (Z.of_nat i) (Z.of_nat w) = key tag w i.
Proof.
  intros tag w i. unfold gen_key, key, py_zfill. rewrite Nat2Z.id, py_str_nat, <- app_assoc. reflexivity.
Qed.

Lemma gen_key_eq : forall tag n i,
  gen_key tag (Z.of_nat i) (gen_n_zeros (Z.of_nat n)) = key tag (n_zeros n) i.
Proof. intros tag n i. rewrite gen_n_zeros_eq. apply gen_key_eq_width. Qed.

Lemma gen_key_nd_eq : forall tag, gen_key tag 0 gen_n_zeros_nd = key tag 1 0.
Proof. intros tag. apply (gen_key_eq_width tag 1 0). Qed.

Lemma gen_keys_lt : forall tag n i j, (i < j)%nat -> (j < n)%nat ->
  lex_ltb (gen_key tag (Z.of_nat i) (gen_n_zeros (Z.of_nat n)))
          (gen_key tag (Z.of_nat j) (gen_n_zeros (Z.of_nat n))) = true.
Proof. intros tag n i j Hij Hjn. rewrite !gen_key_eq. apply keys_lt; assumption. Qed.

Lemma gen_listing_is_row_order : forall tag n l,
  Permutation l (map (fun i => gen_key tag (Z.of_nat i) (gen_n_zeros (Z.of_nat n))) (seq 0 n)) ->
  sort_keys l = map (fun i => gen_key tag (Z.of_nat i) (gen_n_zeros (Z.of_nat n))) (seq 0 n).
Proof.
  intros tag n l HP.
  assert (E : map (fun i => gen_key tag (Z.of_nat i) (gen_n_zeros (Z.of_nat n))) (seq 0 n)
              = map (key tag (n_zeros n)) (seq 0 n)) by (apply map_ext; intros i; apply gen_key_eq).
  rewrite E in *. apply listing_any_creation_order. exact HP.
Qed.

(* ------------------------------------------------------------------ ra.load: lengths, reads *)
Lemma gen_load_len_eq : forall n s, 1 <= s -> gen_load_len (Z.of_nat n) s = Z.of_nat (ceil_len n s).
Proof.
  intros n s Hs. unfold gen_load_len, ceil_len. rewrite Z2Nat.id; [reflexivity|].
  apply Z.div_pos; lia.
Qed.

Lemma gen_read_row_eq {A} : forall s (l : list A), gen_read_row s l = strided s l.
Proof. reflexivity. Qed.

Lemma gen_single_read_eq {A} : forall s (l : list A), gen_single_read s l = strided s l.
Proof. reflexivity. Qed.

Lemma gen_single_key_test_eq : forall {A} (ks : list A),
  gen_single_key_test (zlen ks) = true <-> exists k, ks = [k].
Proof.
  intros A ks. unfold gen_single_key_test, zlen. rewrite Z.eqb_eq. split.
  - intros H. destruct ks as [|k [|k2 r]]; cbn [length] in H; try lia. exists k. reflexivity.
  - intros [k ->]. reflexivity.
Qed.

(* the length announced up front is the length of the slice read afterwards *)
Lemma gen_stride_len {A} : forall s (r : list A), 1 <= s -> zlen (gen_read_row s r) = gen_load_len (zlen r) s.
Proof.
  intros s r Hs. unfold zlen. rewrite gen_load_len_eq by exact Hs. rewrite gen_read_row_eq.
  rewrite strided_length by exact Hs. reflexivity.
Qed.

Lemma gen_h5_global_len_eq : forall n s, gen_h5_global_len n s = gen_load_len n s.
Proof. reflexivity. Qed.

Lemma gen_npy_global_len_eq : forall n s, gen_npy_global_len n s = gen_load_len n s.
Proof. reflexivity. Qed.

(* ------------------------------------------------------------------ slice assignment, fill loops *)
Lemma assign_slice_window {A} : forall (buf : list A) pos xs,
  assign_slice buf (Z.of_nat pos) (Z.of_nat pos + zlen xs) xs = write_window buf pos xs.
Proof.
  intros buf pos xs. unfold assign_slice.
  assert (E1 : (0 <=? Z.of_nat pos) = true) by (apply Z.leb_le; lia).
  assert (E2 : (Z.of_nat pos + zlen xs - Z.of_nat pos =? zlen xs) = true) by (apply Z.eqb_eq; lia).
  rewrite E1, E2, Nat2Z.id. reflexivity.
Qed.

Lemma gen_ra_fill_from {A} : forall s (rows : list (list A)) start buf,
  fill_loop (gen_read_row s) (gen_fill_end s) gen_fill_lo gen_fill_hi gen_fill_next rows (Z.of_nat start) buf
  = fill_from start (map (strided s) rows) buf.
Proof.
  intros s rows. induction rows as [|r rows IH]; intros start buf; [reflexivity|].
  cbn [fill_loop map fill_from]. unfold gen_fill_lo, gen_fill_hi, gen_fill_next, gen_fill_end.
  rewrite assign_slice_window. rewrite gen_read_row_eq.
  destruct (write_window buf start (strided s r)) as [b|]; [|reflexivity].
  unfold zlen. rewrite <- Nat2Z.inj_add. apply IH.
Qed.

Lemma gen_ra_fill_eq {A} : forall s (rows : list (list A)) buf,
  gen_ra_fill s rows buf = fill_from 0 (map (strided s) rows) buf.
Proof. intros s rows buf. unfold gen_ra_fill, gen_fill_start. apply (gen_ra_fill_from s rows 0%nat). Qed.

Lemma gen_npy_fill_from {A} : forall s (rows : list (list A)) start buf,
  fill_loop (gen_npy_read s) (gen_npy_end s) gen_npy_lo gen_npy_hi gen_npy_next rows (Z.of_nat start) buf
  = fill_from start (map (strided s) rows) buf.
Proof.
  intros s rows. induction rows as [|r rows IH]; intros start buf; [reflexivity|].
  cbn [fill_loop map fill_from]. unfold gen_npy_lo, gen_npy_hi, gen_npy_next, gen_npy_end, gen_npy_read.
  fold (strided s r). rewrite assign_slice_window.
  destruct (write_window buf start (strided s r)) as [b|]; [|reflexivity].
  unfold zlen. rewrite <- Nat2Z.inj_add. apply IH.
Qed.

Lemma gen_npy_fill_eq {A} : forall s (rows : list (list A)) buf,
  gen_npy_fill s rows buf = fill_from 0 (map (strided s) rows) buf.
Proof. intros s rows buf. unfold gen_npy_fill, gen_npy_start. apply (gen_npy_fill_from s rows 0%nat). Qed.

(* the generated fill loop, run on a zeroed buffer of the announced size, is the concatenation of
   the strided rows *)
Lemma gen_ra_fill_concat {A} : forall s (rows : list (list A)) (z : A), 1 <= s ->
  gen_ra_fill s rows (repeat z (Z.to_nat (zsum (map (fun r => gen_load_len (zlen r) s) rows))))
  = Some (concat (map (gen_read_row s) rows)).
Proof.
  intros s rows z Hs. rewrite gen_ra_fill_eq.
  assert (E : Z.to_nat (zsum (map (fun r => gen_load_len (zlen r) s) rows))
              = sum_nat (map (@length A) (map (strided s) rows))).
  { rewrite map_map.
    assert (E2 : map (fun r => gen_load_len (zlen r) s) rows
                 = map Z.of_nat (map (fun r => length (strided s r)) rows)).
    { rewrite map_map. apply map_ext. intros r. rewrite <- gen_stride_len by exact Hs. reflexivity. }
    rewrite E2, zsum_of_nat, Nat2Z.id. reflexivity. }
  rewrite E. apply fill_from_zero.
Qed.

(* ------------------------------------------------------------------ sound_trajectory *)
Lemma neg_div_ceil : forall n d, 0 < d -> - ((- n) / d) = (n + d - 1) / d.
Proof.
  intros n d Hd.
  pose proof (Z.div_mod (- n) d ltac:(lia)) as H1.
  pose proof (Z.mod_pos_bound (- n) d Hd) as H2.
  apply (Z.div_unique (n + d - 1) d (- ((- n) / d)) (d - 1 - (- n) mod d)).
  - left. lia.
  - nia.
Qed.

Lemma gen_sound_len_ceil : forall n s, 1 <= s -> gen_sound_len n s = (n + s - 1) / s.
Proof.
  intros n s Hs. unfold gen_sound_len, py_ceil, py_truediv, Qceiling, Qfloor.
  destruct s as [|p|p]; try lia.
  unfold Qdiv, Qinv, inject_Z. cbn [Qnum Qden Qmult Qopp].
  replace (n * 1) with n by lia. rewrite Pos.mul_1_l.
  apply neg_div_ceil. lia.
Qed.

Lemma gen_sound_len_eq : forall n s, 1 <= s -> gen_sound_len (Z.of_nat n) s = Z.of_nat (ceil_len n s).
Proof. intros n s Hs. rewrite gen_sound_len_ceil by exact Hs. apply gen_load_len_eq. exact Hs. Qed.

(* sounding announces exactly the number of frames of the strided read *)
Lemma gen_sound_is_strided_len {A} : forall s (frames : list A), 1 <= s ->
  gen_sound_len (zlen frames) s = zlen (gen_read_row s frames).
Proof.
  intros s frames Hs. rewrite gen_stride_len by exact Hs. unfold zlen.
  rewrite gen_sound_len_eq, gen_load_len_eq by exact Hs. reflexivity.
Qed.

(* ------------------------------------------------------------------ lengths in file order *)
Lemma insert_at_app {A} : forall (a b : list A) x, insert_at (length a) x (a ++ b) = a ++ x :: b.
Proof.
  induction a as [|h a IH]; intros b x.
  - destruct b; reflexivity.
  - cbn [length app insert_at]. rewrite IH. reflexivity.
Qed.

Definition spec_len (sound : Z -> Z -> Z) (frame_len : Z) (f : trjspec) : Z :=
  if snd f then frame_len else sound (fst (fst f)) (snd (fst f)).

Lemma lac_lengths_inv : forall sound fl (files : list trjspec) (done : list Z),
  fold_left (fun acc (p : nat * trjspec) => if snd (snd p) then insert_at (fst p) fl acc else acc)
            (enum_from (length done) files)
            (done ++ map (fun f => sound (fst (fst f)) (snd (fst f))) (filter (fun f => negb (snd f)) files))
  = done ++ map (spec_len sound fl) files.
Proof.
  intros sound fl files. induction files as [|f files IH]; intros done; [reflexivity|].
  cbn [enum_from fold_left filter map fst snd]. unfold spec_len at 1.
  destruct (snd f) eqn:Ef; cbn [negb].
  - rewrite insert_at_app.
    replace (done ++ fl :: map (fun f0 => sound (fst (fst f0)) (snd (fst f0))) (filter (fun f0 => negb (snd f0)) files))
      with ((done ++ [fl]) ++ map (fun f0 => sound (fst (fst f0)) (snd (fst f0))) (filter (fun f0 => negb (snd f0)) files))
      by (rewrite <- app_assoc; reflexivity).
    replace (S (length done)) with (length (done ++ [fl])) by (rewrite app_length; cbn [length]; lia).
    rewrite IH, <- app_assoc. reflexivity.
  - cbn [map].
    replace (done ++ sound (fst (fst f)) (snd (fst f)) :: map (fun f0 => sound (fst (fst f0)) (snd (fst f0))) (filter (fun f0 => negb (snd f0)) files))
      with ((done ++ [sound (fst (fst f)) (snd (fst f))]) ++ map (fun f0 => sound (fst (fst f0)) (snd (fst f0))) (filter (fun f0 => negb (snd f0)) files))
      by (rewrite <- app_assoc; reflexivity).
    replace (S (length done)) with (length (done ++ [sound (fst (fst f)) (snd (fst f))]))
      by (rewrite app_length; cbn [length]; lia).
    rewrite IH, <- app_assoc. reflexivity.
Qed.

(* starmap over the unframed files followed by the inserts = one length per file, in file order *)
Lemma lac_lengths_file_order : forall sound fl (files : list trjspec),
  lac_lengths sound fl files = map (spec_len sound fl) files.
Proof. intros sound fl files. unfold lac_lengths. apply (lac_lengths_inv sound fl files []). Qed.

Definition spec_of (t : trjfile) : trjspec := (Z.of_nat (t_nframes t), t_stride t, t_frame_kw t).

Lemma gen_lac_lengths_eq : forall files,
  (forall t, In t files -> 1 <= t_stride t) ->
  gen_lac_lengths (map spec_of files) = map (fun t => Z.of_nat (sounded t)) files.
Proof.
  intros files Hs. unfold gen_lac_lengths. rewrite lac_lengths_file_order, map_map.
  apply map_ext_in. intros t Ht. unfold spec_len, spec_of, sounded. cbn [fst snd].
  destruct (t_frame_kw t); [reflexivity|]. apply gen_sound_len_eq. apply Hs. exact Ht.
Qed.

(* ------------------------------------------------------------------ offsets = prefix sums *)
Lemma pick_app_at {A} : forall (pre l : list A) x,
  pick (pre ++ x :: l) (Z.of_nat (length pre)) = [x].
Proof.
  intros pre l x. unfold pick. destruct (Z.of_nat (length pre) <? 0) eqn:E.
  - apply Z.ltb_lt in E. lia.
  - rewrite Nat2Z.id, nth_error_app2 by lia. rewrite Nat.sub_diag. reflexivity.
Qed.

Lemma flat_map_pick_prefix {A} : forall m (l pre : list A), (m <= length l)%nat ->
  flat_map (pick (pre ++ l)) (map Z.of_nat (seq (length pre) m)) = firstn m l.
Proof.
  induction m as [|m IH]; intros l pre Hm; [reflexivity|].
  destruct l as [|x l]; [cbn [length] in Hm; lia|].
  cbn [seq map flat_map firstn]. rewrite pick_app_at. cbn [app]. f_equal.
  replace (pre ++ x :: l) with ((pre ++ [x]) ++ l) by (rewrite <- app_assoc; reflexivity).
  replace (S (length pre)) with (length (pre ++ [x])) by (rewrite app_length; cbn [length]; lia).
  apply IH. cbn [length] in Hm. lia.
Qed.

(* l[0:i] *)
Lemma slice_prefix {A} : forall (l : list A) i,
  slice_list l (Some 0) (Some (Z.of_nat i)) None = firstn i l.
Proof.
  intros l i. unfold slice_list, slice_indices, step_of, adjust.
  change (1 <? 0) with false. change (0 <? 0) with false. cbv iota.
  assert (E0 : (Z.of_nat i <? 0) = false) by (apply Z.ltb_ge; lia). rewrite E0.
  rewrite Z.min_l by lia.
  unfold zrange, range_len. change (0 <? 1) with true. cbv iota.
  set (e := Z.min (Z.of_nat i) (Z.of_nat (length l))).
  assert (Ee : e = Z.of_nat (Nat.min i (length l))) by (unfold e; lia).
  replace ((e - 0 + 1 - 1) / 1) with e by (rewrite Z.div_1_r; lia).
  rewrite Ee, Nat2Z.id.
  assert (Em : map (fun k => 0 + Z.of_nat k * 1) (seq 0 (Nat.min i (length l)))
               = map Z.of_nat (seq 0 (Nat.min i (length l)))) by (apply map_ext; intros k; lia).
  rewrite Em.
  pose proof (flat_map_pick_prefix (Nat.min i (length l)) l [] ltac:(lia)) as Hp.
  cbn [app length] in Hp. rewrite Hp.
  destruct (Nat.le_ge_cases i (length l)) as [H|H].
  - rewrite Nat.min_l by exact H. reflexivity.
  - rewrite Nat.min_r by exact H. rewrite !firstn_all2 by lia. reflexivity.
Qed.

Lemma gen_offsets_eq : forall lengths, gen_offsets (map Z.of_nat lengths) = map Z.of_nat (offsets lengths).
Proof.
  intros lengths. unfold gen_offsets, offsets, py_range0, zlen.
  rewrite map_length, Nat2Z.id, !map_map. apply map_ext. intros i.
  rewrite slice_prefix, firstn_map. apply zsum_of_nat.
Qed.

(* ------------------------------------------------------------------ worker windows *)
Definition zjob {A} (j : nat * list A) : Z * list A := (Z.of_nat (fst j), snd j).

Lemma gen_job_write_eq {A} : forall (buf : list A) pos xs,
  gen_job_write buf (Z.of_nat pos) xs = write_window buf pos xs.
Proof. intros buf pos xs. unfold gen_job_write, gen_win_lo, gen_win_hi. apply assign_slice_window. Qed.

Lemma gen_run_jobs_eq : forall (jobs : list (nat * list elem)) buf,
  gen_run_jobs (map zjob jobs) buf = run_jobs jobs buf.
Proof.
  induction jobs as [|j jobs IH]; intros buf; [reflexivity|].
  unfold gen_run_jobs in *. cbn [map run_jobs_with run_jobs]. unfold zjob at 1 2. cbn [fst snd].
  rewrite gen_job_write_eq. destruct (write_window buf (fst j) (snd j)); [apply IH|reflexivity].
Qed.

Lemma seq_as_map : forall n p, seq p n = map (fun k => (p + k)%nat) (seq 0 n).
Proof.
  induction n as [|n IH]; intros p; [reflexivity|].
  cbn [seq map]. rewrite Nat.add_0_r. f_equal. rewrite (IH (S p)), <- seq_shift, map_map.
  apply map_ext. intros k. lia.
Qed.

Lemma gen_job_cells_eq : forall (j : nat * list elem),
  gen_job_cells (zjob j) = map Z.of_nat (map fst (job_writes j)).
Proof.
  intros [pos xs]. unfold gen_job_cells, zjob, gen_win_lo, gen_win_hi, slice_cells, job_writes, zlen.
  cbn [fst snd]. rewrite window_writes_fst.
  replace (Z.to_nat (Z.of_nat pos + Z.of_nat (length xs) - Z.of_nat pos)) with (length xs) by lia.
  rewrite (seq_as_map (length xs) pos), map_map. apply map_ext. intros k. lia.
Qed.

Lemma combine_map_l {A B C} : forall (f : A -> C) (a : list A) (b : list B),
  combine (map f a) b = map (fun p => (f (fst p), snd p)) (combine a b).
Proof.
  intros f a. induction a as [|x a IH]; intros b; [reflexivity|].
  destruct b as [|y b]; [reflexivity|]. cbn [map combine fst snd]. rewrite IH. reflexivity.
Qed.

Lemma map_flat_map {A B C} : forall (f : B -> C) (g : A -> list B) (l : list A),
  map f (flat_map g l) = flat_map (fun x => map f (g x)) l.
Proof.
  intros f g l. induction l as [|x l IH]; [reflexivity|].
  cbn [flat_map]. rewrite map_app, IH. reflexivity.
Qed.

Lemma flat_map_map {A B C} : forall (f : A -> B) (g : B -> list C) (l : list A),
  flat_map g (map f l) = flat_map (fun x => g (f x)) l.
Proof.
  intros f g l. induction l as [|x l IH]; [reflexivity|].
  cbn [map flat_map]. rewrite IH. reflexivity.
Qed.

Lemma gen_jobs_eq : forall (blocks : list (list elem)),
  combine (gen_offsets (map (@zlen elem) blocks)) blocks
  = map zjob (combine (offsets (map (@length elem) blocks)) blocks).
Proof.
  intros blocks.
  assert (E : map (@zlen elem) blocks = map Z.of_nat (map (@length elem) blocks))
    by (rewrite map_map; reflexivity).
  rewrite E, gen_offsets_eq, combine_map_l. reflexivity.
Qed.

(* windows_disjoint_cover for the generated offsets and the generated slice bounds: in file order
   the cells addressed by the workers are 0, 1, ..., total-1, each exactly once *)
Lemma gen_windows_cover : forall (blocks : list (list elem)),
  flat_map gen_job_cells (combine (gen_offsets (map (@zlen elem) blocks)) blocks)
  = py_range0 (zsum (map (@zlen elem) blocks)).
Proof.
  intros blocks. rewrite gen_jobs_eq, flat_map_map.
  assert (E : flat_map (fun x => gen_job_cells (zjob x)) (combine (offsets (map (@length elem) blocks)) blocks)
              = map Z.of_nat (map fst (flat_map job_writes (combine (offsets (map (@length elem) blocks)) blocks)))).
  { rewrite !map_flat_map. apply flat_map_ext. intros j. rewrite gen_job_cells_eq, map_map. reflexivity. }
  rewrite E, windows_cover. unfold py_range0.
  assert (E2 : map (@zlen elem) blocks = map Z.of_nat (map (@length elem) blocks))
    by (rewrite map_map; reflexivity).
  rewrite E2, zsum_of_nat, Nat2Z.id. reflexivity.
Qed.

Lemma pick_jobs_map {A B} : forall (f : A -> B) (jobs : list A) sched,
  pick_jobs (map f jobs) sched = map f (pick_jobs jobs sched).
Proof.
  intros f jobs sched. unfold pick_jobs. induction sched as [|i sched IH]; [reflexivity|].
  cbn [flat_map]. rewrite map_app, IH. f_equal.
  rewrite nth_error_map. destruct (nth_error jobs i); reflexivity.
Qed.

(* whichever worker finishes first: the generated jobs, run in any order, give the concatenation *)
Lemma gen_concat_order_indep : forall (blocks : list (list elem)) (z : elem) sched,
  Permutation sched (seq 0 (length blocks)) ->
  gen_run_jobs (pick_jobs (combine (gen_offsets (map (@zlen elem) blocks)) blocks) sched)
               (repeat z (Z.to_nat (zsum (map (@zlen elem) blocks))))
  = Some (concat blocks).
Proof.
  intros blocks z sched HP. rewrite gen_jobs_eq, pick_jobs_map, gen_run_jobs_eq.
  assert (E2 : map (@zlen elem) blocks = map Z.of_nat (map (@length elem) blocks))
    by (rewrite map_map; reflexivity).
  rewrite E2, zsum_of_nat, Nat2Z.id. apply concat_order_indep. exact HP.
Qed.

(* ------------------------------------------------------------------ rank stripes *)
Lemma gen_stripe_eq {A} : forall rank size (l : list A),
  gen_stripe (Z.of_nat rank) (Z.of_nat size) l = stripe rank size l.
Proof. reflexivity. Qed.

(* world size 1 (the only one executable in the sandbox): the stripe is the whole list *)
Lemma gen_stripe_world1 {A} : forall (l : list A), gen_stripe 0 1 l = l.
Proof. intros l. apply (@stripe_0_1 A l). Qed.

(* x[rank::size] picks the items rank, rank+size, rank+2 size, ... *)
Lemma stripe_spec {A} (d : A) : forall rank size (l : list A), (1 <= size)%nat ->
  stripe rank size l
  = map (fun k => nth (rank + k * size)%nat l d) (seq 0 (ceil_len (length l - rank) (Z.of_nat size))).
Proof.
  intros rank size l Hs. unfold stripe, slice_list, slice_indices, step_of, adjust.
  assert (E : (Z.of_nat size <? 0) = false) by (apply Z.ltb_ge; lia). rewrite E.
  assert (E1 : (Z.of_nat rank <? 0) = false) by (apply Z.ltb_ge; lia). rewrite E1.
  unfold zrange, range_len.
  assert (E2 : (0 <? Z.of_nat size) = true) by (apply Z.ltb_lt; lia). rewrite E2.
  destruct (Nat.le_gt_cases rank (length l)) as [Hr|Hr].
  - rewrite Z.min_l by lia.
    replace (Z.of_nat (length l) - Z.of_nat rank + Z.of_nat size - 1)
      with (Z.of_nat (length l - rank) + Z.of_nat size - 1) by lia.
    fold (ceil_len (length l - rank) (Z.of_nat size)).
    rewrite (flat_map_pick_map l d (fun k => Z.of_nat rank + Z.of_nat k * Z.of_nat size)).
    + apply map_ext. intros k. f_equal. lia.
    + intros k Hk. apply in_seq in Hk.
      pose proof (ceil_index_bound (length l - rank) (Z.of_nat size) k ltac:(lia) ltac:(lia)) as Hb. lia.
  - rewrite Z.min_r by lia.
    replace (Z.of_nat (length l) - Z.of_nat (length l) + Z.of_nat size - 1) with (Z.of_nat size - 1) by lia.
    rewrite Z.div_small by lia.
    replace (length l - rank)%nat with 0%nat by lia.
    unfold ceil_len. replace (Z.of_nat 0 + Z.of_nat size - 1) with (Z.of_nat size - 1) by lia.
    rewrite Z.div_small by lia. reflexivity.
Qed.

(* every item lands on exactly the rank i mod size, at place i / size of that rank's stripe: the
   stripes of ranks 0 .. size-1 together hold every item of the list *)
Lemma stripe_nth {A} (d : A) : forall size (l : list A) i, (1 <= size)%nat -> (i < length l)%nat ->
  nth (i / size) (stripe (i mod size) size l) d = nth i l d.
Proof.
  intros size l i Hs Hi.
  pose proof (Nat.div_mod i size ltac:(lia)) as Hdm.
  pose proof (Nat.mod_upper_bound i size ltac:(lia)) as Hm.
  rewrite (stripe_spec d) by exact Hs.
  rewrite map_seq_nth.
  - f_equal. lia.
  - unfold ceil_len.
    assert (Hq : Z.of_nat (i / size) + 1 <= (Z.of_nat (length l - i mod size) + Z.of_nat size - 1) / Z.of_nat size).
    { apply Z.div_le_lower_bound; [lia|]. nia. }
    lia.
Qed.

Lemma gen_stripe_nth : forall (d : elem) size (l : list elem) i, (1 <= size)%nat -> (i < length l)%nat ->
  nth (i / size) (gen_stripe (Z.of_nat (i mod size)) (Z.of_nat size) l) d = nth i l d.
Proof. intros d size l i Hs Hi. rewrite gen_stripe_eq. apply stripe_nth; assumption. Qed.
