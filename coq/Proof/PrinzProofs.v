(* C12: theorems about the Prinz coordinate updates as generated from the source (Gen/PrinzGen.v),
   instantiated over the real numbers, and about the loop skeleton of Model/Prinz.v. *)
From Coq Require Import List ZArith Reals Lra Lia Bool Arith.
From EV Require Import Prinz PrinzGen.
Import ListNotations.
Open Scope R_scope.

(* ------------------------------------------------------------------ both implementations *)
Lemma py_pyx_same_updates : forall (K : Type) (o : Ops K),
  (forall C_ii Crs_i Xrs_i X_ii, py_diag o C_ii Crs_i Xrs_i X_ii = pyx_diag o C_ii Crs_i Xrs_i X_ii) /\
  (forall C_ij C_ji Crs_i Crs_j Xrs_i Xrs_j X_ij X_ji,
     py_offdiag o C_ij C_ji Crs_i Crs_j Xrs_i Xrs_j X_ij X_ji =
     pyx_offdiag o C_ij C_ji Crs_i Crs_j Xrs_i Xrs_j X_ij X_ji).
Proof. intros K o. split; intros; reflexivity. Qed.

Lemma py_pyx_same_sweep : forall (K : Type) (o : Ops K) C Crs n s,
  py_sweep o C Crs n s = pyx_sweep o C Crs n s.
Proof. intros. reflexivity. Qed.

(* ------------------------------------------------------------------ the real instance *)
Definition Rltb (a b : R) : bool := if Rlt_dec a b then true else false.
Definition Reqb (a b : R) : bool := if Req_EM_T a b then true else false.
Definition ROps : Ops R := mkOps R Rplus Rminus Rmult Rdiv Ropp IZR sqrt Rltb Reqb.

Lemma Rltb_true a b : a < b -> Rltb a b = true.
Proof. intros H. unfold Rltb. destruct (Rlt_dec a b); [reflexivity | contradiction]. Qed.
Lemma Rltb_false a b : ~ a < b -> Rltb a b = false.
Proof. intros H. unfold Rltb. destruct (Rlt_dec a b); [contradiction | reflexivity]. Qed.
Lemma Reqb_true a b : a = b -> Reqb a b = true.
Proof. intros H. unfold Reqb. destruct (Req_EM_T a b); [reflexivity | contradiction]. Qed.
Lemma Reqb_false a b : a <> b -> Reqb a b = false.
Proof. intros H. unfold Reqb. destruct (Req_EM_T a b); [contradiction | reflexivity]. Qed.

(* ---- the quantities of the pairwise update, written as the code writes them *)
Definition qa (cij cji ci cj : R) : R := (ci - cij) + (cj - cji).
Definition qb (cij cji ci cj xi xj xij : R) : R :=
  ci * (xj - xij) + cj * (xi - xij) - (cij + cji) * (xi + xj - 2 * xij).
Definition qc (cij cji xi xj xij : R) : R := - (cij + cji) * (xi - xij) * (xj - xij).
Definition root (a b c : R) : R := (- b + sqrt (b * b - 4 * a * c)) / (2 * a).
Definition newv (cij cji ci cj xi xj xij xji : R) : R :=
  let a := qa cij cji ci cj in
  if Req_EM_T a 0 then xji
  else root a (qb cij cji ci cj xi xj xij) (qc cij cji xi xj xij).

(* the generated pairwise update, whenever c <= 0 (so that the clamp `if c > 0: c = 0` is idle) *)
Lemma py_offdiag_spec cij cji ci cj xi xj xij xji :
  qc cij cji xi xj xij <= 0 ->
  py_offdiag ROps cij cji ci cj xi xj xij xji =
    let v := newv cij cji ci cj xi xj xij xji in (v, v, xi + (v - xij), xj + (v - xji)).
Proof.
  intros Hc. unfold py_offdiag, newv, root, qa, qb, qc in *. cbn [ROps kadd ksub kmul kdiv kopp kofZ ksqrt kltb keqb].
  rewrite (Rltb_false 0 _) by lra.
  unfold Reqb. destruct (Req_EM_T (ci - cij + (cj - cji)) 0) as [Ha | Ha]; reflexivity.
Qed.

(* in general the clamp replaces c by min(c, 0) *)
Lemma py_offdiag_clamped cij cji ci cj xi xj xij xji :
  0 < qc cij cji xi xj xij -> qa cij cji ci cj <> 0 ->
  fst (fst (fst (py_offdiag ROps cij cji ci cj xi xj xij xji))) =
    root (qa cij cji ci cj) (qb cij cji ci cj xi xj xij) 0.
Proof.
  intros Hc Ha. unfold py_offdiag, root, qa, qb, qc in *. cbn [ROps kadd ksub kmul kdiv kopp kofZ ksqrt kltb keqb].
  rewrite (Rltb_true 0 _) by lra.
  rewrite Reqb_false by exact Ha. reflexivity.
Qed.

Lemma py_diag_spec cii ci xi xii :
  py_diag ROps cii ci xi xii =
    let x' := if Rlt_dec 0 (ci - cii) then cii * (xi - xii) / (ci - cii) else xii in
    (x', xi + (x' - xii)).
Proof.
  unfold py_diag. cbn [ROps kadd ksub kmul kdiv kopp kofZ ksqrt kltb keqb]. unfold Rltb.
  destruct (Rlt_dec 0 (ci - cii)); reflexivity.
Qed.

(* ------------------------------------------------------------------ the root of the quadratic *)
Lemma quad_root a b c :
  0 < a -> c <= 0 ->
  let v := root a b c in a * v * v + b * v + c = 0 /\ 0 <= v.
Proof.
  intros Ha Hc v.
  assert (HD : 0 <= b * b - 4 * a * c) by nra.
  pose proof (sqrt_sqrt _ HD) as Hss. pose proof (sqrt_pos (b * b - 4 * a * c)) as Hs0.
  set (s := sqrt (b * b - 4 * a * c)) in *.
  assert (Hv : 2 * a * v = - b + s) by (unfold v, root; fold s; field; lra).
  split.
  - apply (Rmult_eq_reg_l (4 * a)); [| lra].
    replace (4 * a * (a * v * v + b * v + c))
      with ((2 * a * v) * (2 * a * v) + 2 * b * (2 * a * v) + 4 * a * c) by ring.
    rewrite Hv. replace ((- b + s) * (- b + s) + 2 * b * (- b + s) + 4 * a * c)
      with (s * s - (b * b - 4 * a * c)) by ring. rewrite Hss. ring.
  - assert (Hn : 0 <= - b + s) by nra.
    assert (H2 : 0 <= 2 * a * v) by lra. nra.
Qed.

Lemma quad_root_pos a b c : 0 < a -> c < 0 -> 0 < root a b c.
Proof.
  intros Ha Hc.
  assert (HD : 0 <= b * b - 4 * a * c) by nra.
  pose proof (sqrt_sqrt _ HD) as Hss. pose proof (sqrt_pos (b * b - 4 * a * c)) as Hs0.
  set (s := sqrt (b * b - 4 * a * c)) in *.
  assert (Hv : 2 * a * root a b c = - b + s) by (unfold root; fold s; field; lra).
  assert (Hn : 0 < - b + s) by nra.
  nra.
Qed.

(* the non-negative root is unique: any w >= 0 solving the quadratic is the code's value (c < 0) *)
Lemma quad_root_unique a b c w :
  0 < a -> c < 0 -> 0 <= w -> a * w * w + b * w + c = 0 -> w = root a b c.
Proof.
  intros Ha Hc Hw Hq.
  destruct (quad_root a b c Ha (Rlt_le _ _ Hc)) as [Hr Hv0].
  pose proof (quad_root_pos a b c Ha Hc) as Hvp.
  set (v := root a b c) in *.
  (* a (w - v)(w + v) + b (w - v) = 0, and a (w + v) + b > 0 because a v + b = -c / v > 0 *)
  assert (H1 : (w - v) * (a * (w + v) + b) = 0) by nra.
  assert (H2 : 0 < a * v + b) by nra.
  assert (H3 : 0 < a * (w + v) + b) by nra.
  apply Rmult_integral in H1. destruct H1 as [H1 | H1]; lra.
Qed.
